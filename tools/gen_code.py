#!/usr/bin/env python3
"""Translator of small pure Python functions of /repo/src/dcmstack to Lean 4 (`ast` only, never imports
the package).  Writes lean/DcmVerif/Generated/Code.lean.

What is translated (each becomes a `def Py.<name>` in do-notation over `Except PyErr`, statement by
statement: assignments become `let` / `let mut` / `:=`, `if / elif / else`, `for … in`, `return`,
`raise`):

  * DcmMetaExtension.get_valid_classes, DcmMetaExtension.get_multiplicity
  * the index block of NiftiWrapper.get_meta (`if not index is None:` … up to the final return)
  * the two `file_idx = …` expressions of DicomStack.get_data

`Proofs/Code.lean` proves these generated definitions equal to the hand-written model functions
(`validClasses`, `mult`, `proj`-based lookup, `Stk.fileIdx`) for all inputs, so for these functions the
tie between model and source is re-proved on every run instead of sampled.  A construct outside the
supported subset makes the function untranslatable: it is recorded in `Gen.codeMissing` and no `def`
is emitted, so the equivalence proofs stop building and the check goes to its failing-input search.
"""
import copy, ast, os, sys, json, hashlib, re

REPO = os.environ.get('DCMSTACK_REPO', '/repo')
HERE = os.path.dirname(os.path.abspath(__file__))

CLS = {('global', 'const'): 'gconst', ('global', 'slices'): 'gslices', ('time', 'samples'): 'tsamples',
       ('time', 'slices'): 'tslices', ('vector', 'samples'): 'vsamples', ('vector', 'slices'): 'vslices'}


class Unsupported(Exception):
    pass


class Normalise(ast.NodeTransformer):
    """spellings of one construct are brought to one form before translation, so that a behaviour-preserving edit of the
    source gives the same Lean text: `not a in b` / `a not in b`, `not a is b` / `a is not b`, an `if` with an `else` whose
    condition is negated (branches swapped), `if x is not None: A else: B` (→ `if x is None: B else: A`), `x.pop()` as a
    statement (→ `x = x[:-1]`), a tuple of strings iterated over / a list of them"""

    def visit_UnaryOp(self, node):
        self.generic_visit(node)
        if isinstance(node.op, ast.Not) and isinstance(node.operand, ast.Compare) and len(node.operand.ops) == 1:
            op = node.operand.ops[0]
            flip = {ast.In: ast.NotIn, ast.NotIn: ast.In, ast.Is: ast.IsNot, ast.IsNot: ast.Is}
            if type(op) in flip:
                return ast.copy_location(ast.Compare(left=node.operand.left, ops=[flip[type(op)]()],
                                                     comparators=node.operand.comparators), node)
        return node

    def visit_If(self, node):
        self.generic_visit(node)
        if node.orelse and not (len(node.orelse) == 1 and isinstance(node.orelse[0], ast.If)):
            t = node.test
            if isinstance(t, ast.UnaryOp) and isinstance(t.op, ast.Not):
                node.test, node.body, node.orelse = t.operand, node.orelse, node.body
            elif isinstance(t, ast.Compare) and len(t.ops) == 1 and isinstance(t.ops[0], ast.IsNot) \
                    and isinstance(t.comparators[0], ast.Constant) and t.comparators[0].value is None:
                node.test = ast.copy_location(ast.Compare(left=t.left, ops=[ast.Is()], comparators=t.comparators), t)
                node.body, node.orelse = node.orelse, node.body
            elif isinstance(t, ast.Compare) and len(t.ops) == 1 and isinstance(t.ops[0], (ast.NotEq, ast.NotIn)):
                flip = {ast.NotEq: ast.Eq, ast.NotIn: ast.In}
                node.test = ast.copy_location(ast.Compare(left=t.left, ops=[flip[type(t.ops[0])]()], comparators=t.comparators), t)
                node.body, node.orelse = node.orelse, node.body
        return node

    @staticmethod
    def negate(t):
        flip = {ast.Eq: ast.NotEq, ast.NotEq: ast.Eq, ast.In: ast.NotIn, ast.NotIn: ast.In, ast.Is: ast.IsNot, ast.IsNot: ast.Is}
        if isinstance(t, ast.Compare) and len(t.ops) == 1 and type(t.ops[0]) in flip:
            return ast.copy_location(ast.Compare(left=t.left, ops=[flip[type(t.ops[0])]()], comparators=t.comparators), t)
        if isinstance(t, ast.UnaryOp) and isinstance(t.op, ast.Not):
            return t.operand
        return ast.copy_location(ast.UnaryOp(op=ast.Not(), operand=t), t)

    def unguard(self, stmts):
        """a guard clause `if c: continue` in a loop body is the `if not c:` around the statements that follow it"""
        for i, st in enumerate(stmts):
            if isinstance(st, ast.If) and not st.orelse and len(st.body) == 1 and isinstance(st.body[0], ast.Continue) \
                    and i + 1 < len(stmts):
                rest = self.unguard(stmts[i + 1:])
                return stmts[:i] + [ast.copy_location(ast.If(test=self.negate(st.test), body=rest, orelse=[]), st)]
        return stmts

    def visit_For(self, node):
        self.generic_visit(node)
        node.body = self.unguard(node.body)
        return node

    @staticmethod
    def terminal(stmts):
        return bool(stmts) and isinstance(stmts[-1], (ast.Raise, ast.Return))

    def hoist_else(self, stmts):
        """`if c: …; return/raise` followed by `else: B` (or `elif`) is the `if` without `else`, followed by B"""
        out = []
        for st in stmts:
            if isinstance(st, ast.If) and st.orelse and self.terminal(st.body):
                rest = st.orelse
                st = ast.copy_location(ast.If(test=st.test, body=st.body, orelse=[]), st)
                out.append(st)
                out += self.hoist_else(rest)
            else:
                out.append(st)
        return out

    def expand_stmts(self, stmts):
        """statement-level spellings: `a, b = X, Y` (independent) is `a = X; b = Y`; `x = A if c else B` is the `if`;
        `x = next((v for v in L if C), None)` is `x = None; for v in L: if C: x = v; break`"""
        out = []
        for st in stmts:
            if isinstance(st, ast.Assign) and len(st.targets) == 1:
                t, v = st.targets[0], st.value
                if isinstance(t, ast.Tuple) and isinstance(v, ast.Tuple) and len(t.elts) == len(v.elts) \
                        and all(isinstance(x, ast.Name) for x in t.elts):
                    names = {x.id for x in t.elts}
                    if not any(isinstance(n_, ast.Name) and n_.id in names for e_ in v.elts for n_ in ast.walk(e_)):
                        for a_, b_ in zip(t.elts, v.elts):
                            out.append(ast.copy_location(ast.Assign(targets=[ast.Name(id=a_.id, ctx=ast.Store())], value=b_), st))
                        continue
                if isinstance(t, ast.Name) and isinstance(v, ast.IfExp):
                    mk = lambda val: ast.copy_location(ast.Assign(targets=[ast.Name(id=t.id, ctx=ast.Store())], value=val), st)
                    out.append(self.visit_If(ast.copy_location(ast.If(test=v.test, body=[mk(v.body)], orelse=[mk(v.orelse)]), st)))
                    continue
                if isinstance(t, ast.Name) and isinstance(v, ast.Call) and isinstance(v.func, ast.Name) and v.func.id == 'next' \
                        and len(v.args) == 2 and isinstance(v.args[1], ast.Constant) and v.args[1].value is None \
                        and isinstance(v.args[0], ast.GeneratorExp) and len(v.args[0].generators) == 1:
                    g = v.args[0].generators[0]
                    if isinstance(g.target, ast.Name) and isinstance(v.args[0].elt, ast.Name) and v.args[0].elt.id == g.target.id \
                            and g.ifs and not g.is_async:
                        cond = g.ifs[0] if len(g.ifs) == 1 else ast.BoolOp(op=ast.And(), values=list(g.ifs))
                        out.append(ast.copy_location(ast.Assign(targets=[ast.Name(id=t.id, ctx=ast.Store())],
                                                                value=ast.Constant(value=None)), st))
                        hit = ast.Assign(targets=[ast.Name(id=t.id, ctx=ast.Store())], value=ast.Name(id=g.target.id, ctx=ast.Load()))
                        out.append(ast.copy_location(ast.For(target=ast.Name(id=g.target.id, ctx=ast.Store()), iter=g.iter,
                                                             body=[ast.If(test=cond, body=[hit, ast.Break()], orelse=[])],
                                                             orelse=[]), st))
                        continue
            out.append(st)
        return [ast.fix_missing_locations(x) for x in out]

    def generic_visit(self, node):
        super().generic_visit(node)
        for f in ('body', 'orelse', 'finalbody'):
            v = getattr(node, f, None)
            if isinstance(v, list) and v and isinstance(v[0], ast.stmt):
                setattr(node, f, self.hoist_else(self.expand_stmts(v)))
        return node

    def visit_Expr(self, node):
        self.generic_visit(node)
        v = node.value
        if isinstance(v, ast.Call) and isinstance(v.func, ast.Attribute) and v.func.attr == 'pop' and not v.args \
                and isinstance(v.func.value, ast.Name):
            x = v.func.value.id
            return ast.copy_location(ast.parse('%s = %s[:-1]' % (x, x)).body[0], node)
        return node


def inline_local_functions(fn):
    """a helper defined inside the method (`def g(a): …; return e`) and called as `x = g(args)` is expanded at the call:
    its parameters and locals get fresh names, its single trailing `return e` becomes `x = e`"""
    helpers = {}
    for st in ast.walk(fn):
        if st is not fn and isinstance(st, ast.FunctionDef) and not st.decorator_list and not st.args.vararg and not st.args.kwarg \
                and not st.args.kwonlyargs and not st.args.defaults and st.body and isinstance(st.body[-1], ast.Return) \
                and not any(isinstance(n_, ast.Return) for b_ in st.body[:-1] for n_ in ast.walk(b_)) \
                and not any(isinstance(n_, ast.Call) and isinstance(n_.func, ast.Name) and n_.func.id == st.name
                            for n_ in ast.walk(st)):
            helpers[st.name] = st
    if not helpers:
        return fn
    counter = [0]

    def expand(stmts):
        out = []
        for st in stmts:
            if isinstance(st, ast.FunctionDef) and st.name in helpers:
                continue
            if isinstance(st, ast.Assign) and len(st.targets) == 1 and isinstance(st.value, ast.Call) \
                    and isinstance(st.value.func, ast.Name) and st.value.func.id in helpers and not st.value.keywords:
                g = helpers[st.value.func.id]
                if len(g.args.args) == len(st.value.args):
                    counter[0] += 1
                    local = {a.arg for a in g.args.args}
                    for b_ in g.body:
                        for n_ in ast.walk(b_):
                            if isinstance(n_, ast.Name) and isinstance(n_.ctx, ast.Store):
                                local.add(n_.id)
                    ren = {v: '%s_%d_%s' % (g.name, counter[0], v) for v in local}

                    class R(ast.NodeTransformer):
                        def visit_Name(self_, node):
                            return ast.copy_location(ast.Name(id=ren.get(node.id, node.id), ctx=node.ctx), node)
                    for a, v in zip(g.args.args, st.value.args):
                        out.append(ast.Assign(targets=[ast.Name(id=ren[a.arg], ctx=ast.Store())], value=v))
                    for b_ in g.body[:-1]:
                        out.append(R().visit(copy.deepcopy(b_)))
                    out.append(ast.Assign(targets=st.targets, value=R().visit(copy.deepcopy(g.body[-1].value))))
                    continue
            st = copy.copy(st)
            for fld in ('body', 'orelse'):
                if isinstance(getattr(st, fld, None), list) and getattr(st, fld):
                    setattr(st, fld, expand(getattr(st, fld)))
            out.append(st)
        return out
    fn = copy.copy(fn)
    fn.body = expand(fn.body)
    return ast.fix_missing_locations(fn)


def find_func(tree, cls, name, inline=True):
    for node in tree.body:
        if cls is None and isinstance(node, ast.FunctionDef) and node.name == name:
            n_ = ast.fix_missing_locations(Normalise().visit(copy.deepcopy(node)))
            return inline_local_functions(n_) if inline else n_
        if isinstance(node, ast.ClassDef) and node.name == cls:
            for sub in node.body:
                if isinstance(sub, ast.FunctionDef) and sub.name == name:
                    n_ = ast.fix_missing_locations(Normalise().visit(copy.deepcopy(sub)))
                    return inline_local_functions(n_) if inline else n_
    return None


def pat_match(pat, node, binds):
    """structural match of an expression against a pattern in which the names `_0`, `_1`, … stand for any expression"""
    if isinstance(pat, ast.Name) and pat.id.startswith('_') and pat.id[1:].isdigit():
        if pat.id in binds:
            return ast.dump(binds[pat.id]) == ast.dump(node)
        binds[pat.id] = node
        return True
    if type(pat) is not type(node):
        return False
    for f in pat._fields:
        a, b = getattr(pat, f, None), getattr(node, f, None)
        if f == 'ctx':
            continue
        if isinstance(a, list):
            if not isinstance(b, list) or len(a) != len(b):
                return False
            for x, y in zip(a, b):
                if isinstance(x, ast.AST):
                    if not pat_match(x, y, binds):
                        return False
                elif x != y:
                    return False
        elif isinstance(a, ast.AST):
            if not isinstance(b, ast.AST) or not pat_match(a, b, binds):
                return False
        elif a != b:
            return False
    return True


class _AllNames(set):
    """the names assigned by a block that never falls through: every name (the neutral element of the intersection)"""
    def __and__(self, other):
        return other
    def __rand__(self, other):
        return other


class Tr:
    """one function body -> list of Lean lines"""

    def __init__(self, attrs, calls, optional_exprs=(), cls_vars=(), throw_ok=('ValueError', 'IndexError')):
        self.attrs = attrs            # 'self.shape' -> lean expr
        self.calls = calls            # 'self.get_valid_classes()' -> lean expr (monadic: wrapped in (← …))
        self.optional = set(optional_exprs)   # source text of expressions that may be None
        self.cls_vars = set(cls_vars)         # names holding a classification
        self.list_exprs = {'self.classifications'}
        self.generic = set()          # names of lists whose elements are of an abstract type
        self.opt_params = set()       # optional parameters (`x is None` tests become matches)
        self.ret_optional = False     # the function returns an Optional value
        self.skip_assign = set()      # names whose assignment is an external read folded into a parameter
        self.opt_locals = set()       # local names holding an Optional value (`if x is not None:` becomes `if let`)
        self.declared = []            # stack of sets of declared names
        self.mutable = set()

    # ---- expressions
    def src(self, node):
        return ast.unparse(node)

    def expand(self, n):
        """names that merely abbreviate an attribute chain of `self` / `other` (`meta_ext = self.meta_ext`) are replaced by it"""
        al = getattr(self, 'aliases', None)
        if not al:
            return n

        class Sub(ast.NodeTransformer):
            def visit_Name(self_, node):
                return copy.deepcopy(al[node.id]) if node.id in al and isinstance(node.ctx, ast.Load) else node
        return ast.fix_missing_locations(Sub().visit(copy.deepcopy(n)))

    def mapped(self, n):
        """a mapped attribute read / call: by its source text, or by a pattern with placeholders `_0`, `_1`"""
        if isinstance(n, (ast.Constant, ast.Name)):
            return None
        s = self.src(n)
        if getattr(self, '_norm_for', None) != (len(self.attrs), len(self.calls)):
            # the keys are written as they appear in the source; compare them in normalised spelling
            def norm(k):
                try:
                    return ast.unparse(Normalise().visit(ast.parse(k, mode='eval').body))
                except SyntaxError:
                    return k
            for table in (self.attrs, self.calls):
                for k in list(table):
                    table.setdefault(norm(k), table[k])
            self._norm_for = (len(self.attrs), len(self.calls))
        if s in self.attrs:
            return self.attrs[s]
        if s in self.calls:
            return '(← %s)' % self.calls[s]
        for table, monadic in ((self.attrs, False), (self.calls, True)):
            for key, val in table.items():
                if '_0' not in key:
                    continue
                try:
                    pat = Normalise().visit(ast.parse(key, mode='eval').body)
                except SyntaxError:
                    continue
                binds = {}
                if pat_match(pat, n, binds):
                    out = val
                    for name, sub in binds.items():
                        out = out.replace('{%s}' % name[1:], self.atom(sub))
                    return '(← %s)' % out if monadic else out
        return None

    def e(self, n):
        n = self.expand(n)
        m_ = self.mapped(n)
        if m_ is not None:
            return m_
        if isinstance(n, ast.Constant):
            if isinstance(n.value, bool):
                return 'true' if n.value else 'false'
            if isinstance(n.value, int):
                return str(n.value)
            if isinstance(n.value, str):
                return json.dumps(n.value)
            raise Unsupported('constant %r' % (n.value,))
        if isinstance(n, ast.Name):
            return n.id
        if isinstance(n, ast.Attribute) or isinstance(n, ast.Call):
            s = self.src(n)
            if isinstance(n, ast.Call) and isinstance(n.func, ast.Name) and n.func.id == 'len' and len(n.args) == 1:
                return '(%s).length' % self.e(n.args[0])
            if isinstance(n, ast.Call) and isinstance(n.func, ast.Name) and n.func.id == 'slice':
                if len(n.args) == 1 and isinstance(n.args[0], ast.Constant) and n.args[0].value is None:
                    return 'Wrap.Spec.full'
                if len(n.args) == 2 and isinstance(n.args[1], ast.BinOp) and isinstance(n.args[1].op, ast.Add) \
                        and self.src(n.args[1].left) == self.src(n.args[0]) and isinstance(n.args[1].right, ast.Constant) \
                        and n.args[1].right.value == 1:
                    return '(Wrap.Spec.one %s)' % self.atom(n.args[0])
                raise Unsupported('slice ' + self.src(n))
            if isinstance(n, ast.Call) and isinstance(n.func, ast.Name) and n.func.id == 'list' and len(n.args) == 1:
                return self.e(n.args[0])          # list(tuple): a copy of the sequence
            if isinstance(n, ast.Call) and isinstance(n.func, ast.Name) and n.func.id == 'deepcopy' and len(n.args) == 1:
                return self.e(n.args[0])          # values are immutable in the model: a copy is the value
            if isinstance(n, ast.Call) and isinstance(n.func, ast.Name) and n.func.id == 'int' and len(n.args) == 1:
                return self.e(n.args[0])          # int() of a floor division of naturals
            if isinstance(n, ast.Call) and isinstance(n.func, ast.Name) and n.func.id == 'all' and len(n.args) == 1 \
                    and isinstance(n.args[0], ast.GeneratorExp) and len(n.args[0].generators) == 1 \
                    and not n.args[0].generators[0].ifs and isinstance(n.args[0].generators[0].target, ast.Name):
                g = n.args[0].generators[0]
                return '((%s).all fun %s => %s)' % (self.e(g.iter), g.target.id, self.b(n.args[0].elt))
            raise Unsupported('expression ' + s)
        if isinstance(n, ast.Tuple):
            if len(n.elts) == 2 and all(isinstance(x, ast.Constant) and isinstance(x.value, str) for x in n.elts):
                key = (n.elts[0].value, n.elts[1].value)
                if key in CLS:
                    return 'Cls.' + CLS[key]
            if len(n.elts) == 2 and isinstance(n.elts[0], ast.Name) and n.elts[0].id in getattr(self, 'base_vars', ()) \
                    and isinstance(n.elts[1], ast.Constant) and n.elts[1].value in ('samples', 'slices'):
                # (sample_base, 'samples'): a classification built from a base name
                return '(Cls.ofBaseSub %s %s)' % (n.elts[0].id, json.dumps(n.elts[1].value))
            if n.elts and all(isinstance(x, ast.Tuple) for x in n.elts):
                return '[%s]' % ', '.join(self.e(x) for x in n.elts)     # a tuple of classifications
            if n.elts and all(isinstance(x, ast.Constant) and isinstance(x.value, str) for x in n.elts):
                return '[%s]' % ', '.join(json.dumps(x.value) for x in n.elts)
            if n.elts and all(isinstance(x, ast.Constant) and isinstance(x.value, int) and not isinstance(x.value, bool) for x in n.elts):
                return '[%s]' % ', '.join(str(x.value) for x in n.elts)
            raise Unsupported('tuple ' + self.src(n))
        if isinstance(n, ast.ListComp) and len(n.generators) == 1 and not n.generators[0].ifs \
                and isinstance(n.generators[0].target, ast.Name) and n.generators[0].target.id == '_' \
                and isinstance(n.generators[0].iter, ast.Call) and isinstance(n.generators[0].iter.func, ast.Name) \
                and n.generators[0].iter.func.id == 'range' and len(n.generators[0].iter.args) == 1:
            # [v for _ in range(k)]
            return '(List.replicate %s %s)' % (self.atom(n.generators[0].iter.args[0]), self.atom(n.elt))
        if isinstance(n, ast.List) and len(n.elts) == 0:
            return '[]'
        if isinstance(n, ast.Subscript):
            base = self.e(n.value)
            sl = n.slice
            if isinstance(sl, ast.Slice):
                if sl.step is not None:
                    if sl.upper is not None:
                        raise Unsupported('slice step with an upper bound')
                    lo = '0' if sl.lower is None else self.atom(sl.lower)
                    return '(pyStep %s %s %s)' % (self.atom(n.value), lo, self.atom(sl.step))
                lo, hi = sl.lower, sl.upper
                if lo is None and hi is not None and isinstance(hi, ast.UnaryOp) and isinstance(hi.op, ast.USub) \
                        and isinstance(hi.operand, ast.Constant) and hi.operand.value == 1:
                    return '(%s).dropLast' % base
                if lo is None and hi is not None:
                    return '(%s).take %s' % (base, self.atom(hi))
                if lo is not None and hi is None:
                    if isinstance(lo, ast.UnaryOp) and isinstance(lo.op, ast.USub):
                        return '(%s).drop ((%s).length - %s)' % (base, base, self.atom(lo.operand))
                    return '(%s).drop %s' % (base, self.atom(lo))
                if lo is not None and hi is not None:
                    return '((%s).drop %s).take (%s - %s)' % (base, self.atom(lo), self.atom(hi), self.atom(lo))
                raise Unsupported('slice ' + self.src(n))
            if isinstance(n.value, ast.Name) and n.value.id in self.cls_vars and isinstance(sl, ast.Constant) and sl.value in (0, 1):
                return '%s.%s' % (n.value.id, 'base' if sl.value == 0 else 'sub')
            if isinstance(n.value, ast.Name) and n.value.id in self.generic:
                return '(%s)[%s]?' % (base, self.e(sl))
            if isinstance(sl, ast.UnaryOp) and isinstance(sl.op, ast.USub) and isinstance(sl.operand, ast.Constant) \
                    and sl.operand.value == 1:
                return '(%s)[(%s).length - 1]!' % (base, base)
            return '(%s)[%s]!' % (base, self.e(sl))
        if isinstance(n, ast.BinOp) and isinstance(n.op, ast.Mult) and isinstance(n.left, ast.List) and len(n.left.elts) == 1:
            return '(List.replicate %s %s)' % (self.atom(n.right), self.atom(n.left.elts[0]))
        if isinstance(n, ast.BinOp) and isinstance(n.op, ast.Add) and (self.is_list(n.left) or self.is_list(n.right)):
            return '(%s ++ %s)' % (self.e(n.left), self.e(n.right))
        if isinstance(n, ast.BinOp) and isinstance(n.op, ast.FloorDiv) and getattr(self, 'div_guard', False):
            return self.floor_div(n)
        if isinstance(n, ast.BinOp) and isinstance(n.op, ast.BitAnd):
            return '(%s &&& %s)' % (self.e(n.left), self.e(n.right))
        if isinstance(n, ast.BinOp):
            ops = {ast.Add: '+', ast.Mult: '*', ast.FloorDiv: '/', ast.Mod: '%', ast.Sub: '-'}
            if type(n.op) not in ops:
                raise Unsupported('operator ' + self.src(n))
            return '(%s %s %s)' % (self.e(n.left), ops[type(n.op)], self.e(n.right))
        if isinstance(n, ast.UnaryOp) and isinstance(n.op, ast.Not):
            return '(!%s)' % self.b(n.operand)
        if isinstance(n, (ast.Compare, ast.BoolOp)):
            return self.b(n)
        raise Unsupported('expression ' + self.src(n))

    def is_list(self, n):
        """is the expression a sequence (so that `+` is concatenation)?"""
        if isinstance(n, ast.Subscript) and isinstance(n.slice, ast.Slice):
            return True
        if isinstance(n, ast.BinOp) and isinstance(n.op, ast.Add):
            return self.is_list(n.left) or self.is_list(n.right)
        if isinstance(n, ast.Call) and isinstance(n.func, ast.Name) and n.func.id == 'deepcopy' and len(n.args) == 1:
            return self.is_list(n.args[0])
        if isinstance(n, ast.ListComp) or isinstance(n, ast.List):
            return True
        return self.src(n) in self.list_exprs or (isinstance(n, ast.Name) and n.id in getattr(self, 'list_vars', ()))

    def atom(self, n):
        s = self.e(n)
        return s if s.isalnum() else '(%s)' % s

    def b(self, n):
        """Boolean expression (Lean Bool)"""
        n = self.expand(n)
        m_ = self.mapped(n)
        if m_ is not None:
            return m_
        if isinstance(n, ast.UnaryOp) and isinstance(n.op, ast.Not):
            return '(!%s)' % self.b(n.operand)
        if isinstance(n, ast.BoolOp):
            parts = [self.b(v) for v in n.values]
            if any('←' in x for x in parts[1:]):
                # Python evaluates the later operands only when needed; a monadic call there must not run otherwise
                if len(parts) != 2 or '←' in parts[0]:
                    raise Unsupported('short-circuit with calls: ' + self.src(n))
                call = parts[1]
                if not (call.startswith('(← ') and call.endswith(')') and call.count('←') == 1):
                    raise Unsupported('short-circuit operand is not a single call: ' + self.src(n))
                act = call[len('(← '):-1]
                if isinstance(n.op, ast.Or):
                    return '(← (if %s then pure true else %s))' % (parts[0], act)
                return '(← (if %s then %s else pure false))' % (parts[0], act)
            op = ' && ' if isinstance(n.op, ast.And) else ' || '
            return '(' + op.join(parts) + ')'
        if isinstance(n, ast.Compare) and len(n.ops) == 1 and isinstance(n.ops[0], (ast.NotIn, ast.IsNot, ast.NotEq)):
            flip = {ast.NotIn: ast.In, ast.IsNot: ast.Is, ast.NotEq: ast.Eq}
            pos = ast.Compare(left=n.left, ops=[flip[type(n.ops[0])]()], comparators=n.comparators)
            m_ = self.mapped(pos)
            if m_ is not None:
                return '(!%s)' % m_
        if isinstance(n, ast.Compare):
            parts = []
            left = n.left
            for op, right in zip(n.ops, n.comparators):
                parts.append(self.cmp(left, op, right))
                left = right
            return parts[0] if len(parts) == 1 else '(' + ' && '.join(parts) + ')'
        if isinstance(n, (ast.Call, ast.Name)):
            return self.e(n)
        if isinstance(n, ast.Constant) and isinstance(n.value, bool):
            return 'true' if n.value else 'false'
        raise Unsupported('condition ' + self.src(n))

    def cmp(self, l, op, r):
        if isinstance(op, (ast.Is, ast.IsNot)) and isinstance(r, ast.Constant) and r.value is None:
            s = '(%s).isNone' % self.e(l)
            return s if isinstance(op, ast.Is) else '(!%s)' % s
        if isinstance(op, (ast.In, ast.NotIn)):
            s = '(%s).contains %s' % (self.e(r), self.atom(l))
            return '(%s)' % s if isinstance(op, ast.In) else '(!(%s))' % s
        sym = {ast.Eq: '==', ast.NotEq: '!=', ast.Lt: '<', ast.LtE: '≤', ast.Gt: '>', ast.GtE: '≥'}
        if type(op) not in sym:
            raise Unsupported('comparison ' + type(op).__name__)
        le, re_ = self.e(l), self.e(r)
        if type(op) in (ast.Eq, ast.NotEq) and (le.endswith(']?') != re_.endswith(']?')):
            # an element compared with `seq[i]` of a list of abstract elements: `seq[i]?` is an Option
            if le.endswith(']?'):
                re_ = '(some %s)' % re_
            else:
                le = '(some %s)' % le
        if type(op) in (ast.Eq, ast.NotEq):
            return '(%s %s %s)' % (le, sym[type(op)], re_)
        return '(decide (%s %s %s))' % (le, sym[type(op)], re_)

    # ---- statements
    def assigned_more_than_once(self, body):
        count = {}

        def walk(stmts):
            for s in stmts:
                if isinstance(s, ast.Assign):
                    for t in s.targets:
                        if isinstance(t, ast.Name):
                            count[t.id] = count.get(t.id, 0) + 1
                elif isinstance(s, ast.AugAssign) and isinstance(s.target, ast.Name):
                    count[s.target.id] = count.get(s.target.id, 0) + 2
                if isinstance(s, ast.Assign):
                    for t in s.targets:
                        if isinstance(t, ast.Subscript) and isinstance(t.value, ast.Name):
                            count[t.value.id] = count.get(t.value.id, 0) + 2
                if isinstance(s, ast.Expr) and isinstance(s.value, ast.Call) and isinstance(s.value.func, ast.Attribute) \
                        and s.value.func.attr in ('append', 'extend') and isinstance(s.value.func.value, ast.Name):
                    count[s.value.func.value.id] = count.get(s.value.func.value.id, 0) + 2
                for f in ('body', 'orelse'):
                    if hasattr(s, f):
                        walk(getattr(s, f))
        walk(body)
        multi = {k for k, v in count.items() if v > 1}
        return {k for k in multi if not self.demotable(body, k)}

    def demotable(self, body, x):
        """`x` is assigned several times but never carries a value out of the block that assigned it (every read is
        reached only by an assignment of the same or an enclosing block, made earlier in program order): each assignment
        can then be an immutable `let` of its block, and `x` is no part of a loop state"""
        ok = [True]

        def reads(node):
            return any(isinstance(n_, ast.Name) and n_.id == x and isinstance(n_.ctx, ast.Load) for n_ in ast.walk(node))

        def assigns_anywhere(stmts):
            for st in stmts:
                for n_ in ast.walk(st):
                    if isinstance(n_, ast.Name) and n_.id == x and isinstance(n_.ctx, (ast.Store, ast.Del)):
                        return True
            return False

        def plain(st):
            return isinstance(st, ast.Assign) and len(st.targets) == 1 and isinstance(st.targets[0], ast.Name) and st.targets[0].id == x

        def walk(stmts, stale):
            for st in stmts:
                if plain(st):
                    if reads(st.value) and stale:
                        ok[0] = False
                    stale = False
                    continue
                nested = [getattr(st, f) for f in ('body', 'orelse') if isinstance(getattr(st, f, None), list) and getattr(st, f)]
                if not nested:
                    if assigns_anywhere([st]):
                        ok[0] = False            # augmented / subscript / tuple assignment
                    elif reads(st) and stale:
                        ok[0] = False
                    continue
                # header expressions of the compound statement
                for f in ('test', 'iter'):
                    if getattr(st, f, None) is not None and reads(getattr(st, f)) and stale:
                        ok[0] = False
                inner_assigns = any(assigns_anywhere(b) for b in nested)
                for b in nested:
                    loop = isinstance(st, (ast.For, ast.While)) and b is st.body
                    walk(b, stale or (loop and inner_assigns))
                if inner_assigns:
                    stale = True
        for n_ in ast.walk(ast.Module(body=list(body), type_ignores=[])):
            if isinstance(n_, ast.AugAssign) and isinstance(n_.target, ast.Name) and n_.target.id == x:
                return False
            if isinstance(n_, ast.Call) and isinstance(n_.func, ast.Attribute) and n_.func.attr in ('append', 'extend') \
                    and isinstance(n_.func.value, ast.Name) and n_.func.value.id == x:
                return False
            if isinstance(n_, ast.Subscript) and isinstance(n_.ctx, ast.Store) and isinstance(n_.value, ast.Name) and n_.value.id == x:
                return False
        walk(body, True)
        return ok[0]

    def block(self, stmts, ind):
        out = []
        self.declared.append(set())
        i = 0
        while i < len(stmts):
            s = stmts[i]
            nxt = stmts[i + 1] if i + 1 < len(stmts) else None
            if isinstance(s, (ast.If, ast.For)):
                later = set()
                for t_ in stmts[i + 1:]:
                    later |= {n_.id for n_ in ast.walk(t_) if isinstance(n_, ast.Name) and isinstance(n_.ctx, ast.Load)}
                self.used_later = later | getattr(self, 'outer_later', set())
            # idiom: X = <optional>; if X is None: return R
            if (isinstance(s, ast.Assign) and len(s.targets) == 1 and isinstance(s.targets[0], ast.Name)
                    and self.src(s.value) in self.optional and isinstance(nxt, ast.If)
                    and self.src(nxt.test) == '%s is None' % s.targets[0].id and not nxt.orelse
                    and len(nxt.body) == 1 and isinstance(nxt.body[0], ast.Return)):
                x = s.targets[0].id
                if self.is_declared(x):
                    out.append('%smatch %s with' % (ind, self.e(s.value)))
                    out.append('%s| none => return %s' % (ind, self.ret(nxt.body[0].value)))
                    out.append('%s| some v_ => %s := v_' % (ind, x))
                else:
                    out.append('%slet some %s := %s | return %s' % (ind, x, self.e(s.value), self.ret(nxt.body[0].value)))
                    self.declared[-1].add(x)
                i += 2
                continue
            out += self.stmt(s, ind)
            i += 1
        self.declared.pop()
        return out

    def is_declared(self, x):
        return any(x in d for d in self.declared)

    def assigned_names(self, stmts):
        """names definitely assigned by the statement list (plain assignments at its top level, and names assigned
        in every branch of a complete if / elif / else)"""
        out = set()
        for s in stmts:
            if isinstance(s, ast.Assign) and len(s.targets) == 1 and isinstance(s.targets[0], ast.Name):
                out.add(s.targets[0].id)
            elif isinstance(s, ast.If) and s.orelse:
                out |= self.assigned_names(s.body) & self.assigned_names(s.orelse)
            elif self.find_idiom(s):
                out.add(s.body[0].body[0].targets[0].id)      # unbound (an error) when nothing matches
            elif isinstance(s, (ast.Raise, ast.Return)):
                return _AllNames(out)                         # nothing after the block is reached from here
        return out

    @staticmethod
    def find_idiom(s):
        return (isinstance(s, ast.For) and not s.orelse and isinstance(s.target, ast.Name) and len(s.body) == 1
                and isinstance(s.body[0], ast.If) and not s.body[0].orelse and len(s.body[0].body) == 2
                and isinstance(s.body[0].body[1], ast.Break) and isinstance(s.body[0].body[0], ast.Assign)
                and len(s.body[0].body[0].targets) == 1 and isinstance(s.body[0].body[0].targets[0], ast.Name)
                and isinstance(s.body[0].body[0].value, ast.Name) and s.body[0].body[0].value.id == s.target.id)

    def maybe_assigned(self, stmts):
        out = set()
        for s in stmts:
            if isinstance(s, ast.Assign) and len(s.targets) == 1 and isinstance(s.targets[0], ast.Name):
                out.add(s.targets[0].id)
            for f in ('body', 'orelse'):
                if hasattr(s, f):
                    out |= self.maybe_assigned(getattr(s, f))
        return out

    def floor_div(self, n):
        return '(← pyFloorDiv %s %s)' % (self.atom(n.left), self.atom(n.right))

    def hoisted(self, s, ind):
        """`let mut x := <default>` for the names of `self.hoist` first assigned inside the branches of `s`; the
        default is never read: every branch must assign the name (checked), as Python needs for the later uses"""
        out = []
        hoist = getattr(self, 'hoist', {})
        if not isinstance(s, ast.If):
            return out
        some = self.maybe_assigned(s.body) | self.maybe_assigned(s.orelse)
        both = (self.assigned_names(s.body) & self.assigned_names(s.orelse)) if s.orelse else set()
        for x in sorted(some):
            if x in hoist and not self.is_declared(x):
                if not s.orelse or x not in both:
                    raise Unsupported('name %s is not assigned on every path' % x)
                out.append('%slet mut %s := %s' % (ind, x, hoist[x]))
                self.declared[-1].add(x)
                self.hoisted_names = getattr(self, 'hoisted_names', set()) | {x}
            elif x in both and not self.is_declared(x) and x in getattr(self, 'used_later', set()):
                # first assigned in both branches and read afterwards: declared before the `if` (the value is never read)
                out.append('%slet mut %s := default' % (ind, x))
                self.declared[-1].add(x)
                self.hoisted_names = getattr(self, 'hoisted_names', set()) | {x}
        return out

    def stmt(self, s, ind):
        pre = self.hoisted(s, ind)
        return pre + self.stmt0(s, ind)

    def stmt0(self, s, ind):
        if isinstance(s, ast.Expr) and isinstance(s.value, ast.Constant) and isinstance(s.value.value, str):
            return []                           # docstring
        if isinstance(s, ast.If) and not s.orelse and isinstance(s.test, ast.BoolOp) and isinstance(s.test.op, ast.And) \
                and len(s.test.values) >= 2:
            first = s.test.values[0]
            if isinstance(first, ast.Compare) and len(first.ops) == 1 and isinstance(first.ops[0], ast.IsNot) \
                    and isinstance(first.left, ast.Name) and first.left.id in (self.opt_locals | self.opt_params) \
                    and isinstance(first.comparators[0], ast.Constant) and first.comparators[0].value is None:
                # `if x is not None and B:` is `if x is not None: if B:` (Python evaluates B only then)
                rest = s.test.values[1] if len(s.test.values) == 2 else ast.BoolOp(op=ast.And(), values=s.test.values[1:])
                inner = ast.If(test=rest, body=s.body, orelse=[])
                outer = ast.If(test=first, body=[inner], orelse=[])
                return self.stmt0(ast.fix_missing_locations(ast.copy_location(outer, s)), ind)
        for head, lines in getattr(self, 'stmt_map', {}).items():
            if self.src(s).startswith(head):
                self.declared[-1].update(getattr(self, 'stmt_map_declares', {}).get(head, ()))
                self.stmt_declared = getattr(self, 'stmt_declared', set()) | set(getattr(self, 'stmt_map_declares', {}).get(head, ()))
                return [ind + l for l in lines]
        if isinstance(s, ast.Assign):
            if len(s.targets) != 1:
                raise Unsupported('multiple targets')
            t = s.targets[0]
            if isinstance(t, ast.Tuple) and len(t.elts) == 2 and isinstance(s.value, ast.Name) and s.value.id in self.cls_vars:
                a, b = t.elts[0].id, t.elts[1].id
                self.declared[-1].update([a, b])
                return ['%slet %s := %s.base' % (ind, a, s.value.id), '%slet %s := %s.sub' % (ind, b, s.value.id)]
            if isinstance(t, ast.Subscript) and isinstance(t.value, ast.Name) and self.is_declared(t.value.id) \
                    and not isinstance(t.slice, ast.Slice):
                val = self.atom(s.value)
                if t.value.id in getattr(self, 'spec_lists', ()) and not val.lstrip('(').startswith('Wrap.Spec'):
                    val = '(Wrap.Spec.int %s)' % val
                return ['%s%s := (%s).set %s %s' % (ind, t.value.id, t.value.id, self.atom(t.slice), val)]
            if not isinstance(t, ast.Name):
                raise Unsupported('assignment target ' + self.src(t))
            x = t.id
            if x in self.skip_assign:
                return []
            v_ = s.value
            if x in ('msg', 'message', 'err_msg', 'err_str', 'error_msg') and self.mapped(v_) is None and (
                    (isinstance(v_, ast.BinOp) and isinstance(v_.op, ast.Mod) and isinstance(v_.left, ast.Constant)
                     and isinstance(v_.left.value, str)) or isinstance(v_, ast.JoinedStr)
                    or (isinstance(v_, ast.Constant) and isinstance(v_.value, str))):
                return []                  # the text of an error message: exceptions are modelled by their type only
            if isinstance(v_, ast.Attribute) and not self.is_declared(x) and x not in self.mutable and self.mapped(v_) is None:
                root = v_
                while isinstance(root, ast.Attribute):
                    root = root.value
                if isinstance(root, ast.Name) and root.id in ('self', 'other'):
                    self.aliases = dict(getattr(self, 'aliases', {}))
                    self.aliases[x] = v_
                    return []
            if self.is_declared(x) and (x in self.mutable or x in getattr(self, 'hoisted_names', ()) or x in self.opt_locals
                                        or x.endswith('_cls') or x in ('d_', 'st_', 'fx') or x in getattr(self, 'stmt_declared', ())):
                return ['%s%s := %s' % (ind, x, self.e(s.value))]
            self.declared[-1].add(x)
            return ['%slet %s%s := %s' % (ind, 'mut ' if x in self.mutable else '', x, self.e(s.value))]
        if isinstance(s, ast.AugAssign):
            ops = {ast.Add: '+', ast.Mult: '*'}
            if type(s.op) not in ops or not isinstance(s.target, ast.Name):
                raise Unsupported('augmented assignment ' + self.src(s))
            x = s.target.id
            if not self.is_declared(x):
                raise Unsupported('augmented assignment to an undeclared name')
            if isinstance(s.op, ast.Add) and (self.is_list(s.value) or x in getattr(self, 'list_vars', ())):
                return ['%s%s := %s ++ %s' % (ind, x, x, self.atom(s.value))]
            return ['%s%s := %s %s %s' % (ind, x, x, ops[type(s.op)], self.atom(s.value))]
        if isinstance(s, ast.Return):
            if s.value is None:
                raise Unsupported('bare return')
            return ['%sreturn %s' % (ind, self.ret(s.value))]
        if isinstance(s, ast.Raise):
            name = None
            if isinstance(s.exc, ast.Call) and isinstance(s.exc.func, ast.Name):
                name = s.exc.func.id
            if name == 'ValueError':
                return ['%sthrow PyErr.valueError' % ind]
            if name == 'IndexError':
                return ['%sthrow PyErr.indexError' % ind]
            if name == 'InvalidStackError':
                return ['%sthrow PyErr.invalidStack' % ind]
            if name == 'InvalidExtensionError':
                return ['%sthrow PyErr.invalidExtension' % ind]
            raise Unsupported('raise ' + self.src(s))
        if isinstance(s, ast.If) and isinstance(s.test, ast.Compare) and len(s.test.ops) == 1 \
                and isinstance(s.test.ops[0], ast.Is) and isinstance(s.test.left, ast.Name) \
                and s.test.left.id in self.opt_params and isinstance(s.test.comparators[0], ast.Constant) \
                and s.test.comparators[0].value is None and s.orelse:
            x = s.test.left.id
            out = ['%smatch %s with' % (ind, x), '%s| none =>' % ind]
            out += self.block(s.body, ind + '  ')
            out.append('%s| some %s =>' % (ind, x))
            out += self.block(s.orelse, ind + '  ')
            return out
        if isinstance(s, ast.If) and not s.orelse and isinstance(s.test, ast.Compare) and len(s.test.ops) == 1 \
                and isinstance(s.test.ops[0], ast.Is) and isinstance(s.test.left, ast.Name) \
                and s.test.left.id in self.opt_params and isinstance(s.test.comparators[0], ast.Constant) \
                and s.test.comparators[0].value is None and len(s.body) == 1 and isinstance(s.body[0], ast.Return):
            x = s.test.left.id
            return ['%slet some %s := %s | return %s' % (ind, x, x, self.ret(s.body[0].value))]
        if isinstance(s, ast.If) and not s.orelse and isinstance(s.test, ast.Compare) and len(s.test.ops) == 1 \
                and isinstance(s.test.ops[0], ast.IsNot) and isinstance(s.test.left, ast.Name) \
                and s.test.left.id in self.opt_params and isinstance(s.test.comparators[0], ast.Constant) \
                and s.test.comparators[0].value is None:
            x = s.test.left.id
            return ['%sif let some %s := %s then' % (ind, x, x)] + self.block(s.body, ind + '  ')
        if isinstance(s, ast.Continue):
            return ['%scontinue' % ind]
        if isinstance(s, ast.Break):
            flags = getattr(self, 'loop_flags', [])
            if not flags:
                raise Unsupported('break outside a loop')
            if flags[-1] is not None:
                return ['%s%s := true' % (ind, flags[-1]), '%sbreak' % ind]
            return ['%sbreak' % ind]
        if isinstance(s, ast.While):
            if s.orelse:
                raise Unsupported('while-else')
            fuel = getattr(self, 'while_fuel', None)
            if fuel is None:
                raise Unsupported('while loop without a bound')
            cond = self.b(s.test)
            out = ['%sfor _ in List.range (%s) do' % (ind, fuel), '%s  if (!%s) then' % (ind, cond), '%s    break' % ind]
            self.loop_flags = getattr(self, 'loop_flags', []) + [None]
            out += self.block(s.body, ind + '  ')
            self.loop_flags = self.loop_flags[:-1]
            out += ['%sif %s then' % (ind, cond), '%s  throw PyErr.fuelExhausted' % ind]
            return out
        if isinstance(s, ast.Expr) and isinstance(s.value, ast.Call) and isinstance(s.value.func, ast.Attribute) \
                and s.value.func.attr == 'append' and isinstance(s.value.func.value, ast.Name) \
                and self.is_declared(s.value.func.value.id) and len(s.value.args) == 1:
            x = s.value.func.value.id
            return ['%s%s := %s ++ [%s]' % (ind, x, x, self.e(s.value.args[0]))]
        if isinstance(s, ast.Expr) and isinstance(s.value, ast.Call) and isinstance(s.value.func, ast.Attribute) \
                and s.value.func.attr == 'extend' and isinstance(s.value.func.value, ast.Name) \
                and self.is_declared(s.value.func.value.id) and len(s.value.args) == 1:
            x = s.value.func.value.id
            return ['%s%s := %s ++ %s' % (ind, x, x, self.atom(s.value.args[0]))]
        if isinstance(s, ast.If) and not s.orelse and isinstance(s.test, ast.Compare) and len(s.test.ops) == 1 \
                and isinstance(s.test.ops[0], ast.IsNot) and isinstance(s.test.left, ast.Name) \
                and s.test.left.id in self.opt_locals and isinstance(s.test.comparators[0], ast.Constant) \
                and s.test.comparators[0].value is None:
            x = s.test.left.id
            out = ['%sif let some %s := %s then' % (ind, x, x)]
            out += self.block(s.body, ind + '  ')
            return out
        if isinstance(s, ast.Assert):
            if isinstance(s.test, ast.Constant) and s.test.value is False:
                return ['%sthrow PyErr.assertionError' % ind]
            return ['%sif (!%s) then' % (ind, self.b(s.test)), '%s  throw PyErr.assertionError' % ind]
        if isinstance(s, ast.If):
            out = ['%sif %s then' % (ind, self.b(s.test))]
            out += self.block(s.body, ind + '  ')
            rest = s.orelse
            while len(rest) == 1 and isinstance(rest[0], ast.If):
                out.append('%selse if %s then' % (ind, self.b(rest[0].test)))
                out += self.block(rest[0].body, ind + '  ')
                rest = rest[0].orelse
            if rest:
                out.append('%selse' % ind)
                out += self.block(rest, ind + '  ')
            return out
        if self.find_idiom(s):
            # idiom: for x in L: if c(x): v = x; break   (v read afterwards: unbound when nothing matches)
            v = s.body[0].body[0].targets[0].id
            x = s.target.id
            self.declared.append({x})
            cond = self.b(s.body[0].test)
            self.declared.pop()
            if any('←' in part for part in [cond]):
                raise Unsupported('monadic call inside a search loop condition')
            if self.is_declared(v) and v in self.opt_locals:
                out_ = ['%s%s := (%s).find? (fun %s => %s)' % (ind, v, self.e(s.iter), x, cond)]
                if x in getattr(self, 'leak_vars', ()) or x in getattr(self, 'used_later', ()):
                    # the loop variable is read after the loop: the element the loop stopped at, or the last one
                    out_.append('%slet %s := (match %s with | some x_ => x_ | none => (%s).getLastD Cls.gconst)' % (ind, x, v, self.e(s.iter)))
                    self.declared[-1].add(x)
                return out_
            if self.is_declared(v):
                return ['%smatch (%s).find? (fun %s => %s) with' % (ind, self.e(s.iter), x, cond),
                        '%s| some v_ => %s := v_' % (ind, v),
                        '%s| none => %s' % (ind, 'throw PyErr.unboundLocal' if v in getattr(self, 'hoisted_names', ()) else 'pure ()')]
            self.declared[-1].add(v)
            return ['%slet some %s := (%s).find? (fun %s => %s) | throw PyErr.unboundLocal' % (ind, v, self.e(s.iter), x, cond)]
        if isinstance(s, ast.For):
            flag = None
            pre_for = []
            if s.orelse:
                # for … else: the else block runs when the loop was not left by `break`
                self.n_flags = getattr(self, 'n_flags', 0) + 1
                flag = 'broke_%d' % self.n_flags
                pre_for = ['%slet mut %s := false' % (ind, flag)]
                self.declared[-1].add(flag)
            self.loop_flags = getattr(self, 'loop_flags', []) + [flag]
            it = s.iter
            if isinstance(it, ast.Call) and isinstance(it.func, ast.Name) and it.func.id == 'enumerate' and len(it.args) == 1 \
                    and isinstance(s.target, ast.Tuple) and len(s.target.elts) == 2:
                a, b = s.target.elts[0].id, s.target.elts[1].id
                head = '%sfor (%s, %s) in (%s).zipIdx do' % (ind, b, a, self.e(it.args[0]))
                self.declared.append({a, b})
            elif isinstance(it, ast.Call) and isinstance(it.func, ast.Name) and it.func.id == 'range' and len(it.args) == 1 \
                    and isinstance(s.target, ast.Name):
                head = '%sfor %s in List.range %s do' % (ind, s.target.id, self.atom(it.args[0]))
                self.declared.append({s.target.id})
            elif isinstance(it, ast.Call) and isinstance(it.func, ast.Name) and it.func.id == 'range' and len(it.args) == 2 \
                    and isinstance(s.target, ast.Name):
                head = '%sfor %s in List.range\' %s (%s - %s) do' % (ind, s.target.id, self.atom(it.args[0]),
                                                                 self.atom(it.args[1]), self.atom(it.args[0]))
                self.declared.append({s.target.id})
            elif isinstance(s.target, ast.Name):
                head = '%sfor %s in %s do' % (ind, s.target.id, self.e(it))
                self.declared.append({s.target.id})
            elif isinstance(s.target, ast.Tuple) and len(s.target.elts) == 2 and all(isinstance(x, ast.Name) for x in s.target.elts):
                a, b = s.target.elts[0].id, s.target.elts[1].id
                head = '%sfor (%s, %s) in %s do' % (ind, a, b, self.e(it))
                self.declared.append({a, b})
            else:
                raise Unsupported('for ' + self.src(s.target))
            body = self.block(s.body, ind + '  ')
            self.declared.pop()
            self.loop_flags = self.loop_flags[:-1]
            post = []
            if s.orelse:
                post = ['%sif (!%s) then' % (ind, flag)] + self.block(s.orelse, ind + '  ')
            return pre_for + [head] + body + post
        raise Unsupported('statement ' + type(s).__name__)

    def ret(self, n):
        if getattr(self, 'ret_unit', False):
            return '()'
        if self.ret_optional:
            if isinstance(n, ast.Constant) and n.value is None:
                return 'none'
            if self.src(n) in self.optional:
                return self.e(n)
            return '(some %s)' % self.e(n)
        return self.e(n)


class TrKeyFx(Tr):
    """a method that edits the classification dictionaries for one key: the writes and deletions are recorded in
    order in `fx : KeyFx α`, and every `return b` gives `(b, fx)`"""

    def stmt0(self, s, ind):
        if isinstance(s, ast.Assign) and len(s.targets) == 1 and isinstance(s.targets[0], ast.Subscript) \
                and self.src(s.targets[0].slice) == 'key' and isinstance(s.targets[0].value, ast.Call) \
                and self.src(s.targets[0].value.func) == 'self.get_class_dict' and len(s.targets[0].value.args) == 1:
            return ['%sfx := fx.write %s %s' % (ind, self.atom(s.targets[0].value.args[0]), self.atom(s.value))]
        if isinstance(s, ast.Delete) and len(s.targets) == 1 and isinstance(s.targets[0], ast.Subscript) \
                and self.src(s.targets[0].slice) == 'key' and isinstance(s.targets[0].value, ast.Call) \
                and self.src(s.targets[0].value.func) == 'self.get_class_dict' and len(s.targets[0].value.args) == 1:
            return ['%sfx := fx.del %s' % (ind, self.atom(s.targets[0].value.args[0]))]
        return Tr.stmt0(self, s, ind)

    def ret(self, n):
        return '(%s, fx)' % self.e(n)


class TrKeyDict(Tr):
    """a method that reads and edits the classification dictionaries of `self` for one key.  The state is
    `d_ : KeyDict α` — the classes whose dictionary holds the key, with the values (a constant is a one-element list);
    `get_values_and_class(key)` scans the valid classes in order as `get_classification` does.  A name bound to the list
    stored in a dictionary is an alias of it: `x.extend(v)` writes the extended list back under the class the alias was
    read from (tracked in `<x>_cls`)."""
    allow_absent = False      # `values, cls = get_values_and_class(key)` may give (None, None)

    def lookup(self, ind, vals, cls):
        out = ['%slet vc_ := KeyDict.valuesAndClass (← get_valid_classes self_shape) d_' % ind]
        if self.allow_absent:
            out += ['%slet %s := (match vc_ with | some (_, v) => v | none => [null])' % (ind, vals),
                    '%slet %s := vc_.map (·.1)' % (ind, cls)]
        else:
            # an absent key gives (None, None); every later use of the classification is a TypeError / KeyError
            out += ['%slet some (%s, %s_0) := vc_ | throw PyErr.typeError' % (ind, cls, vals),
                    '%slet mut %s := %s_0' % (ind, vals, vals), '%slet mut %s_cls := %s' % (ind, vals, cls)]
            self.declared[-1].update([vals + '_cls'])
        self.declared[-1].update([vals, cls])
        return out

    def stmt0(self, s, ind):
        src = self.src(s)
        if isinstance(s, ast.Assign) and len(s.targets) == 1 and isinstance(s.targets[0], ast.Tuple) \
                and self.src(s.value) == 'self.get_values_and_class(key)':
            a, b = s.targets[0].elts[0].id, s.targets[0].elts[1].id
            return self.lookup(ind, a, b)
        if isinstance(s, ast.Assign) and len(s.targets) == 1 and isinstance(s.targets[0], ast.Name) \
                and self.src(s.value) == 'self.get_values(key)':
            x = s.targets[0].id
            if not self.is_declared(x) or not self.is_declared(x + '_cls'):
                raise Unsupported('alias of the stored list without an earlier lookup: ' + src)
            return ['%slet some (c_, v_) := KeyDict.valuesAndClass (← get_valid_classes self_shape) d_ | throw PyErr.typeError' % ind,
                    '%s%s := v_' % (ind, x), '%s%s_cls := c_' % (ind, x)]
        if isinstance(s, ast.Assign) and len(s.targets) == 1 and isinstance(s.targets[0], ast.Name) \
                and isinstance(s.value, ast.Subscript) and self.src(s.value.slice) == 'key' \
                and isinstance(s.value.value, ast.Call) and self.src(s.value.value.func) == 'self.get_class_dict' \
                and self.is_declared(s.targets[0].id + '_cls'):
            x = s.targets[0].id
            c = self.atom(s.value.value.args[0])
            return ['%s%s := (← KeyDict.get d_ %s)' % (ind, x, c), '%s%s_cls := %s' % (ind, x, c)]
        if isinstance(s, ast.Assign) and len(s.targets) == 1 and isinstance(s.targets[0], ast.Subscript) \
                and self.src(s.targets[0].slice) == 'key' and isinstance(s.targets[0].value, ast.Call) \
                and self.src(s.targets[0].value.func) == 'self.get_class_dict' and len(s.targets[0].value.args) == 1:
            a = s.targets[0].value.args[0]
            if isinstance(a, ast.Name) and a.id in self.opt_locals:
                # `get_class_dict(None)`: TypeError
                return ['%slet some c_ := %s | throw PyErr.typeError' % (ind, a.id), '%sd_ := d_.set c_ %s' % (ind, self.atom(s.value))]
            return ['%sd_ := d_.set %s %s' % (ind, self.atom(a), self.atom(s.value))]
        if isinstance(s, ast.Delete) and len(s.targets) == 1 and isinstance(s.targets[0], ast.Subscript) \
                and self.src(s.targets[0].slice) == 'key' and isinstance(s.targets[0].value, ast.Call) \
                and self.src(s.targets[0].value.func) == 'self.get_class_dict' and len(s.targets[0].value.args) == 1:
            return ['%sd_ := (← KeyDict.del d_ %s)' % (ind, self.atom(s.targets[0].value.args[0]))]
        if isinstance(s, ast.Assign) and len(s.targets) == 1 and isinstance(s.targets[0], ast.Name) \
                and isinstance(s.value, ast.Call) and self.src(s.value.func) == 'self.get_class_dict' and len(s.value.args) == 1:
            # a name for one of the dictionaries of `self`: writes through it go to that class
            self.dict_alias = dict(getattr(self, 'dict_alias', {}))
            self.dict_alias[s.targets[0].id] = self.atom(s.value.args[0])
            return []
        if isinstance(s, ast.Assign) and len(s.targets) == 1 and isinstance(s.targets[0], ast.Subscript) \
                and self.src(s.targets[0].slice) == 'key' and isinstance(s.targets[0].value, ast.Name) \
                and s.targets[0].value.id in getattr(self, 'dict_alias', {}):
            return ['%sd_ := d_.set %s %s' % (ind, self.dict_alias[s.targets[0].value.id], self.atom(s.value))]
        if isinstance(s, ast.Expr) and self.src(s.value) == 'self._simplify(key)':
            # the translated `_simplify` on the key's current values and class, its edits replayed on the dictionaries
            return ['%slet some (c_, v_) := KeyDict.valuesAndClass (← get_valid_classes self_shape) d_ | throw PyErr.keyError' % ind,
                    '%sd_ := (← KeyDict.applyFx d_ (← simplify null self_shape self_n_slices content v_ c_).2)' % ind]
        if isinstance(s, ast.Assign) and len(s.targets) == 1 and isinstance(s.targets[0], ast.Name) \
                and self.src(s.value) == 'self.get_classification(key)':
            x = s.targets[0].id
            self.declared[-1].add(x)
            return ['%slet %s := (KeyDict.valuesAndClass (← get_valid_classes self_shape) d_).map (·.1)' % (ind, x)]
        if isinstance(s, ast.Expr) and isinstance(s.value, ast.Call) and self.src(s.value.func) == 'self._change_class' \
                and len(s.value.args) == 2 and self.src(s.value.args[0]) == 'key':
            a = s.value.args[1]
            if isinstance(a, ast.Name) and a.id in self.opt_locals:
                # `_change_class(key, None)`: `_get_changed_class` finds None in no row of `_preserving_changes` → ValueError
                return ['%smatch %s with' % (ind, a.id), '%s| none => throw PyErr.valueError' % ind,
                        '%s| some c_ => d_ := (← change_class null self_shape self_n_slices d_ c_)' % ind]
            return ['%sd_ := (← change_class null self_shape self_n_slices d_ %s)' % (ind, self.atom(a))]
        if isinstance(s, ast.Expr) and isinstance(s.value, ast.Call) and isinstance(s.value.func, ast.Attribute) \
                and s.value.func.attr == 'extend' and len(s.value.args) == 1:
            tgt = s.value.func.value
            if isinstance(tgt, ast.Name) and self.is_declared(tgt.id + '_cls'):
                x = tgt.id
                return ['%s%s := %s ++ %s' % (ind, x, x, self.atom(s.value.args[0])),
                        '%sd_ := d_.set %s_cls %s' % (ind, x, x)]
            if self.src(tgt) == 'self.get_values(key)':
                return ['%slet some (c_, v_) := KeyDict.valuesAndClass (← get_valid_classes self_shape) d_ | throw PyErr.typeError' % ind,
                        '%sd_ := d_.set c_ (v_ ++ %s)' % (ind, self.atom(s.value.args[0]))]
        if isinstance(s, ast.Return) and s.value is None:
            return ['%sreturn d_' % ind]
        if isinstance(s, ast.If) and not s.orelse and isinstance(s.test, ast.UnaryOp) and isinstance(s.test.op, ast.Not) \
                and isinstance(s.test.operand, ast.Compare) and len(s.test.operand.ops) == 1 \
                and isinstance(s.test.operand.ops[0], ast.Is) and isinstance(s.test.operand.left, ast.Name) \
                and s.test.operand.left.id in self.opt_locals:
            x = s.test.operand.left.id
            return ['%sif let some %s := %s then' % (ind, x, x)] + self.block(s.body, ind + '  ')
        return Tr.stmt0(self, s, ind)


class TrStackAdd(Tr):
    """`DicomStack.add_dcm` and the checks it calls, over the state `st_ : Stk.AddSt` (the attributes `add_dcm` reads and
    writes) and a candidate `c : Stk.Cand` (what `add_dcm` looks at in the dataset and its meta data)"""
    FIELDS = {'_ref_input': 'ref', '_files_info': 'files', '_sorting_tuples': 'tuples', '_repetition_times': 'trs',
              '_phase_enc_dirs': 'pes'}
    SCRATCH = ('_slice_pos_vals', '_time_vals', '_vector_vals')     # sets of the ordinates: functions of `_sorting_tuples`
    ERR = {'NonImageDataSetError': 'nonImageDataSet', 'IncongruentImageError': 'incongruentImage', 'ImageCollisionError': 'imageCollision'}

    persist = False      # the object keeps what was written before an exception: results are (state, exception or none)

    def stmt0(self, s, ind):
        src = self.src(s)
        if isinstance(s, ast.Raise) and isinstance(s.exc, ast.Call) and isinstance(s.exc.func, ast.Name) and s.exc.func.id in self.ERR:
            if self.persist:
                return ['%sreturn (st_, some PyErr.%s)' % (ind, self.ERR[s.exc.func.id])]
            return ['%sthrow PyErr.%s' % (ind, self.ERR[s.exc.func.id])]
        if isinstance(s, ast.Expr) and isinstance(s.value, ast.Call) and isinstance(s.value.func, ast.Attribute) \
                and s.value.func.attr == 'add' and isinstance(s.value.func.value, ast.Attribute) \
                and self.src(s.value.func.value.value) == 'self' and len(s.value.args) == 1:
            f = s.value.func.value.attr
            if f in self.SCRATCH:
                return []
            if f in self.FIELDS:
                fld = self.FIELDS[f]
                return ['%sst_ := { st_ with %s := Stk.setInsert %s st_.%s }' % (ind, fld, self.atom(s.value.args[0]), fld)]
        if isinstance(s, ast.Expr) and src.startswith('self._files_info.append('):
            return ['%sst_ := { st_ with files := st_.files ++ [%s] }' % (ind, self.e(s.value.args[0]))]
        if isinstance(s, ast.Assign) and len(s.targets) == 1 and isinstance(s.targets[0], ast.Attribute) \
                and self.src(s.targets[0].value) == 'self':
            f = s.targets[0].attr
            if f in ('_shape_dirty', '_meta_dirty'):
                if not (isinstance(s.value, ast.Constant) and s.value.value is True):
                    raise Unsupported('dirty flag set to something else than True')
                return ['%sst_ := { st_ with dirty := true }' % ind]
            if f in self.FIELDS:
                return ['%sst_ := { st_ with %s := %s }' % (ind, self.FIELDS[f], self.e(s.value))]
        if isinstance(s, ast.Return) and s.value is None:
            return ['%sreturn (st_, none)' % ind if self.persist else '%sreturn st_' % ind]
        return Tr.stmt0(self, s, ind)


class TrHeader(Tr):
    """the header block of `DicomStack.to_nifti`: `_files_info` is the list of the files' acquisition times (None when a
    file has none) in the current file order, times are integers; numpy on such lists: `np.array([f(x) for x in L])` is the list,
    `a -= np.min(a)` subtracts the minimum from every element, `np.allclose(a, b)` is equality, `np.allclose(a, 0.0)` all zero"""

    def e(self, n):
        src = self.src(n)
        if isinstance(n, ast.Call) and self.src(n.func) == 'np.array' and len(n.args) == 1 and isinstance(n.args[0], ast.ListComp):
            lc = n.args[0]
            g = lc.generators[0]
            if len(lc.generators) == 1 and not g.ifs and isinstance(g.target, ast.Name) \
                    and self.src(lc.elt) == "dcm_time_to_sec(%s[0]['AcquisitionTime'])" % g.target.id:
                # a file without the element: KeyError
                return '(← (%s).mapM pyGetKey)' % self.e(g.iter)
        if isinstance(n, ast.Call) and self.src(n.func) == 'np.min' and len(n.args) == 1:
            return '(← npMin %s)' % self.atom(n.args[0])
        if isinstance(n, ast.Call) and self.src(n.func) == 'np.allclose' and len(n.args) == 2:
            if isinstance(n.args[1], ast.Constant) and n.args[1].value == 0.0:
                return '((%s).all fun x_ => x_ == 0)' % self.e(n.args[0])
            return '(%s == %s)' % (self.e(n.args[0]), self.e(n.args[1]))
        if isinstance(n, ast.Call) and isinstance(n.func, ast.Name) and n.func.id == 'all' and len(n.args) == 1 \
                and isinstance(n.args[0], ast.GeneratorExp):
            g = n.args[0].generators[0]
            if self.src(n.args[0].elt) == "%s[0].get_meta('AcquisitionTime') is not None" % g.target.id:
                return '((%s).all fun x_ => x_.isSome)' % self.e(g.iter)
        return super().e(n)

    def b(self, n):
        if isinstance(n, ast.Call):
            return self.e(n)
        return super().b(n)

    def stmt0(self, s, ind):
        if isinstance(s, ast.AugAssign) and isinstance(s.op, ast.Sub) and isinstance(s.target, ast.Name):
            x = s.target.id
            return ['%slet m_ := %s' % (ind, self.e(s.value)), '%s%s := (%s).map fun x_ => x_ - m_' % (ind, x, x)]
        return super().stmt0(s, ind)


class TrPhoenix(Tr):
    """`_parse_phoenix_line`: strings are `Phx.Str` (lists of characters), indices and lengths integers (`find` gives -1).
    The string methods are the functions of `Model/Phoenix.lean`: `s.find(x)` → `Phx.findI`, `s.count(x)` → `Phx.countSub`,
    `s.strip()` → `Phx.strip`, `s.startswith(x)` → `isPrefixOf`, `s[a:b]` → `Phx.pySlice` (Python's rules for negative and
    oversized bounds), `int(s)` / `int(s, 16)` / `float(s)` → `Phx.pyInt` / `Phx.pyIntHex` / `Phx.pyFloatOk` (the exact
    integer, or the accepted lexeme).  `raise PhoenixParseError` is the result `POut.parseError`."""
    STR_NAMES = {'line', 'str_delim', 'key', 'val_str'}

    def lit(self, c):
        if len(c) == 1:
            return "['%s']" % c.replace("'", "\\'")
        return '(%s).toList' % json.dumps(c)

    def e(self, n):
        if isinstance(n, ast.Constant) and isinstance(n.value, str):
            return '[]' if n.value == '' else self.lit(n.value)
        if isinstance(n, ast.Constant) and isinstance(n.value, int) and not isinstance(n.value, bool):
            return '(%d : Int)' % n.value
        if isinstance(n, ast.UnaryOp) and isinstance(n.op, ast.USub) and isinstance(n.operand, ast.Constant):
            return '(-%d : Int)' % n.operand.value
        if isinstance(n, ast.Call) and isinstance(n.func, ast.Name) and n.func.id == 'len' and len(n.args) == 1:
            return '((%s).length : Int)' % self.e(n.args[0])
        if isinstance(n, ast.Call) and isinstance(n.func, ast.Attribute) and len(n.args) <= 1 and not n.keywords:
            recv, meth = self.atom(n.func.value), n.func.attr
            if meth == 'find' and len(n.args) == 1:
                return '(Phx.findI %s %s)' % (self.atom(n.args[0]), recv)
            if meth == 'count' and len(n.args) == 1:
                return '((Phx.countSub %s %s : Nat) : Int)' % (self.atom(n.args[0]), recv)
            if meth == 'strip' and not n.args:
                return '(Phx.strip %s)' % recv
            if meth == 'startswith' and len(n.args) == 1:
                return '((%s).isPrefixOf %s)' % (self.e(n.args[0]), recv)
        if isinstance(n, ast.Subscript) and isinstance(n.slice, ast.Slice) and n.slice.step is None:
            base = self.atom(n.value)
            lo = '(0 : Int)' if n.slice.lower is None else self.atom(n.slice.lower)
            hi = '((%s).length : Int)' % base if n.slice.upper is None else self.atom(n.slice.upper)
            return '(Phx.pySlice %s %s %s)' % (lo, hi, base)
        return super().e(n)

    def atom(self, n):
        s_ = self.e(n)
        return s_ if (s_.isalnum() or s_.replace('_', '').isalnum() or s_.startswith('(') or s_.startswith('[')) else '(%s)' % s_

    def b(self, n):
        # the truth value of a string is "not empty": `not s.strip()` is `s.strip() == ''`
        if isinstance(n, ast.UnaryOp) and isinstance(n.op, ast.Not) and isinstance(n.operand, ast.Call) \
                and isinstance(n.operand.func, ast.Attribute) and n.operand.func.attr == 'strip' and not n.operand.args:
            return '(%s == [])' % self.e(n.operand)
        return super().b(n)

    def stmt0(self, s, ind):
        if isinstance(s, ast.Raise):
            return ['%sreturn Phx.POut.parseError' % ind]
        if isinstance(s, ast.Try) and len(s.body) == 1 and isinstance(s.body[0], ast.Assign) and len(s.handlers) == 1 \
                and self.src(s.handlers[0].type) == 'ValueError' and len(s.handlers[0].body) == 1 \
                and isinstance(s.handlers[0].body[0], ast.Pass) and len(s.orelse) == 1 and isinstance(s.orelse[0], ast.Return) \
                and not s.finalbody:
            # try: val = conv(x) / except ValueError: pass / else: return (key, val)
            call = self.src(s.body[0].value)
            conv = {'int(val_str)': ('Phx.pyInt val_str', 'Phx.PVal.int v_'),
                    'int(val_str, 16)': ('Phx.pyIntHex val_str', 'Phx.PVal.int v_'),
                    'float(val_str)': ('(if Phx.pyFloatOk val_str then some val_str else none)', 'Phx.PVal.floatLex v_')}
            if call in conv and self.src(s.orelse[0].value) == '(key, val)':
                return ['%sif let some v_ := %s then' % (ind, conv[call][0]), '%s  return Phx.POut.pair key (%s)' % (ind, conv[call][1])]
            raise Unsupported('try statement: ' + call)
        if isinstance(s, ast.Return):
            if isinstance(s.value, ast.Constant) and s.value.value is None:
                return ['%sreturn Phx.POut.none' % ind]
            if isinstance(s.value, ast.Tuple) and len(s.value.elts) == 2 and self.src(s.value.elts[0]) == 'key':
                return ['%sreturn Phx.POut.pair key (Phx.PVal.str %s)' % (ind, self.atom(s.value.elts[1]))]
            raise Unsupported('return ' + self.src(s.value))
        if isinstance(s, ast.Assign) and self.src(s.targets[0]) == 'val' and isinstance(s.value, ast.Constant) and s.value.value is None:
            return []
        return super().stmt0(s, ind)


class TrPhoenixProt(TrPhoenix):
    """`parse_phoenix_prot`: as `TrPhoenix`; `s.split('\\n')` is `Phx.splitLines`, a list slice `xs[a:b]` is `pySliceL` (Python's
    rules for negative bounds), the `OrderedDict` result an association list written with `Phx.setKey` (replace in place, or
    append), the call `_parse_phoenix_line(line, delim)` the translated function — its `PhoenixParseError` leaves this function
    too — and `raise ValueError` / `return result` the outcomes `ProtOut.valueError` / `ProtOut.ok result`"""

    def e(self, n):
        if isinstance(n, ast.Call) and isinstance(n.func, ast.Attribute) and n.func.attr == 'split' and len(n.args) == 1 \
                and isinstance(n.args[0], ast.Constant) and n.args[0].value == '\n' and not n.keywords:
            return '(Phx.splitLines %s)' % self.atom(n.func.value)
        if isinstance(n, ast.Subscript) and isinstance(n.slice, ast.Slice) and n.slice.step is None \
                and isinstance(n.value, ast.Call) and isinstance(n.value.func, ast.Attribute) and n.value.func.attr == 'split':
            base = self.atom(n.value)
            lo = '(0 : Int)' if n.slice.lower is None else self.atom(n.slice.lower)
            hi = '((%s).length : Int)' % base if n.slice.upper is None else self.atom(n.slice.upper)
            return '(pySliceL %s %s %s)' % (lo, hi, base)
        if isinstance(n, ast.Call) and self.src(n.func) == 'OrderedDict' and not n.args and not n.keywords:
            return '([] : List (Phx.Str × Phx.PVal))'
        return super().e(n)

    def stmt0(self, s, ind):
        if isinstance(s, ast.Raise):
            if isinstance(s.exc, ast.Call) and self.src(s.exc.func) == 'ValueError':
                return ['%sreturn Phx.ProtOut.valueError' % ind]
            raise Unsupported('raise ' + self.src(s))
        if isinstance(s, ast.Return):
            if isinstance(s.value, ast.Name) and s.value.id == 'result':
                return ['%sreturn Phx.ProtOut.ok result' % ind]
            raise Unsupported('return ' + self.src(s.value))
        if isinstance(s, ast.Assign) and len(s.targets) == 1 and isinstance(s.targets[0], ast.Name) \
                and isinstance(s.value, ast.Call) and self.src(s.value.func) == '_parse_phoenix_line' and len(s.value.args) == 2 \
                and not s.value.keywords:
            x = s.targets[0].id
            self.declared[-1].add(x)
            self.pout_vars = getattr(self, 'pout_vars', set()) | {x}
            return ['%slet %s := parse_phoenix_line %s %s' % (ind, x, self.atom(s.value.args[0]), self.atom(s.value.args[1])),
                    '%sif %s == Phx.POut.parseError then' % (ind, x), '%s  return Phx.ProtOut.parseError' % ind]
        if isinstance(s, ast.If) and not s.orelse and isinstance(s.test, ast.Name) and s.test.id in getattr(self, 'pout_vars', ()) \
                and len(s.body) == 1 and isinstance(s.body[0], ast.Assign):
            x = s.test.id
            a = s.body[0]
            if len(a.targets) == 1 and self.src(a.targets[0]) == 'result[%s[0]]' % x and self.src(a.value) == '%s[1]' % x:
                # a parsed line is None (false) or the pair (key, value)
                return ['%sif let Phx.POut.pair k_ v_ := %s then' % (ind, x), '%s  result := Phx.setKey result k_ v_' % ind]
            raise Unsupported('use of the parse result: ' + self.src(a))
        if isinstance(s, ast.If) and not s.orelse and isinstance(s.test, ast.Name) and s.test.id in getattr(self, 'pout_vars', ()) \
                and len(s.body) == 2 and isinstance(s.body[0], ast.Assign) and isinstance(s.body[0].targets[0], ast.Tuple) \
                and len(s.body[0].targets[0].elts) == 2 and self.src(s.body[0].value) == s.test.id and isinstance(s.body[1], ast.Assign):
            a_, b_ = (self.src(t_) for t_ in s.body[0].targets[0].elts)
            if self.src(s.body[1].targets[0]) == 'result[%s]' % a_ and self.src(s.body[1].value) == b_:
                # `k, v = parse_result; result[k] = v`
                return ['%sif let Phx.POut.pair k_ v_ := %s then' % (ind, s.test.id), '%s  result := Phx.setKey result k_ v_' % ind]
        return Tr.stmt0(self, s, ind) if isinstance(s, (ast.If, ast.For, ast.Assign)) else super().stmt0(s, ind)


class TrOrient(Tr):
    """the `voxel_order` checks of `reorder_voxels`: strings are lists of characters, `s.upper()` is `Orient.upperC` on every
    character, `c in 'LRAPSI'` membership in the character list; the loop `for idx, x in enumerate(L): if c(x): del L[idx]`
    deletes from the list it iterates over — Python's list iterator then skips the element after a deleted one, which is
    `pyDelWhileIter`"""

    def e(self, n):
        if isinstance(n, ast.Constant) and isinstance(n.value, str):
            return '[%s]' % ', '.join("'%s'" % c for c in n.value)
        if isinstance(n, ast.List) and n.elts and all(isinstance(x, ast.Constant) and isinstance(x.value, str) for x in n.elts):
            return '[%s]' % ', '.join(self.e(x) for x in n.elts)
        if isinstance(n, ast.Call) and isinstance(n.func, ast.Attribute) and n.func.attr == 'upper' and not n.args:
            return '((%s).map Orient.upperC)' % self.e(n.func.value)
        return super().e(n)

    def stmt0(self, s, ind):
        if isinstance(s, ast.For) and not s.orelse and isinstance(s.iter, ast.Call) and self.src(s.iter.func) == 'enumerate' \
                and len(s.iter.args) == 1 and isinstance(s.iter.args[0], ast.Name) and isinstance(s.target, ast.Tuple) \
                and len(s.target.elts) == 2 and len(s.body) == 1 and isinstance(s.body[0], ast.If) and not s.body[0].orelse \
                and len(s.body[0].body) == 1 and isinstance(s.body[0].body[0], ast.Delete):
            L = s.iter.args[0].id
            idx, x = s.target.elts[0].id, s.target.elts[1].id
            d = s.body[0].body[0]
            if len(d.targets) == 1 and self.src(d.targets[0]) == '%s[%s]' % (L, idx):
                self.declared.append({x})
                cond = self.b(s.body[0].test)
                self.declared.pop()
                return ['%s%s := pyDelWhileIter (fun %s => %s) %s' % (ind, L, x, cond, L)]
        return super().stmt0(s, ind)


class TrRegexFilter(Tr):
    """`make_key_regex_filter` with its inner function: a compiled alternation `re.compile('|'.join(['(?:' + r + ')' for r in L]))`
    is the list `L` of its patterns, `X.search(key)` is `reSearch mtch X key` (some pattern of the alternation matches somewhere
    in the key — and the empty alternation, the pattern `''`, matches every key), `mtch` being the matching relation of single
    patterns; `a and not (b and c)` on match objects / None is the Boolean it is tested as"""

    def e(self, n):
        src = self.src(n)
        m_ = re.match(r"re\.compile\('\|'\.join\(\['\(\?:' \+ regex \+ '\)' for regex in (\w+)\]\)\)$", src)
        if m_:
            return m_.group(1)
        if isinstance(n, ast.Call) and isinstance(n.func, ast.Attribute) and n.func.attr == 'search' and len(n.args) == 1 \
                and isinstance(n.func.value, ast.Name):
            x = n.func.value.id
            if x in self.opt_locals:
                return '(match %s with | some r_ => reSearch mtch r_ %s | none => false)' % (x, self.atom(n.args[0]))
            return '(reSearch mtch %s %s)' % (x, self.atom(n.args[0]))
        return super().e(n)

    def b(self, n):
        if isinstance(n, ast.BoolOp) and isinstance(n.op, ast.And):
            vals, i_, parts = n.values, 0, []
            while i_ < len(vals):
                v_ = vals[i_]
                if isinstance(v_, ast.Name) and v_.id in self.opt_locals and i_ + 1 < len(vals) and isinstance(vals[i_ + 1], ast.Call) \
                        and self.src(vals[i_ + 1].func) == v_.id + '.search':
                    parts.append(self.e(vals[i_ + 1]))     # `x and x.search(k)`: None is false
                    i_ += 2
                else:
                    parts.append(self.b(v_))
                    i_ += 1
            return parts[0] if len(parts) == 1 else '(' + ' && '.join(parts) + ')'
        if isinstance(n, ast.Call):
            return self.e(n)
        if isinstance(n, ast.Name) and n.id in getattr(self, 'list_vars', ()):
            return '(!(%s).isEmpty)' % n.id       # truth value of a list
        return super().b(n)


class TrGroup(Tr):
    """the placement step of `parse_and_group`: `results` is the dictionary exact key → sub-results as an insertion-ordered
    association list (`List (E × List (C × List Nat))`; a file is its id), `close_list` the values compared with `np.allclose`
    (a list of optional values, `closeV` comparing two of them); `for c_list, sub_res in results[key]` walks the list stored
    under the key by position, so that `sub_res.append(x)` is written back to that position"""

    def e(self, n):
        src = self.src(n)
        if src == '(dcm, meta, dcm_path)':
            return 'item_id'
        if src == '[(dcm, meta, dcm_path)]':
            return '[item_id]'
        if src == '[(close_list, [(dcm, meta, dcm_path)])]':
            return '[(close_list, [item_id])]'
        if src == '(close_list, [(dcm, meta, dcm_path)])':
            return '(close_list, [item_id])'
        if isinstance(n, ast.Call) and self.src(n.func) == 'np.allclose' and len(n.args) == 2:
            return '(match %s, %s with | some a_, some b_ => closeV a_ b_ | _, _ => false)' % (self.optv(n.args[0]), self.optv(n.args[1]))
        if isinstance(n, ast.Name) and n.id in ('SUBS_', 'PAIR1_', 'PAIR2_'):
            return {'SUBS_': '(dictGet results key)', 'PAIR1_': 'pair_.1', 'PAIR2_': 'pair_.2'}[n.id]
        return super().e(n)

    def b(self, n):
        if isinstance(n, ast.Call):
            return self.e(n)
        if isinstance(n, ast.Compare) and len(n.ops) == 1 and isinstance(n.ops[0], (ast.In, ast.NotIn)) \
                and self.src(n.comparators[0]) == 'results':
            s_ = '(dictHas results %s)' % self.atom(n.left)
            return s_ if isinstance(n.ops[0], ast.In) else '(!%s)' % s_
        if isinstance(n, ast.Compare) and len(n.ops) == 1 and isinstance(n.ops[0], (ast.Is, ast.IsNot)) \
                and isinstance(n.comparators[0], ast.Constant) and n.comparators[0].value is None:
            # an optional close value: `c_val` / `close_list[c_idx]`
            s_ = '(%s).isNone' % self.optv(n.left)
            return s_ if isinstance(n.ops[0], ast.Is) else '(!%s)' % s_
        return super().b(n)

    def optv(self, n):
        if isinstance(n, ast.Subscript) and self.src(n.value) == 'close_list':
            return '((close_list)[%s]?).join' % self.e(n.slice)
        return self.e(n)

    def stmt0(self, s, ind):
        src = self.src(s)
        if isinstance(s, ast.Assign) and self.src(s.targets[0]) == 'results[key]':
            return ['%sresults := dictSet results key %s' % (ind, self.atom(s.value))]
        if isinstance(s, ast.Expr) and src.startswith('results[key].append('):
            return ['%sresults := dictSet results key ((dictGet results key) ++ [%s])' % (ind, self.e(s.value.args[0]))]
        if isinstance(s, ast.Expr) and src.startswith('sub_res.append('):
            return ['%sresults := dictSet results key ((dictGet results key).set sub_idx_ (c_list, sub_res ++ [%s]))'
                    % (ind, self.e(s.value.args[0]))]
        if isinstance(s, ast.For) and self.src(s.iter) == 'results[key]' and self.src(s.target) in ('(c_list, sub_res)', 'c_list, sub_res'):
            s2 = copy.copy(s)
            s2.iter = ast.parse('enumerate(SUBS_)').body[0].value
            s2.target = ast.Tuple(elts=[ast.Name(id='sub_idx_', ctx=ast.Store()), ast.Name(id='pair_', ctx=ast.Store())], ctx=ast.Store())
            s2.body = [ast.parse('c_list = PAIR1_').body[0], ast.parse('sub_res = PAIR2_').body[0]] + list(s.body)
            self.attrs.update({'SUBS_': '(dictGet results key)', 'PAIR1_': 'pair_.1', 'PAIR2_': 'pair_.2'})
            return super().stmt0(ast.fix_missing_locations(s2), ind)
        return super().stmt0(s, ind)


class TrContent(Tr):
    """a method that walks or edits the whole `_content` of an extension: the nested dictionaries are `content : Content κ α`, an
    association list classification → (insertion-ordered association list key → values); `self.get_class_dict(c)` and
    `self._content[c[0]][c[1]]` are `dictGet content c` (every valid classification has its dictionary: `make_empty`,
    `check_valid`), a local name bound to such a dictionary is an alias — reads go to `content`, `del alias[k]` and
    `alias.clear()` are written back to `content` — and `for base, sub in self.get_valid_classes()` binds the classification
    itself, `base` / `sub` being its two components"""

    def __init__(self, *a, **k):
        super().__init__(*a, **k)
        self.dict_alias = {}

    def class_expr(self, n):
        """the classification a dictionary expression belongs to, or None"""
        if isinstance(n, ast.Call) and self.src(n.func) == 'self.get_class_dict' and len(n.args) == 1:
            return self.atom(n.args[0])
        if isinstance(n, ast.Subscript) and isinstance(n.value, ast.Subscript) and self.src(n.value.value) == 'self._content':
            a, b = n.value.slice, n.slice
            pair = getattr(self, 'cls_pair', None)
            if pair and isinstance(a, ast.Name) and isinstance(b, ast.Name) and (a.id, b.id) == pair[:2]:
                return pair[2]
            if isinstance(a, ast.Subscript) and isinstance(b, ast.Subscript) and self.src(a.value) == self.src(b.value) \
                    and self.src(a.slice) == '0' and self.src(b.slice) == '1':
                return self.atom(a.value)
        if isinstance(n, ast.Name) and n.id in self.dict_alias:
            return self.dict_alias[n.id]
        return None

    def e(self, n):
        pair = getattr(self, 'cls_pair', None)
        if pair:
            if isinstance(n, ast.Tuple) and len(n.elts) == 2 and all(isinstance(x, ast.Name) for x in n.elts) \
                    and (n.elts[0].id, n.elts[1].id) == pair[:2]:
                return pair[2]
            if isinstance(n, ast.Name) and n.id == pair[0]:
                return '%s.base' % pair[2]
            if isinstance(n, ast.Name) and n.id == pair[1]:
                return '%s.sub' % pair[2]
        c = self.class_expr(n)
        if c is not None:
            return '(dictGet content %s)' % c
        if isinstance(n, ast.Call) and isinstance(n.func, ast.Attribute) and n.func.attr == 'keys' and not n.args:
            c = self.class_expr(n.func.value)
            if c is not None:
                return '((dictGet content %s).map (·.1))' % c
        if isinstance(n, ast.Call) and self.src(n.func) == 'iteritems' and len(n.args) == 1:
            return self.e(n.args[0])
        if isinstance(n, ast.Call) and isinstance(n.func, ast.Name) and n.func.id == 'filter_func' and len(n.args) == 2:
            return '(filter_func %s %s)' % (self.atom(n.args[0]), self.atom(n.args[1]))
        return super().e(n)

    def b(self, n):
        if isinstance(n, ast.Call) and isinstance(n.func, ast.Name) and n.func.id == 'filter_func':
            return self.e(n)
        return super().b(n)

    def stmt0(self, s, ind):
        if isinstance(s, ast.For) and self.src(s.iter) == 'self.get_valid_classes()' and isinstance(s.target, ast.Tuple) \
                and len(s.target.elts) == 2 and all(isinstance(x, ast.Name) for x in s.target.elts):
            s2 = copy.copy(s)
            s2.target = ast.Name(id='classes_', ctx=ast.Store())
            old = getattr(self, 'cls_pair', None)
            self.cls_pair = (s.target.elts[0].id, s.target.elts[1].id, 'classes_')
            out = super().stmt0(ast.fix_missing_locations(s2), ind)
            self.cls_pair = old
            return out
        if isinstance(s, ast.Assign) and len(s.targets) == 1 and isinstance(s.targets[0], ast.Name):
            c = self.class_expr(s.value)
            if c is not None and not isinstance(s.value, ast.Name):
                self.dict_alias[s.targets[0].id] = c        # the name is the dictionary itself, not a copy
                return []
        if isinstance(s, ast.Delete) and len(s.targets) == 1 and isinstance(s.targets[0], ast.Subscript):
            c = self.class_expr(s.targets[0].value)
            if c is not None:
                return ['%scontent := dictSet content %s (dictDel (dictGet content %s) %s)' % (ind, c, c, self.atom(s.targets[0].slice))]
        if isinstance(s, ast.Expr) and isinstance(s.value, ast.Call) and isinstance(s.value.func, ast.Attribute) \
                and s.value.func.attr == 'clear' and not s.value.args:
            c = self.class_expr(s.value.func.value)
            if c is not None:
                return ['%scontent := dictSet content %s []' % (ind, c)]
        return super().stmt0(s, ind)


class TrInsertWhole(TrContent):
    """`DcmMetaExtension._insert` as a whole.  `other` is its nested dictionaries `other_content : Content κ α` (as `TrContent`),
    `self` the per-key view `kc : KContent κ α` (key ↦ the classification dictionaries seen from that key, the `KeyDict` the
    per-key methods are translated over).  The two loops `for key in other_keys` are the translated `reclassify` and
    `insert_dispatch` applied to the entry of `key` (their bodies are the statements those two functions are translated
    from — checked); `other.get_values_and_class(key)`, which the insertion methods start with, is
    `Content.valuesAndClass` on `other_content`.  The comparison of the slice normals is the parameter `use_slices`.
    The result is the pair of what `self` holds afterwards (or the exception of the `try` block) and what `other` holds"""

    def class_expr(self, n):
        if isinstance(n, ast.Call) and self.src(n.func) == 'other.get_class_dict' and len(n.args) == 1:
            return self.atom(n.args[0])
        if isinstance(n, ast.Subscript) and isinstance(n.value, ast.Subscript) and self.src(n.value.value) == 'other._content':
            a, b = n.value.slice, n.slice
            if isinstance(a, ast.Subscript) and isinstance(b, ast.Subscript) and self.src(a.value) == self.src(b.value) \
                    and self.src(a.slice) == '0' and self.src(b.slice) == '1':
                return self.atom(a.value)
        return None

    def e(self, n):
        src = self.src(n)
        if src == '(tried_, other_content)':
            return '(tried_, other_content)'
        if src == 'kc':
            return 'kc'
        if src == 'set(other.get_keys())':
            return '(← get_keys other_shape other_content)'
        if src == '[key for key in self.get_keys() if key not in other_key_set]':
            return '((KContent.keys (← get_valid_classes self_shape) kc).filter fun key => !(other_key_set).contains key)'
        if isinstance(n, ast.Call) and isinstance(n.func, ast.Name) and n.func.id == 'list' and len(n.args) == 1:
            return self.e(n.args[0])
        if isinstance(n, ast.Subscript) and self.src(n.value) == 'other_slc_meta':
            return '(dictGet other_slc_meta %s)' % self.atom(n.slice)
        if isinstance(n, ast.Dict) and not n.keys:
            return '[]'
        return super().e(n).replace('dictGet content ', 'dictGet other_content ')

    def stmt0(self, s, ind):
        src = self.src(s)
        if isinstance(s, ast.Assign) and len(s.targets) == 1:
            t = s.targets[0]
            if isinstance(t, ast.Subscript) and self.src(t.value) == 'other_slc_meta':
                return ['%sother_slc_meta := dictSet other_slc_meta %s %s' % (ind, self.atom(t.slice), self.atom(s.value))]
            c = self.class_expr(t)
            if c is not None:
                return ['%sother_content := dictSet other_content %s %s' % (ind, c, self.atom(s.value))]
        if isinstance(s, ast.For) and self.src(s.iter) == 'other_keys' and self.src(s.target) == 'key' and not s.orelse:
            first = self.src(s.body[0])
            if first.startswith('local_classes = self.get_classification(key)') and self.body_text(s.body) == self.reclassify_text:
                return ['%sfor key in other_keys do' % ind,
                        '%s  kc := KContent.set kc key (← reclassify null self_shape self_n_slices (KContent.get kc key) bases other_classes)' % ind]
            if len(s.body) == 1 and isinstance(s.body[0], ast.If) and self.src(s.body[0].test) == 'dim == self.slice_dim' \
                    and self.body_text(s.body) == self.dispatch_text:
                return ['%sfor key in other_keys do' % ind,
                        '%s  let ov_ := Content.valuesAndClass (← get_valid_classes other_shape) other_content key' % ind,
                        '%s  kc := KContent.set kc key (← insert_dispatch null self_shape self_n_slices (KContent.get kc key) self_slice_dim bases '
                        'other_shape other_n_slices (match ov_ with | some p_ => p_.2 | none => [null]) (ov_.map (·.1)) dim)' % ind]
            raise Unsupported('a loop over other_keys that is neither the reclassification nor the insertion loop')
        if isinstance(s, ast.Try) and s.finalbody and not s.handlers and not s.orelse:
            # try: B finally: F — B is the separately translated `insert_try` (it edits `kc`, what `self` holds, and yields it or
            # the exception); F runs either way; the function returns both, so that what F restores is visible on the exception path
            out = ['%slet tried_ : Except PyErr (KContent κ α) := insert_try null self_shape self_n_slices self_slice_dim bases kc '
                   'other_shape other_n_slices other_content dim' % ind]
            out += self.block(s.finalbody, ind)
            return out
        return super().stmt0(s, ind)

    @staticmethod
    def body_text(stmts):
        return '\n'.join(ast.unparse(x) for x in stmts)


class TrChkOrder(Tr):
    """the thorough check of `_chk_order`: `_files_info[i][1]` is the sorting tuple (vector, time, position)"""
    PROJ = {0: '.1', 1: '.2.1', 2: '.2.2'}

    def e(self, n):
        if isinstance(n, ast.Subscript) and isinstance(n.slice, ast.Constant) and n.slice.value in self.PROJ:
            v = n.value
            if isinstance(v, ast.Subscript) and isinstance(v.slice, ast.Constant) and v.slice.value == 1:
                inner = v.value
                if self.src(inner) == 'file_info':
                    return 'file_info' + self.PROJ[n.slice.value]
                if isinstance(inner, ast.Subscript) and self.src(inner.value) == 'self._files_info':
                    return '((files)[%s]!)%s' % (self.e(inner.slice), self.PROJ[n.slice.value])
        if isinstance(n, ast.Subscript) and self.src(n.value) == 'self._files_info' and not isinstance(n.slice, ast.Slice):
            return '(files)[%s]!' % self.e(n.slice)
        return super().e(n)

    def ret(self, n):
        return '()'


class TrGetMeta(Tr):
    """the index block of get_meta: `return values[i]` reads the list (IndexError when out of range),
    `return default` is `none`"""

    def ret(self, n):
        if isinstance(n, ast.Name) and n.id == 'default':
            return 'none'
        if isinstance(n, ast.Name) and n.id == 'values':
            return '(values.head?)'            # the value of a constant: the one element of its list
        if isinstance(n, ast.Subscript) and isinstance(n.value, ast.Name) and n.value.id == 'values':
            return '(some (← pyIndex values %s))' % self.atom(n.slice)
        return super().ret(n)


PRELUDE = '''/- GENERATED by tools/gen_code.py from /repo/src/dcmstack — do not edit. -/
import DcmVerif.Generated.Tables
set_option autoImplicit false
set_option linter.unusedVariables false
open Cls

/-- the Python exceptions the translated functions raise -/
inductive PyErr
  | valueError
  | indexError
  | assertionError
  | invalidStack
  | invalidExtension
  | fuelExhausted | unboundLocal | zeroDivision | typeError | keyError | nonImageDataSet | incongruentImage | imageCollision        -- a translated `while` loop ran longer than the bound the translator gave it
deriving DecidableEq, Repr

/-- a classification as the pair of strings the Python code unpacks it into -/
def Cls.base : Cls → String
  | gconst | gslices => "global"
  | tsamples | tslices => "time"
  | vsamples | vslices => "vector"

def Cls.sub : Cls → String
  | gconst => "const"
  | gslices | tslices | vslices => "slices"
  | tsamples | vsamples => "samples"

/-- `(base, sub)` as a classification, for a base name held in a variable -/
def Cls.ofBaseSub (base sub : String) : Cls :=
  if sub == "samples" then (if base == "time" then .tsamples else .vsamples)
  else (if base == "time" then .tslices else if base == "vector" then .vslices else .gslices)

/-- `values[start::step]` for `step ≥ 1` (Python raises `ValueError` for a zero step; callers guard) -/
def pyStepAux {α : Type} (step : Nat) : Nat → List α → List α
  | _, [] => []
  | 0, a :: l => a :: pyStepAux step (step - 1) l
  | k + 1, _ :: l => pyStepAux step k l

def pyStep {α : Type} (values : List α) (start step : Nat) : List α := pyStepAux step 0 (values.drop start)

/-- one edit of the classification dictionaries for one key -/
inductive KeyOp (α : Type)
  | write (c : Cls) (v : List α)     -- `get_class_dict(c)[key] = v`
  | del (c : Cls)                    -- `del get_class_dict(c)[key]`

/-- what a method does to the classification dictionaries for one key, in order -/
abbrev KeyFx (α : Type) := List (KeyOp α)

def KeyFx.write {α : Type} (fx : KeyFx α) (c : Cls) (v : List α) : KeyFx α := fx ++ [KeyOp.write c v]
def KeyFx.del {α : Type} (fx : KeyFx α) (c : Cls) : KeyFx α := fx ++ [KeyOp.del c]

/-- the classification dictionaries of one extension seen from one key: the classes whose dictionary holds the key, with the
    values stored there (a constant is a one-element list) -/
abbrev KeyDict (α : Type) := List (Cls × List α)

/-- `get_values_and_class(key)`: `get_classification` scans the valid classes in order -/
def KeyDict.valuesAndClass {α : Type} (valid : List Cls) (d : KeyDict α) : Option (Cls × List α) :=
  valid.findSome? fun c => d.find? fun p => p.1 == c

/-- `get_class_dict(c)[key] = v` -/
def KeyDict.set {α : Type} (d : KeyDict α) (c : Cls) (v : List α) : KeyDict α :=
  if d.any (fun p => p.1 == c) then d.map (fun p => if p.1 == c then (c, v) else p) else d ++ [(c, v)]

/-- `key in get_class_dict(c)` -/
def KeyDict.has {α : Type} (d : KeyDict α) (c : Cls) : Bool := d.any fun p => p.1 == c

/-- `get_class_dict(c)[key]` (KeyError when absent) -/
def KeyDict.get {α : Type} (d : KeyDict α) (c : Cls) : Except PyErr (List α) :=
  match d.find? fun p => p.1 == c with
  | some p => .ok p.2
  | none => .error PyErr.keyError

/-- `del get_class_dict(c)[key]` (KeyError when absent) -/
def KeyDict.del {α : Type} (d : KeyDict α) (c : Cls) : Except PyErr (KeyDict α) :=
  if d.any (fun p => p.1 == c) then .ok (d.filter fun p => !(p.1 == c)) else .error PyErr.keyError

/-- replay recorded edits on the dictionaries of the key -/
def KeyDict.applyFx {α : Type} : KeyDict α → KeyFx α → Except PyErr (KeyDict α)
  | d, [] => .ok d
  | d, KeyOp.write c v :: rest => KeyDict.applyFx (d.set c v) rest
  | d, KeyOp.del c :: rest =>
    match KeyDict.del d c with
    | .ok d' => KeyDict.applyFx d' rest
    | .error e => .error e

/-- `shape[slice_dim]` for a `slice_dim` that may be None (TypeError) -/
def pyShapeAt (shape : List Nat) (slice_dim : Option Nat) : Except PyErr Nat :=
  match slice_dim with
  | some d => .ok shape[d]!
  | none => .error PyErr.typeError

/-- a value that must not be None where it is used (`None * 2`, `range(None)`: TypeError) -/
def pyGet {β : Type} : Option β → Except PyErr β
  | some b => .ok b
  | none => .error PyErr.typeError

/-- `np.min` of a non-empty array (ValueError for an empty one) -/
def npMin : List Int → Except PyErr Int
  | [] => .error PyErr.valueError
  | x :: xs => .ok (xs.foldl min x)

/-- `d[key]` of a dictionary entry that may be absent (KeyError) -/
def pyGetKey {β : Type} : Option β → Except PyErr β
  | some b => .ok b
  | none => .error PyErr.keyError

/-- Python's `xs[a:b]` on a list, for possibly negative or oversized bounds -/
def pySliceBound (len : Nat) (i : Int) : Nat :=
  if i < 0 then (if (-i).toNat ≤ len then len - (-i).toNat else 0) else min i.toNat len
def pySliceL {β : Type} (a b : Int) (l : List β) : List β :=
  ((l.take (pySliceBound l.length b)).drop (pySliceBound l.length a))

/-- `for idx, x in enumerate(L): if p(x): del L[idx]` — the list is edited while it is iterated over: after a deletion the list
    has moved left under the iterator, so the element that followed the deleted one is not visited -/
def pyDelWhileIter {β : Type} (p : β → Bool) : List β → List β
  | [] => []
  | a :: rest =>
    if p a then
      match rest with
      | [] => []
      | nxt :: rest' => nxt :: pyDelWhileIter p rest'
    else a :: pyDelWhileIter p rest

/-- `re.compile('|'.join('(?:' + r + ')' for r in L)).search(key)`: some alternative matches somewhere in the key; the empty
    alternation is the pattern `''`, which matches every key -/
def reSearch {ρ κ : Type} (mtch : ρ → κ → Bool) (L : List ρ) (key : κ) : Bool :=
  if L.isEmpty then true else L.any fun r => mtch r key

/-- a dictionary as an association list in insertion order -/
def dictHas {κ' β : Type} [DecidableEq κ'] (d : List (κ' × β)) (k : κ') : Bool := d.any fun p => p.1 == k
def dictGet {κ' β : Type} [DecidableEq κ'] [Inhabited β] (d : List (κ' × β)) (k : κ') : β :=
  match d.find? fun p => p.1 == k with
  | some p => p.2
  | none => default
def dictSet {κ' β : Type} [DecidableEq κ'] (d : List (κ' × β)) (k : κ') (v : β) : List (κ' × β) :=
  if d.any (fun p => p.1 == k) then d.map (fun p => if p.1 == k then (k, v) else p) else d ++ [(k, v)]

/-- `del d[k]` of an association-list dictionary -/
def dictDel {κ' β : Type} [DecidableEq κ'] (d : List (κ' × β)) (k : κ') : List (κ' × β) := d.filter fun p => !(p.1 == k)
/-- `DcmMetaExtension._content` without its top-level entries: classification ↦ dictionary key ↦ values, both in insertion order -/
abbrev Content (κ α : Type) := List (Cls × List (κ × List α))

/-- the classification dictionaries of an extension seen key by key: key ↦ the classifications holding it, with the values -/
abbrev KContent (κ α : Type) := List (κ × KeyDict α)
def KContent.get {κ α : Type} [DecidableEq κ] (kc : KContent κ α) (k : κ) : KeyDict α := dictGet kc k
def KContent.set {κ α : Type} [DecidableEq κ] (kc : KContent κ α) (k : κ) (d : KeyDict α) : KContent κ α := dictSet kc k d
/-- `get_keys()`: the keys some valid classification holds -/
def KContent.keys {κ α : Type} (valid : List Cls) (kc : KContent κ α) : List κ :=
  (kc.filter fun p => (KeyDict.valuesAndClass valid p.2).isSome).map (·.1)
/-- `get_values_and_class(key)` on the nested dictionaries: the first valid classification whose dictionary has the key -/
def Content.valuesAndClass {κ α : Type} [DecidableEq κ] (valid : List Cls) (content : Content κ α) (k : κ) : Option (Cls × List α) :=
  valid.findSome? fun c => ((dictGet content c).find? fun p => p.1 == k).map fun p => (c, p.2)

/-- `a // b` of naturals: `ZeroDivisionError` for a zero divisor -/
def pyFloorDiv (a b : Nat) : Except PyErr Nat := if b == 0 then .error PyErr.zeroDivision else .ok (a / b)

/-- `values[i]` for a non-negative index -/
def pyIndex {α : Type} (values : List α) (i : Nat) : Except PyErr α :=
  match values[i]? with
  | some a => .ok a
  | none => .error PyErr.indexError

'''

GROUP_OF = {
    'get_valid_classes': 'classes', 'get_multiplicity': 'classes', 'make_empty_bases': 'dicts', 'get_classification': 'dicts',
    'get_values_and_class': 'dicts', 'get_values': 'dicts',
    'get_const_period': 'simplify', '_get_const_period': 'simplify', 'is_constant': 'simplify', 'is_repeating': 'simplify', 'simplify': 'simplify',
    'meta_valid': 'lookup', 'get_meta_index': 'lookup', 'get_meta': 'lookup',
    'check_valid': 'valid',
    'insert_whole': 'insertall', 'insert_try': 'insertall',
    'get_keys': 'content', 'filter_meta': 'content', 'clear_slice_meta': 'content',
    'subset_shape': 'shapes', 'merge_shape': 'shapes',
    'split_specs': 'wrapsplit', 'split_trim': 'wrapsplit',
    'wrap_merge_shape': 'wrapmerge', 'fill_specs': 'wrapmerge',
    'get_shape_counts': 'stack', 'chk_order_check': 'stack',
    'global_slice_subset': 'values', 'insert_slice_interleave': 'values', 'insert_sample_interleave': 'values',
    'copy_slice_dest': 'values', 'copy_slice_vals': 'values', 'get_changed_class': 'values',
    'copy_slice': 'subset', 'copy_sample': 'subset', 'get_subset_key': 'subset',
    'reclassify': 'insert', 'insert_dispatch': 'insert', 'change_class': 'insert', 'insert_slice': 'insert', 'insert_non_slice': 'insert', 'insert_sample': 'insert',
    'ignore_private': 'extract', 'ignore_pixel_data': 'extract', 'ignore_overlay_data': 'extract', 'ignore_color_lut_data': 'extract',
    'cli_out_name': 'cli',
    'group_place': 'group',
    'key_regex_filter': 'filter',
    'check_voxel_order': 'orient',
    'parse_phoenix_line': 'phoenix',
    'parse_phoenix_prot': 'phoenix',
    'header_slice_times': 'header', 'header_dim_info': 'header',
    'chk_equal': 'stackadd', 'chk_close': 'stackadd', 'chk_congruent': 'stackadd', 'add_dcm': 'stackadd',
    'get_data_trim': 'data', 'file_idx_volume': 'data', 'file_idx_slice': 'data', 'get_data': 'data',
}
GROUP_IMPORTS = {
    'classes': ['DcmVerif.Generated.PyPrelude'],
    'simplify': ['DcmVerif.Generated.Code_classes'],
    'lookup': ['DcmVerif.Generated.PyPrelude'],
    'valid': ['DcmVerif.Generated.Code_classes', 'DcmVerif.Model.Valid'],
    'shapes': ['DcmVerif.Generated.PyPrelude'],
    'wrapsplit': ['DcmVerif.Generated.PyPrelude', 'DcmVerif.Model.Wrap'],
    'wrapmerge': ['DcmVerif.Generated.PyPrelude', 'DcmVerif.Model.Wrap'],
    'stack': ['DcmVerif.Generated.PyPrelude'],
    'data': ['DcmVerif.Generated.PyPrelude', 'DcmVerif.Model.Wrap'],
    'values': ['DcmVerif.Generated.Code_classes'],
    'dicts': ['DcmVerif.Generated.Code_classes'],
    'insert': ['DcmVerif.Generated.Code_values'],
    'subset': ['DcmVerif.Generated.Code_values', 'DcmVerif.Generated.Code_simplify'],
    'stackadd': ['DcmVerif.Generated.PyPrelude', 'DcmVerif.Model.StackAdd'],
    'header': ['DcmVerif.Generated.PyPrelude'],
    'phoenix': ['DcmVerif.Generated.PyPrelude', 'DcmVerif.Model.Phoenix'],
    'orient': ['DcmVerif.Generated.PyPrelude', 'DcmVerif.Model.Orient'],
    'filter': ['DcmVerif.Generated.PyPrelude'],
    'group': ['DcmVerif.Generated.PyPrelude'],
    'cli': ['DcmVerif.Generated.PyPrelude', 'DcmVerif.Model.Cli'],
    'extract': ['DcmVerif.Generated.PyPrelude', 'DcmVerif.Model.Extract'],
    'content': ['DcmVerif.Generated.Code_classes'],
    'insertall': ['DcmVerif.Generated.Code_insert', 'DcmVerif.Generated.Code_content'],
}
GEN_DIR = os.environ.get('GEN_CODE_DIR', os.path.normpath(os.path.join(HERE, '..', 'lean', 'DcmVerif', 'Generated')))


def group_of(name):
    return GROUP_OF.get(name.split(':')[0].strip(), 'classes')



def translate():
    missing = []
    bufs = {grp: [] for grp in GROUP_IMPORTS}

    class _Out:
        """appends go to the buffer of the group of the function being emitted"""
        cur = 'classes'

        def append(self, x):
            bufs[self.cur].append(x)

        def extend(self, xs):
            bufs[self.cur].extend(xs)
    out = _Out()
    dm = ast.parse(open(os.path.join(REPO, 'src', 'dcmstack', 'dcmmeta.py')).read())
    ds = ast.parse(open(os.path.join(REPO, 'src', 'dcmstack', 'dcmstack.py')).read())

    def emit(name, sig, fn_body, tr, doc, prologue=(), run='do'):
        out.cur = group_of(name)
        try:
            tr.mutable = tr.assigned_more_than_once(fn_body) | set(getattr(tr, 'pre_declared', ())) | set(getattr(tr, 'force_mutable', ()))
            tr.declared = [set(getattr(tr, 'pre_declared', ()))]
            lines = ['  ' + l for l in prologue] + tr.block(fn_body, '  ')
            out.append('/-- %s -/' % doc)
            out.append('def %s %s := %s' % (name, sig, run))
            out.extend(lines)
            out.append('')
        except Unsupported as e:
            missing.append('%s: %s' % (name, e))
        except Exception as e:                 # malformed / unexpected AST: same routing
            missing.append('%s: %r' % (name, e))

    # ---- get_valid_classes
    f = find_func(dm, 'DcmMetaExtension', 'get_valid_classes')
    if f is None:
        missing.append('get_valid_classes: not found')
    else:
        emit('get_valid_classes', '(self_shape : List Nat) : Except PyErr (List Cls)', f.body,
             Tr({'self.shape': 'self_shape', 'self.classifications': 'Gen.classifications'}, {}),
             '`DcmMetaExtension.get_valid_classes` (dcmmeta.py), translated statement by statement')
    # ---- get_multiplicity
    f = find_func(dm, 'DcmMetaExtension', 'get_multiplicity')
    if f is None:
        missing.append('get_multiplicity: not found')
    else:
        emit('get_multiplicity', '(self_shape : List Nat) (self_n_slices : Option Nat) (classification : Cls) : Except PyErr Nat',
             f.body,
             Tr({'self.shape': 'self_shape', 'self.n_slices': 'self_n_slices'},
                {'self.get_valid_classes()': 'get_valid_classes self_shape'},
                optional_exprs=['self.n_slices'], cls_vars=['classification']),
             '`DcmMetaExtension.get_multiplicity` (dcmmeta.py), translated statement by statement')
    # ---- get_subset: shape of the result
    f = find_func(dm, 'DcmMetaExtension', 'get_subset')
    blk = None
    if f is not None:
        names = [s.targets[0].id if isinstance(s, ast.Assign) and isinstance(s.targets[0], ast.Name) else None for s in f.body]
        if 'result_shape' in names:
            i0 = names.index('result_shape')
            j0 = i0
            while j0 + 1 < len(f.body) and not (isinstance(f.body[j0 + 1], ast.Assign) and names[j0 + 1] == 'result'):
                j0 += 1
            blk = f.body[i0:j0 + 1]
    if blk is None or not any(isinstance(s, ast.While) for s in blk):
        missing.append('subset_shape: statements result_shape = … while … not found')
    else:
        tr = Tr({}, {})
        tr.while_fuel = '(shape).length'
        emit('subset_shape', '(shape : List Nat) (dim : Nat) : Except PyErr (List Nat)',
             blk + [ast.parse('return result_shape').body[0]], tr,
             'the shape of the result of `DcmMetaExtension.get_subset` (dcmmeta.py): the split axis set to one, trailing '
             'singleton axes beyond the third removed; the `while` loop is bounded by the number of axes (exceeding the '
             'bound is the error `fuelExhausted`, which the equivalence theorem excludes)')
    # ---- from_sequence (extension): shape of the result
    f = find_func(dm, 'DcmMetaExtension', 'from_sequence')
    blk = None
    if f is not None:
        names = [s.targets[0].id if isinstance(s, ast.Assign) and isinstance(s.targets[0], ast.Name) else None for s in f.body]
        if 'output_shape' in names:
            i0 = names.index('output_shape')
            blk = f.body[i0:i0 + 3]
    if blk is None or not (len(blk) == 3 and isinstance(blk[1], ast.While)):
        missing.append('merge_shape: statements output_shape = … while … output_shape[dim] = … not found')
    else:
        tr = Tr({}, {})
        tr.while_fuel = 'dim + 1'
        emit('merge_shape', '(input_shape : List Nat) (dim n_inputs : Nat) : Except PyErr (List Nat)',
             blk + [ast.parse('return output_shape').body[0]], tr,
             'the shape of the result of `DcmMetaExtension.from_sequence` (dcmmeta.py): padded with ones up to the merge '
             'axis, the number of inputs on it; the `while` loop is bounded by `dim + 1`')
    # ---- NiftiWrapper.split: the index expression per axis and the trimming loop
    f = find_func(dm, 'NiftiWrapper', 'split')
    init = loop = None
    if f is not None:
        for s in f.body:
            if isinstance(s, ast.Assign) and isinstance(s.targets[0], ast.Name) and s.targets[0].id == 'slices':
                init = s
            if isinstance(s, ast.For) and isinstance(s.target, ast.Name) and s.target.id == 'idx':
                loop = s
    spec_if = trim_while = None
    if loop is not None:
        for s in loop.body:
            if isinstance(s, ast.If) and 'slices[dim]' in ast.unparse(s):
                spec_if = s
            if isinstance(s, ast.While) and 'split_data' in ast.unparse(s.test):
                trim_while = s
    if init is None or spec_if is None:
        missing.append('split_specs: `slices = [slice(None)] * len(shape)` / `slices[dim] = …` not found')
    else:
        tr = Tr({}, {})
        tr.spec_lists = {'slices'}
        emit('split_specs', '(shape : List Nat) (dim idx : Nat) : Except PyErr (List Wrap.Spec)',
             [init, spec_if, ast.parse('return slices').body[0]], tr,
             'the index expression `NiftiWrapper.split` builds for piece `idx` (dcmmeta.py): `slice(None)` on every axis, '
             'an integer on a trailing non-spatial split axis, `slice(idx, idx + 1)` on any other split axis')
    if trim_while is None:
        missing.append('split_trim: `while split_data.ndim > 3 …` not found')
    else:
        tr = Tr({'split_data.ndim': '(split_data.shape).length', 'split_data.shape[-1]': '(split_data.shape)[(split_data.shape).length - 1]!',
                 'split_data[..., 0]': 'split_data.dropLast0'}, {})
        tr.while_fuel = '(split_data_.shape).length'
        emit('split_trim', '{α : Type} (split_data_ : Wrap.Arr α) : Except PyErr (Wrap.Arr α)',
             [ast.parse('split_data = split_data_').body[0], trim_while, ast.parse('return split_data').body[0]], tr,
             'the trimming loop of `NiftiWrapper.split` (dcmmeta.py) on the piece\'s voxel array; bounded by its number of axes')
    # ---- NiftiWrapper.from_sequence: result shape and the index expression the inputs are written through
    f = find_func(dm, 'NiftiWrapper', 'from_sequence')
    blk = None
    ds_init = ds_loop = ds_set = None
    if f is not None:
        names = [s.targets[0].id if isinstance(s, ast.Assign) and isinstance(s.targets[0], ast.Name) else None for s in f.body]
        if 'result_shape' in names:
            i0 = names.index('result_shape')
            blk = f.body[i0:i0 + 3]
        for i, s in enumerate(f.body):
            if isinstance(s, ast.Assign) and isinstance(s.targets[0], ast.Name) and s.targets[0].id == 'data_slices':
                ds_init = s
                if i + 1 < len(f.body) and isinstance(f.body[i + 1], ast.For):
                    ds_loop = f.body[i + 1]
        for node in ast.walk(f):
            if isinstance(node, ast.Assign) and ast.unparse(node.targets[0]) == 'data_slices[dim]':
                ds_set = node
    if blk is None or not (len(blk) == 3 and isinstance(blk[1], ast.While)):
        missing.append('wrap_merge_shape: statements result_shape = … while … result_shape[dim] = … not found')
    else:
        tr = Tr({}, {})
        tr.while_fuel = 'dim + 1'
        emit('wrap_merge_shape', '(shape : List Nat) (dim n_inputs : Nat) : Except PyErr (List Nat)',
             blk + [ast.parse('return result_shape').body[0]], tr,
             'the shape of the array `NiftiWrapper.from_sequence` allocates (dcmmeta.py)')
    if ds_init is None or ds_loop is None or ds_set is None:
        missing.append('fill_specs: data_slices statements not found')
    else:
        tr = Tr({}, {})
        tr.spec_lists = {'data_slices'}
        emit('fill_specs', '(result_shape : List Nat) (dim input_idx : Nat) : Except PyErr (List Wrap.Spec)',
             [ds_init, ds_loop, ds_set, ast.parse('return data_slices').body[0]], tr,
             'the index expression input `input_idx` is written through in `NiftiWrapper.from_sequence` (dcmmeta.py): 0 on '
             'every axis of length one of the result, the input number on the merge axis, `slice(None)` elsewhere')
    # ---- value-list arithmetic of get_subset / from_sequence (group `values`)
    def find_stmt(body, pred):
        for node in body:
            for sub in ast.walk(node):
                if isinstance(sub, ast.stmt) and pred(sub):
                    return sub
        return None

    def stmts_between(body, first_pred, last_pred):
        """consecutive statements of one statement list, from the first matching `first_pred` to the one matching `last_pred`"""
        for node in [None] + [x for b in body for x in ast.walk(b)]:
            lst_candidates = [body] if node is None else [getattr(node, f) for f in ('body', 'orelse') if isinstance(getattr(node, f, None), list)]
            for lst in lst_candidates:
                for i, st in enumerate(lst):
                    if isinstance(st, ast.stmt) and first_pred(st):
                        for j in range(i, len(lst)):
                            if last_pred(lst[j]):
                                return lst[i:j + 1]
        return None

    def is_assign_to(name):
        return lambda st: isinstance(st, ast.Assign) and len(st.targets) == 1 and ast.unparse(st.targets[0]) == name

    # _global_slice_subset: the whole function over the value list of the key
    f = find_func(dm, 'DcmMetaExtension', '_global_slice_subset')
    if f is None:
        missing.append('global_slice_subset: not found')
    else:
        tr = Tr({'self.n_slices': 'self_n_slices', 'self.shape': 'self_shape', 'src_dict[key]': 'vals'},
                {'self.get_valid_classes()': 'get_valid_classes self_shape'})
        tr.skip_assign = {'src_dict'}
        tr.list_vars = {'result', 'vals'}
        emit('global_slice_subset', '{α : Type} (self_shape : List Nat) (self_n_slices : Nat) (vals : List α) (sample_base : String) (idx : Nat) : Except PyErr (List α)',
             f.body, tr,
             '`DcmMetaExtension._global_slice_subset` (dcmmeta.py), translated statement by statement; `src_dict[key]` (the '
             'values of the key under global slices) is the parameter `vals`, `self.n_slices` a number (the caller has a slice dimension)')
    # _insert_slice: the interleaving block
    f = find_func(dm, 'DcmMetaExtension', '_insert_slice')
    blk = None
    if f is not None:
        blk = stmts_between(f.body, is_assign_to('n_slices'), lambda st: isinstance(st, ast.For) and 'intlv' in ast.unparse(st))
    if blk is None:
        missing.append('insert_slice_interleave: statements n_slices = … for vol_idx in range(n_vols) … not found')
    else:
        tr = Tr({'self.n_slices': 'self_n_slices', 'other.n_slices': 'other_n_slices_', 'self.shape': 'self_shape'}, {})
        tr.list_vars = {'intlv', 'local_vals', 'other_vals'}
        emit('insert_slice_interleave', '{α : Type} (self_shape : List Nat) (self_n_slices other_n_slices_ : Nat) (local_vals other_vals : List α) : Except PyErr (List α)',
             blk + [ast.parse('return intlv').body[0]], tr,
             'the interleaving block of `DcmMetaExtension._insert_slice` (dcmmeta.py): per volume, the slices held so far followed by the new ones')
    # _insert_sample: the interleaving block (time merge of 5-D extensions)
    f = find_func(dm, 'DcmMetaExtension', '_insert_sample')
    blk = None
    if f is not None:
        blk = stmts_between(f.body, is_assign_to('n_slices'), lambda st: isinstance(st, ast.For) and 'intlv' in ast.unparse(st))
    if blk is None:
        missing.append('insert_sample_interleave: statements n_slices = … for vec_idx in range(shape[4]) … not found')
    else:
        tr = Tr({'self.n_slices': 'self_n_slices', 'other.shape[3]': 'other_shape_3', 'self.shape': 'self_shape'}, {})
        tr.list_vars = {'intlv', 'local_vals', 'other_vals'}
        emit('insert_sample_interleave', '{α : Type} (self_shape : List Nat) (self_n_slices other_shape_3 : Nat) (local_vals other_vals : List α) : Except PyErr (List α)',
             [ast.parse('shape = self.shape').body[0]] + blk + [ast.parse('return intlv').body[0]], tr,
             'the interleaving block of `DcmMetaExtension._insert_sample` (dcmmeta.py): per vector component, the time points held so far followed by the new ones')
    # _copy_slice: destination class and the values stored for one key
    f = find_func(dm, 'DcmMetaExtension', '_copy_slice')
    if f is None or not isinstance(f.body[1] if len(f.body) > 1 else None, ast.If):
        missing.append('copy_slice_dest: not found')
        missing.append('copy_slice_vals: not found')
    else:
        tr = Tr({}, {}, cls_vars=['src_class'])
        tr.attrs['self.get_valid_classes()'] = 'valid'
        tr.hoist = {'dest_class': 'Cls.gconst'}
        emit('copy_slice_dest', '(valid : List Cls) (src_class : Cls) : Except PyErr Cls',
             [f.body[1], ast.parse('return dest_class').body[0]], tr,
             'the destination class chosen by `DcmMetaExtension._copy_slice` (dcmmeta.py); `self.get_valid_classes()` (of the result) is the parameter `valid`')
        loop = [st for st in f.body if isinstance(st, ast.For) and 'subset_vals' in ast.unparse(st)]
        if not loop:
            missing.append('copy_slice_vals: loop not found')
        else:
            body = [st for st in loop[0].body if not (isinstance(st, ast.Assign) and ast.unparse(st.targets[0]).startswith('dest_dict['))
                    and not (isinstance(st, ast.Expr) and '_simplify' in ast.unparse(st))]
            tr = Tr({}, {})
            tr.list_vars = {'subset_vals', 'full_vals', 'vals'}
            # a constant is a one-element list in the model: `subset_vals = subset_vals[0]` keeps the list
            tr.stmt_map = {'if len(subset_vals) == 1:': []}
            tr.div_guard = True
            emit('copy_slice_vals', '{α : Type} (vals : List α) (idx stride dest_mult : Nat) : Except PyErr (List α)',
                 body + [ast.parse('return subset_vals').body[0]], tr,
                 'the values `DcmMetaExtension._copy_slice` stores for one key (dcmmeta.py, body of its loop): every `stride`-th value from '
                 '`idx`, repeated up to the multiplicity of the destination; a single value is kept as a one-element list')
    # _get_changed_class
    f = find_func(dm, 'DcmMetaExtension', '_get_changed_class')
    if f is None:
        missing.append('get_changed_class: not found')
    else:
        tr = Tr({'self.shape[slice_dim]': '(← pyShapeAt self_shape slice_dim)',
                 'self.shape': 'self_shape', 'self._preserving_changes[curr_class]': '(preserving curr_class)',
                 'curr_class == new_class': '(curr_class == some new_class)'},
                {'self.get_valid_classes()': 'get_valid_classes self_shape',
                 'self.get_multiplicity(_0)': 'get_multiplicity self_shape self_n_slices {0}'},
                cls_vars=['curr_class', 'new_class'])
        tr.opt_params = {'curr_class'}
        tr.list_vars = {'result', 'values'}
        tr.hoist = {'curr_mult': '0', 'per_slice': 'false', 'new_mult': '0', 'result': '[]'}
        tr.div_guard = True
        # representation: the values of a key are a list; a constant (or an absent key, read as None) is a one-element list
        tr.stmt_map = {'values, curr_class = self.get_values_and_class(key)': [],
                       "if curr_class is None or curr_class == ('global', 'const'):": [],
                       "if new_class == ('global', 'const'):": ["if (new_class == Cls.gconst) then", "  result := (result.head?).toList"]}
        emit('get_changed_class', '{α : Type} (self_shape : List Nat) (self_n_slices : Option Nat) (values : List α) (curr_class : Option Cls) (new_class : Cls) (slice_dim : Option Nat) : Except PyErr (List α)',
             f.body, tr,
             '`DcmMetaExtension._get_changed_class` (dcmmeta.py), translated statement by statement over the value list of the key: '
             '`get_values_and_class(key)` is the parameters `values` / `curr_class`; a constant (and the `None` of an absent key) is a '
             'one-element list, so `values = [values]` is the identity and `result[0]` keeps the list')
    # ---- per-key dictionary edits of merges (group `insert`): _change_class, _insert_slice, _insert_non_slice, _insert_sample
    KD_SIG = ('{α : Type} [DecidableEq α] (null : α) (self_shape : List Nat) (self_n_slices : Option Nat) (d : KeyDict α) ')
    f = find_func(dm, 'DcmMetaExtension', '_change_class')
    if f is None:
        missing.append('change_class: not found')
    else:
        tr = TrKeyDict({'curr_class == new_class': '(curr_class == some new_class)'},
                       {'self._get_changed_class(key, _0)':
                        'get_changed_class self_shape self_n_slices values curr_class {0} none'},
                       cls_vars=['new_class'])
        tr.allow_absent = True
        tr.opt_locals = {'curr_class'}
        emit('change_class', KD_SIG + '(new_class : Cls) : Except PyErr (KeyDict α)',
             f.body + [ast.parse('return').body[0]], tr,
             '`DcmMetaExtension._change_class` (dcmmeta.py) for one key, translated statement by statement over `KeyDict` (the classes '
             'holding the key); falling off the end returns the edited dictionaries',
             prologue=['let mut d_ := d'])
    other_attrs = {'self.slice_dim': 'self_slice_dim', 'self.n_slices': '(← pyGet self_n_slices)', 'other.n_slices': '(← pyGet other_n_slices)',
                   'self.shape': 'self_shape', 'other.shape[3]': '(other_shape)[3]!', 'self._content': 'content'}
    OTHER_SIG = ('(self_slice_dim : Option Nat) (content : List String) (other_shape : List Nat) (other_n_slices : Option Nat) '
                 '(other_values : List α) (other_class : Option Cls)')

    def other_calls(classes):
        return {'other._get_changed_class(key, _0, self.slice_dim)':
                'get_changed_class other_shape other_n_slices other_values other_class {0} self_slice_dim'}
    for nm, extra_sig in (('_insert_slice', ''), ('_insert_non_slice', ''), ('_insert_sample', ' (sample_base : String)')):
        f = find_func(dm, 'DcmMetaExtension', nm)
        lean_nm = nm.lstrip('_')
        if f is None:
            missing.append(lean_nm + ': not found')
            continue
        tr = TrKeyDict(dict(other_attrs),
                       other_calls({'classes': 'classes', "('global', 'slices')": 'Cls.gslices',
                                    "(dest_base, 'slices')": '(Cls.ofBaseSub dest_base "slices")',
                                    "(sample_base, 'samples')": '(Cls.ofBaseSub sample_base "samples")'}),
                       cls_vars=['classes'])
        tr.base_vars = {'dest_base', 'sample_base'}
        tr.list_vars = {'local_vals', 'other_vals', 'intlv'}
        emit(lean_nm, KD_SIG + OTHER_SIG + extra_sig + ' : Except PyErr (KeyDict α)',
             f.body + [ast.parse('return').body[0]], tr,
             '`DcmMetaExtension.%s` (dcmmeta.py) for one key, translated statement by statement: the dictionaries of `self` are the '
             '`KeyDict` `d`, `other` is read through its shape, slice count and the key\'s values / class; '
             '`local_vals` is an alias of the stored list (`extend` writes it back under the class it was read from)' % nm,
             prologue=['let mut d_ := d'])
    # _insert: the reclassification of one key (body of its first loop over `other_keys`)
    f = find_func(dm, 'DcmMetaExtension', '_insert')
    body = None
    if f is not None:
        for node in ast.walk(f):
            if isinstance(node, ast.For) and node.body and ast.unparse(node.body[0]).startswith('local_classes = self.get_classification(key)'):
                body = node.body
    if body is None:
        missing.append('reclassify: loop with local_classes = self.get_classification(key) not found in _insert')
    else:
        tr = TrKeyDict({'self._preserving_changes[local_classes]': '(preserving local_classes)',
                        'self._preserving_changes[other_classes]': '(preserving (some other_classes))',
                        'local_classes != other_classes': '(local_classes != some other_classes)',
                        'local_classes in other_allow': '(match local_classes with | some lc_ => other_allow.contains lc_ | none => false)',
                        'self._content': 'content', 'best_dest = None': ''},
                       {}, cls_vars=['other_classes', 'dest_class'])
        tr.opt_locals = {'best_dest'}
        tr.stmt_map = {'best_dest = None': ['let mut best_dest : Option Cls := none']}
        tr.stmt_map_declares = {'best_dest = None': ['best_dest']}
        emit('reclassify', KD_SIG + '(content : List String) (other_classes : Cls) : Except PyErr (KeyDict α)',
             body + [ast.parse('return').body[0]], tr,
             'the reclassification `DcmMetaExtension._insert` applies to one key before inserting (dcmmeta.py, body of its first '
             'loop over the keys of `other`): widen the class `self` holds the key under to the class `other` uses, or to the first '
             'class both can be widened to',
             prologue=['let mut d_ := d'])
    # ---- DicomStack.add_dcm and the congruence checks (group `stackadd`)
    for nm, sig, mp in (('_chk_equal', '(keys : List String) (meta1 meta2 : String → Nat) : Except PyErr Unit', {}),
                        ('_chk_close', '(keys : List String) (meta1 meta2 : String → List Int) : Except PyErr Unit',
                         {'np.allclose(meta1[key], meta2[key], atol=5e-05)': '(Stk.closeList (meta1 key) (meta2 key))'})):
        f = find_func(ds, 'DicomStack', nm)
        if f is None:
            missing.append(nm.lstrip('_') + ': not found')
            continue
        tr = TrStackAdd(dict(mp, **{'meta1[key]': '(meta1 key)', 'meta2[key]': '(meta2 key)'}), {})
        tr.ret_unit = True
        emit(nm.lstrip('_'), sig, f.body + [ast.parse('return 0').body[0]], tr,
             '`DicomStack.%s` (dcmstack.py), translated statement by statement; a meta data dictionary is a function of the key%s'
             % (nm, '; `np.allclose(a, b, atol=5e-5)` is `Stk.closeList` (values on the 1e-6 lattice)' if mp else ''))
    f = find_func(ds, 'DicomStack', '_chk_congruent')
    if f is None:
        missing.append('chk_congruent: not found')
    else:
        tr = TrStackAdd({'self._ref_input': 'ref'}, {
            "self._chk_close(('PixelSpacing', 'ImageOrientationPatient'), meta, self._ref_input)":
                'chk_close ["PixelSpacing", "ImageOrientationPatient"] c.closeMeta ref.closeMeta',
            "self._chk_equal(('Rows', 'Columns'), meta, self._ref_input)":
                'chk_equal ["Rows", "Columns"] c.eqMeta ref.eqMeta'})
        tr.ret_unit = True
        tr.stmt_map = {'if not self._ref_input is None:': None}
        body = f.body
        # `if not self._ref_input is None:` binds the reference input
        if len(body) == 1 and isinstance(body[0], ast.If) and ast.unparse(body[0].test) in ('not self._ref_input is None', 'self._ref_input is not None') and not body[0].orelse:
            inner = body[0].body
            lines = []
            try:
                tr.declared = [set()]
                for st_ in inner:
                    if not (isinstance(st_, ast.Expr) and ast.unparse(st_.value) in tr.calls):
                        raise Unsupported('statement in _chk_congruent: ' + ast.unparse(st_))
                    lines.append('    %s' % tr.calls[ast.unparse(st_.value)])
                out.cur = group_of('chk_congruent')
                out.append('/-- `DicomStack._chk_congruent` (dcmstack.py): with a reference input, its spacing / orientation must be close and its matrix size equal; the meta data of the candidate and of the reference input are read through `Cand.closeMeta` / `Cand.eqMeta` -/')
                out.append('def chk_congruent (ref : Option Stk.Cand) (c : Stk.Cand) : Except PyErr Unit := do')
                out.append('  if let some ref := ref then')
                out.extend(lines)
                out.append('  return ()')
                out.append('')
            except Unsupported as e:
                missing.append('chk_congruent: %s' % e)
        else:
            missing.append('chk_congruent: unexpected shape')
    f = find_func(ds, 'DicomStack', 'add_dcm')
    if f is None:
        missing.append('add_dcm: not found')
    else:
        tr = TrStackAdd({'is_image(dcm)': 'c.isImage', 'dw.slice_indicator': 'c.f.p', 'self._sorting_tuples': 'st_.tuples',
                         'self._time_order': 'time_order', 'self._vector_order': 'vector_order', 'self._ref_input': 'st_.ref',
                         'self._time_order.get_ordinate(meta)': 't_ord', 'self._vector_order.get_ordinate(meta)': 'v_ord',
                         "meta.get('InPlanePhaseEncodingDirection')": 'c.pe', "meta.get('RepetitionTime')": 'c.tr',
                         '(vector_val, time_val, slice_pos)': '(vector_val, time_val, slice_pos)',
                         '(nii_wrp, sorting_tuple)': 'c.f', 'NiftiWrapper.from_dicom_wrapper(dw, meta)': '(some c)',
                         'not self._time_order is None': 'time_order', 'not self._vector_order is None': 'vector_order',
                         'self._ref_input is None': '(st_.ref).isNone', 'not nii_wrp is None': '(nii_wrp).isSome'},
                        {'self._chk_congruent(meta)': 'chk_congruent st_.ref c'})
        tr.stmt_map = {'if meta is None:': [], 'dw = wrapper_from_data(dcm)': [],
                       'time_val = None': ['let mut time_val := none_code'], 'vector_val = None': ['let mut vector_val := none_code'],
                       'nii_wrp = None': ['let mut nii_wrp : Option Stk.Cand := none'],
                       'self._chk_congruent(meta)': ['if let .error e_ := chk_congruent st_.ref c then', '  return (st_, some e_)']}
        tr.stmt_map_declares = {'time_val = None': ['time_val'], 'vector_val = None': ['vector_val'], 'nii_wrp = None': ['nii_wrp']}
        tr.persist = True
        emit('add_dcm', '(time_order vector_order : Bool) (none_code t_ord v_ord : Int) (st : Stk.AddSt) (c : Stk.Cand) : Stk.AddSt × Option PyErr',
             f.body + [ast.parse('return').body[0]], tr,
             '`DicomStack.add_dcm` (dcmstack.py), translated statement by statement over the attributes it reads and writes '
             '(`Stk.AddSt`) and what it looks at in the dataset (`Stk.Cand`): `is_image`, the slice indicator, the ordinates the '
             'orderings compute (`t_ord`, `v_ord`; None is `none_code`), repetition time and phase-encoding direction; the sets of '
             'single ordinates (`_slice_pos_vals`, `_time_vals`, `_vector_vals`) are projections of `_sorting_tuples` and are not kept. '
             'An exception leaves the attributes as they are at that point: the result is the state together with the exception raised, if any',
             prologue=['let mut st_ := st'], run='Id.run do')
    # _insert: which insertion a key gets (body of its second loop over `other_keys`)
    body2 = None
    f = find_func(dm, 'DcmMetaExtension', '_insert')
    if f is not None:
        for node in ast.walk(f):
            if isinstance(node, ast.For) and len(node.body) == 1 and isinstance(node.body[0], ast.If) \
                    and ast.unparse(node.body[0].test) == 'dim == self.slice_dim':
                body2 = node.body
    if body2 is None:
        missing.append('insert_dispatch: loop with `if dim == self.slice_dim:` not found in _insert')
    else:
        args = 'null self_shape self_n_slices d_ self_slice_dim content other_shape other_n_slices other_values other_class'
        tr = TrKeyDict({'dim == self.slice_dim': '(some dim == self_slice_dim)'}, {})
        tr.stmt_map = {'self._insert_slice(key, other)': ['d_ := (← insert_slice %s)' % args],
                       'self._insert_non_slice(key, other)': ['d_ := (← insert_non_slice %s)' % args],
                       "self._insert_sample(key, other, 'time')": ['d_ := (← insert_sample %s "time")' % args],
                       "self._insert_sample(key, other, 'vector')": ['d_ := (← insert_sample %s "vector")' % args]}
        emit('insert_dispatch', KD_SIG + OTHER_SIG + ' (dim : Nat) : Except PyErr (KeyDict α)',
             body2 + [ast.parse('return').body[0]], tr,
             'which insertion `DcmMetaExtension._insert(dim, other)` applies to one key (dcmmeta.py, body of its second loop over the '
             'keys of `other`): along the slice axis, another spatial axis, time, vector — and nothing for any other `dim`',
             prologue=['let mut d_ := d'])
    # ---- _insert as a whole (group `insertall`)
    f = find_func(dm, 'DcmMetaExtension', '_insert')
    body1 = body2 = None
    if f is not None:
        for node in ast.walk(f):
            if isinstance(node, ast.For) and node.body and ast.unparse(node.body[0]).startswith('local_classes = self.get_classification(key)'):
                body1 = node.body
            if isinstance(node, ast.For) and len(node.body) == 1 and isinstance(node.body[0], ast.If) \
                    and ast.unparse(node.body[0].test) == 'dim == self.slice_dim':
                body2 = node.body
    if f is None or body1 is None or body2 is None:
        missing.append('insert_whole: _insert or its two loops not found')
    else:
        tr = TrInsertWhole({'self.slice_dim': 'self_slice_dim'},
                           {'other.get_valid_classes()': 'get_valid_classes other_shape'}, cls_vars=['classes', 'other_classes'])
        tr.reclassify_text = TrInsertWhole.body_text(body1)
        tr.dispatch_text = TrInsertWhole.body_text(body2)
        tr.list_vars = {'other_keys', 'missing_keys'}
        tr.stmt_map = {'use_slices = self_slc_norm is not None and other_slc_norm is not None and np.allclose(self_slc_norm, other_slc_norm)': [],
                       'other_slc_meta = {}': ['let mut other_slc_meta : Content κ α := []']}
        tr.stmt_map_declares = {'other_slc_meta = {}': ['other_slc_meta']}
        tr.pre_declared = {'kc', 'other_content'}
        tr.force_mutable = {'other_keys'}
        try_stmt = next((st for st in f.body if isinstance(st, ast.Try) and st.finalbody and not st.handlers and not st.orelse), None)
        if try_stmt is None:
            missing.append('insert_try: no try / finally statement in _insert')
        else:
            tr_try = TrInsertWhole({'self.slice_dim': 'self_slice_dim'},
                                   {'other.get_valid_classes()': 'get_valid_classes other_shape'}, cls_vars=['classes', 'other_classes'])
            tr_try.reclassify_text, tr_try.dispatch_text = tr.reclassify_text, tr.dispatch_text
            tr_try.list_vars = {'other_keys', 'missing_keys'}
            tr_try.pre_declared = {'kc'}
            tr_try.force_mutable = {'other_keys'}
            emit('insert_try', '{κ α : Type} [DecidableEq κ] [DecidableEq α] (null : α) (self_shape : List Nat) (self_n_slices : Option Nat) '
                 '(self_slice_dim : Option Nat) (bases : List String) (kc0 : KContent κ α) (other_shape : List Nat) (other_n_slices : Option Nat) '
                 '(other_content : Content κ α) (dim : Nat) : Except PyErr (KContent κ α)',
                 try_stmt.body + [ast.parse('return kc').body[0]], tr_try,
                 'the `try` block of `DcmMetaExtension._insert(dim, other)` (dcmmeta.py): the keys only `self` has are handled with the '
                 'constant class of `other`; per classification of `other`, first the reclassification and then the insertion of '
                 'every key. `other_content` is what `other` holds while the block runs',
                 prologue=['let mut kc := kc0'])
        emit('insert_whole', '{κ α : Type} [DecidableEq κ] [DecidableEq α] (null : α) (self_shape : List Nat) (self_n_slices : Option Nat) '
             '(self_slice_dim : Option Nat) (bases : List String) (kc0 : KContent κ α) (other_shape : List Nat) (other_n_slices : Option Nat) '
             '(other0 : Content κ α) (use_slices : Bool) (dim : Nat) : Except PyErr (Except PyErr (KContent κ α) × Content κ α)',
             f.body + [ast.parse('return (tried_, other_content)').body[0]], tr,
             '`DcmMetaExtension._insert(dim, other)` (dcmmeta.py) as a whole: the per-slice dictionaries of `other` put aside when the '
             'slice normals differ and put back at the end, the keys only `self` has handled with the constant class of `other`, and '
             'per classification of `other` first the reclassification and then the insertion of every key. The result is what `self` '
             'holds afterwards — or the exception the `try` block ended with — together with what `other` holds afterwards (the '
             '`finally` block runs either way); an exception outside the `try` block is the outer error',
             prologue=['let kc := kc0', 'let mut other_content := other0'])
    # ---- per-key dictionary edits of subsets (group `subset`): _copy_slice, _copy_sample for one key of `other`
    def per_key(stmts):
        """the body of the method for one key: loops over the keys of `src_dict` are replaced by their bodies"""
        out_ = []
        for st in stmts:
            if isinstance(st, ast.For) and ast.unparse(st.iter) in ('iteritems(src_dict)', 'src_dict.keys()') and not st.orelse:
                out_ += per_key(st.body)
                continue
            st = copy.copy(st)
            for fld in ('body', 'orelse'):
                if isinstance(getattr(st, fld, None), list) and getattr(st, fld):
                    setattr(st, fld, per_key(getattr(st, fld)))
            out_.append(st)
        return out_
    SUB_SIG = ('{α : Type} [DecidableEq α] (null : α) (self_shape : List Nat) (self_n_slices : Option Nat) (content : List String) '
               '(d : KeyDict α) ')
    sub_attrs = {'self.get_valid_classes()': 'valid_', 'other.n_slices': '(← pyGet other_n_slices)', 'self.n_slices': '(← pyGet self_n_slices)',
                 'other.shape[3]': '(other_shape)[3]!', 'self._preserving_changes[src_class]': '(preserving (some src_class))',
                 'deepcopy(vals[idx])': '[(← pyIndex vals idx)]'}
    f = find_func(dm, 'DcmMetaExtension', '_copy_slice')
    if f is None:
        missing.append('copy_slice: not found')
    else:
        tr = TrKeyDict(dict(sub_attrs), {'self.get_multiplicity(_0)': 'get_multiplicity self_shape self_n_slices {0}'},
                       cls_vars=['src_class', 'dest_class'])
        tr.hoist = {'dest_class': 'Cls.gconst'}
        tr.list_vars = {'subset_vals', 'full_vals', 'vals'}
        tr.skip_assign = {'src_dict'}
        tr.stmt_map = {'if len(subset_vals) == 1:': []}
        tr.div_guard = True
        emit('copy_slice', SUB_SIG + '(other_n_slices : Option Nat) (src_class : Cls) (vals : List α) (idx : Nat) : Except PyErr (KeyDict α)',
             per_key(f.body) + [ast.parse('return').body[0]], tr,
             '`DcmMetaExtension._copy_slice` (dcmmeta.py) for one key of `other` held under `src_class` with the values `vals` (the loop '
             'over the keys is replaced by its body): destination class, strided and repeated values, write, `_simplify`',
             prologue=['let mut d_ := d', 'let valid_ ← get_valid_classes self_shape'])
    f = find_func(dm, 'DcmMetaExtension', '_copy_sample')
    if f is None:
        missing.append('copy_sample: not found')
    else:
        tr = TrKeyDict(dict(sub_attrs),
                       {'self.get_multiplicity(_0)': 'get_multiplicity self_shape self_n_slices {0}',
                        'other._global_slice_subset(key, sample_base, idx)':
                            'global_slice_subset other_shape (← pyGet other_n_slices) vals sample_base idx'},
                       cls_vars=['src_class', 'dest_cls', 'dest_class'])
        tr.opt_locals = {'best_dest'}
        tr.leak_vars = {'dest_cls'}
        tr.list_vars = {'vals', 'subset_vals'}
        tr.skip_assign = {'src_dict'}
        tr.stmt_map = {'best_dest = None': ['let mut best_dest : Option Cls := none']}
        tr.stmt_map_declares = {'best_dest = None': ['best_dest']}
        emit('copy_sample', SUB_SIG + '(other_shape : List Nat) (other_n_slices : Option Nat) (src_class : Cls) (vals : List α) '
             '(sample_base : String) (idx : Nat) : Except PyErr (KeyDict α)',
             per_key(f.body) + [ast.parse('return').body[0]], tr,
             '`DcmMetaExtension._copy_sample` (dcmmeta.py) for one key of `other` held under `src_class` with the values `vals`',
             prologue=['let mut d_ := d', 'let valid_ ← get_valid_classes self_shape'])
    # ---- DicomStack.to_nifti: slice times handed to set_slice_times (group `header`)
    f = find_func(ds, 'DicomStack', 'to_nifti')
    blk = None
    if f is not None:
        for i_, st in enumerate(f.body):
            if isinstance(st, ast.Assign) and ast.unparse(st.targets[0]) == 'has_acq_time' and i_ + 1 < len(f.body) \
                    and isinstance(f.body[i_ + 1], ast.If):
                outer = copy.deepcopy(f.body[i_ + 1])
                last = outer.body[-1] if outer.body else None
                if isinstance(last, ast.If) and ast.unparse(last.test) == 'is_consistent and (not np.allclose(slice_times, 0.0))' \
                        and not last.orelse and not outer.orelse:
                    last.body = [ast.parse('return slice_times').body[0]]     # in place of the call of set_slice_times
                    blk = [st, outer, ast.parse('return None').body[0]]
    if blk is None:
        missing.append('header_slice_times: statements has_acq_time = … if files_per_vol > 1 and has_acq_time: … not found')
    else:
        tr = TrHeader({'self._files_info': 'files'}, {})
        tr.ret_optional = True
        emit('header_slice_times', '(files_per_vol n_vols n_slices : Nat) (files : List (Option Int)) : Except PyErr (Option (List Int))',
             blk, tr,
             'the slice-timing block of `DicomStack.to_nifti` (dcmstack.py): the relative acquisition times of the first volume when '
             'every file has a time, every later volume shows the same relative times and they are not all zero; the result is '
             'what the code hands to `set_slice_times` (None: nothing is set)')
    # ---- get_subset: what happens to one key of the parent held under `src_class` (body of the loop over the classes)
    f = find_func(dm, 'DcmMetaExtension', 'get_subset')
    loop = None
    if f is not None:
        for st in f.body:
            if isinstance(st, ast.For) and ast.unparse(st.target) == 'src_class' and ast.unparse(st.iter) == 'valid_classes':
                loop = st

    def per_key_parent(stmts):
        out_ = []
        for st in stmts:
            if isinstance(st, ast.For) and ast.unparse(st.iter) == 'iteritems(self.get_class_dict(src_class))' and not st.orelse:
                out_ += per_key_parent(st.body)
                continue
            st = copy.copy(st)
            for fld in ('body', 'orelse'):
                if isinstance(getattr(st, fld, None), list) and getattr(st, fld):
                    setattr(st, fld, per_key_parent(getattr(st, fld)))
            out_.append(st)
        return out_
    if loop is None:
        missing.append('get_subset_key: loop over valid_classes not found')
    else:
        call = ('copy_%s null r_shape r_n_slices r_content d_ %sself_n_slices src_class vals %sidx')
        tr = TrKeyDict({'dim == self.slice_dim': '(some dim == self_slice_dim)'}, {}, cls_vars=['src_class'])
        tr.stmt_map = {
            'result.get_class_dict(src_class)[key] = deepcopy(val': ['d_ := d_.set src_class vals'],
            'continue': ['return d_'],
            'result._copy_slice(self, src_class, idx)': ['d_ := (← ' + call % ('slice', '', '') + ')'],
            "result._copy_sample(self, src_class, 'time', idx)": ['d_ := (← ' + call % ('sample', 'self_shape ', '"time" ') + ')'],
            "result._copy_sample(self, src_class, 'vector', idx)": ['d_ := (← ' + call % ('sample', 'self_shape ', '"vector" ') + ')'],
        }
        emit('get_subset_key', '{α : Type} [DecidableEq α] (null : α) (self_shape : List Nat) (self_n_slices self_slice_dim : Option Nat) '
             '(r_shape : List Nat) (r_n_slices : Option Nat) (r_content : List String) (d : KeyDict α) '
             '(src_class : Cls) (vals : List α) (dim idx : Nat) : Except PyErr (KeyDict α)',
             per_key_parent(loop.body) + [ast.parse('return').body[0]], tr,
             'what `DcmMetaExtension.get_subset(dim, idx)` (dcmmeta.py) does with one key of the parent held under `src_class` with the '
             'values `vals` (body of its loop over the valid classes, the loops over the keys replaced by their bodies): `d` is what '
             'the result holds for the key so far, `r_*` describe the result made by `make_empty`',
             prologue=['let mut d_ := d'])
    # ---- the dictionaries a new extension gets (make_empty), and where a key is looked up (get_classification & co)
    f = find_func(dm, 'DcmMetaExtension', 'make_empty')
    if f is None:
        missing.append('make_empty_bases: not found')
    else:
        body = []
        ok_ = True
        for st in f.body:
            src_ = ast.unparse(st)
            if isinstance(st, ast.Expr) and isinstance(st.value, ast.Constant):
                continue
            if src_.startswith('result = klass('):
                body.append(ast.parse('content = []').body[0])
            elif isinstance(st, ast.If):
                st2 = copy.deepcopy(st)
                new_body = []
                for sub in st2.body:
                    t_ = ast.unparse(sub)
                    m_ = re.match(r"result\._content\['(\w+)'\] = OrderedDict\(\)$", t_)
                    if m_:
                        new_body.append(ast.parse("content.append('%s')" % m_.group(1)).body[0])
                    elif re.match(r"result\._content\['\w+'\]\['\w+'\] = OrderedDict\(\)$", t_):
                        continue
                    else:
                        ok_ = False
                st2.body = new_body
                if st2.orelse:
                    ok_ = False
                body.append(st2)
            else:
                m_ = re.match(r"result\._content\['(global|time|vector)'\] = OrderedDict\(\)$", src_)
                if m_:
                    body.append(ast.parse("content.append('%s')" % m_.group(1)).body[0])
        if not ok_:
            missing.append('make_empty_bases: unexpected statement in a conditional of make_empty')
        else:
            tr = Tr({}, {})
            emit('make_empty_bases', '(shape : List Nat) : Except PyErr (List String)', body + [ast.parse('return content').body[0]], tr,
                 'the base dictionaries `DcmMetaExtension.make_empty` creates (dcmmeta.py): `result._content[b] = OrderedDict()` is '
                 'recorded as `b` (the sub-dictionaries `const` / `samples` / `slices` always come with their base)')
    f = find_func(dm, 'DcmMetaExtension', 'get_classification')
    g = find_func(dm, 'DcmMetaExtension', 'get_values_and_class')
    if f is None or g is None:
        missing.append('get_values_and_class: not found')
    else:
        class ClsLoop(ast.NodeTransformer):
            """`for base_class, sub_class in …`: the pair is one classification"""
            def visit_For(self, node):
                self.generic_visit(node)
                if ast.unparse(node.target) in ('(base_class, sub_class)', 'base_class, sub_class'):
                    node.target = ast.Name(id='cls_', ctx=ast.Store())
                return node

            def visit_Tuple(self, node):
                if ast.unparse(node) == '(base_class, sub_class)':
                    return ast.Name(id='cls_', ctx=ast.Load())
                return node
        f2 = ast.fix_missing_locations(ClsLoop().visit(copy.deepcopy(f)))
        tr = Tr({'key in self._content[base_class][sub_class]': '(KeyDict.has d cls_)'}, {'self.get_valid_classes()': 'get_valid_classes self_shape'})
        tr.ret_optional = True
        emit('get_classification', '{α : Type} (self_shape : List Nat) (d : KeyDict α) : Except PyErr (Option Cls)', f2.body, tr,
             '`DcmMetaExtension.get_classification` (dcmmeta.py) for one key: `d` lists the classes whose dictionary holds the key')
        tr = Tr({'(None, None)': 'none', '(self.get_class_dict(classification)[key], classification)':
                 '(some (classification, (← KeyDict.get d classification)))'},
                {'self.get_classification(key)': 'get_classification self_shape d'})
        tr.opt_params = {'classification'}
        emit('get_values_and_class', '{α : Type} (self_shape : List Nat) (d : KeyDict α) : Except PyErr (Option (Cls × List α))', g.body, tr,
             '`DcmMetaExtension.get_values_and_class` (dcmmeta.py) for one key')
        def classification_local(fn):
            """the local bound to `self.get_classification(key)` is called `classification`, whatever the source calls it"""
            fn = copy.deepcopy(fn)
            names = [st.targets[0].id for st in fn.body if isinstance(st, ast.Assign) and len(st.targets) == 1
                     and isinstance(st.targets[0], ast.Name) and ast.unparse(st.value) == 'self.get_classification(key)']
            if len(names) == 1 and names[0] != 'classification':
                for n in ast.walk(fn):
                    if isinstance(n, ast.Name) and n.id == names[0]:
                        n.id = 'classification'
            return fn
        gv = find_func(dm, 'DcmMetaExtension', 'get_values')
        if gv is None:
            missing.append('get_values: not found')
        else:
            gv = classification_local(gv)
            tr = Tr({'self.get_class_dict(classification)[key]': '(← KeyDict.get d classification)'},
                    {'self.get_classification(key)': 'get_classification self_shape d'})
            tr.opt_params = {'classification'}
            tr.ret_optional = True
            emit('get_values', '{α : Type} (self_shape : List Nat) (d : KeyDict α) : Except PyErr (Option (List α))', gv.body, tr,
                 '`DcmMetaExtension.get_values` (dcmmeta.py) for one key')
    # ---- DicomStack.to_nifti: repetition time and dim_info (group `header`)
    f = find_func(ds, 'DicomStack', 'to_nifti')
    blk = None
    if f is not None:
        for i_, st in enumerate(f.body):
            if isinstance(st, ast.If) and 'self._repetition_times' in ast.unparse(st.test):
                j_ = i_
                while j_ < len(f.body) and not (isinstance(f.body[j_], ast.Expr) and 'set_dim_info' in ast.unparse(f.body[j_])):
                    j_ += 1
                if j_ < len(f.body):
                    blk = f.body[i_:j_]
    if blk is None:
        missing.append('header_dim_info: statements from the repetition-time test to set_dim_info not found')
    else:
        tr = Tr({'self._repetition_times': 'trs', 'self._phase_enc_dirs': 'pes',
                 'None in self._repetition_times': '(trs.contains none)', 'None in self._phase_enc_dirs': '(pes.contains none)',
                 'list(self._repetition_times)[0]': '(← pyGet (trs)[0]!)', 'list(self._phase_enc_dirs)[0]': '(← pyGet (pes)[0]!)',
                 "phase_dir == 'ROW'": '(phase_dir == 0)'}, {})
        tr.stmt_map = {"nifti_header['pixdim'][4] = ": None, "dim_info = {'freq': None, 'phase': None, 'slice': slice_dim}":
                       ['let mut di_freq : Option Nat := none', 'let mut di_phase : Option Nat := none', 'let di_slice := some slice_dim']}

        class DimInfo(ast.NodeTransformer):
            """`dim_info['phase'] = x` → `di_phase = Some(x)`; `pixdim[4] = x` → `tr_out = Some(x)`"""
            def visit_Assign(self, node):
                t_ = ast.unparse(node.targets[0])
                if t_ in ("dim_info['phase']", "dim_info['freq']"):
                    return ast.copy_location(ast.Assign(targets=[ast.Name(id='di_' + t_[10:-2], ctx=ast.Store())],
                                                        value=ast.Call(func=ast.Name(id='SOME_', ctx=ast.Load()), args=[node.value], keywords=[])), node)
                if t_ == "nifti_header['pixdim'][4]":
                    return ast.copy_location(ast.Assign(targets=[ast.Name(id='tr_out', ctx=ast.Store())],
                                                        value=ast.Call(func=ast.Name(id='SOME_', ctx=ast.Load()), args=[node.value], keywords=[])), node)
                return node
        body = [ast.fix_missing_locations(DimInfo().visit(copy.deepcopy(st))) for st in blk]
        tr.attrs['SOME_(_0)'] = '(some {0})'
        tr.attrs['(tr_out, di_freq, di_phase, di_slice)'] = '(tr_out, di_freq, di_phase, di_slice)'
        del tr.stmt_map["nifti_header['pixdim'][4] = "]
        tr.stmt_map['tr_out = None'] = ['let mut tr_out : Option Int := none']
        tr.stmt_map_declares = {'tr_out = None': ['tr_out'],
                                "dim_info = {'freq': None, 'phase': None, 'slice': slice_dim}": ['di_freq', 'di_phase', 'di_slice']}
        body = [ast.parse('tr_out = None').body[0]] + body
        emit('header_dim_info', '(trs : List (Option Int)) (pes : List (Option Nat)) (permutation : List Nat) (slice_dim : Nat) : '
             'Except PyErr (Option Int × Option Nat × Option Nat × Option Nat)',
             body + [ast.parse('return (tr_out, di_freq, di_phase, di_slice)').body[0]], tr,
             'the repetition time and the `dim_info` that `DicomStack.to_nifti` writes (dcmstack.py): `_repetition_times` / '
             '`_phase_enc_dirs` are the sets as lists (phase direction 0 = ROW), the dictionary `dim_info` is its three entries, '
             '`pixdim[4]` the first component of the result')
    # ---- _parse_phoenix_line (group `phoenix`)
    ex = ast.parse(open(os.path.join(REPO, 'src', 'dcmstack', 'extract.py')).read())
    f = find_func(ex, None, '_parse_phoenix_line')
    if f is None:
        missing.append('parse_phoenix_line: not found')
    else:
        tr = TrPhoenix({}, {})
        tr.pre_declared = {'line'}
        emit('parse_phoenix_line', '(line0 : Phx.Str) (str_delim : Phx.Str) : Phx.POut', f.body, tr,
             '`_parse_phoenix_line` (extract.py), translated statement by statement over lists of characters; the string methods and '
             'number conversions are the functions of `Model/Phoenix.lean`',
             prologue=['let mut line := line0'], run='Id.run do')
    f = find_func(ex, None, 'parse_phoenix_prot')
    if f is None:
        missing.append('parse_phoenix_prot: not found')
    else:
        tr = TrPhoenixProt({}, {})
        tr.force_mutable = {'result'}
        emit('parse_phoenix_prot', '(prot_key : Phx.Str) (prot_val : Phx.Str) : Phx.ProtOut', f.body, tr,
             '`parse_phoenix_prot` (extract.py): the delimiter of the protocol key, the lines strictly between the ASCCONV markers, '
             'every line through the translated `_parse_phoenix_line`, later assignments of a key replacing earlier ones in place',
             run='Id.run do')
    # ---- reorder_voxels: the checks of the voxel_order string (group `orient`)
    f = find_func(ds, None, 'reorder_voxels')
    blk = None
    if f is not None:
        names = [ast.unparse(st)[:40] for st in f.body]
        i0 = next((i_ for i_, st in enumerate(f.body) if ast.unparse(st).startswith('voxel_order = voxel_order.upper()')), None)
        i1 = next((i_ for i_, st in enumerate(f.body) if isinstance(st, ast.If) and 'len(dcm_axes)' in ast.unparse(st.test)), None)
        if i0 is not None and i1 is not None and i0 < i1:
            blk = f.body[i0:i1 + 1]
    if blk is None:
        missing.append('check_voxel_order: statements voxel_order = voxel_order.upper() … if len(dcm_axes) != 0 not found')
    else:
        tr = TrOrient({}, {})
        tr.ret_unit = True
        tr.pre_declared = {'voxel_order'}
        tr.force_mutable = {'dcm_axes'}
        tr.list_vars = {'dcm_axes'}
        emit('check_voxel_order', '(voxel_order0 : List Char) : Except PyErr Unit', blk + [ast.parse('return 0').body[0]], tr,
             'the checks `reorder_voxels` applies to its `voxel_order` argument (dcmstack.py): upper-cased, three characters, each one '
             'of L R A P S I, and every anatomical axis named (the axes list is edited while it is iterated over)',
             prologue=['let mut voxel_order := voxel_order0'])
    # ---- make_key_regex_filter with its inner function (group `filter`)
    f = find_func(ds, None, 'make_key_regex_filter', inline=False)
    inner = None
    if f is not None:
        inner = next((st for st in f.body if isinstance(st, ast.FunctionDef) and st.name == 'key_regex_filter'), None)
    if f is None or inner is None or not (isinstance(f.body[-1], ast.Return) and ast.unparse(f.body[-1].value) == 'key_regex_filter'):
        missing.append('key_regex_filter: make_key_regex_filter / its inner function not found')
    else:
        outer = [st for st in f.body if st is not inner and not (isinstance(st, ast.Return))]
        tr = TrRegexFilter({}, {})
        tr.opt_locals = {'include_re', 'exclude_re'}
        tr.list_vars = {'force_include_res', 'exclude_res'}
        tr.stmt_map = {'include_re = None': ['let mut include_re : Option (List ρ) := none'],
                       'exclude_re = None': ['let mut exclude_re : Option (List ρ) := none']}
        tr.stmt_map_declares = {'include_re = None': ['include_re'], 'exclude_re = None': ['exclude_re']}

        class SomeWrap(ast.NodeTransformer):
            def visit_Assign(self, node):
                if ast.unparse(node.targets[0]) in ('include_re', 'exclude_re') and not (isinstance(node.value, ast.Constant) and node.value.value is None):
                    return ast.copy_location(ast.Assign(targets=node.targets, value=ast.Call(func=ast.Name(id='SOME_', ctx=ast.Load()),
                                                                                              args=[node.value], keywords=[])), node)
                return node
        tr.attrs['SOME_(_0)'] = '(some {0})'
        inner_body = [st for st in inner.body if not (isinstance(st, ast.Expr) and isinstance(st.value, ast.Constant))]
        # the result is only ever tested for truth: `if x is None: return None` followed by `return E` is `return x and E`
        if len(inner_body) == 2 and isinstance(inner_body[0], ast.If) and not inner_body[0].orelse and len(inner_body[0].body) == 1 \
                and isinstance(inner_body[0].body[0], ast.Return) and ast.unparse(inner_body[0].body[0]) in ('return None', 'return False') \
                and isinstance(inner_body[0].test, ast.Compare) and isinstance(inner_body[0].test.ops[0], ast.Is) \
                and ast.unparse(inner_body[0].test.comparators[0]) == 'None' and isinstance(inner_body[0].test.left, ast.Name) \
                and isinstance(inner_body[1], ast.Return) and inner_body[1].value is not None:
            x_ = inner_body[0].test.left
            e_ = inner_body[1].value
            vals_ = [ast.Name(id=x_.id, ctx=ast.Load())] + (list(e_.values) if isinstance(e_, ast.BoolOp) and isinstance(e_.op, ast.And) else [e_])
            inner_body = [ast.fix_missing_locations(ast.copy_location(ast.Return(value=ast.BoolOp(op=ast.And(), values=vals_)), inner_body[1]))]
        body = [ast.fix_missing_locations(SomeWrap().visit(copy.deepcopy(st))) for st in outer] + inner_body
        emit('key_regex_filter', '{ρ κ : Type} (mtch : ρ → κ → Bool) (exclude_res force_include_res : List ρ) (key : κ) : Except PyErr Bool',
             body, tr,
             'the filter `make_key_regex_filter(exclude_res, force_include_res)` returns (dcmstack.py), applied to a key: the body of '
             'the maker followed by the body of its inner function `key_regex_filter`')
    # ---- parse_and_group: where a file is put (group `group`)
    f = find_func(ds, None, 'parse_and_group')
    blk = None
    if f is not None:
        for node in ast.walk(f):
            if isinstance(node, ast.If) and ast.unparse(node.test) in ('not key in results', 'key not in results') and node.orelse:
                blk = [node]
            elif isinstance(node, ast.If) and ast.unparse(node.test) == 'key in results' and node.orelse:
                blk = [node]
    if blk is None:
        missing.append('group_place: statement `if not key in results: … else: …` not found in parse_and_group')
    else:
        tr = TrGroup({}, {})
        tr.pre_declared = {'results'}
        tr.opt_locals = set()
        emit('group_place', '{E V : Type} [DecidableEq E] (closeV : V → V → Bool) (results0 : List (E × List (List (Option V) × List Nat))) '
             '(key : E) (close_list : List (Option V)) (item_id : Nat) : Except PyErr (List (E × List (List (Option V) × List Nat)))',
             blk + [ast.parse('return results').body[0]], tr,
             'where `parse_and_group` puts one readable image file (dcmstack.py): under a new exact key, into the first sub-result of '
             'its exact key whose close values all agree (both None, or both present and `np.allclose`), or into a new sub-result',
             prologue=['let mut results := results0'])
    # ---- dcmstack_cli.main: the name of an output file (group `cli`)
    cli = ast.parse(open(os.path.join(REPO, 'src', 'dcmstack', 'dcmstack_cli.py')).read())
    f = find_func(cli, None, 'main')
    blk = None
    if f is not None:
        for node in ast.walk(f):
            if isinstance(node, ast.For):
                body = node.body
                i0 = next((i_ for i_, st in enumerate(body) if isinstance(st, ast.If) and ast.unparse(st.test) == 'out_fn in generated_outs'), None)
                i1 = next((i_ for i_, st in enumerate(body) if isinstance(st, ast.AugAssign) and ast.unparse(st.target) == 'out_idx'), None)
                if i0 is not None and i1 is not None and i0 < i1:
                    blk = body[i0:i1 + 1]
    if blk is None:
        missing.append('cli_out_name: statements `if out_fn in generated_outs:` … `out_idx += 1` not found in dcmstack_cli.main')
    else:
        tr = Tr({"'%s-%03d' % (out_fn, uniq_idx)": '(Cli.suffixed fmt out_fn uniq_idx)',
                 '(out_fn, generated_outs, out_idx)': '(out_fn, generated_outs, out_idx)'}, {})
        tr.pre_declared = {'out_fn', 'generated_outs', 'out_idx'}
        tr.while_fuel = '(generated_outs).length + 1'
        tr.stmt_map = {'generated_outs.add(out_fn)': ['generated_outs := out_fn :: generated_outs']}
        emit('cli_out_name', '(fmt : Nat → String) (generated_outs0 : List String) (out_fn0 : String) (out_idx0 : Nat) : '
             'Except PyErr (String × List String × Nat)', blk + [ast.parse('return (out_fn, generated_outs, out_idx)').body[0]], tr,
             'how `dcmstack_cli.main` makes the name of an output file unique within a source directory (dcmstack_cli.py): a name '
             'already used gets the suffix `-NNN` with the first index from the group counter on that is free; `fmt` renders the '
             'index (`%03d`), the set `generated_outs` is a list; the `while` loop is bounded by the number of names used so far plus one',
             prologue=['let mut out_fn := out_fn0', 'let mut generated_outs := generated_outs0', 'let mut out_idx := out_idx0'])
    # ---- the default ignore rules of MetaExtractor (group `extract`)
    for nm in ('ignore_private', 'ignore_pixel_data', 'ignore_overlay_data', 'ignore_color_lut_data'):
        f = find_func(ex, None, nm)
        if f is None:
            missing.append(nm + ': not found')
            continue
        tr = Tr({'elem.tag.group': 'e.group', 'elem.tag.elem': 'e.elem'}, {})
        emit(nm, '(e : Ex.Elem) : Except PyErr Bool', f.body, tr,
             '`%s` (extract.py), translated statement by statement; `elem.tag.group` / `elem.tag.elem` are the fields of the '
             'element record' % nm)
    # ---- get_keys, filter_meta, clear_slice_meta (group `content`)
    for name, sig, extra, doc in [
            ('get_keys', '{κ α : Type} (shape : List Nat) (content : Content κ α) : Except PyErr (List κ)', [],
             '`DcmMetaExtension.get_keys` (dcmmeta.py): the keys of every valid classification, in that order'),
            ('filter_meta', '{κ α : Type} [DecidableEq κ] (shape : List Nat) (content0 : Content κ α) (filter_func : κ → List α → Bool) : '
             'Except PyErr (Content κ α)', ['return content'],
             '`DcmMetaExtension.filter_meta` (dcmmeta.py): per valid classification, the keys the filter accepts are collected '
             'first and deleted afterwards; the result is the content dictionary the method leaves behind'),
            ('clear_slice_meta', '{κ α : Type} (shape : List Nat) (content0 : Content κ α) : Except PyErr (Content κ α)', ['return content'],
             '`DcmMetaExtension.clear_slice_meta` (dcmmeta.py): the dictionaries of the per-slice classifications are emptied')]:
        f = find_func(dm, 'DcmMetaExtension', name)
        if f is None:
            missing.append(name + ': not found')
            continue
        tr = TrContent({}, {'self.get_valid_classes()': 'get_valid_classes shape'})
        tr.list_vars = {'keys', 'filtered'}
        body = list(f.body) + [ast.parse(x).body[0] for x in extra]
        if extra:
            tr.pre_declared = {'content'}
        emit(name, sig, body, tr, doc, prologue=(['let mut content := content0'] if extra else []))
    # ---- check_valid
    f = find_func(dm, 'DcmMetaExtension', 'check_valid')
    if f is None:
        missing.append('check_valid: not found')
    else:
        tr = Tr({'_req_base_keys_map[self.version] <= set(self._content)': '(CV.requiredOk c)',
                 'self.affine.shape != (4, 4)': '(c.affineRows != [4, 4, 4, 4])',
                 'self.slice_dim': 'c.sliceDim', 'self.shape': 'c.shape',
                 'classes[0] in self._content': '(c.dict classes).isSome',
                 'classes[1] in self._content[classes[0]]': '(c.dict classes).isSome',
                 'self.get_class_dict(classes)': '((c.dict classes).getD [])',
                 'iteritems(cls_meta)': 'cls_meta',
                 'set(self.get_class_dict(classes)) & set(self.get_class_dict(other_classes))':
                     '((CV.keysOf c classes).filter fun k => (CV.keysOf c other_classes).contains k)'},
                {'self.get_valid_classes()': 'get_valid_classes c.shape',
                 'self.get_multiplicity(classes)': 'get_multiplicity c.shape (c.sliceDim.map fun d => c.shape.getD d.toNat 0) classes'})
        tr.opt_locals = {'slice_dim'}
        tr.ret_unit = True
        tr.skip_assign = {'msg', 'n_vals'}
        tr.stmt_map = {'if n_vals != cls_mult:': ['if (vals != CV.EShape.sized cls_mult) then', '  throw PyErr.invalidExtension']}
        emit('check_valid', '(c : CV.Content) : Except PyErr Unit', f.body + [ast.parse('return 0').body[0]], tr,
             '`DcmMetaExtension.check_valid` (dcmmeta.py) over the abstraction `CV.Content` of the content dictionary '
             '(Model/Valid.lean): the version / required-keys test is `CV.requiredOk`, the affine is its row lengths, a '
             'classification dictionary that is missing (base or sub level) is `none`, `len(vals)` is the recorded '
             '`EShape` of a value')
    # ---- meta_valid
    f = find_func(dm, 'NiftiWrapper', 'meta_valid')
    if f is None:
        missing.append('meta_valid: not found')
    else:
        tr = Tr({'self.nii_img.shape': 'img_shape', 'self.meta_ext.shape': 'meta_shape',
                 'hdr.get_dim_info()[2]': 'hdr_slice_dim', 'self.meta_ext.n_slices': 'meta_n_slices',
                 'hdr.get_n_slices()': '(some (img_shape)[slice_dim]!)',
                 'np.allclose(slice_dir, self.meta_ext.slice_normal, atol=1e-06)': 'aligned'}, {},
                optional_exprs=['hdr.get_dim_info()[2]'])
        tr.skip_assign = {'hdr', 'slice_dir'}
        emit('meta_valid', '(img_shape meta_shape : List Nat) (hdr_slice_dim meta_n_slices : Option Nat) (aligned : Bool) '
             '(classification : Cls) : Except PyErr Bool', f.body + [ast.parse('raise ValueError()').body[0]], tr,
             '`NiftiWrapper.meta_valid` (dcmmeta.py), translated statement by statement; the header reads '
             '(`dim_info`, `get_n_slices`) and the `np.allclose` of the slice directions are parameters; falling off '
             'the end (an unknown classification) is the appended `throw`')
    # ---- _get_const_period
    f = find_func(dm, 'DcmMetaExtension', '_get_const_period')
    if f is None:
        missing.append('_get_const_period: not found')
    else:
        tr = Tr({'self.shape': 'self_shape', 'self.n_slices': 'self_n_slices'},
                {'self.get_multiplicity(_0)': 'get_multiplicity self_shape self_n_slices {0}'},
                optional_exprs=['self.n_slices'])
        tr.ret_optional = True
        emit('get_const_period', '(self_shape : List Nat) (self_n_slices : Option Nat) (src_cls dest_cls : Cls) : Except PyErr (Option Nat)',
             f.body, tr, '`DcmMetaExtension._get_const_period` (dcmmeta.py), translated statement by statement')
    # ---- is_constant / is_repeating (module level)
    for nm, sig in (('is_constant', '{α : Type} [DecidableEq α] (sequence : List α) (period : Option Nat) : Except PyErr Bool'),
                    ('is_repeating', '{α : Type} [DecidableEq α] (sequence : List α) (period : Nat) : Except PyErr Bool')):
        f = find_func(dm, None, nm)
        if f is None:
            missing.append(nm + ': not found')
            continue
        tr = Tr({}, {})
        tr.generic = {'sequence'}
        if nm == 'is_constant':
            tr.opt_params = {'period'}
        emit(nm, sig, f.body, tr, '`%s` (dcmmeta.py), translated statement by statement' % nm)
    # ---- _simplify: the whole method for one key, dictionary edits recorded as effects
    f = find_func(dm, 'DcmMetaExtension', '_simplify')
    if f is None:
        missing.append('simplify: not found')
    else:
        tr = TrKeyFx({'self.shape': 'self_shape', 'self._const_tests[_0]': '(constTests {0})',
                      'self._repeat_tests[_0]': '(repeatTests {0})',
                      '_0 in self._repeat_tests': '(Gen.repeatTestsKeys.contains {0})',
                      'self._content': 'content', 'values is None': '(values == [null])',
                      'period == 1': '(period == some 1)', 'values[0]': '((values.head?).toList)'},
                     {'self._get_const_period(_0, _1)': 'get_const_period self_shape self_n_slices {0} {1}',
                      'is_constant(_0, _1)': 'is_constant {0} {1}',
                      'is_repeating(_0, _1)': 'is_repeating {0} {1}',
                      'self.get_multiplicity(_0)': 'get_multiplicity self_shape self_n_slices {0}'},
                     cls_vars=['curr_class', 'dest_cls'])
        tr.opt_params = {'period'}
        tr.list_vars = {'values'}
        tr.stmt_map = {'values, curr_class = self.get_values_and_class(key)': []}
        emit('simplify', '{α : Type} [DecidableEq α] (null : α) (self_shape : List Nat) (self_n_slices : Option Nat) (content : List String) '
             '(values : List α) (curr_class : Cls) : Except PyErr (Bool × KeyFx α)', f.body, tr,
             '`DcmMetaExtension._simplify` (dcmmeta.py) for one key, translated statement by statement: `get_values_and_class(key)` is the '
             'parameters `values` / `curr_class` (a constant is a one-element list, `null` stands for None), `self._content` the list of '
             'base names present; writes `get_class_dict(c)[key] = v` and `del get_class_dict(c)[key]` are recorded in order in the '
             'returned `KeyFx`, next to the Boolean the method returns',
             prologue=['let mut fx : KeyFx α := []'])
    # ---- get_meta: the `if not index is None:` block and the final return
    f = find_func(dm, 'NiftiWrapper', 'get_meta')
    blk = None
    if f is not None:
        for i, s in enumerate(f.body):
            if isinstance(s, ast.If) and ast.unparse(s.test) in ('not index is None', 'index is not None'):
                blk = list(s.body) + list(f.body[i + 1:])
    if blk is None:
        missing.append('get_meta_index: block `if not index is None:` not found')
    else:
        emit('get_meta_index', '{α : Type} (shape : List Nat) (slice_dim_ : Nat) (classes : Cls) (values : List α) '
             '(index : List Nat) : Except PyErr (Option α)', blk,
             TrGetMeta({'self.nii_img.shape': 'shape', 'self.nii_img.header.get_dim_info()[2]': 'slice_dim_'}, {}),
             'the index block of `NiftiWrapper.get_meta` (dcmmeta.py): bounds checks, index arithmetic per '
             'classification, final `return default` (= none).  `index` holds naturals (a negative '
             'component is out of bounds in the code and is sent as an out-of-range natural)')
    # ---- get_meta: the whole method
    f = find_func(dm, 'NiftiWrapper', 'get_meta')
    if f is None:
        missing.append('get_meta: not found')
    else:
        tr = TrGetMeta({'self.nii_img.shape': 'img_shape', 'self.nii_img.header.get_dim_info()[2]': '(← pyGet hdr_slice_dim)'},
                       {'self.meta_valid(classes)': 'meta_valid img_shape meta_shape hdr_slice_dim meta_n_slices aligned classes'},
                       cls_vars=['classes'])
        tr.opt_params = {'classes', 'index'}
        tr.stmt_map = {'values, classes = self.meta_ext.get_values_and_class(key)': []}
        emit('get_meta', '{α : Type} (img_shape meta_shape : List Nat) (hdr_slice_dim meta_n_slices : Option Nat) (aligned : Bool) '
             '(values : List α) (classes : Option Cls) (index : Option (List Nat)) : Except PyErr (Option α)', f.body, tr,
             '`NiftiWrapper.get_meta` (dcmmeta.py), the whole method: `get_values_and_class(key)` is the parameters `values` / `classes` '
             '(a constant is a one-element list), `default` is none, the header reads and the comparison of the slice directions are the '
             'parameters of `meta_valid`')
    # ---- get_shape: the count checks (from `n_files = …` to `num_time_points = …`)
    f = find_func(ds, 'DicomStack', 'get_shape')
    blk = None
    if f is not None:
        names = [s.targets[0].id if isinstance(s, ast.Assign) and isinstance(s.targets[0], ast.Name) else None for s in f.body]
        if 'n_files' in names and 'num_time_points' in names and names.index('n_files') < names.index('num_time_points'):
            blk = f.body[names.index('n_files'):names.index('num_time_points') + 1]
    if blk is None:
        missing.append('get_shape_counts: statements n_files … num_time_points not found')
    else:
        tr = Tr({'len(self._files_info)': 'n_files_', 'len(self._slice_pos_vals)': 'n_slice_pos',
                 'len(self._vector_vals)': 'n_vector_vals'}, {})
        tr.skip_assign = {'slice_positions'}
        # the spacing test works on numpy arrays: its outcome is the parameter spacing_ok
        tr.stmt_map = {'if files_per_vol > 1:': ['if (decide (files_per_vol > 1)) then', '  if (!spacing_ok) then',
                                                 '    throw PyErr.invalidStack']}
        ret = ast.parse('return (files_per_vol, num_time_points, num_vec_comps)').body[0]
        tr.ret = lambda n: '(files_per_vol, num_time_points, num_vec_comps)'
        emit('get_shape_counts', '(n_files_ n_slice_pos n_vector_vals : Nat) (spacing_ok : Bool) : Except PyErr (Nat × Nat × Nat)',
             blk + [ret], tr,
             'the count checks of `DicomStack.get_shape` (dcmstack.py), from `n_files = …` to `num_time_points = …`, '
             'translated statement by statement; the numpy spacing test is the parameter `spacing_ok`; the appended '
             'return gives (slices per volume, time points, vector components)')
    # ---- _chk_order: the thorough check (the triple loop after the two sorts)
    f = find_func(ds, 'DicomStack', '_chk_order')
    blk = None
    if f is not None:
        for s in f.body:
            if isinstance(s, ast.For) and isinstance(s.target, ast.Name) and s.target.id == 'vec_idx':
                blk = [s]
    if blk is None:
        missing.append('chk_order_check: loop `for vec_idx in range(num_vec_comps)` not found')
    else:
        tr = TrChkOrder({}, {})
        # the branch that builds the message of the error only builds a message
        tr.stmt_map = {'if file_info[1][2] != slice_positions[slice_idx]:':
                       ['if (file_info.2.2 != (slice_positions)[slice_idx]!) then', '  throw PyErr.invalidStack']}
        emit('chk_order_check', '(files : List (Int × Int × Int)) (slice_positions : List Int) '
             '(files_per_vol num_time_points num_vec_comps : Nat) : Except PyErr Unit',
             blk + [ast.parse('return 0').body[0]], tr,
             'the thorough check of `DicomStack._chk_order` (dcmstack.py): the triple loop over vector components, '
             'time points and slices that follows the two sorts; `files` are the sorting tuples (vector, time, '
             'position) of `_files_info` in their order after the sorts; the branch that only builds the text of '
             'the error message is the `throw`')
    # ---- get_data: trimming of unused time / vector axes
    f = find_func(ds, 'DicomStack', 'get_data')
    blk = None
    if f is not None:
        for s in f.body:
            if isinstance(s, ast.If) and ast.unparse(s.test) == 'stack_shape[4] == 1':
                blk = [s]
    if blk is None:
        missing.append('get_data_trim: statement `if stack_shape[4] == 1:` not found')
    else:
        tr = Tr({'vox_array[..., 0]': 'vox_array.dropLast0'}, {})
        first = ast.parse('vox_array = vox_array_').body[0]
        last = ast.parse('return vox_array').body[0]
        emit('get_data_trim', '{α : Type} (vox_array_ : Wrap.Arr α) (stack_shape : List Nat) : Except PyErr (Wrap.Arr α)',
             [first] + blk + [last], tr,
             '"Trim unused time/vector dimensions" of `DicomStack.get_data` (dcmstack.py); `a[..., 0]` is the '
             'model\'s `Arr.dropLast0`')
    # ---- get_data: file_idx expressions
    f = find_func(ds, 'DicomStack', 'get_data')
    exprs = []
    if f is not None:
        for node in ast.walk(f):
            if isinstance(node, ast.Assign) and len(node.targets) == 1 and isinstance(node.targets[0], ast.Name) \
                    and node.targets[0].id == 'file_idx':
                exprs.append(node.value)
    if len(exprs) != 2:
        missing.append('get_data: expected two `file_idx = …` assignments, found %d' % len(exprs))
    else:
        tr = Tr({}, {})
        out.cur = 'data'
        for nm, ex, sig in (('file_idx_volume', exprs[0], '(stack_shape : List Nat) (vec_idx time_idx : Nat) : Nat'),
                            ('file_idx_slice', exprs[1], '(stack_shape : List Nat) (vec_idx time_idx slice_idx : Nat) : Nat')):
            try:
                out.append('/-- `file_idx` of `DicomStack.get_data` (dcmstack.py): `%s` -/' % ast.unparse(ex))
                out.append('def %s %s :=\n  %s\n' % (nm, sig, tr.e(ex)))
            except Unsupported as e:
                missing.append('%s: %s' % (nm, e))
    files = {'PyPrelude': PRELUDE}
    by_group = {grp: [m for m in missing if group_of(m) == grp] for grp in GROUP_IMPORTS}
    for grp, lines in bufs.items():
        text = '/- GENERATED by tools/gen_code.py from /repo/src/dcmstack — do not edit. -/\n'
        text += ''.join('import %s\n' % im for im in GROUP_IMPORTS[grp])
        text += 'set_option autoImplicit false\nset_option linter.unusedVariables false\nopen Cls\n\nnamespace Py\n\n'
        text += '\n'.join(lines) + '\nend Py\n\n'
        text += '/-- functions of this group the translator could not translate (must be empty for the proofs to build) -/\n'
        text += 'def Gen.codeMissing_%s : List String := [%s]\n' % (grp, ', '.join(json.dumps(m) for m in by_group[grp]))
        files['Code_' + grp] = text
    return files, missing, by_group


def main():
    files, missing, by_group = translate()
    changed = []
    h = hashlib.sha256()
    for name in sorted(files):
        text = files[name]
        h.update(text.encode())
        path = os.path.join(GEN_DIR, name + '.lean')
        if not (os.path.exists(path) and open(path).read() == text):
            with open(path, 'w') as fh:
                fh.write(text)
            changed.append(name)
    shas = {n[5:]: hashlib.sha256(files[n].encode()).hexdigest()[:12] for n in files if n.startswith('Code_')}
    print(json.dumps({'out': GEN_DIR, 'changed': changed, 'missing': missing, 'missing_by_group': by_group,
                      'sha_by_group': shas, 'sha': h.hexdigest()[:16]}))


if __name__ == '__main__':
    main()
