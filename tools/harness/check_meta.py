"""Checks for the DcmMeta algebra properties C03, C04, C05, C06, C13 (extension level; the
wrapper level with voxel data and affines is in check_wrapper.py and is called from here)."""
import json, os, copy, glob
import numpy as np
from . import core, meta as M, suite_meta as SM

THEOREMS = {
    'C03': ['C03.merge_lookup_slice', 'C03.merge_lookup_time', 'C03.merge_lookup_vector',
            'C03.merge_nonslice', 'C03.merge_valid_slice', 'C03.merge_valid_time',
            'C03.reclassify_lossless', 'C03.changed_class_lossless',
            'C03.insert_loops_total', 'C03.merge_slice_total', 'C03.merge_time_total', 'C03.merge_vector_total',
            'C03.merge_data_stacked', 'C03.merge_data_refuses', 'C03.merge_accept_iff',
            'C03.merge_refuses_orientation', 'C03.merge_refuses_position', 'C03.merge_affine_consistent'],
    'C04': ['C04.subset_lookup_slice_raw', 'C04.subset_lookup_time_raw', 'C04.subset_lookup_vector_raw',
            'C04.subset_slice', 'C04.subset_time4', 'C04.subset_vector', 'C04.simplify_keeps_lookup',
            'C04.simplify_total', 'C04.subset_slice_total', 'C04.subset_time_total', 'C04.subset_vector_total', 'C04.subset_time5',
            'C04.split_data_hyperplane', 'C04.split_piece_count', 'C04.split_piece_order', 'C04.split_affine',
            'C04.split_affine_voxel', 'C04.split_piece_header'],
    'C05': ['C05.split_merge_slice_id', 'C05.split_merge_time_id', 'C05.split_merge_vector_id',
            'C05.canon_class_unique', 'C05.split_merge_slice_total', 'C05.split_merge_time_total',
            'C05.split_merge_vector_total', 'C05.merge_split_data', 'C05.merge_split_affine'],
    'C06': ['C06.simplify_lookup', 'C06.simplify_valid', 'C06.simplify_gslices_minimal',
            'C06.merge_slice_minimal', 'C06.merge_time_minimal', 'C06.merge_vector_minimal',
            'C06.convert_canonical'],
    'C13': ['C13.putKey_other', 'C13.putKey_self', 'C13.foldl_putKey_key', 'C13.insertWith_key',
            'C13.filterMeta_key', 'C13.merge_factorises', 'C13.subset_factorises'],
}

TRUSTED = [
    'Lean 4.33.0 kernel; axioms of every property theorem within {propext, Classical.choice, Quot.sound} (audited each run)',
    'tools/gen_tables.py (ast.literal_eval translator of _const_tests, _repeat_tests, _preserving_changes, classifications)',
    'hand-written per-key / extension-level model (lean/DcmVerif/Model/Key.lean, Ext.lean) tied to dcmmeta.py by this differential correspondence only (sampled)',
    'CPython list/dict semantics, == on the generated value domain (ints, strings, None, lists, dicts, non-integral floats), copy.deepcopy, numpy.allclose for slice normals',
]


def sizes(tier):
    return {'merge': 700 if tier == 'quick' else 12000, 'subset': 350 if tier == 'quick' else 6000,
            'round': 250 if tier == 'quick' else 4000}


def _corr(rep, name):
    return rep.corr.setdefault(name, {'cases': 0, 'agree': 0, 'disagree': 0, 'skipped': 0,
                                      'in_theorem_domain': 0})


ORACLES = {
    'C03': {'lookup', 'valid'}, 'C04': {'lookup', 'valid'}, 'C05': set(), 'C06': {'minimal'},
    'C07': {'valid'}, 'C13': {'keyindep', 'inputs'},
    'ALL': {'lookup', 'valid', 'minimal', 'keyindep', 'inputs'},
}


F3_TEXT = "'NoneType' object has no attribute 'extend'"


def as_recorded_f3(status, error, agree):
    """F3 (time merge of 5-D inputs with a singleton time axis) is recorded as: AttributeError from `None.extend`, or — exactly as
    the model (which follows the code there) computes it — a result with values at the wrong time point or the ValueError of
    `_simplify` on a list whose length the accumulating shape does not divide.  Any other failure in that region is not F3 and
    is reported under a tag of its own."""
    if status != 'ok' and F3_TEXT in (error or ''):
        return True
    return agree is True


def merge_round(rep, pid, cases, tier, tagsrc='gen'):
    """run merge cases on the implementation and the model; apply the oracles relevant for pid"""
    sel = ORACLES[pid]
    drv = core.Driver()
    outs = [SM.run_merge(c) for c in cases]
    reqs, idx = [], []
    for i, (c, o) in enumerate(zip(cases, outs)):
        q = SM.model_merge_req(c, o['inputs'])
        if q is not None:
            reqs.append(q)
            idx.append(i)
    answers = dict(zip(idx, drv.ask(reqs)))
    co = _corr(rep, 'merge')
    for i, (c, o) in enumerate(zip(cases, outs)):
        rep.evaluations += 1
        region = SM.merge_region(c)
        rep.count('merge/' + region)
        rep.count('merge/status/' + o['status'])
        nkeys = len({e[0] for ents in c['inputs'] for e in ents})
        if nkeys:
            rep.nontriv(c)
        rep.sample({'suite': 'merge', 'case': c}, cap=3)
        # --- correspondence
        a = answers.get(i)
        if a is not None:
            co['cases'] += 1
            agree, detail = SM.compare_model(a, o['status'], o['result'])
            if a.get('dom'):
                co['in_theorem_domain'] += 1
            if agree is None:
                co['skipped'] += 1
            elif agree:
                co['agree'] += 1
            else:
                co['disagree'] += 1
                rep.disagreements.append(('merge', region, c, detail))
        # --- oracles
        fails = []
        if 'lookup' in sel:
            fails += [('lookup', f) for f in SM.oracle_merge_lookup(c, o)]
        if o['status'] == 'ok':
            if 'valid' in sel:
                exp_shape = list(c['in_shape'])
                while len(exp_shape) <= c['dim']:
                    exp_shape.append(1)
                exp_shape[c['dim']] = c['n']
                fails += [('valid', f) for f in SM.oracle_valid(o['result'], exp_shape, c['sd'])]
            if 'minimal' in sel:
                # canonical inputs (any valid inputs for time / vector merges of the proved region)
                if c['canonical_inputs']:
                    fails += [('minimal', f) for f in SM.oracle_minimal(o['result'])]
                else:
                    nm = SM.oracle_minimal(o['result'])
                    if nm:
                        # F18 is about keys that do NOT end in global slices (those are re-simplified at the end of
                        # from_sequence): a key left non-minimal in global slices is a different failure
                        fails += [('minimal-noncanonical-inputs-in-global-slices' if ' stored as gslices,' in f
                                   else 'minimal-noncanonical-inputs', f)
                                  for f in sorted(nm, key=lambda f: ' stored as gslices,' not in f)]
            if 'keyindep' in sel:
                fails += [('keyindep', f) for f in SM.oracle_key_independent(c, o)]
        if 'inputs' in sel:
            for j, (b, af) in enumerate(zip(o['before'], o['after'])):
                if b != af:
                    fails.append(('inputs', 'input %d changed by from_sequence (status %s)' % (j, o['status'])))
            if pid == 'C13':
                # a merge of one input is a merge too: the single input stays as it was
                e1 = SM.build_inputs(c)[:1]
                b1 = SM._snap(e1[0])
                try:
                    M.dm().DcmMetaExtension.from_sequence(e1, c['dim'])
                except Exception:
                    pass
                if SM._snap(e1[0]) != b1:
                    fails.append(('inputs', 'the input of a one-element from_sequence changed'))
            if o['status'] == 'ok' and pid == 'C13':
                o2 = SM.run_merge(c)
                if o2['status'] == 'ok':
                    fails += [('alias', f) for f in SM.alias_probe(o2['inputs'], o2['result'])]
        if fails and region == 'merge:time:5D-inputs-singleton-time':
            a_ = answers.get(i)
            ag_ = None if a_ is None else SM.compare_model(a_, o['status'], o['result'])[0]
            if not as_recorded_f3(o['status'], o.get('error'), ag_):
                region = region + ':unlike-recorded'
        for sig, f in fails[:1]:
            def failing(cc, sig=sig):
                oo = SM.run_merge(cc)
                if sig == 'lookup':
                    return bool(SM.oracle_merge_lookup(cc, oo))
                return False
            cmin = SM.shrink_merge(c, failing) if sig == 'lookup' else c
            if o['status'] != 'ok' and sig not in ('inputs', 'alias'):
                sig = 'raise:' + (o.get('error') or o['status']).split('(')[0]
            rep.failure('%s: %s' % (sig, f), {'tag': region + '/' + sig, 'suite': 'merge', 'case': cmin,
                                              'error': o.get('error')})


def subset_round(rep, pid, cases, tier):
    sel = ORACLES[pid]
    drv = core.Driver()
    runs = []
    for c in cases:
        shape = c['shape']
        dims = list(range(len(shape)))
        for dim in dims:
            for idx in range(shape[dim]):
                runs.append((c, dim, idx, SM.run_subset(c, dim, idx)))
    reqs, ridx = [], []
    for i, (c, dim, idx, o) in enumerate(runs):
        m = M.ext_to_model(o['parent'])
        if m is not None:
            reqs.append({'op': 'get_subset', 'ext': m, 'dim': dim, 'idx': idx})
            ridx.append(i)
    answers = dict(zip(ridx, drv.ask(reqs)))
    co = _corr(rep, 'subset')
    for i, (c, dim, idx, o) in enumerate(runs):
        rep.evaluations += 1
        region = SM.subset_region(c, dim)
        rep.count('subset/' + region)
        if c['ents']:
            rep.nontriv([c, dim, idx])
        rep.sample({'suite': 'subset', 'case': c, 'dim': dim, 'idx': idx}, cap=3)
        a = answers.get(i)
        if a is not None:
            co['cases'] += 1
            agree, detail = SM.compare_model(a, o['status'], o['result'])
            if a.get('dom'):
                co['in_theorem_domain'] += 1
            if agree is None:
                co['skipped'] += 1
            elif agree:
                co['agree'] += 1
            else:
                co['disagree'] += 1
                rep.disagreements.append(('subset', region, {'case': c, 'dim': dim, 'idx': idx}, detail))
        fails = []
        if 'lookup' in sel:
            fails += [('lookup', f) for f in SM.oracle_subset_lookup(c, dim, idx, o)]
        if o['status'] == 'ok':
            if 'valid' in sel:
                fails += [('valid', f) for f in SM.oracle_valid(
                    o['result'], SM.expected_subset_shape(c['shape'], dim), c['sd'])]
            if 'minimal' in sel and c['canonical']:
                fails += [('minimal', f) for f in SM.oracle_minimal(o['result'])]
        if 'inputs' in sel and o['before'] != o['after']:
            fails.append(('inputs', 'parent changed by get_subset'))
        if 'inputs' in sel and o['status'] == 'ok' and pid == 'C13':
            o2 = SM.run_subset(c, dim, idx)
            if o2['status'] == 'ok':
                fails += [('alias', f) for f in SM.alias_probe([o2['parent']], o2['result'])]
        for sig, f in fails[:1]:
            if o['status'] != 'ok' and sig not in ('inputs', 'alias'):
                sig = 'raise:' + (o.get('error') or o['status']).split('(')[0]
            rep.failure('%s: %s' % (sig, f), {'tag': region + '/' + sig, 'suite': 'subset',
                                              'case': c, 'dim': dim, 'idx': idx, 'error': o.get('error')})


def roundtrip_round(rep, pid, cases, tier):
    """C05 at extension level: split a canonical extension along slice/time/vector and merge the
    pieces back; and merge∘split lookups."""
    m = M.dm()
    for c in cases:
        if c['sd'] is None:
            continue            # the property quantifies over slice axes 0, 1, 2
        ext = SM.build_parent(c)
        shape, sd = c['shape'], c['sd']
        for dim in ([sd] if sd is not None else []) + [d for d in (3, 4) if d < len(shape)]:
            if shape[dim] < 2:
                continue
            rep.evaluations += 1
            region = 'roundtrip:' + SM.subset_region(c, dim)
            rep.count(region)
            if c['ents']:
                rep.nontriv([c, dim])
            rep.sample({'suite': 'roundtrip', 'case': c, 'dim': dim}, cap=3)
            back = None
            try:
                pieces = [ext.get_subset(dim, i) for i in range(shape[dim])]
                back = m.DcmMetaExtension.from_sequence(pieces, dim)
                fails = []
                if tuple(back.shape) != tuple(ext.shape) or back.slice_dim != ext.slice_dim:
                    fails.append('geometry %s/%s vs %s/%s' % (back.shape, back.slice_dim, ext.shape, ext.slice_dim))
                a = M.canon_model_ext(M.ext_to_model(back))
                b = M.canon_model_ext(M.ext_to_model(ext))
                if a != b:
                    fails.append('merged pieces %s differ from the original %s' % (json.dumps(a['ents'])[:300], json.dumps(b['ents'])[:300]))
                if not (back == ext):
                    fails.append('__eq__ says the merged pieces differ from the original')
                # merge then split: pieces of the merged extension read like the inputs
                for i in range(shape[dim]):
                    again = back.get_subset(dim, i)
                    ta = {k: M.table_of(again, k) for k in set(again.get_keys()) | set(pieces[i].get_keys())}
                    tb = {k: M.table_of(pieces[i], k) for k in ta}
                    if json.dumps({k: sorted((str(p), M.cv(v)) for p, v in t.items()) for k, t in ta.items()}, sort_keys=True) != \
                       json.dumps({k: sorted((str(p), M.cv(v)) for p, v in t.items()) for k, t in tb.items()}, sort_keys=True):
                        fails.append('piece %d of the re-merged extension reads differently from the input piece' % i)
                        break
            except Exception as e:
                fails = ['split/merge raised %r' % e]
                err_ = repr(e)          # `back` stays what from_sequence returned, if it returned: a later step of the
                st_ = SM.exc_kind(e)    # round trip (splitting or reading the merged extension) may be what raised
            if fails and region == 'roundtrip:subset:time:5D':
                # attribute to F3 only what behaves as recorded (see `as_recorded_f3`)
                ag_ = None
                try:
                    ms = [M.ext_to_model(p_) for p_ in pieces]
                    if all(x is not None for x in ms):
                        a_ = core.Driver().ask([{'op': 'from_sequence', 'exts': ms, 'dim': dim, 'sd': None,
                                                 'use': SM.normals_use(pieces)}])[0]
                        ag_ = SM.compare_model(a_, 'ok' if back is not None else st_, back)[0]
                except Exception:
                    ag_ = None
                if not as_recorded_f3('ok' if back is not None else 'raise', None if back is not None else err_, ag_):
                    region = region + ':unlike-recorded'
            for f in fails[:1]:
                rep.failure(f, {'tag': region, 'suite': 'roundtrip', 'case': c, 'dim': dim})


def run_corpus(rep, pid, tier):
    files = sorted(glob.glob(os.path.join(core.CORPUS, pid, '*.json')) +
                   glob.glob(os.path.join(core.CORPUS, 'meta', '*.json')))
    mc, sc = [], []
    for f in files:
        try:
            c = json.load(open(f))
        except Exception:
            continue
        c = c.get('case', c)
        if c.get('op') == 'merge':
            mc.append(c)
        elif c.get('op') == 'subset':
            sc.append(c)
    if mc:
        merge_round(rep, pid, mc, tier, 'corpus')
    if sc:
        subset_round(rep, pid, sc, tier)
    rep.count('corpus_cases', len(mc) + len(sc))


def replay_known(rep, pid, tier):
    """replay every listed known-finding witness of this property on the implementation"""
    for f in rep.known:
        if f.get('kind') != 'known':
            continue
        w = f.get('witness')
        if not w:
            continue
        before = len(rep.violations)
        seen_before = set(rep.known_seen)
        if w.get('suite') == 'merge':
            merge_round(rep, 'ALL', [w['case']], tier, 'known')
        elif w.get('suite') == 'subset':
            c = dict(w['case'])
            subset_round(rep, 'ALL', [c], tier)
        elif w.get('suite') == 'roundtrip':
            roundtrip_round(rep, pid, [w['case']], tier)
        if f['id'] not in rep.known_seen:
            rep.notes.append('known finding %s did not reproduce on its witness in this run' % f['id'])


def main(pid, tier):
    rep = core.Report(pid, tier)
    rep.disagreements = []
    rep.trusted = TRUSTED
    rep.assumptions = ['value domain of the generator: Python == coincides with equality of canonical JSON text',
                       'differential correspondence is sampled (counts in coverage.correspondence)']
    proved = core.prove(rep, pid, THEOREMS[pid], extra_targets=(['dcmcode'] if pid == 'C13' else []))
    n = sizes(tier)
    r = core.rng(pid)
    run_corpus(rep, pid, tier)
    replay_known(rep, pid, tier)
    if pid in ('C03', 'C06', 'C13'):
        merge_round(rep, pid, [SM.gen_merge_case(r, tier) for _ in range(n['merge'])], tier)
    if pid == 'C13':
        # the translated `_insert` (what `Props/Source_insertall.lean` is about) against the method itself
        from . import check_codecorr
        check_codecorr.insert_corr(rep, [SM.gen_merge_case(r, tier) for _ in range(n['merge'])], tier)
    if pid in ('C04', 'C06', 'C13'):
        subset_round(rep, pid, [SM.gen_subset_case(r, tier) for _ in range(n['subset'])], tier)
    if pid == 'C05':
        roundtrip_round(rep, pid, [SM.gen_subset_case(r, tier, canonical=True, trimmed=True) for _ in range(n['round'])], tier)
        # the correspondences C05's theorems rest on
        merge_round(rep, pid, [SM.gen_merge_case(r, tier) for _ in range(n['merge'] // 3)], tier)
        subset_round(rep, pid, [SM.gen_subset_case(r, tier) for _ in range(n['subset'] // 3)], tier)
    from . import check_wrapper
    check_wrapper.extend(rep, pid, tier, r)
    finish_disagreements(rep)
    return rep.finish()


def finish_disagreements(rep):
    """a correspondence break is reported with no-failing-input-found unless an oracle produced a
    failing input for the property; disagreements inside the region of a listed known finding that
    was seen on this run are the finding itself (the model follows the documented behaviour there)"""
    known_regions = set()
    for f in rep.known:
        if f.get('kind') == 'known' and f['id'] in rep.known_seen:
            for t in ([f.get('tag')] + f.get('tags', [])):
                if t:
                    known_regions.add(t.split('/')[0])
    import fnmatch
    left = [d for d in rep.disagreements
            if not any(fnmatch.fnmatchcase(d[1], kr) for kr in known_regions)]
    rep.count('disagreements_in_known_regions', len(rep.disagreements) - len(left))
    if left:
        suite, region, case, detail = left[0]
        rep.unproved('correspondence %s: model and implementation differ (%d cases), first: %s' % (
            suite, len(left), detail[:500]),
            {'kind': 'correspondence', 'suite': suite, 'region': region, 'case': case, 'detail': detail[:2000]})
