"""Run in a subprocess with a given PYTHONHASHSEED: prints one digest per generated series so that
the parent can compare conversions of the same files across processes (C12 / C19)."""
import sys, json, warnings
from . import core, stackgen as G, check_stack as CS


def main(n, tier):
    warnings.simplefilter('ignore')
    r = core.rng('hashprobe')
    out = []
    for i in range(n):
        series = G.gen_series(r, tier)
        # different key sets in different files make the merge re-insert keys
        for j, f in enumerate(series['files']):
            if j % 2 == 1:
                for k in list(f['meta'])[:3]:
                    if k not in ('EchoTime', 'FlipAngle', 'InstanceNumber'):
                        f['meta'].pop(k)
        try:
            st, _ = G.new_stack(series)
            nii = CS.quiet(st.to_nifti, 'LAS', True)
            out.append(CS.nii_digest(nii))
        except Exception as e:
            out.append('RAISED %r' % (e,))
    print(json.dumps(out))


if __name__ == '__main__':
    main(int(sys.argv[1]), sys.argv[2])
