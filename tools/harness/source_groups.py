"""which translated function groups (tools/gen_code.py → Generated/Code_<group>.lean, proofs in Proofs/Code_<group>.lean,
statements in Props/Source_<group>.lean) each property's model depends on, and the theorems tying each group to the model"""
DEPS = {'C01': ['classes', 'dicts', 'simplify', 'shapes', 'lookup', 'values', 'insert'],
        'C02': ['data'],
        'C03': ['classes', 'dicts', 'simplify', 'shapes', 'values', 'insert', 'content', 'insertall', 'wrapmerge'],
        'C04': ['classes', 'dicts', 'simplify', 'shapes', 'values', 'subset', 'wrapsplit'],
        'C05': ['classes', 'dicts', 'simplify', 'shapes', 'values', 'insert', 'content', 'insertall', 'subset', 'wrapsplit', 'wrapmerge'],
        'C06': ['classes', 'simplify'],
        'C07': ['classes', 'dicts', 'simplify', 'shapes', 'valid'],
        'C08': ['classes', 'dicts', 'lookup'],
        'C10': ['classes', 'valid'],
        'C11': ['stack', 'stackadd'],
        'C12': ['stack', 'stackadd'],
        'C13': ['classes', 'dicts', 'simplify', 'shapes', 'values', 'insert', 'content', 'insertall'],
        'C14': ['filter', 'classes', 'content'],
        'C15': ['extract'],
        'C16': ['phoenix'],
        'C17': ['orient'],
        'C18': ['group'],
        'C19': ['cli'],
        'C20': ['header']}

GROUP_THEOREMS = {
    'classes': ['get_valid_classes_is_model', 'get_valid_classes_refuses', 'get_multiplicity_is_model'],
    'dicts': ['make_empty_bases_is_model', 'get_values_and_class_is_lookup', 'get_values_is_lookup'],
    'simplify': ['is_constant_is_model', 'is_repeating_is_model', 'get_const_period_is_model', 'simplify_is_model'],
    'lookup': ['get_meta_index_is_model', 'meta_valid_is_model', 'get_meta_is_model'],
    'valid': ['check_valid_is_model'],
    'shapes': ['subset_shape_is_model', 'merge_shape_is_model'],
    'wrapsplit': ['split_specs_is_model', 'split_trim_is_model'],
    'wrapmerge': ['wrap_merge_shape_is_model', 'fill_specs_is_model'],
    'stack': ['get_shape_counts_is_model', 'accept_is_counts_and_order', 'chk_order_check_is_cellwise',
              'cells_are_model_blocks', 'get_shape_accepts_iff_model'],
    'values': ['get_changed_class_is_model', 'copy_slice_dest_is_model', 'copy_slice_vals_is_model', 'copy_slice_vals_zero_div',
               'global_slice_subset_is_model', 'insert_slice_interleave_is_model', 'insert_sample_interleave_is_model',
               'slice_step_is_model', 'get_changed_class_no_slice_dim_is_model'],
    'insert': ['change_class_is_model', 'reclassify_is_model', 'insert_dispatch_is_model', 'insert_slice_is_model', 'insert_non_slice_is_model', 'insert_sample_is_model'],
    'subset': ['copy_slice_is_model', 'copy_sample_is_model', 'get_subset_slice_axis_is_model', 'get_subset_spatial_axis_copies',
               'get_subset_sample_axis_is_model'],
    'extract': ['ignore_private_is_model', 'ignore_pixel_data_is_model', 'ignore_overlay_data_is_model', 'ignore_color_lut_data_is_model'],
    'cli': ['cli_out_name_is_model'],
    'group': ['group_place_is_model', 'group_place_keeps_keys_distinct'],
    'filter': ['key_regex_filter_is_model'],
    'insertall': ['insert_leaves_other_unchanged', 'insert_on_model_extension', 'insert_treats_keys_independently', 'insert_treats_keys_independently_on_model_extension',
                  'insert_key_step_non_slice_is_model', 'insert_key_step_slice_is_model', 'insert_key_step_sample_is_model', 'insert_try_ends_normally_when_steps_do'],
    'content': ['filter_meta_filters_every_valid_dictionary', 'filter_meta_is_model', 'clear_slice_meta_is_model', 'get_keys_is_model'],
    'orient': ['check_voxel_order_is_model'],
    'phoenix': ['parse_phoenix_line_is_model', 'parse_phoenix_prot_is_model'],
    'header': ['header_slice_times_is_model', 'header_dim_info_is_model'],
    'stackadd': ['chk_congruent_is_model', 'add_dcm_is_model'],
    'data': ['file_idx_is_model', 'file_idx_volume_is_model', 'get_data_trim_is_model'],
}


def source_theorems(prop):
    out = []
    for g in DEPS.get(prop, []):
        out += ['Source.' + t for t in GROUP_THEOREMS[g]] + ['Source.translator_complete_' + g]
    return out
