"""Infrastructure shared by all checks: paths, PRNG, Lean build + audit, model driver, evidence,
replays, known findings, verdict."""
import os, sys, json, time, random, subprocess, hashlib, re, shutil, tempfile, fnmatch

VERIF = os.path.normpath(os.path.join(os.path.dirname(os.path.abspath(__file__)), '..', '..'))
REPO = os.environ.get('DCMSTACK_REPO', '/repo')
LEAN = os.path.join(VERIF, 'lean')
DRIVER = os.path.join(LEAN, '.lake', 'build', 'bin', 'dcmdriver')
EVID = os.path.join(VERIF, 'evidence')
REPLAYS = os.path.join(VERIF, 'replays')
CORPUS = os.path.join(VERIF, 'corpus')
KNOWN = os.path.join(VERIF, 'known_findings.json')
GUARD = 'DCMSTACK_VERIF'

os.environ.setdefault(GUARD, '1')
sys.path.insert(0, os.path.join(REPO, 'src'))

STD_AXIOMS = {'propext', 'Classical.choice', 'Quot.sound'}
FORBIDDEN = re.compile(r'\b(sorry|admit|native_decide|bv_decide|implemented_by|unsafe )\b|^axiom |maxHeartbeats 0')


class Infra(Exception):
    """infrastructure failure: exit 2, never a violation"""


def seed():
    try:
        return int(os.environ.get('VERIF_SEED', '0'))
    except ValueError:
        return 0


def rng(tag=''):
    h = hashlib.sha256(('%d/%s' % (seed(), tag)).encode()).digest()
    return random.Random(int.from_bytes(h[:8], 'big'))


def run(cmd, cwd=None, timeout=3600, env=None):
    p = subprocess.run(cmd, cwd=cwd, stdout=subprocess.PIPE, stderr=subprocess.STDOUT,
                       timeout=timeout, env=env, text=True)
    return p.returncode, p.stdout


# ------------------------------------------------------------------ Lean side

def gen_tables():
    """both translators: the tables (gen_tables.py) and the functions translated statement by
    statement (gen_code.py); returns the tables' report with the functions' `missing` merged in"""
    rc, out = run([sys.executable, os.path.join(VERIF, 'tools', 'gen_tables.py')])
    if rc != 0:
        raise Infra('translator failed: ' + out[-2000:])
    try:
        tab = json.loads(out.strip().splitlines()[-1])
    except Exception:
        raise Infra('translator output unreadable: ' + out[-500:])
    rc, out = run([sys.executable, os.path.join(VERIF, 'tools', 'gen_code.py')])
    if rc != 0:
        raise Infra('code translator failed: ' + out[-2000:])
    try:
        code = json.loads(out.strip().splitlines()[-1])
    except Exception:
        raise Infra('code translator output unreadable: ' + out[-500:])
    tab['code_missing'] = code.get('missing_by_group', {})
    tab['code_shas'] = code.get('sha_by_group', {})
    tab['code_sha'] = code.get('sha')
    return tab


def strip_comments(text):
    # remove /- ... -/ (nested not handled beyond one level) and -- comments
    text = re.sub(r'/-.*?-/', '', text, flags=re.S)
    text = re.sub(r'--.*', '', text)
    return text


def lake_build(targets):
    """returns (ok, log, failing_decls)"""
    t0 = time.time()
    rc, out = run(['lake', 'build'] + targets, cwd=LEAN, timeout=3000)
    failing = []
    if rc != 0:
        for m in re.finditer(r'error: ([^\s:]+\.lean):(\d+):(\d+): (.*)', out):
            failing.append({'file': m.group(1), 'line': int(m.group(2)), 'msg': m.group(4)[:300]})
    return rc == 0, out, failing, time.time() - t0


def decl_at(path, line):
    """name of the theorem/def enclosing `line` of a Lean file"""
    try:
        lines = open(os.path.join(LEAN, path)).read().split('\n')
    except OSError:
        return None
    for i in range(min(line, len(lines)) - 1, -1, -1):
        m = re.match(r'\s*(?:private\s+)?(theorem|lemma|def|example|instance|abbrev)\s+([^\s:(\[{]+)?', lines[i])
        if m and not lines[i].startswith(' '):
            return (m.group(2) or m.group(1))
    return None


def module_file(mod):
    return os.path.join(LEAN, *mod.split('.')) + '.lean'


def import_cone(mods):
    """transitive closure of project-local imports"""
    seen, todo = [], list(mods)
    while todo:
        m = todo.pop()
        if m in seen or not m.startswith('DcmVerif'):
            continue
        seen.append(m)
        try:
            txt = open(module_file(m)).read()
        except OSError:
            continue
        for im in re.findall(r'^import\s+(\S+)', txt, flags=re.M):
            todo.append(im)
    return seen


def audit(prop_module, theorems):
    """`#print axioms` for every property theorem + forbidden-token grep over the import cone.
    Returns dict(ok, axioms: {thm: [..]}, problems: [..])"""
    problems = []
    cone = import_cone([prop_module])
    for m in cone:
        try:
            txt = strip_comments(open(module_file(m)).read())
        except OSError:
            problems.append('cannot read ' + m)
            continue
        for ln in txt.split('\n'):
            if FORBIDDEN.search(ln):
                problems.append('%s: forbidden token in: %s' % (m, ln.strip()[:120]))
    # non-DcmVerif imports (Mathlib etc.) are reported, not forbidden, except in Model files
    for m in cone:
        if '.Model.' in m or '.Generated.' in m:
            txt = open(module_file(m)).read()
            for im in re.findall(r'^import\s+(\S+)', txt, flags=re.M):
                if not im.startswith('DcmVerif') and not im.startswith('Lean.Data.Json'):
                    problems.append('%s imports %s (model files must be import-free)' % (m, im))
    src = 'import %s\n' % prop_module + ''.join('#print axioms %s\n' % t for t in theorems)
    tmpdir = tempfile.mkdtemp(prefix='dcmverif_audit_')
    try:
        f = os.path.join(tmpdir, 'Audit.lean')
        open(f, 'w').write(src)
        rc, out = run(['lake', 'env', 'lean', f], cwd=LEAN, timeout=1200)
    finally:
        shutil.rmtree(tmpdir, ignore_errors=True)
    axioms = {}
    if rc != 0:
        problems.append('audit file failed: ' + out[-1500:])
    # parse: "'name' depends on axioms: [a, b]" / "'name' does not depend on any axioms"
    flat = re.sub(r'\s+', ' ', out)
    for t in theorems:
        m = re.search(r"'%s' depends on axioms: \[([^\]]*)\]" % re.escape(t), flat)
        if m:
            axs = [a.strip() for a in m.group(1).split(',') if a.strip()]
        elif re.search(r"'%s' does not depend on any axioms" % re.escape(t), flat):
            axs = []
        else:
            problems.append('no axiom report for ' + t)
            continue
        axioms[t] = axs
        extra = set(axs) - STD_AXIOMS
        if extra:
            problems.append('%s depends on non-standard axioms %s' % (t, sorted(extra)))
    return {'ok': not problems, 'axioms': axioms, 'problems': problems, 'cone': cone}


class Driver:
    """line protocol to the compiled model"""

    def __init__(self):
        if not os.path.exists(DRIVER):
            raise Infra('model driver not built: ' + DRIVER)

    def ask(self, reqs):
        if not reqs:
            return []
        data = '\n'.join(json.dumps(r, separators=(',', ':')) for r in reqs) + '\n'
        p = subprocess.run([DRIVER], input=data, stdout=subprocess.PIPE, stderr=subprocess.PIPE,
                           text=True, timeout=1800)
        if p.returncode != 0:
            raise Infra('driver crashed: ' + p.stderr[-1000:])
        lines = p.stdout.strip('\n').split('\n')
        if len(lines) != len(reqs):
            raise Infra('driver answered %d lines for %d requests' % (len(lines), len(reqs)))
        return [json.loads(l) for l in lines]


# ------------------------------------------------------------------ findings / evidence

def load_known():
    try:
        return json.load(open(KNOWN))
    except OSError:
        return {'findings': []}


LAST_REPORT = None


class Report:
    """collects everything one check run produces and turns it into the verdict"""

    def __init__(self, pid, tier):
        self.pid, self.tier = pid, tier
        self.t0 = time.time()
        self.violations = []       # (what, replay dict)
        self.known_seen = {}       # finding id -> text
        self.proof = {'obligations': 0, 'discharged': 0, 'theorems': [], 'problems': []}
        self.corr = {}             # suite -> dict(cases, agree, disagree, skipped, in_domain)
        self.oracle = {}           # name -> dict(cases, failures)
        self.samples = []
        self.dist = {}
        self.notes = []
        self.trusted = []
        self.assumptions = []
        self.nontrivial = set()
        self.evaluations = 0
        self.known = [f for f in load_known().get('findings', []) if f.get('property') == pid
                      or pid in f.get('properties', [])]
        global LAST_REPORT
        LAST_REPORT = self         # what an aborted run had established so far is reported with the abort

    # -- bookkeeping
    def count(self, name, k=1):
        self.dist[name] = self.dist.get(name, 0) + k

    def sample(self, s, cap=6):
        if len(self.samples) < cap:
            self.samples.append(s)

    def nontriv(self, key):
        self.nontrivial.add(key if isinstance(key, str) else json.dumps(key, sort_keys=True, default=str))

    def match_known(self, case):
        """`case` is a dict with at least 'tag'; a known finding matches by its tag (specific failing
        shape of input), optionally refined by a predicate evaluated by the caller"""
        tag = case.get('tag', '')
        for f in self.known:
            if f.get('kind') != 'known':
                continue
            for t in [f.get('tag')] + list(f.get('tags', [])):
                # a finding about what an operation returns or raises says nothing about what it does to its inputs:
                # failures of the input-purity oracles (`…/inputs`, `…/alias`) only match a finding that names them
                pure = tag.rsplit('/', 1)[-1] in ('inputs', 'alias')
                if t and (tag == t or (tag.startswith(t + '/') and not pure) or fnmatch.fnmatchcase(tag, t)):
                    return f
        return None

    def failure(self, what, case):
        """an oracle failure on the implementation: known finding or violation"""
        f = self.match_known(case)
        if f is not None:
            self.known_seen[f['id']] = f.get('what', what)
            return
        self.violations.append((what, case, False))

    def unproved(self, what, case):
        """a proof obligation / correspondence that no longer checks, with no failing input"""
        self.violations.append((what, case, True))

    # -- output
    def finish(self):
        os.makedirs(EVID, exist_ok=True)
        wall = time.time() - self.t0
        lines = []
        rc = 0
        for fid, text in sorted(self.known_seen.items()):
            lines.append('KNOWN-FINDING: property=%s %s: %s' % (self.pid, fid, text))
        # real failing inputs first; if any exists, the no-failing-input reports are subsumed
        real = [v for v in self.violations if not v[2]]
        unpr = [v for v in self.violations if v[2]]
        chosen = real[:3] if real else unpr[:3]
        if chosen:
            os.makedirs(REPLAYS, exist_ok=True)
        for what, case, nofail in chosen:
            rc = 1
            body = {'property': self.pid, 'seed': seed(), 'tier': self.tier, 'what': what,
                    'case': case, 'no_failing_input_found': nofail}
            h = hashlib.sha256(json.dumps(body, sort_keys=True, default=str).encode()).hexdigest()[:10]
            path = os.path.join(REPLAYS, '%s-%s.json' % (self.pid, h))
            with open(path, 'w') as fh:
                json.dump(body, fh, indent=1, default=str)
            lines.append('VIOLATION property=%s replay=%s%s' % (
                self.pid, path, ' no-failing-input-found' if nofail else ''))
        ev = {
            'property_id': self.pid, 'tier': self.tier, 'seed': seed(), 'level': 'proof',
            'coverage': {
                'obligations': self.proof['obligations'], 'discharged': self.proof['discharged'],
                'checker_cmd': 'cd lean && lake build DcmVerif.Props.%s dcmdriver && lake env lean <audit: #print axioms of every property theorem>' % self.pid,
                'trusted_base': self.trusted,
                'theorems': self.proof['theorems'],
                'proof_problems': self.proof['problems'],
                'axioms': self.proof.get('axioms', {}),
                'leanchecker': self.proof.get('leanchecker', 'thorough tier only'),
                'correspondence': self.corr, 'oracles': self.oracle,
                'evaluations': self.evaluations, 'distinct_nontrivial': len(self.nontrivial),
                'rule': 'distinct = distinct canonical JSON of the generated case; non-trivial = the case reaches the operation under test with at least one key / file / token that varies (see per-suite notes)',
                'samples': self.samples or ['(no generated cases in this run)'],
                'input_distribution': self.dist,
                'known_findings_seen': sorted(self.known_seen),
                'notes': self.notes,
            },
            'assumptions': self.assumptions,
            'wall_s': round(wall, 2),
            'violations': len([v for v in self.violations]),
        }
        with open(os.path.join(EVID, '%s.json' % self.pid), 'w') as fh:
            json.dump(ev, fh, indent=1, default=str)
        for l in lines:
            print(l)
        print('%s %s: proofs %d/%d, evaluations %d, distinct non-trivial %d, violations %d, known %d, %.1fs' % (
            self.pid, self.tier, self.proof['discharged'], self.proof['obligations'], self.evaluations,
            len(self.nontrivial), len(self.violations), len(self.known_seen), wall))
        return rc


def prove(rep, pid, theorems, extra_targets=()):
    """translator + lake build of the property module + audit.  Fills rep.proof; on failure
    registers an `unproved` (the caller's searches may still find a failing input)."""
    # one check at a time writes lean/.lake and the generated tables; the searches that follow run
    # without the lock (an up-to-date build is not touched by a second `lake build`)
    import fcntl
    os.makedirs(os.path.join(VERIF, '.locks'), exist_ok=True)
    with open(os.path.join(VERIF, '.locks', 'build.lock'), 'w') as lock:
        fcntl.flock(lock, fcntl.LOCK_EX)
        return _prove(rep, pid, theorems, extra_targets)


def _prove(rep, pid, theorems, extra_targets=()):
    from .source_groups import source_theorems, DEPS
    theorems = source_theorems(pid) + [t for t in theorems if not t.startswith('Source.')]
    tab = gen_tables()
    if tab.get('missing'):
        rep.proof['problems'].append('translator could not extract: %s' % tab['missing'])
    # only the function groups this property's model depends on count for it
    groups = DEPS.get(pid, [])
    cmiss = [m for g in groups for m in tab.get('code_missing', {}).get(g, [])]
    if cmiss:
        rep.proof['problems'].append('function translator could not translate: %s' % cmiss)
    rep.proof['code_groups'] = {g: tab.get('code_shas', {}).get(g) for g in groups}
    mod = 'DcmVerif.Props.%s' % pid
    ok, log, failing, secs = lake_build([mod, 'dcmdriver'] + list(extra_targets))
    rep.proof['obligations'] = len(theorems)
    rep.proof['theorems'] = list(theorems)
    rep.proof['build_s'] = round(secs, 1)
    rep.proof['tables_sha'] = tab.get('sha')
    rep.proof['code_sha'] = tab.get('code_sha')
    if not ok:
        names = []
        for f in failing:
            d = decl_at(f['file'], f['line'])
            names.append('%s (%s:%d: %s)' % (d, f['file'], f['line'], f['msg'][:120]))
        if not os.path.exists(DRIVER) or 'dcmdriver' in ' '.join(names):
            pass
        rep.proof['problems'].append('lake build failed: ' + '; '.join(names[:6]))
        rep.unproved('proof obligations of %s no longer build' % pid,
                     {'kind': 'proof', 'failing': names[:10], 'log_tail': log[-1500:]})
        return False
    a = audit(mod, theorems)
    rep.proof['axioms'] = a['axioms']
    rep.proof['discharged'] = len([t for t in theorems if t in a['axioms']
                                   and not (set(a['axioms'][t]) - STD_AXIOMS)])
    if not a['ok']:
        rep.proof['problems'] += a['problems']
        rep.unproved('audit of %s failed' % pid, {'kind': 'audit', 'problems': a['problems'][:10]})
        return False
    if rep.tier == 'thorough':
        # independent re-check of the compiled modules (every project module the property imports)
        mods = sorted(import_cone([mod]))
        t0 = time.time()
        rc, out = run(['lake', 'env', 'leanchecker'] + mods, cwd=LEAN, timeout=3600)
        rep.proof['leanchecker'] = {'modules': mods, 'rc': rc, 'seconds': round(time.time() - t0, 1),
                                    'output_tail': out[-400:]}
        if rc != 0:
            rep.proof['problems'].append('leanchecker rejected the compiled modules: ' + out[-300:])
            rep.unproved('leanchecker does not accept the compiled proofs of %s' % pid,
                         {'kind': 'leanchecker', 'log_tail': out[-1500:]})
            return False
    return True
