"""C14: the metadata filter removes exactly the keys it is told to, nothing else."""
import json, re, copy, os
import numpy as np
from . import core, meta as M, suite_meta as SM, stackgen as G, check_stack as CS, check_codecorr as CC

THEOREMS = ['C14.default_lists_literal', 'C14.substring_iff', 'C14.default_filter_iff', 'C14.default_excluded',
            'C14.default_keeps_included', 'C14.default_keeps_unmatched', 'C14.default_examples',
            'C14.extra_lists_compose', 'C14.regex_filter', 'C14.regex_filter_append', 'C14.filter_key',
            'C14.filter_entries', 'C14.filter_keys', 'C14.filter_geometry', 'C14.filter_valid', 'C14.filter_meta_regex_chain']

WORDS = ['Patient', 'Name', 'Date', 'UID', 'Echo', 'Time', 'Image', 'Position', 'Orientation', 'Series',
         'Instance', 'Csa', 'Physician', 'Age', 'Comment', 'Station', 'Private', 'X', 'Number', 'Study']



def incl_arg(r, incl):
    """how a caller hands over the include patterns: a list or tuple; nothing to include is None, an
    empty list or an empty tuple (all three mean: no key is force-included)"""
    if incl:
        return r.choice([list(incl), tuple(incl)])
    return r.choice([None, [], ()])

def gen_key(r):
    from pydicom.datadict import DicomDictionary
    x = r.random()
    if x < 0.4:
        kws = gen_key.kws
        return r.choice(kws)
    if x < 0.55:
        return r.choice(['CsaImage.', 'CsaSeries.', 'CsaSeries.MrPhoenixProtocol.']) + ''.join(r.choice(WORDS) for _ in range(r.randint(1, 3)))
    if x < 0.8:
        return ''.join(r.choice(WORDS) for _ in range(r.randint(1, 4)))
    return ''.join(r.choice('abcXYZ_019.[]') for _ in range(r.randint(1, 10)))


def main(pid, tier):
    import dcmstack
    from pydicom.datadict import DicomDictionary
    gen_key.kws = sorted({v[4] for v in DicomDictionary.values() if v[4]})
    rep = core.Report(pid, tier)
    rep.disagreements = []
    rep.trusted = [
        'Lean 4.33.0 kernel; standard axioms only',
        'tools/gen_tables.py for default_key_excl_res / default_key_incl_res (the theorems are about the extracted lists)',
        "Python `re`: for patterns without metacharacters re.search is substring search; '|'.join('(?:'+r+')') is alternation (for non-literal patterns only the implementation-side oracle, written with `re`, is used)",
    ]
    core.prove(rep, pid, THEOREMS, extra_targets=['dcmcode'])
    r = core.rng(pid)
    drv = core.Driver()
    reqs, meta = [], []
    co = rep.corr.setdefault('regex_filter', {'cases': 0, 'agree': 0, 'disagree': 0, 'skipped': 0})
    # ---- (a) make_key_regex_filter with literal lists vs the model; with regexes vs `re`
    n = 300 if tier == 'quick' else 6000
    for i in range(n):
        literal = r.random() < 0.7
        if literal:
            # "all combinations of exclude / include lists": the empty exclude list (nothing to remove) included
            excl = r.sample(WORDS, r.choice([0, 1, 1, 2, 3, 4]))
            incl = r.sample(WORDS, r.randint(0, 2))
        else:
            pool = ['^Patient', 'Date$', 'U.D', 'Echo|Flip', 'Series(Number|Description)', '[A-Z]{3}$', 'Time\\b', '^.$']
            excl = r.sample(pool, r.randint(1, 3))
            incl = r.sample(pool + WORDS, r.randint(0, 2))
        keys = [gen_key(r) for _ in range(12)]
        flt = dcmstack.make_key_regex_filter(excl, incl_arg(r, incl))
        got = [bool(flt(k, None)) for k in keys]
        exp = [bool(any(re.search(e, k) for e in excl) and not any(re.search(x, k) for x in incl)) for k in keys]
        rep.evaluations += 1
        rep.count('filter/' + ('literal' if literal else 'regex') + ('/empty-exclude' if not excl else ''))
        rep.nontriv([excl, incl, keys])
        rep.sample({'suite': 'filter', 'excl': excl, 'incl': incl, 'keys': keys[:4]}, cap=3)
        if got != exp:
            rep.failure('make_key_regex_filter(%s, %s) on %s: %s, exclude-unless-included gives %s' % (excl, incl, keys, got, exp),
                        {'tag': 'filter:regex' + (':empty-exclude' if not excl else ''), 'suite': 'filter', 'excl': excl, 'incl': incl, 'keys': keys})
        if literal:
            reqs.append({'op': 'regex_filter', 'excl': excl, 'incl': incl, 'keys': keys})
            meta.append(('regex', (excl, incl, keys), got))
    # ---- (b) the default filter and CLI-style extra lists
    for i in range(n // 3):
        keys = [gen_key(r) for _ in range(20)] + ['ImagePositionPatient', 'ImageOrientationPatient', 'PatientName',
                                                   'ReferencedImageSequence', 'EchoTime']
        ee = r.sample(WORDS, r.randint(0, 2))
        ei = r.sample(WORDS, r.randint(0, 2))
        flt = dcmstack.make_key_regex_filter(dcmstack.default_key_excl_res + ee, dcmstack.default_key_incl_res + ei)
        got = [bool(flt(k, None)) for k in keys]
        if not ee and not ei:
            got2 = [bool(dcmstack.default_meta_filter(k, None)) for k in keys]
            if got2 != got:
                rep.failure('default_meta_filter differs from make_key_regex_filter(default lists)',
                            {'tag': 'filter:default', 'suite': 'filter', 'keys': keys})
        exp = [bool(any(e in k for e in dcmstack.default_key_excl_res + ee) and
                    not any(x in k for x in dcmstack.default_key_incl_res + ei)) for k in keys]
        rep.evaluations += 1
        rep.count('filter/default')
        rep.nontriv(['default', ee, ei, keys])
        if got != exp:
            rep.failure('default filter (+%s, +%s): %s, expected %s' % (ee, ei, got, exp),
                        {'tag': 'filter:default', 'suite': 'filter', 'extra_excl': ee, 'extra_incl': ei, 'keys': keys})
        reqs.append({'op': 'default_filter', 'keys': keys, 'extra_excl': ee, 'extra_incl': ei})
        meta.append(('default', (ee, ei, keys), got))
    # ---- (c) filter_meta / clear_slice_meta on extensions with keys in every classification
    creqs, cmeta = [], []
    for i in range(150 if tier == 'quick' else 3000):
        case = SM.gen_subset_case(r, tier)
        ext = SM.build_parent(case)
        keys = ext.get_keys()
        drop = [k for k in keys if r.random() < 0.4]
        before = {k: M.cv(ext.get_values_and_class(k)) for k in keys}
        m0 = M.ext_to_model(ext)
        e2 = copy.deepcopy(ext)
        e2.filter_meta(lambda k, v: k in drop)
        rep.evaluations += 1
        rep.count('filter/filter_meta')
        rep.nontriv([case, drop])
        left = e2.get_keys()
        if sorted(left) != sorted(k for k in keys if k not in drop):
            rep.failure('filter_meta removed %s, told to remove %s' % (sorted(set(keys) - set(left)), sorted(drop)),
                        {'tag': 'filter:filter_meta', 'suite': 'filter', 'case': case, 'drop': drop})
        elif any(M.cv(e2.get_values_and_class(k)) != before[k] for k in left):
            rep.failure('filter_meta changed the values or class of a kept key',
                        {'tag': 'filter:filter_meta', 'suite': 'filter', 'case': case, 'drop': drop})
        reqs.append({'op': 'filter_meta', 'ext': m0, 'drop': drop})
        meta.append(('filter_meta', (case, drop), M.ext_to_model(e2)))
        e3 = copy.deepcopy(ext)
        e3.clear_slice_meta()
        reqs.append({'op': 'clear_slice_meta', 'ext': m0})
        meta.append(('clear', (case,), M.ext_to_model(e3)))
        # the same three methods as translated from the source (`Props/Source_content.lean`), on the nested dictionaries
        c0 = CC.content_of(ext)
        if c0 is not None:
            shp = [int(x) for x in ext.shape]
            creqs += [{'op': 'filter_meta', 'shape': shp, 'content': c0, 'drop': drop},
                      {'op': 'clear_slice_meta', 'shape': shp, 'content': c0},
                      {'op': 'get_keys', 'shape': shp, 'content': c0}]
            cmeta += [('filter_meta', (case, drop), CC.content_of(e2)), ('clear_slice_meta', (case,), CC.content_of(e3)),
                      ('get_keys', (case,), list(keys))]
    for a, (kind, case, got) in zip(drv.ask(reqs), meta):
        co['cases'] += 1
        if kind in ('filter_meta', 'clear'):
            ok = M.canon_model_ext(a) == M.canon_model_ext(got)
        else:
            ok = a == got
        if ok:
            co['agree'] += 1
        else:
            co['disagree'] += 1
            rep.disagreements.append(('regex_filter', 'filter:' + kind, {'case': case},
                                      'model %s vs implementation %s' % (json.dumps(a)[:300], json.dumps(got)[:300])))
    cc = rep.corr.setdefault('translated_content_methods', {'cases': 0, 'agree': 0, 'disagree': 0})
    if not os.path.exists(CC.CODE_DRIVER):
        rep.unproved('the driver of the translated functions (dcmcode) is not built', {'kind': 'correspondence', 'suite': 'content'})
    else:
        for a, (kind, case, got) in zip(CC.ask(creqs), cmeta):
            cc['cases'] += 1
            if a.get('ok') == got:
                cc['agree'] += 1
            else:
                cc['disagree'] += 1
                rep.disagreements.append(('translated_content_methods', 'content:' + kind, {'case': case},
                                          'translated %s vs implementation %s' % (json.dumps(a)[:300], json.dumps(got)[:300])))
    # ---- (d) conversion: key set = extracted minus filtered, default and custom filters
    nconv = 25 if tier == 'quick' else 500
    for ci in range(nconv):
        series = G.gen_series(r, tier)
        truth = CS.extracted(series)
        custom = r.random() < 0.5
        if custom:
            excl = r.sample(['Series', 'Image', 'Echo', 'Window', 'Number', 'Bits', 'Pixel'], r.randint(1, 3))
            incl = r.sample(['Position', 'Type', 'Stored'], r.randint(0, 2))
            flt = dcmstack.make_key_regex_filter(excl, incl_arg(r, incl))
        else:
            excl, incl, flt = None, None, None
        try:
            st, _ = G.new_stack(series, meta_filter=flt)
            order = r.choice(['', 'LAS', 'RPI', 'SAL'])
            nii = CS.quiet(st.to_nifti, order, True)
        except Exception as e:
            rep.failure('conversion raised %r' % e, {'tag': 'filter:convert', 'suite': 'filter', 'series': series})
            continue
        rep.evaluations += 1
        rep.count('filter/convert_' + ('custom' if custom else 'default'))
        rep.nontriv(['convert', ci, excl, incl])
        for f in CS.oracle_c14(series, nii, truth, excl, incl if incl is not None else ([] if custom else None))[:1]:
            rep.failure(f, {'tag': 'filter:convert', 'suite': 'filter', 'series': series, 'excl': excl, 'incl': incl, 'order': order})
    # ---- (e) parse_and_stack with a user filter over a directory holding several series: every group is filtered with it
    import tempfile, shutil, glob, warnings
    from . import check_c19 as C19
    tmpd = tempfile.mkdtemp(prefix='dcmverif_c14_')
    try:
        for di in range(4 if tier == 'quick' else 40):
            d_ = os.path.join(tmpd, 'dir%d' % di)
            sers = C19.write_series_dir(r, tier, d_, nser=r.choice([2, 3]))
            excl = r.sample(['Echo', 'Rows', 'Columns', 'Number', 'Bits', 'Pixel', 'Window'], r.randint(1, 3))
            flt = dcmstack.make_key_regex_filter(excl, [])
            paths = sorted(glob.glob(os.path.join(d_, '*.dcm')))
            rep.evaluations += 1
            rep.count('filter/parse_and_stack')
            case = {'suite': 'filter', 'exclude': excl, 'series': [{k: v for k, v in s_.items() if k not in ('files', 'patterns')} for s_ in sers]}
            try:
                with warnings.catch_warnings():
                    warnings.simplefilter('ignore')
                    stacks = dcmstack.parse_and_stack(paths, warn_on_except=True, meta_filter=flt,
                                                      time_order=dcmstack.DicomOrdering('EchoTime'))
                    groups = dcmstack.parse_and_group(paths, warn_on_except=True)
                    for key, st in stacks.items():
                        got = CS.quiet(st.to_nifti_wrapper).meta_ext
                        ref = CS.quiet(dcmstack.stack_group(groups[key], warn_on_except=True, meta_filter=flt,
                                                            time_order=dcmstack.DicomOrdering('EchoTime')).to_nifti_wrapper).meta_ext
                        bad_keys = [k for k in got.get_keys() if flt(k, None)]
                        if bad_keys or sorted(got.get_keys()) != sorted(ref.get_keys()):
                            rep.failure('parse_and_stack(meta_filter=exclude %s): the stack of group %s keeps %s; a stack of the same '
                                        'files built with that filter has the keys %s' % (excl, list(key)[:2], bad_keys or sorted(
                                            set(got.get_keys()) ^ set(ref.get_keys())), len(ref.get_keys())),
                                        dict(case, tag='filter:parse_and_stack'))
                            break
            except Exception as e:
                rep.notes.append('parse_and_stack probe: %r' % e)
            shutil.rmtree(d_, ignore_errors=True)
    finally:
        shutil.rmtree(tmpd, ignore_errors=True)
    from .check_meta import finish_disagreements
    finish_disagreements(rep)
    return rep.finish()
