"""C19: the command-line tools do what the API does and keep no hidden state."""
import os, sys, json, copy, glob, warnings, tempfile, shutil, subprocess, io, contextlib, hashlib
import numpy as np
from . import core, synth, stackgen as G, check_stack as CS, check_c18 as C18, meta as M

THEOREMS = ['C19.cli_no_alias', 'C19.cli_stateless', 'C19.cli_seq_independent', 'C19.cli_filter_is_exclude_unless_included',
            'C19.inject_refuses', 'C19.inject_only_key', 'C19.inject_valid', 'C19.names_unique', 'C19.names_length']


def write_series_dir(r, tier, d, nser=None):
    """1–3 series in one directory; returns list of (series, files) for reference"""
    os.makedirs(d, exist_ok=True)
    out = []
    nser = nser or r.randint(1, 3)
    k = 0
    for si in range(nser):
        series = G.gen_series(r, tier, S=r.randint(1, 3), T=r.choice([1, 2]), V=1, ordering='explicit',
                              orient=r.choice(['axial', 'sagittal', 'coronal']))
        uid = '1.2.3.%d' % (100 + si)
        # which of the attributes the default output name is built from the series carries: a derived
        # series often has a description but no protocol name, some have no series number
        naming = r.choice(['num+prot', 'num+prot', 'num+descr', 'num', 'prot', 'descr'])
        series['naming'] = naming
        for f in series['files']:
            f['meta'].update({'SeriesInstanceUID': uid})
            for kk in ('SeriesNumber', 'ProtocolName', 'SeriesDescription'):
                f['meta'].pop(kk, None)
            if naming.startswith('num'):
                f['meta']['SeriesNumber'] = 1 + si
            if 'prot' in naming:
                f['meta']['ProtocolName'] = 'prot %d' % si
            if 'descr' in naming:
                f['meta']['SeriesDescription'] = 'descr %d' % si
            ds = G.dataset_of(series, dict(f, id=k))
            # a private block: its creator element is extracted (as `PrivateCreator`) only under --extract-private
            ds.add_new((0x0029, 0x0010), 'LO', 'VERIF VENDOR')
            ds.add_new((0x0029, 0x1001), 'LO', 'private text %d' % si)
            f['_path'] = 'im%03d.dcm' % k
            C18.write_ds(ds, os.path.join(d, f['_path']))
            k += 1
        out.append(series)
    if r.random() < 0.3:
        # a dataset without pixels in the same directory: skipped with a warning by grouping
        from . import synth
        ds = synth.make_ds([0, 0, 0], [1, 0, 0, 0, 1, 0], 2, 2, [1, 1], None, with_pixels=False, uid='1.2.9.77',
                           meta={'SeriesInstanceUID': '1.2.3.100', 'SeriesNumber': 1, 'ProtocolName': 'prot 0'})
        C18.write_ds(ds, os.path.join(d, 'zz_nonimage.dcm'))
    return out


def digest_dir(d, pattern='*.nii*'):
    """content digest of every output file (data, affine, header fields, extension JSON) + json dumps"""
    import nibabel as nb
    res = {}
    for p in sorted(glob.glob(os.path.join(d, pattern))):
        nii = nb.load(p)
        res[os.path.basename(p)] = CS.nii_digest(nii)
    for p in sorted(glob.glob(os.path.join(d, '*.json'))):
        res[os.path.basename(p)] = hashlib.sha256(open(p, 'rb').read()).hexdigest()
    return res


def run_cli_inproc(argv):
    from dcmstack import dcmstack_cli
    buf = io.StringIO()
    with warnings.catch_warnings():
        warnings.simplefilter('ignore')
        # process-global state an invocation has no business changing
        before = (list(warnings.filters), dict(os.environ), os.getcwd(), list(sys.path))
        with contextlib.redirect_stdout(buf), contextlib.redirect_stderr(io.StringIO()):
            try:
                rc = dcmstack_cli.main(['dcmstack'] + argv)
            except SystemExit as e:
                rc = e.code
            except Exception as e:
                rc = 'raised %r' % (e,)
        after = (list(warnings.filters), dict(os.environ), os.getcwd(), list(sys.path))
        LEAKS[:] = [n for n, a, b in zip(('warnings.filters', 'os.environ', 'cwd', 'sys.path'), before, after) if a != b]
        os.chdir(before[2])
    return rc, buf.getvalue()


LEAKS = []


def run_cli_fresh(argv, module='dcmstack_cli', stdin=None):
    env = dict(os.environ, PYTHONPATH=os.path.join(core.REPO, 'src'), PYTHONHASHSEED='0')
    code = "import sys, warnings; warnings.simplefilter('ignore'); from dcmstack import %s as m; sys.exit(m.main(['x'] + sys.argv[1:]))" % module
    p = subprocess.run([sys.executable, '-W', 'ignore', '-c', code] + argv, env=env, stdout=subprocess.PIPE,
                       stderr=subprocess.PIPE, text=True, timeout=600, input=stdin)
    return p.returncode, p.stdout


def api_reference(src_dir, opts):
    """what the API produces for the same options: {group index: digest}"""
    import dcmstack
    from dcmstack import extract
    paths = glob.glob(os.path.join(src_dir, '*.dcm'))
    gen_meta = opts.get('embed') or opts.get('dump')
    if gen_meta and opts.get('extract_private'):
        extractor = extract.MetaExtractor((extract.ignore_pixel_data, extract.ignore_overlay_data, extract.ignore_color_lut_data))
    else:
        extractor = extract.MetaExtractor() if gen_meta else extract.minimal_extractor
    excl = list(dcmstack.default_key_excl_res) + opts.get('excl', [])
    incl = list(dcmstack.default_key_incl_res) + opts.get('incl', [])
    flt = dcmstack.make_key_regex_filter(excl, incl)
    with warnings.catch_warnings():
        warnings.simplefilter('ignore')
        warn = not opts.get('strict')
        groups = dcmstack.parse_and_group(paths, dcmstack.default_group_keys, extractor, False, warn)
        out = []
        for key, group in groups.items():
            st = dcmstack.stack_group(group, warn_on_except=warn, time_order=dcmstack.DicomOrdering(opts['time_var']) if opts.get('time_var') else None,
                                      vector_order=None, meta_filter=flt)
            nii = CS.quiet(st.to_nifti, opts.get('voxel_order', 'LAS'), bool(gen_meta))
            jd = None
            if opts.get('dump'):
                from dcmstack.dcmmeta import NiftiWrapper
                w = NiftiWrapper(nii)
                jd = w.meta_ext.to_json()
                if not opts.get('embed'):
                    w.remove_extension()
            out.append((CS.nii_digest(nii), jd))
    return out


def argv_of(src, dest, opts):
    a = ['--dest-dir', dest, '--output-ext', opts.get('ext', '.nii.gz')]
    if opts.get('embed'):
        a.append('--embed-meta')
    if opts.get('dump'):
        a.append('--dump-meta')
    if 'voxel_order' in opts:
        a += ['--voxel-order', opts['voxel_order']]
    if opts.get('time_var'):
        a += ['-t', opts['time_var']]
    if opts.get('strict'):
        a.append('--strict')
    if opts.get('extract_private'):
        a.append('--extract-private')
    for e in opts.get('excl', []):
        a += ['-e', e]
    for i in opts.get('incl', []):
        a += ['-i', i]
    return a + [src]


def gen_opts(r):
    o = {'embed': r.random() < 0.7, 'dump': r.random() < 0.3, 'voxel_order': r.choice(['LAS', 'RAS', 'LPI', '']),
         'time_var': 'EchoTime', 'ext': r.choice(['.nii.gz', '.nii'])}
    if r.random() < 0.5:
        # plain words and real regular expressions (bounded repeats contain a comma)
        o['excl'] = r.sample(['Echo', 'Window', 'Sequence', 'Number', 'ImageType', '^S[a-z]{5,8}Name$',
                              'Echo.{0,3}Time', '^(Window|Rescale)[A-Z]'], r.randint(1, 2))
    if r.random() < 0.25:
        o['strict'] = True
    if r.random() < 0.2:
        o['extract_private'] = True
    if r.random() < 0.3:
        o['incl'] = r.sample(['SeriesInstanceUID', 'PatientName', 'StudyDate', '^Patient.{0,2}Position$'], 1)
    return o


def tags_round(rep):
    """--disable-translator takes group_element pairs in hexadecimal, with or without the 0x prefix"""
    import pydicom
    from dcmstack import dcmstack_cli
    for text, want in [('0x29_0x1010', [(0x29, 0x1010)]), ('29_1010', [(0x29, 0x1010)]), ('0029_1010', [(0x29, 0x1010)]),
                       ('0x29_0x1010,0x29_0x1020', [(0x29, 0x1010), (0x29, 0x1020)]), ('7fe1_00ff', [(0x7fe1, 0xff)]),
                       ('0X0019_0X10aB', [(0x19, 0x10ab)])]:
        rep.evaluations += 1
        rep.count('cli/parse-tags')
        try:
            got = [(int(t.group), int(t.elem)) for t in dcmstack_cli.parse_tags(text)]
        except Exception as e:
            got = repr(e)
        if got != want:
            rep.failure('parse_tags(%r) = %s, the tags written are %s' % (text, got, [tuple(hex(x) for x in w) for w in want]),
                        {'tag': 'cli:parse_tags', 'suite': 'cli', 'text': text})


def dcmstack_round(rep, r, tier, tmp):
    n = 8 if tier == 'quick' else 120
    for ci in range(n):
        src = os.path.join(tmp, 'src%d' % ci)
        sers = write_series_dir(r, tier, src)
        sdesc = [{k: v for k, v in s_.items() if k not in ('files', 'patterns')} for s_ in sers]
        seq = [gen_opts(r) for _ in range(r.randint(2, 4))]
        # a leak needs an option in an earlier invocation that a later one does not give
        if all('excl' not in o for o in seq[:-1]):
            seq[0]['excl'] = ['Echo']
        if ci % 2 == 0:
            # a real regular expression (bounded repeat, so it contains a comma) that removes a key
            # every file has; embedding on, so that the effect is visible in the output
            seq[0]['excl'] = ['Echo.{0,3}Time']
            seq[0]['embed'] = True
        if ci % 3 == 1:
            # an earlier invocation extracts private elements, the last one does not
            seq[0]['extract_private'] = True
            seq[0]['embed'] = True
        seq[-1].pop('excl', None); seq[-1].pop('incl', None); seq[-1].pop('extract_private', None)
        seq[-1]['embed'] = True
        if ci % 3 == 2 and len(seq) > 1:
            # the meta data dumped to JSON but not embedded: the image is written without the extension
            seq[0]['dump'], seq[0]['embed'] = True, False
        for ii, opts in enumerate(seq):
            rep.evaluations += 1
            rep.count('cli/dcmstack')
            rep.nontriv([ci, ii, opts])
            rep.sample({'suite': 'cli', 'argv': argv_of('<src>', '<dest>', opts)}, cap=3)
            d_in = os.path.join(tmp, 'in%d_%d' % (ci, ii)); os.makedirs(d_in)
            d_fr = os.path.join(tmp, 'fr%d_%d' % (ci, ii)); os.makedirs(d_fr)
            rc1, _ = run_cli_inproc(argv_of(src, d_in, opts))
            if LEAKS:
                rep.failure('dcmstack %s changed process-global state that later invocations see: %s' % (
                    ' '.join(argv_of('<src>', '<dest>', opts)), LEAKS),
                    {'suite': 'cli', 'sequence': seq[:ii + 1], 'invocation': ii, 'tag': 'cli:dcmstack:state', 'leaks': list(LEAKS)})
            rc2, _ = run_cli_fresh(argv_of(src, d_fr, opts))
            a, b = digest_dir(d_in), digest_dir(d_fr)
            case = {'suite': 'cli', 'sequence': seq[:ii + 1], 'invocation': ii, 'series': sdesc}
            if rc1 != 0 or rc2 != 0:
                rep.failure('dcmstack exited with %s (in-process) / %s (fresh process)' % (rc1, rc2), dict(case, tag='cli:dcmstack:rc'))
                continue
            if a != b:
                rep.failure('invocation %d of a sequence in one process writes different files than the same invocation in a fresh process (%s)' % (
                    ii, sorted(k for k in set(a) | set(b) if a.get(k) != b.get(k))), dict(case, tag='cli:dcmstack:state'))
            # against the API
            try:
                ref = api_reference(src, opts)
            except Exception as e:
                rep.failure('API reference raised %r' % e, dict(case, tag='cli:dcmstack:api'))
                continue
            niis = [k for k in b if '.nii' in k]
            # the name a group is written under depends on that group alone, not on what else the
            # directory holds: converting each series from a directory of its own gives the same names
            # (as long as they do not collide)
            if ii == len(seq) - 1 and len(sers) > 1:
                alone = []
                for si, s_ in enumerate(sers):
                    d_one = os.path.join(tmp, 'one%d_%d_%d' % (ci, ii, si)); os.makedirs(d_one)
                    d_out = os.path.join(tmp, 'oneout%d_%d_%d' % (ci, ii, si)); os.makedirs(d_out)
                    for f in s_['files']:
                        shutil.copy(os.path.join(src, f['_path']), d_one)
                    rc3, _ = run_cli_inproc(argv_of(d_one, d_out, opts))
                    alone += [k for k in digest_dir(d_out) if '.nii' in k]
                    shutil.rmtree(d_one, ignore_errors=True); shutil.rmtree(d_out, ignore_errors=True)
                if len(set(alone)) == len(alone) == len(sers) and sorted(alone) != sorted(niis):
                    rep.failure('dcmstack names the outputs of a directory %s, but the same series converted from directories '
                                'of their own are named %s' % (sorted(niis), sorted(alone)), dict(case, tag='cli:dcmstack:names'))
            if len(niis) != len(ref):
                rep.failure('dcmstack wrote %d images for %d groups (names %s)' % (len(niis), len(ref), sorted(b)), dict(case, tag='cli:dcmstack:names'))
            elif sorted(b[k] for k in niis) != sorted(x[0] for x in ref):
                rep.failure('dcmstack output differs from the API result for the same options', dict(case, tag='cli:dcmstack:api'))
            if opts.get('dump'):
                js = sorted(open(os.path.join(d_fr, k)).read() for k in b if k.endswith('.json'))
                if js != sorted(x[1] for x in ref):
                    rep.failure('dumped JSON differs from the API extension', dict(case, tag='cli:dcmstack:dump'))
            shutil.rmtree(d_in, ignore_errors=True); shutil.rmtree(d_fr, ignore_errors=True)
        # module defaults untouched after the sequence
        import dcmstack
        from . import check_c14
        rep.evaluations += 1
        if len(dcmstack.default_key_excl_res) != NDEF[0] or len(dcmstack.default_key_incl_res) != NDEF[1]:
            rep.failure('dcmstack_cli.main changed the module default regex lists (%d/%d entries, were %d/%d)' % (
                len(dcmstack.default_key_excl_res), len(dcmstack.default_key_incl_res), NDEF[0], NDEF[1]),
                {'tag': 'cli:dcmstack:defaults', 'suite': 'cli', 'sequence': seq})
            del dcmstack.default_key_excl_res[NDEF[0]:]
            del dcmstack.default_key_incl_res[NDEF[1]:]
        shutil.rmtree(src, ignore_errors=True)


NDEF = [0, 0]


def names_round(rep, r, tier, tmp):
    """output names are unique: groups whose natural names collide, including one that already ends
    in the uniqueness suffix"""
    import nibabel as nb
    lists = [['x-002', 'x', 'x'], ['x', 'x', 'x'], ['a', 'a-001', 'a'], ['p-001', 'p', 'p', 'p'], ['q-003', 'q-002', 'q', 'q', 'q'],
             # names that differ only in characters the path sanitiser replaces
             ['T2 tse', 'T2_tse'], ['a/b', 'a_b', 'a b'], ['m:1', 'm_1', 'm_1-001'],
             # letters and digits outside ASCII are replaced too (the names are meant to be portable path components)
             ['caf\u00e9', 'caf_'], ['t\u00b2', 't_', 't\u00b3']]
    for ci in range(len(lists) if tier == 'quick' else 30):
        src = os.path.join(tmp, 'names%d' % ci)
        os.makedirs(src)
        protos = lists[ci] if ci < len(lists) else r.choice(lists)
        k = 0
        for si, prot in enumerate(protos):
            series = G.gen_series(r, tier, S=2, T=1, V=1, ordering='explicit', orient='axial')
            for f in series['files']:
                f['meta'].update({'SeriesInstanceUID': '1.2.3.%d' % (100 + si), 'SeriesNumber': 5, 'ProtocolName': prot})
                C18.write_ds(G.dataset_of(series, dict(f, id=k)), os.path.join(src, 'im%03d.dcm' % k))
                k += 1
        dest = os.path.join(tmp, 'names_out%d' % ci); os.makedirs(dest)
        rc, _ = run_cli_inproc(['--dest-dir', dest, src])
        outs = glob.glob(os.path.join(dest, '*.nii.gz'))
        rep.evaluations += 1
        rep.count('cli/names')
        rep.nontriv(['names', protos])
        allowed = set('abcdefghijklmnopqrstuvwxyzABCDEFGHIJKLMNOPQRSTUVWXYZ0123456789-_.')
        odd = [os.path.basename(o) for o in outs if set(os.path.basename(o)) - allowed]
        if odd:
            rep.failure('dcmstack wrote files named %s for groups named %s: characters outside ASCII letters, digits and -_. '
                        'are to be replaced by _ in the generated name' % (odd, protos),
                        {'tag': 'cli:dcmstack:names:sanitise', 'suite': 'cli', 'protocols': protos})
        if rc != 0 or len(outs) != len(protos):
            rep.failure('dcmstack wrote %d files for %d groups named %s (a name was reused and a file overwritten)' % (len(outs), len(protos), protos),
                        {'tag': 'cli:dcmstack:names:' + ('suffix-clash' if any('-00' in p for p in protos) else 'plain'), 'suite': 'cli', 'protocols': protos})
        shutil.rmtree(src, ignore_errors=True); shutil.rmtree(dest, ignore_errors=True)


def converted_whole(vals):
    """what `nitool inject` without -t makes of the value strings: all int if every one reads as int, else all float if every
    one reads as float, else the strings"""
    for conv in (int, float):
        try:
            return [conv(v) for v in vals]
        except ValueError:
            pass
    return list(vals)


def nitool_round(rep, r, tier, tmp):
    import nibabel as nb
    from dcmstack import nitool_cli
    from dcmstack.dcmmeta import NiftiWrapper, DcmMetaExtension
    from . import check_wrapper as CW
    drv = core.Driver()
    reqs, meta = [], []
    n = 12 if tier == 'quick' else 200

    def nitool(argv, stdin_text=None):
        buf = io.StringIO()
        old_stdin = sys.stdin
        try:
            if stdin_text is not None:
                sys.stdin = io.StringIO(stdin_text)
            with warnings.catch_warnings():
                warnings.simplefilter('ignore')
                with contextlib.redirect_stdout(buf):
                    try:
                        rc = nitool_cli.main(['nitool'] + argv)
                    except SystemExit as e:
                        rc = e.code
        finally:
            sys.stdin = old_stdin
        return rc, buf.getvalue()

    for ci in range(n):
        case = CW.gen_wrapper_case(r, tier, canonical=True, trimmed=True)
        case['data_kind'] = 'int32'      # files are compared byte for byte: no float -> int16 rescaling on write
        case.pop('oblique', None)
        case['affine'] = M.rand_affine(r).tolist()
        with contextlib.redirect_stdout(io.StringIO()):
            w, data, aff = CW.build_wrapper(case)
        d = os.path.join(tmp, 'nt%d' % ci); os.makedirs(d)
        src = os.path.join(d, 'src.nii.gz')
        w.to_filename(src)
        ext_json = w.meta_ext.to_json()
        rep.evaluations += 1
        rep.count('cli/nitool')
        rep.nontriv(['nitool', case])
        C = {'suite': 'nitool', 'case': case}
        # ---- dump without a destination prints the extension — in every invocation of the process, to the stdout of that moment
        for rep_i in range(2):
            rc, out = nitool(['dump', src])
            rep.evaluations += 1
            rep.count('cli/nitool-dump-stdout')
            if rc != 0 or out.rstrip('\n') != ext_json:
                rep.failure('nitool dump (no destination, invocation %d of the process) printed %r...' % (rep_i, out[:60]),
                            dict(C, tag='nitool:dump-stdout'))
                break
        # ---- dump then embed reproduces the extension
        dj = os.path.join(d, 'dump.json')
        rc, out = nitool(['dump', src, dj])
        if rc != 0 or open(dj).read().rstrip('\n') != ext_json:
            rep.failure('nitool dump does not write the extension JSON', dict(C, tag='nitool:dump'))
        bare = os.path.join(d, 'bare.nii.gz')
        img = nb.load(src)
        nb.Nifti1Image(np.asanyarray(img.dataobj), img.affine).to_filename(bare)
        rc, out = nitool(['embed', dj, bare])
        try:
            w2 = NiftiWrapper.from_filename(bare)
            if w2.meta_ext.to_json() != ext_json:
                rep.failure('nitool dump followed by embed does not reproduce the extension', dict(C, tag='nitool:embed'))
        except Exception as e:
            rep.failure('nitool embed: %r' % e, dict(C, tag='nitool:embed'))
        # ---- embed into a file that has an extension asks, and does what *this* invocation is answered (or forced to)
        try:
            cur = ext_json
            for reply in r.sample(['y', 'n'], 2) + [r.choice(['y', 'n', '-f'])]:
                nd = json.loads(ext_json)
                nd['global']['const']['EmbedMarker'] = r.randrange(10 ** 6)
                nj = os.path.join(d, 'new.json')
                with contextlib.redirect_stdout(io.StringIO()):
                    new_json = DcmMetaExtension.from_runtime_repr(nd).to_json()
                open(nj, 'w').write(new_json)
                if reply == '-f':
                    rc, out = nitool(['embed', '-f', nj, bare])
                else:
                    rc, out = nitool(['embed', nj, bare], stdin_text=r.choice(['', 'x\n', 'maybe\n']) + reply + '\n' + 'y\nn\ny\nn\n')
                want = cur if reply == 'n' else new_json
                rep.evaluations += 1
                rep.count('cli/nitool-embed-existing/' + reply)
                with contextlib.redirect_stdout(io.StringIO()):
                    now = NiftiWrapper.from_filename(bare).meta_ext.to_json()
                if now != want:
                    rep.failure('nitool embed into a file with an extension, answered %r: the file holds %s' % (
                        reply, 'the old extension' if now == cur else ('the new extension' if now == new_json else 'something else')),
                        dict(C, tag='nitool:embed-existing', reply=reply))
                    break
                cur = now
        except Exception as e:
            rep.failure('nitool embed into a file with an extension: %r' % e, dict(C, tag='nitool:embed-existing'))
        # ---- lookup prints what get_meta returns
        for k, cl, vals in case['ents'][:3]:
            idx = tuple(r.randrange(x) for x in case['shape'])
            rc, out = nitool(['lookup', k, src, '-i', ','.join(map(str, idx))])
            with contextlib.redirect_stdout(io.StringIO()):
                exp = NiftiWrapper.from_filename(src).get_meta(k, idx)
            want = '' if exp is None else str(exp) + '\n'
            if out != want:
                rep.failure('nitool lookup %s at %s prints %r, get_meta returns %r' % (k, idx, out, exp), dict(C, tag='nitool:lookup'))
        # ---- ... also when the stored value is falsy (0, 0.0, '', []): only an absent key prints nothing
        falsy = [0, 0.0, '', [], False]
        fw = NiftiWrapper.from_filename(src)
        fcl = r.choice([c for c in fw.meta_ext.get_valid_classes()])
        fmult = fw.meta_ext.get_multiplicity(fcl)
        fv = r.choice(falsy)
        if fmult > 1:
            fvals = [r.choice(falsy) for _ in range(fmult)]
            fw.meta_ext.get_class_dict(fcl)['FalsyKey'] = fvals
        elif fcl == ('global', 'const'):
            fw.meta_ext.get_class_dict(fcl)['FalsyKey'] = fv
        else:
            fw.meta_ext.get_class_dict(fcl)['FalsyKey'] = [fv]
        fw.meta_ext.get_class_dict(('global', 'const'))['FalsyConst'] = fv
        fsrc = os.path.join(d, 'falsy.nii.gz')
        fw.to_filename(fsrc)
        for k in ('FalsyKey', 'FalsyConst', 'NoSuchKey'):
            idx = tuple(r.randrange(x) for x in case['shape'])
            rc, out = nitool(['lookup', k, fsrc, '-i', ','.join(map(str, idx))])
            with contextlib.redirect_stdout(io.StringIO()):
                exp = NiftiWrapper.from_filename(fsrc).get_meta(k, idx)
            want = '' if exp is None else str(exp) + '\n'
            rep.evaluations += 1
            rep.count('cli/nitool-lookup-falsy')
            if out != want or (k == 'NoSuchKey' and out != '') or (k != 'NoSuchKey' and out == ''):
                rep.failure('nitool lookup %s at %s prints %r, get_meta returns %r' % (k, idx, out, exp),
                            dict(C, tag='nitool:lookup', key=k, falsy_class=list(fcl), index=list(idx)))
        # ---- split / merge write what the API returns
        dim = r.randrange(len(case['shape']))
        sd = os.path.join(d, 'split'); os.makedirs(sd)
        shutil.copy(src, os.path.join(sd, 'src.nii.gz'))
        rc, out = nitool(['split', os.path.join(sd, 'src.nii.gz'), '-d', str(dim)])
        pieces = sorted(glob.glob(os.path.join(sd, '[0-9][0-9][0-9]-src.nii.gz')))
        with contextlib.redirect_stdout(io.StringIO()):
            api_pieces = list(w.split(dim))
        if rc != 0 or len(pieces) != len(api_pieces):
            rep.failure('nitool split wrote %d files, the API yields %d pieces' % (len(pieces), len(api_pieces)), dict(C, tag='nitool:split', dim=dim))
        else:
            for pth, ap in zip(pieces, api_pieces):
                with contextlib.redirect_stdout(io.StringIO()):
                    lw = NiftiWrapper.from_filename(pth)
                if not np.array_equal(np.asanyarray(lw.nii_img.dataobj), np.asanyarray(ap.nii_img.dataobj)) or \
                        not np.allclose(lw.nii_img.affine, ap.nii_img.affine, atol=1e-4) or lw.meta_ext.to_json() != ap.meta_ext.to_json():
                    rep.failure('a file written by nitool split differs from the piece the API returns', dict(C, tag='nitool:split', dim=dim))
                    break
            if (dim == case['sd'] or dim >= 3) and len(pieces) >= 2 and not (dim == 3 and len(case['shape']) == 5):
                outp = os.path.join(d, 'merged.nii.gz')
                rc, out = nitool(['merge', outp, '-d', str(dim)] + pieces)
                try:
                    with contextlib.redirect_stdout(io.StringIO()):
                        mw = NiftiWrapper.from_filename(outp)
                        am = NiftiWrapper.from_sequence(api_pieces, dim)
                    if not np.array_equal(np.asanyarray(mw.nii_img.dataobj), np.asanyarray(am.nii_img.dataobj)) or \
                            mw.meta_ext.to_json() != am.meta_ext.to_json():
                        rep.failure('nitool merge writes something else than NiftiWrapper.from_sequence returns', dict(C, tag='nitool:merge', dim=dim))
                except Exception as e:
                    rep.failure('nitool merge: %r' % e, dict(C, tag='nitool:merge', dim=dim))
                # --clear-slices: the per-slice meta data of the *result* is dropped (also what the merge itself made per slice)
                outc = os.path.join(sd, 'merged_clear.nii.gz')
                rc, out = nitool(['merge', outc, '-d', str(dim), '-c'] + pieces)
                try:
                    with contextlib.redirect_stdout(io.StringIO()):
                        mc = NiftiWrapper.from_filename(outc)
                        ac = NiftiWrapper.from_sequence(list(w.split(dim)), dim)
                    ac.meta_ext.clear_slice_meta()
                    rep.evaluations += 1
                    rep.count('cli/nitool-merge-clear')
                    if mc.meta_ext.to_json() != ac.meta_ext.to_json():
                        rep.failure('nitool merge -c writes other meta data than from_sequence followed by clear_slice_meta gives',
                                    dict(C, tag='nitool:merge-clear', dim=dim))
                except Exception as e:
                    rep.failure('nitool merge -c: %r' % e, dict(C, tag='nitool:merge-clear', dim=dim))
        if len(case['shape']) >= 4 and case['shape'][-1] >= 2:
            # the inputs are merged in command-line order, whatever their names: write the pieces of a split along the
            # last axis under names whose sorted order is not the order they are passed in
            dim2 = len(case['shape']) - 1
            with contextlib.redirect_stdout(io.StringIO()):
                api2 = list(w.split(dim2))
            perm = list(range(len(api2)))
            while perm == sorted(perm):
                r.shuffle(perm)
            names = sorted('%s%02d.nii.gz' % (r.choice('abcxyz'), i) for i in range(len(api2)))
            pd = os.path.join(d, 'perm'); os.makedirs(pd)
            args_paths = []
            for j, i in enumerate(perm):
                dst = os.path.join(pd, names[(j + 1) % len(names)])      # the sorted names are a rotation of the order passed
                with contextlib.redirect_stdout(io.StringIO()):
                    api2[i].to_filename(dst)
                args_paths.append(dst)
            outp = os.path.join(d, 'merged_perm.nii.gz')
            rc, out = nitool(['merge', outp, '-d', str(dim2)] + args_paths)
            rep.evaluations += 1
            rep.count('cli/nitool-merge-permuted')
            try:
                with contextlib.redirect_stdout(io.StringIO()):
                    mw = NiftiWrapper.from_filename(outp)
                    am = NiftiWrapper.from_sequence([NiftiWrapper.from_filename(x) for x in args_paths], dim2)
                if not np.array_equal(np.asanyarray(mw.nii_img.dataobj), np.asanyarray(am.nii_img.dataobj)) or \
                        mw.meta_ext.to_json() != am.meta_ext.to_json():
                    rep.failure('nitool merge of files passed in the order %s (names %s) writes something else than '
                                'NiftiWrapper.from_sequence returns for that order' % (perm, [os.path.basename(x) for x in args_paths]),
                                dict(C, tag='nitool:merge-order', dim=dim2, perm=perm))
            except Exception as e:
                rep.failure('nitool merge (permuted inputs): %r' % e, dict(C, tag='nitool:merge-order', dim=dim2))
            # --sort KEY: the inputs are merged in the order of the *values* of the key (numbers as numbers: 9 before 10 before 100)
            sortvals = r.sample([2, 9, 10, 11, 100, 33, 1000, 5], len(api2)) if len(api2) <= 8 else list(range(len(api2)))
            if r.random() < 0.3:
                sortvals = [x + 0.5 for x in sortvals]
            sdir = os.path.join(d, 'sorted'); os.makedirs(sdir)
            sort_paths = []
            for j, i in enumerate(perm):
                with contextlib.redirect_stdout(io.StringIO()):
                    piece = NiftiWrapper.from_filename(args_paths[j])
                    piece.meta_ext.get_class_dict(('global', 'const'))['SortKey'] = sortvals[j]
                    dst = os.path.join(sdir, 'in%02d.nii.gz' % j)
                    piece.to_filename(dst)
                sort_paths.append(dst)
            outp = os.path.join(d, 'merged_sorted.nii.gz')
            rc, out = nitool(['merge', outp, '-d', str(dim2), '-s', 'SortKey'] + sort_paths)
            rep.evaluations += 1
            rep.count('cli/nitool-merge-sorted')
            try:
                with contextlib.redirect_stdout(io.StringIO()):
                    mw = NiftiWrapper.from_filename(outp)
                    ordered = [sort_paths[j] for j in sorted(range(len(sort_paths)), key=lambda j: sortvals[j])]
                    am = NiftiWrapper.from_sequence([NiftiWrapper.from_filename(x) for x in ordered], dim2)
                if not np.array_equal(np.asanyarray(mw.nii_img.dataobj), np.asanyarray(am.nii_img.dataobj)) or \
                        mw.meta_ext.to_json() != am.meta_ext.to_json():
                    rep.failure('nitool merge -s SortKey over inputs whose SortKey is %s writes something else than NiftiWrapper.from_sequence '
                                'of the inputs in the order of those values' % (sortvals,),
                                dict(C, tag='nitool:merge-sort', dim=dim2, sortvals=sortvals))
            except Exception as e:
                rep.failure('nitool merge -s: %r' % e, dict(C, tag='nitool:merge-sort', dim=dim2, sortvals=sortvals))
        # ---- inject
        ext = w.meta_ext
        valid = [M.CLS[tuple(c)] for c in ext.get_valid_classes()]
        S, T, V = M.dims_of(case['shape'], case['sd'])
        unit = [c for c in valid if c != 'gconst' and M.ref_mult(c, S, T, V) == 1]
        for trial in range(5):
            cname = r.choice(list(M.CLS_INV))
            if trial == 4:
                if not unit:
                    continue
                cname = r.choice(unit)      # a varying classification that holds exactly one value
            base, sub = M.CLS_INV[cname]
            mult = M.ref_mult(cname, S, T, V) if cname in valid else 1
            nvals = mult if (r.random() < 0.7 or trial == 4) else max(1, mult + r.choice([-1, 1]))
            key = r.choice(['newkey'] + [e[0] for e in case['ents']]) if trial != 4 else 'newkey'
            force = r.random() < 0.5
            vals = [str(r.randint(0, 9)) for _ in range(nvals)]
            # the value strings are converted as a whole: all int, else all float, else all left as strings
            vkind = r.choice(['int', 'int', 'int+float', 'float', 'text'])
            if vkind != 'int' and nvals >= 2:
                pool = {'int+float': ['2.5', '0.25'], 'float': ['2.5', '0.25', '1e1'], 'text': ['abc', 'x1']}[vkind]
                if vkind == 'float':
                    vals = [r.choice(pool) for _ in range(nvals)]
                else:
                    vals[r.randrange(nvals)] = r.choice(pool)
                    if vkind == 'text' and nvals >= 3 and r.random() < 0.5:
                        vals[[i for i in range(nvals) if vals[i] not in pool][0]] = '3.5'
            tgt = os.path.join(d, 'inj%d.nii.gz' % trial)
            shutil.copy(src, tgt)
            argv = ['inject', tgt, base, sub, key] + vals + (['-f'] if force else [])
            rc, out = nitool(argv)
            with contextlib.redirect_stdout(io.StringIO()):
                try:
                    after = NiftiWrapper.from_filename(tgt)
                    after_ok = True
                except Exception as e:
                    after, after_ok = None, False
            exists = key in ext.get_keys()
            should = (cname in valid) and nvals == mult and (not exists or force)
            I = dict(C, tag='nitool:inject', argv=argv[1:])
            rep.evaluations += 1
            rep.count('cli/inject/' + ('apply' if should else 'refuse'))
            if should:
                if rc != 0 or not after_ok:
                    rep.failure('nitool inject refused / broke a valid injection (rc %s)' % rc, I)
                else:
                    try:
                        after.meta_ext.check_valid()
                        got = after.meta_ext.get_values_and_class(key)
                        expv = converted_whole(vals)
                        expv = expv[0] if cname == 'gconst' else expv
                        if got != (expv, (base, sub)) or json.dumps(got[0]) != json.dumps(expv):
                            rep.failure('nitool inject stored %r for %s, given %r in %s' % (got, key, expv, (base, sub)), dict(I, tag='nitool:inject:stored'))
                        for k2 in ext.get_keys():
                            if k2 != key and after.meta_ext.get_values_and_class(k2) != ext.get_values_and_class(k2):
                                rep.failure('nitool inject changed another key (%s)' % k2, I)
                        # the injected value is readable at every position
                        idx0 = tuple(0 for _ in case['shape'])
                        v0 = after.get_meta(key, idx0)
                        e0 = expv if cname == 'gconst' else expv[0]
                        if v0 != e0:
                            rep.failure('after nitool inject, get_meta(%s, %s) = %r, injected %r' % (key, idx0, v0, e0), dict(I, tag='nitool:inject:lookup'))
                    except Exception as e:
                        rep.failure('after nitool inject the file is broken: %r' % e, I)
            else:
                if rc == 0:
                    rep.failure('nitool inject accepted an invalid injection (class valid=%s, %d values for multiplicity %d, key exists=%s, force=%s)' % (
                        cname in valid, nvals, mult, exists, force), I)
                elif after_ok and after.meta_ext.to_json() != ext_json:
                    rep.failure('a refused nitool inject changed the file', I)
            m0 = M.ext_to_model(ext)
            if m0 is not None:
                reqs.append({'op': 'inject', 'ext': m0, 'cls': cname, 'key': key, 'values': [M.cv(v) for v in converted_whole(vals)], 'force': force})
                meta.append((I, rc, M.ext_to_model(after.meta_ext) if (after_ok and rc == 0) else None))
        shutil.rmtree(d, ignore_errors=True)
    co = rep.corr.setdefault('inject', {'cases': 0, 'agree': 0, 'disagree': 0, 'skipped': 0})
    for a, (I, rc, got) in zip(drv.ask(reqs), meta):
        co['cases'] += 1
        if 'rc' in a:
            ok = (rc == a['rc'])
        else:
            ok = rc == 0 and got is not None and M.canon_model_ext(a['ok']) == M.canon_model_ext(got)
        if ok:
            co['agree'] += 1
        else:
            co['disagree'] += 1
            rep.disagreements.append(('inject', 'nitool:inject', I, 'model %s vs implementation rc=%s %s' % (json.dumps(a)[:300], rc, json.dumps(got)[:300])))


def main(pid, tier):
    import dcmstack
    rep = core.Report(pid, tier)
    rep.disagreements = []
    rep.trusted = [
        'Lean 4.33.0 kernel; standard axioms only',
        'tools/gen_tables.py: whether dcmstack_cli.main aliases the module default regex lists (AST of the assignments before `+=`)',
        '"writes what the API returns" is glue (argparse, glob, nibabel file I/O): established by the comparison with the API and with fresh processes only',
    ]
    core.prove(rep, pid, THEOREMS)
    r = core.rng(pid)
    NDEF[0], NDEF[1] = len(dcmstack.default_key_excl_res), len(dcmstack.default_key_incl_res)
    tmp = tempfile.mkdtemp(prefix='dcmverif_c19_')
    try:
        tags_round(rep)
        dcmstack_round(rep, r, tier, tmp)
        names_round(rep, r, tier, tmp)
        nitool_round(rep, r, tier, tmp)
    finally:
        shutil.rmtree(tmp, ignore_errors=True)
    from .check_meta import finish_disagreements
    finish_disagreements(rep)
    return rep.finish()
