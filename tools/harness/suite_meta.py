"""Correspondence suites and implementation-side oracles for the DcmMeta algebra
(`DcmMetaExtension.from_sequence / get_subset / _simplify`), used by C03–C07, C13."""
import json, copy, itertools
import numpy as np
from . import meta as M
from .core import Driver


def exc_kind(e):
    if isinstance(e, ValueError):
        return 'ValueError'
    if isinstance(e, IndexError):
        return 'IndexError'
    return 'Other'


# ------------------------------------------------------------------ case generation

def gen_merge_case(r, tier='quick', force=None):
    """A merge case as plain data (replayable): result geometry, merge dim, per-input entries."""
    kind = force or r.choice(['slice', 'slice', 'slice', 'time', 'time', 'vector', 'vector', 'nonslice',
                              'time5'])
    hi = 3 if tier == 'quick' else 4
    n = r.choice([2, 2, 3, 3, 4] if tier == 'quick' else [2, 3, 4, 5, 6])
    for _ in range(100):
        if kind == 'slice':
            shape, sd = M.gen_shape(r, tier)
            if sd is None:
                sd = r.choice([0, 1, 2])
            shape[sd] = n
            dim = sd
            in_shape = list(shape); in_shape[sd] = 1
        elif kind == 'time':
            shape, sd = M.gen_shape(r, tier, want_nd=3)
            if sd is None:
                sd = r.choice([0, 1, 2])
            in_shape = list(shape)
            shape = shape + [n]
            dim = 3
        elif kind == 'time5':           # 5-D inputs with singleton time axis (what split(3) yields)
            shape, sd = M.gen_shape(r, tier, want_nd=5, trimmed=True)
            if sd is None:
                sd = r.choice([0, 1, 2])
            shape[3] = n
            in_shape = list(shape); in_shape[3] = 1
            dim = 3
        elif kind == 'vector':
            nd_in = r.choice([3, 4])
            shape, sd = M.gen_shape(r, tier, want_nd=nd_in, trimmed=True)
            if sd is None:
                sd = r.choice([0, 1, 2])
            in_shape = list(shape)
            shape = (shape + [1] if nd_in == 3 else shape) + [n]
            dim = 4
        else:                           # non-slice spatial axis
            shape, sd = M.gen_shape(r, tier)
            if sd is None:
                sd = r.choice([0, 1, 2])
            dim = r.choice([d for d in range(3) if d != sd])
            shape[dim] = n
            in_shape = list(shape); in_shape[dim] = 1
        break
    S, T, V = M.dims_of(shape, sd)
    n_keys = r.randint(1, 4 if tier == 'quick' else 6)
    canonical_inputs = r.random() < 0.6
    inputs = [[] for _ in range(n)]
    truth = {}
    iS, iT, iV = M.dims_of(in_shape, sd)
    for ki in range(n_keys):
        key = 'k%d' % ki
        if kind == 'nonslice':
            # one table per input; agreeing with probability 1/2
            base, _ = M.gen_table(r, iS, iT, iV)
            agree = r.random() < 0.5
            tabs = []
            for i in range(n):
                if agree or r.random() < 0.5:
                    tabs.append(copy.deepcopy(base))
                else:
                    tabs.append(M.gen_table(r, iS, iT, iV)[0])
        else:
            big, _ = M.gen_table(r, S, T, V)
            tabs = []
            for i in range(n):
                if kind == 'slice':
                    tab = {(0, t, v): big[(i, t, v)] for t in range(T) for v in range(V)}
                elif kind in ('time', 'time5'):
                    tab = {(s, 0, v): big[(s, i, v)] for s in range(S) for v in range(V)}
                else:
                    tab = {(s, t, 0): big[(s, t, i)] for s in range(S) for t in range(T)}
                tabs.append(tab)
        # a key may be missing from some inputs
        for i in range(n):
            if r.random() < 0.15:
                tabs[i] = None
        for i in range(n):
            if tabs[i] is None:
                continue
            if M.all_none(tabs[i]) and (canonical_inputs or r.random() < 0.5):
                continue
            probe_bases = M.bases_of_shape(in_shape, f1_fixed=False)
            c = M.classify(r, in_shape, sd, tabs[i], canonical_inputs or r.random() < 0.5, probe_bases)
            if c is None:
                continue
            vals = M.values_for(c, tabs[i], iS, iT, iV)
            inputs[i].append([key, c, vals[0] if c == 'gconst' else vals])
    # key order inside inputs shuffled per input
    for i in range(n):
        r.shuffle(inputs[i])
    case = {'op': 'merge', 'kind': kind, 'dim': dim, 'sd': sd, 'in_shape': in_shape, 'n': n,
            'inputs': inputs, 'canonical_inputs': canonical_inputs}
    # differing slice normals on some inputs (per-slice data of that input must be ignored)
    if r.random() < 0.12:
        case['flip_normal'] = sorted(r.sample(range(n), r.randint(1, max(1, n - 1))))
    # the caller passes its own affine (as NiftiWrapper.from_sequence does): when its slice normal
    # differs from the extensions' none of the per-slice data is used
    if r.random() < 0.12:
        case['result_affine'] = 'rotated'
    # some later inputs were made without a slice dimension (legal: slice_dim None, no per-slice
    # data); their values are widened with the slice count of the result
    if n >= 2 and sd is not None and kind in ('time', 'vector') and r.random() < 0.15:
        case['sd_none'] = sorted(r.sample(range(1, n), r.randint(1, n - 1)))
        for i in case['sd_none']:
            case['inputs'][i] = [e for e in case['inputs'][i] if not e[1].endswith('slices')]
    return case


def case_affine(case, i):
    A = np.eye(4)
    if i in case.get('flip_normal', []):
        # rotate so that the row used as "slice normal" differs
        sd = case['sd']
        o = (sd + 1) % 3
        A = np.eye(4)
        A[sd, sd] = 0.0; A[sd, o] = 1.0
        A[o, o] = 0.0; A[o, sd] = 1.0
    return A


def result_affine(case):
    if case.get('result_affine') != 'rotated':
        return None
    sd = case['sd']
    o = (sd + 1) % 3
    A = np.eye(4)
    A[sd, sd] = 0.0; A[sd, o] = 1.0
    A[o, o] = 0.0; A[o, sd] = 1.0
    return A


def build_inputs(case):
    return [M.build_ext(case['in_shape'], None if i in case.get('sd_none', []) else case['sd'],
                        [(k, c, copy.deepcopy(v)) for k, c, v in ents], affine=case_affine(case, i))
            for i, ents in enumerate(case['inputs'])]


def normals_use(exts, sd_arg=None, affine=None):
    """the use_slices decisions exactly as from_sequence/_insert take them (float comparison)"""
    first = exts[0]
    aff = first.affine if affine is None else affine
    sd = first.slice_dim if sd_arg is None else sd_arg
    # slice direction = world direction of the slice axis = column `slice_dim` of the affine
    rn = None if sd is None else np.array(aff)[:3, sd]
    out = []
    for e in exts:
        on = None if e.slice_dim is None else np.array(e.affine)[:3, e.slice_dim]
        out.append(bool(rn is not None and on is not None and np.allclose(rn, on)))
    return out


def merge_region(case):
    """coarse region tag of a merge case (used to match known findings)"""
    nd = len(case['in_shape'])
    if case['kind'] == 'time5':
        return 'merge:time:5D-inputs-singleton-time'
    out = list(case['in_shape'])
    while len(out) <= case['dim']:
        out.append(1)
    out[case['dim']] = case['n']
    untrimmed = (len(out) == 4 and out[3] == 1) or (len(out) == 5 and out[4] == 1)
    return 'merge:%s:%dD%s' % (case['kind'], nd, '-singleton-trailing-axis' if untrimmed else '')


def run_merge(case):
    """execute on the implementation; returns dict(status, result ext or None, inputs, before/after)"""
    m = M.dm()
    exts = build_inputs(case)
    before = [e.to_json() if _valid(e) else json.dumps(e._content, default=str) for e in exts]
    try:
        ra = result_affine(case)
        if ra is None:
            res = m.DcmMetaExtension.from_sequence(exts, case['dim'])
        else:
            res = m.DcmMetaExtension.from_sequence(exts, case['dim'], ra)
        status = 'ok'
    except Exception as e:  # noqa
        res, status = None, exc_kind(e)
        err = repr(e)
    after = [e.to_json() if _valid(e) else json.dumps(e._content, default=str) for e in exts]
    out = {'status': status, 'result': res, 'inputs': exts, 'before': before, 'after': after}
    if status != 'ok':
        out['error'] = err
    return out


def scribble(ext):
    """change, in place, every mutable value an extension holds (elements of value lists that are
    lists or dicts, constant values that are lists or dicts); returns how many were changed"""
    n = 0
    content = ext._content
    for base in ('global', 'time', 'vector'):
        for cls in ('const', 'samples', 'slices'):
            d = (content.get(base) or {}).get(cls)
            if not d:
                continue
            for k, v in d.items():
                vals = [v] if cls == 'const' else (v if isinstance(v, list) else [v])
                for x in vals:
                    if isinstance(x, list):
                        x.append('__SCRIBBLE__')
                        n += 1
                    elif isinstance(x, dict):
                        x['__SCRIBBLE__'] = 1
                        n += 1
    return n


def _snap(e):
    return json.dumps(e._content, default=str, sort_keys=False)


def alias_probe(inputs, result):
    """C13: a result shares nothing mutable with an input - editing a value inside the result leaves
    every input's JSON as it was, and editing a value inside an input leaves the result's JSON as it
    was.  `inputs` and `result` are fresh objects used for nothing else afterwards."""
    fails = []
    before = [_snap(e) for e in inputs]
    n = scribble(result)
    after = [_snap(e) for e in inputs]
    for j, (b, a) in enumerate(zip(before, after)):
        if b != a:
            fails.append('editing a value (list / dict) inside the result changed input %d' % j)
            return fails
    rb = _snap(result)
    for e in inputs:
        scribble(e)
    if _snap(result) != rb:
        fails.append('editing a value (list / dict) inside an input changed the result produced earlier')
    return fails


def _valid(e):
    try:
        e.check_valid()
        return True
    except Exception:
        return False


def model_merge_req(case, exts):
    ms = [M.ext_to_model(e) for e in exts]
    if any(x is None for x in ms) or case.get('sd_none'):
        return None          # inputs with differing slice dimensions are outside the model
    return {'op': 'from_sequence', 'exts': ms, 'dim': case['dim'], 'sd': None,
            'use': normals_use(exts, affine=result_affine(case))}


def compare_model(ans, status, res_ext):
    """(agree: bool | None when skipped, detail)"""
    if 'skip' in ans:
        return None, ans['skip']
    if 'bad' in ans:
        return False, 'driver: ' + ans['bad']
    if 'err' in ans:
        return (status == ans['err'] or (status != 'ok' and ans['err'] == 'Other' and status == 'Other')), \
            'model raises %s, implementation %s' % (ans['err'], status)
    if status != 'ok':
        return False, 'model returns a value, implementation raises ' + status
    real = M.ext_to_model(res_ext)
    if real is None:
        return False, 'implementation result not expressible in the model (scalar in varying class)'
    a, b = M.canon_model_ext(ans['ok']), M.canon_model_ext(real)
    if a == b:
        return True, ''
    return False, 'model %s vs implementation %s' % (json.dumps(a)[:400], json.dumps(b)[:400])


# ------------------------------------------------------------------ oracles (implementation side)

def oracle_merge_lookup(case, out):
    """C03: lookup at position i on the merged axis equals input i's lookup at the remaining
    coordinates, for every key present in any input (None where an input lacks it); non-slice
    merges keep exactly the agreeing keys.  Returns list of failure strings."""
    fails = []
    if out['status'] != 'ok':
        return ['from_sequence raised %s on mergeable inputs' % out.get('error', out['status'])]
    res, exts = out['result'], out['inputs']
    use = normals_use(exts, affine=result_affine(case))
    iS, iT, iV = M.dims_of(case['in_shape'], case['sd'])
    keys = []
    for e in exts:
        for k in e.get_keys():
            if k not in keys:
                keys.append(k)
    try:
        for k in keys:
            if case['kind'] == 'nonslice':
                tabs = []
                for i, e in enumerate(exts):
                    tab = M.table_of(e, k)
                    cls = e.get_classification(k)
                    if cls is not None and cls[1] == 'slices' and not use[i]:
                        tab = {p: None for p in tab}    # per-slice data of that input is not used
                    tabs.append(tab)
                agree = all(json.dumps([(p, M.cv(v)) for p, v in sorted(t.items())]) ==
                            json.dumps([(p, M.cv(v)) for p, v in sorted(tabs[0].items())]) for t in tabs)
                got = M.table_of(res, k)
                if agree:
                    exp = tabs[0]
                    if any(M.cv(got[p]) != M.cv(exp[p]) for p in exp):
                        fails.append('non-slice merge altered agreeing key %s' % k)
                else:
                    # a key reading None everywhere carries no information (it may be dropped or kept)
                    if any(v is not None for v in got.values()):
                        fails.append('non-slice merge kept disagreeing key %s' % k)
                continue
            for i, e in enumerate(exts):
                for s in range(iS):
                    for t in range(iT):
                        for v in range(iV):
                            exp = M.ref_lookup(e, k, s, t, v)
                            vals, cls = e.get_values_and_class(k)
                            if cls is not None and cls[1] == 'slices' and not use[i]:
                                exp = None      # per-slice data of a differently oriented input is not used
                            if case['kind'] == 'slice':
                                pos = (i, t, v)
                            elif case['kind'] in ('time', 'time5'):
                                pos = (s, i, v)
                            else:
                                pos = (s, t, i)
                            got = M.ref_lookup(res, k, *pos)
                            if M.cv(got) != M.cv(exp):
                                fails.append('key %s: result at %s = %s, input %d at %s = %s' % (
                                    k, pos, M.cv(got), i, (s, t, v), M.cv(exp)))
                                raise StopIteration
    except StopIteration:
        pass
    except Exception as e:  # malformed result
        fails.append('reading the result failed: %r' % e)
    return fails


def oracle_valid(ext, exp_shape=None, exp_sd='unset'):
    """C07 (extension part): valid, serialisable, recorded geometry as expected"""
    fails = []
    try:
        ext.check_valid()
    except Exception as e:
        fails.append('check_valid: %s' % e)
        return fails
    try:
        js = ext.to_json()
        back = M.dm().DcmMetaExtension.from_json(js)
        if not (back == ext):
            fails.append('from_json(to_json) differs')
    except Exception as e:
        fails.append('to_json/from_json: %r' % e)
    # independent rule check: counts per class
    S, T, V = M.dims_of(ext.shape, ext.slice_dim)
    seen = {}
    for cls in ext.get_valid_classes():
        c = M.CLS[tuple(cls)]
        for k, vals in ext.get_class_dict(cls).items():
            if k in seen:
                fails.append('key %s in two classifications' % k)
            seen[k] = c
            if c != 'gconst':
                mult = M.ref_mult(c, S, T, V, ext.slice_dim is not None)
                if not isinstance(vals, list) or len(vals) != mult:
                    fails.append('key %s (%s) holds %s, expected %d values' % (k, c, M.cv(vals)[:60], mult))
    if exp_shape is not None and tuple(ext.shape) != tuple(exp_shape):
        fails.append('shape %s, expected %s' % (tuple(ext.shape), tuple(exp_shape)))
    if exp_sd != 'unset' and ext.slice_dim != exp_sd:
        fails.append('slice_dim %s, expected %s' % (ext.slice_dim, exp_sd))
    return fails


def oracle_minimal(ext, keys=None):
    """C06: every key at the first class of the preference order that can represent it"""
    fails = []
    bases = [b for b in ('global', 'time', 'vector') if b in ext._content]
    for k in (keys if keys is not None else ext.get_keys()):
        cls = ext.get_classification(k)
        if cls is None:
            continue
        c = M.CLS[tuple(cls)]
        try:
            tab = M.table_of(ext, k)
        except Exception as e:
            fails.append('reading key %s failed: %r' % (k, e))
            continue
        best = M.ref_minimal_class(ext.shape, ext.slice_dim, tab, bases)
        if best != c:
            fails.append('key %s stored as %s, simplest able class is %s' % (k, c, best))
    return fails


def restrict_case(case, key):
    c = copy.deepcopy(case)
    c['inputs'] = [[e for e in ents if e[0] == key] for ents in case['inputs']]
    return c


def oracle_key_independent(case, out):
    """C13(b): what the result says about one key depends only on that key's entries"""
    fails = []
    if out['status'] != 'ok':
        return fails
    keys = []
    for ents in case['inputs']:
        for k, _, _ in ents:
            if k not in keys:
                keys.append(k)
    if len(keys) < 2:
        return fails
    for k in keys:
        sub = run_merge(restrict_case(case, k))
        if sub['status'] != 'ok':
            fails.append('restricted to key %s the merge raises %s' % (k, sub['status']))
            continue
        a = out['result'].get_values_and_class(k)
        b = sub['result'].get_values_and_class(k)
        if M.cv(a) != M.cv(b):
            fails.append('key %s: %s with all keys, %s alone' % (k, M.cv(a)[:100], M.cv(b)[:100]))
    return fails


def shrink_merge(case, failing):
    """greedy: drop keys, then inputs' values stay; `failing(case)` -> bool"""
    keys = sorted({e[0] for ents in case['inputs'] for e in ents})
    cur = case
    for k in keys:
        if len({e[0] for ents in cur['inputs'] for e in ents}) <= 1:
            break
        cand = copy.deepcopy(cur)
        cand['inputs'] = [[e for e in ents if e[0] != k] for ents in cur['inputs']]
        try:
            if failing(cand):
                cur = cand
        except Exception:
            pass
    return cur


# ------------------------------------------------------------------ subsets

def gen_subset_case(r, tier='quick', canonical=None, trimmed=None):
    shape, sd = M.gen_shape(r, tier, trimmed=trimmed)
    if sd is None and r.random() < 0.7:
        sd = r.choice([0, 1, 2])
    S, T, V = M.dims_of(shape, sd)
    if canonical is None:
        canonical = r.random() < 0.6
    ents = []
    bases = M.bases_of_shape(shape, f1_fixed=False)
    for ki in range(r.randint(1, 4 if tier == 'quick' else 6)):
        tab, pat = M.gen_table(r, S, T, V)
        if M.all_none(tab) and canonical:
            continue
        c = M.classify(r, shape, sd, tab, canonical or r.random() < 0.4, bases)
        if c is None:
            continue
        vals = M.values_for(c, tab, S, T, V)
        ents.append(['k%d' % ki, c, vals[0] if c == 'gconst' else vals])
    r.shuffle(ents)
    return {'op': 'subset', 'shape': shape, 'sd': sd, 'ents': ents, 'canonical': canonical}


def build_parent(case, affine=None):
    return M.build_ext(case['shape'], case['sd'],
                       [(k, c, copy.deepcopy(v)) for k, c, v in case['ents']], affine=affine)


def subset_region(case, dim):
    shape = case['shape']
    nd = len(shape)
    trimmed = not ((nd == 4 and shape[3] == 1) or (nd == 5 and shape[4] == 1))
    axis = 'slice' if dim == case['sd'] else ('spatial' if dim < 3 else ('time' if dim == 3 else 'vector'))
    extra = ''
    if nd == 5 and shape[3] == 1:
        extra = '-T1'
    return 'subset:%s:%dD%s%s' % (axis, nd, extra, '' if trimmed else '-untrimmed')


def run_subset(case, dim, idx):
    ext = build_parent(case)
    before = json.dumps(ext._content, default=str)
    try:
        res = ext.get_subset(dim, idx)
        status = 'ok'
        err = None
    except Exception as e:
        res, status, err = None, exc_kind(e), repr(e)
    after = json.dumps(ext._content, default=str)
    return {'status': status, 'result': res, 'parent': ext, 'before': before, 'after': after, 'error': err}


def oracle_subset_lookup(case, dim, idx, out):
    """C04 (metadata): lookup of the piece at any remaining coordinate equals the parent's lookup
    with the split axis fixed to idx"""
    if out['status'] != 'ok':
        return ['get_subset(%d,%d) raised %s' % (dim, idx, out['error'])]
    par, res = out['parent'], out['result']
    fails = []
    S, T, V = M.dims_of(par.shape, par.slice_dim)
    try:
        rS, rT, rV = M.dims_of(res.shape, res.slice_dim)
        for k in par.get_keys():
            for s in range(rS):
                for t in range(rT):
                    for v in range(rV):
                        ps, pt, pv = s, t, v
                        if dim == par.slice_dim:
                            ps = idx
                        elif dim == 3:
                            pt = idx
                        elif dim == 4:
                            pv = idx
                        exp = M.ref_lookup(par, k, ps, pt, pv)
                        got = M.ref_lookup(res, k, s, t, v)
                        if M.cv(exp) != M.cv(got):
                            fails.append('key %s: piece at %s = %s, parent at %s = %s' % (
                                k, (s, t, v), M.cv(got), (ps, pt, pv), M.cv(exp)))
                            raise StopIteration
    except StopIteration:
        pass
    except Exception as e:
        fails.append('reading the piece failed: %r' % e)
    return fails


def expected_subset_shape(shape, dim):
    rs = list(shape)
    rs[dim] = 1
    while len(rs) > 3 and rs[-1] == 1:
        rs = rs[:-1]
    return rs
