"""C15: extraction maps each DICOM element to one key with a faithfully converted value."""
import json, copy, warnings, struct
import numpy as np
from . import core

THEOREMS = ['C15.step_appends_at_most_one', 'C15.entries_are_contributing_elements', 'C15.never_pixel_never_private',
            'C15.extract_once', 'C15.key_examples']

STD = [  # (keyword, values by VM kind)
    ('Modality', ['MR']), ('SeriesDescription', ['desc a', 'b']), ('ProtocolName', ['p1']), ('SequenceName', ['sq']),
    ('ImageType', [['ORIGINAL', 'PRIMARY'], ['A', 'B', 'C']]), ('EchoTime', ['10.5', '20', '0.0']), ('RepetitionTime', ['2000']),
    ('EchoNumbers', ['1', ['1', '2']]), ('InstanceNumber', ['7', '0']), ('AcquisitionNumber', ['3']), ('ImagePositionPatient', [['1.5', '2', '-3']]),
    ('PixelSpacing', [['0.5', '0.5']]), ('Rows', [4]), ('Columns', [5]), ('BitsStored', [12]), ('SmallestImagePixelValue', [0]),
    ('WindowCenter', ['40', ['40', '50']]), ('PatientName', ['Doe^John']), ('PatientAge', ['030Y']), ('StudyDate', ['20200101']),
    ('AcquisitionTime', ['120000.5']), ('AcquisitionDateTime', ['20200101120000']), ('SOPInstanceUID', ['1.2.3.4']),
    ('FrameIncrementPointer', [0x00181063]), ('ImageComments', ['some text']), ('SliceLocation', ['12.5']),
    ('NumberOfAverages', ['1']), ('FlipAngle', ['90']), ('PatientWeight', ['70.5']), ('ReferencedImageSequence', ['SQ']),
    ('SourceImageSequence', ['SQ']), ('RealWorldValueMappingSequence', ['SQ']), ('StudyDescription', ['']), ('AccessionNumber', [None]),
    ('PatientComments', ['   ']), ('RescaleSlope', ['1']), ('RescaleIntercept', ['0']), ('LossyImageCompression', ['00']),
    ('RedPaletteColorLookupTableDescriptor', [[256, 0, 16]]), ('BluePaletteColorLookupTableData', [b'\x00\x01\x02\x03']),
    # neighbours of the ignored bulk data, by tag and by name: none of them is pixel, overlay or colour table data
    ('PixelDataProviderURL', ['http://host/px']), ('PixelDataAreaOriginRelativeToFOV', [[1.5, 2.5]]),
    ('PixelDataAreaRotationAngleRelativeToFOV', [30.0]), ('FramePixelDataPropertiesSequence', ['SQ']),
    ('PixelPaddingValue', [0]), ('PixelAspectRatio', [['1', '1']]),
]


NEIGHBOURS = ('PixelDataProviderURL', 'PixelDataAreaOriginRelativeToFOV', 'PixelDataAreaRotationAngleRelativeToFOV',
              'PixelPaddingValue', 'PixelAspectRatio')


def make_csa2(tags):
    """a minimal valid Siemens CSA2 ('SV10') header: what the default CSA translators can parse"""
    out = [b'SV10', b'\x04\x03\x02\x01', struct.pack('<2I', len(tags), 77)]
    for tag in tags:
        name, vr, items = tag[:3]
        vm = tag[3] if len(tag) > 3 else len(items)      # the declared multiplicity need not be the number of items present
        out.append(struct.pack('<64si4s3i', name.encode('ascii'), vm, vr.encode('ascii'), 0, len(items), 77))
        for item in items:
            data = item.encode('ascii')
            out.append(struct.pack('<4i', len(data), len(data), 77, len(data)))
            out.append(data)
            if len(data) % 4:
                out.append(b'\x00' * (4 - len(data) % 4))
    return b''.join(out)


PRIV_CLASH = [
    ('GEMS_IDEN_01', (0x0009, 0x0030), (0x0009, 0x3017), 'LT', 'private series desc', (0x0008, 0x103e), 'LO', 'std series desc'),
    ('SIEMENS MR HEADER', (0x0019, 0x0030), (0x0019, 0x300d), 'CS', 'NONE', (0x0018, 0x9075), 'CS', 'DIRECTIONAL'),
    ('SIEMENS CT VA0  ORMR', (0x0021, 0x0031), (0x0021, 0x3181), 'DS', '99.0', (0x0018, 0x0081), 'DS', '30.5'),
]


def gen_dataset(r, depth=0):
    import pydicom
    from pydicom.dataset import Dataset
    from pydicom.sequence import Sequence
    ds = Dataset()
    for kw, vals in r.sample(STD, r.randint(3, 14 if depth == 0 else 5)):
        v = r.choice(vals)
        if v == 'SQ':
            if depth >= 2:
                continue
            items = [gen_dataset(r, depth + 1) for _ in range(r.randint(0, 2))]
            setattr(ds, kw, Sequence(items))
        else:
            try:
                setattr(ds, kw, copy.deepcopy(v))
            except Exception:
                continue
    if depth == 0:
        # private blocks
        for _ in range(r.randint(0, 3)):
            group = r.choice([0x0019, 0x0029, 0x0051, 0x7fe1, 0x0021])
            slot = r.choice([0x10, 0x11, 0x20, 0xff])
            creator = r.choice(['SIEMENS CSA HEADER', 'ACME PRIVATE', 'SIEMENS MR HEADER', 'GEMS_ACQU_01', ''])
            try:
                ds.add_new((group, slot), 'LO', creator)
                for low in r.sample([0x08, 0x10, 0x20, 0x0a, 0x0b], r.randint(1, 3)):
                    vr, val = r.choice([('LO', 'priv text'), ('IS', '5'), ('DS', '2.5'), ('UN', b'abc'), ('OB', b'\x00\xff\x01'),
                                        ('LO', ''), ('US', 3), ('FD', 1.5), ('LO', ['a', 'b']), ('SQ', 'SQ'), ('SQ', 'SQ')])
                    if vr == 'SQ':
                        val = Sequence([gen_dataset(r, 2) for _ in range(r.randint(0, 2))])
                    ds.add_new((group, (slot << 8) | low), vr, val)
            except Exception:
                pass
        # a private element whose dictionary name camel-cases to a standard keyword, next to (or
        # without) that standard element: both must be kept, told apart by their tags
        for creator, slot_tag, ptag, pvr, pval, stag, svr, sval in r.sample(PRIV_CLASH, r.choice([0, 0, 1, 1, 2, 3])):
            try:
                if slot_tag not in ds and ptag not in ds:
                    ds.add_new(slot_tag, 'LO', creator)
                    ds.add_new(ptag, pvr, pval)
                    if r.random() < 0.8 and stag not in ds:
                        ds.add_new(stag, svr, sval)
            except Exception:
                pass
        if r.random() < 0.25:
            # a parseable Siemens CSA image header in a private block
            slot = r.choice([0x10, 0x20])
            try:
                if (0x0029, slot) not in ds:
                    ds.add_new((0x0029, slot), 'LO', 'SIEMENS CSA HEADER')
                    ds.add_new((0x0029, (slot << 8) | 0x10), 'OB',
                               make_csa2([('EchoLinePosition', 'IS', ['64']), ('ProtocolSliceNumber', 'IS', ['3']),
                                          ('MosaicRefAcqTimes', 'FD', ['2.5'], 0), ('ICE_Dims', 'LO', ['X_1'], 3)]))
            except Exception:
                pass
        # standard elements of a binary VR: kept as text when every byte is printable ASCII, dropped otherwise
        for btag in r.sample([(0x0042, 0x0011), (0x0400, 0x0404), (0x0028, 0x2000)], r.choice([0, 1, 1, 2])):
            try:
                ds.add_new(btag, 'OB', r.choice([b'%PDF-1.4', b'AB\x00\x00', b'\x00\x00\x00\x00', b'AB', b'text  ', b'\x00AB',
                                                 b'A\x00B ', b' lead', b'\x7f', b'~tilde~', b'ab\n']))
            except Exception:
                pass
        if r.random() < 0.5:
            ds.Rows, ds.Columns, ds.BitsAllocated = 2, 2, 16
            ds.PixelData = np.arange(4, dtype=np.uint16).tobytes()
            ds['PixelData'].VR = 'OW'
        if r.random() < 0.3:
            # overlay planes live in the repeating groups 6000, 6002, … 601E (the rule covers every 60xx group); bytes that
            # survive the default OW conversion (printable ASCII) as well as binary ones
            for g in r.sample(range(0x6000, 0x6020, 2), r.choice([1, 1, 2, 3])) + ([r.choice([0x6040, 0x60FE])] if r.random() < 0.2 else []):
                ds.add_new((g, 0x3000), 'OW', r.choice([b'\x01\x02', b'UUUU', b'ab', b'\x00\xff\x10\x80']))
                ds.add_new((g, 0x0010), 'US', 2)
        if r.random() < 0.2:
            ds.add_new((0x0028, 0x1201), 'OW', b'\x00\x01')
        if r.random() < 0.08:
            ds.add_new((0x7fe0, 0x0008), 'OF', struct.pack('<2f', 1.0, 2.0))      # FloatPixelData
        if r.random() < 0.05:
            ds.add_new((0x7fe0, 0x0009), 'OD', struct.pack('<2d', 1.0, 2.0))      # DoubleFloatPixelData
        if r.random() < 0.05:
            ds.add_new((0x0064, 0x0009), 'OF', struct.pack('<3f', 1.0, 2.0, 3.0))  # VectorGridData
    return ds


def abstraction(ds, extractor):
    """the element records the Lean model decides over"""
    import pydicom
    from pydicom.datadict import keyword_for_tag
    from dcmstack.utils import str_types
    out = []
    for elem in ds:
        creator = elem.value if elem.name == 'Private Creator' else None
        if creator is not None and not isinstance(creator, str):
            creator = str(creator)
        is_seq = isinstance(elem.value, pydicom.sequence.Sequence)
        tk = None
        for t in extractor.translators:
            if (t.tag.elem & 0xff) == (elem.tag.elem & 0xff) and elem.tag.elem > 0xff:
                try:
                    with warnings.catch_warnings():
                        warnings.simplefilter('ignore')
                        m = t.trans_func(elem)
                    tk = list(m.keys()) if m else None
                except Exception:
                    tk = None
        try:
            none = (not is_seq) and extractor._get_elem_value(elem) is None
        except Exception:
            none = False
        out.append({'g': int(elem.tag.group), 'e': int(elem.tag.elem), 'kw': keyword_for_tag(elem.tag) or '',
                    'name': elem.name, 'blank': bool(type(elem.value) in str_types and elem.value.strip() == ''),
                    'seq': is_seq, 'seq_empty': bool(is_seq and len(elem.value) == 0), 'none': bool(none),
                    'creator': creator, 'trans_keys': tk,
                    'custom': bool(getattr(extractor, '_verif_custom', lambda e: False)(elem))})
    return out


RULE_NAMES = ['ignore_private', 'ignore_pixel_data', 'ignore_overlay_data', 'ignore_color_lut_data']


def configs(r):
    from dcmstack import extract
    cfgs = [('default', extract.MetaExtractor(), RULE_NAMES)]
    rules_np = [getattr(extract, n) for n in RULE_NAMES[1:]]
    cfgs.append(('private_enabled', extract.MetaExtractor(ignore_rules=rules_np), RULE_NAMES[1:]))
    import pydicom
    tr = extract.Translator('Acme', pydicom.tag.Tag(0x19, 0x1010), 'ACME PRIVATE',
                            lambda elem: {'val': str(elem.value), 'n': 1})
    cfgs.append(('custom_translator', extract.MetaExtractor(translators=(tr,)), RULE_NAMES))
    cfgs.append(('no_rules', extract.MetaExtractor(ignore_rules=(), translators=()), []))
    # explicitly no translators (what `dcmstack --disable-translator all` passes), default rules:
    # nothing that stems from a private element may appear
    cfgs.append(('no_translators', extract.MetaExtractor(translators=()), RULE_NAMES))
    cfgs.append(('no_translators_list', extract.MetaExtractor(translators=[]), RULE_NAMES))
    seq_tags = [pydicom.tag.Tag(0x0008, 0x1140), pydicom.tag.Tag(0x0008, 0x2112), pydicom.tag.Tag(0x0018, 0x0081)]
    custom = lambda elem: elem.tag in seq_tags
    ex = extract.MetaExtractor(ignore_rules=tuple(getattr(extract, n) for n in RULE_NAMES) + (custom,))
    ex._verif_custom = custom
    cfgs.append(('custom_rule', ex, RULE_NAMES + ['custom']))
    return cfgs


def jsonable(v):
    try:
        json.dumps(v)
        return True
    except Exception:
        return False


def main(pid, tier):
    import pydicom
    from dcmstack import extract
    rep = core.Report(pid, tier)
    rep.disagreements = []
    rep.trusted = [
        'Lean 4.33.0 kernel; standard axioms only',
        'pydicom (dataset iteration order, decode(), keyword dictionary, element names, VM, Sequence) and nibabel csareader are parameters: the harness abstracts each element to the record the model decides over',
        'tools/gen_tables.py for default_ignore_rules and the colour LUT element numbers',
    ]
    core.prove(rep, pid, THEOREMS)
    r = core.rng(pid)
    drv = core.Driver()
    n = 300 if tier == 'quick' else 5000
    reqs, meta = [], []
    cfgs = configs(r)
    for i in range(n):
        ds = gen_dataset(r)
        cname, ex, rules = cfgs[i % len(cfgs)]
        ds2 = copy.deepcopy(ds)
        pix_before = bytes(ds.PixelData) if 'PixelData' in ds else None
        rep.evaluations += 1
        rep.count('extract/' + cname)
        rep.count('extract/n_elems_%d' % min(len(ds) // 5 * 5, 20))
        try:
            with warnings.catch_warnings():
                warnings.simplefilter('ignore')
                res = ex(ds)
                res2 = ex(ds2)
                # the same dataset through an extractor of the same configuration that has seen
                # nothing before
                resf = configs(r)[i % len(cfgs)][1](copy.deepcopy(ds))
            status = 'ok'
        except ValueError as e:
            res, status = None, 'ValueError'
        except Exception as e:
            res, status = None, 'EXC:' + type(e).__name__
        rep.nontriv([cname, [(int(e.tag), repr(e.value)[:40]) for e in ds]])
        case = {'suite': 'extract', 'config': cname, 'elements': [[hex(int(e.tag)), e.VR, repr(e.value)[:60]] for e in ds]}
        rep.sample(case, cap=2)
        if status == 'ok':
            fails = []
            if repr(res) != repr(res2):
                fails.append(('determinism', 'two extractions of equal datasets differ'))
            if repr(res) != repr(resf):
                diff = [k for k in set(res) | set(resf) if repr(res.get(k)) != repr(resf.get(k))]
                fails.append(('history', 'an extractor that has processed other datasets gives another result than a '
                              'fresh extractor of the same configuration (keys %s)' % sorted(diff)[:4]))
            if pix_before is not None and bytes(ds.PixelData) != pix_before:
                fails.append(('pixels', 'extraction altered the pixel data'))
            for k, v in res.items():
                if not jsonable(v):
                    vr = None
                    for e in ds:
                        if ex._get_elem_key(e) == k.split('_0X')[0]:
                            vr = e.VR
                    fails.append(('json:%s' % vr, 'value of %s (VR %s) is not JSON-serialisable: %r' % (k, vr, v)))
            by_tag = {}
            for e in ds:
                by_tag[(e.tag.group, e.tag.elem)] = e
            prefixes = tuple(t.name + '.' for t in ex.translators)
            std_keys = [k for k in res if not k.startswith(prefixes)]
            # private only via translator / when enabled; pixel, overlay, LUT never (default rules)
            if 'ignore_private' in rules:
                for e in ds:
                    if e.tag.group % 2 == 1:
                        k = ex._get_elem_key(e)
                        if k in std_keys and all((o.tag.group % 2 == 1) for o in ds if ex._get_elem_key(o) == k):
                            fails.append(('private', 'private element %s extracted as %s without translator' % (e.tag, k)))
            if cname.startswith('no_translators'):
                nonpriv = {ex._get_elem_key(e) for e in ds if e.tag.group % 2 == 0}
                for k in res:
                    if k.split('_0X')[0] not in nonpriv:
                        fails.append(('private', 'no translator registered, private extraction off, yet key %s (from a private element) was extracted' % k))
                        break
            if 'ignore_pixel_data' in rules and any(k in res for k in ('PixelData',)):
                fails.append(('pixeldata', 'pixel data extracted'))
            if 'ignore_pixel_data' in rules and any(k in res for k in ('FloatPixelData', 'DoubleFloatPixelData')):
                fails.append(('floatpixeldata', 'float pixel data extracted'))
            if 'ignore_overlay_data' in rules and any(k.split('_0X')[0] == 'OverlayData' for k in res):
                fails.append(('overlay', 'overlay data extracted: %s' % [k for k in res if k.split('_0X')[0] == 'OverlayData']))
            if 'ignore_color_lut_data' in rules and any('ColorLookupTableData' in k for k in res):
                fails.append(('lut', 'colour table data extracted'))
            # ... and nothing else is dropped by those rules: the neighbours of the bulk data, by tag and by name, keep their keys
            for e in ds:
                if e.keyword in NEIGHBOURS and e.value not in (None, '') and not any(k.split('_0X')[0] == e.keyword for k in res):
                    fails.append(('dropped_neighbour', 'standard element %s %s (VR %s, value %r) has no key in the result: the ignore rules '
                                  'are for pixel, overlay and colour table data only' % (e.keyword, e.tag, e.VR, e.value)))
            # conversions
            for e in ds:
                k = e.keyword
                if k in res and e.value is not None and not isinstance(e.value, pydicom.sequence.Sequence):
                    v = res[k]
                    # plain float / int: pydicom's DSfloat / IS are subclasses of them and must not survive (zero included)
                    if e.VR == 'DS' and not (type(v) is float or (isinstance(v, list) and all(type(x) is float for x in v))):
                        fails.append(('convert', 'DS element %s extracted as %r (%s)' % (k, v, type(v).__name__)))
                    if e.VR == 'IS' and not (type(v) is int or (isinstance(v, list) and all(type(x) is int for x in v))):
                        fails.append(('convert', 'IS element %s extracted as %r (%s)' % (k, v, type(v).__name__)))
                    if e.VM > 1 and not isinstance(v, list):
                        fails.append(('convert', 'multi-valued element %s extracted as %r' % (k, v)))
                    if e.VR == 'DS' and e.VM == 1 and isinstance(v, float) and v != float(e.value):
                        fails.append(('convert', 'DS element %s: %r != %r' % (k, v, e.value)))
                if k in res and isinstance(e.value, pydicom.sequence.Sequence):
                    v = res[k]
                    if not (isinstance(v, list) and len(v) == len(e.value) and all(isinstance(x, dict) for x in v)):
                        fails.append(('convert', 'sequence %s extracted as %r' % (k, type(v))))
            # a parseable CSA image header in whatever slot its private creator reserves: routed to the CsaImage translator
            if any(t.name == 'CsaImage' for t in ex.translators):
                for e in ds:
                    if e.tag.group == 0x0029 and e.tag.elem in (0x10, 0x20) and e.value == 'SIEMENS CSA HEADER':
                        de = ds.get((0x0029, (e.tag.elem << 8) | 0x10))
                        if de is not None and isinstance(de.value, bytes) and de.value[:4] == b'SV10':
                            # a tag holding one item is that item, whatever multiplicity the header declares for it
                            if 'CsaImage.MosaicRefAcqTimes' in res and (res.get('CsaImage.MosaicRefAcqTimes') != 2.5 or res.get('CsaImage.ICE_Dims') != 'X_1'):
                                fails.append(('csa_single_item', 'CSA tags with one item and declared multiplicity 0 / 3: CsaImage.MosaicRefAcqTimes = %r, '
                                              'CsaImage.ICE_Dims = %r, the items are 2.5 and X_1' % (
                                                  res.get('CsaImage.MosaicRefAcqTimes'), res.get('CsaImage.ICE_Dims'))))
                            if res.get('CsaImage.EchoLinePosition') != 64 or res.get('CsaImage.ProtocolSliceNumber') != 3:
                                fails.append(('translator_routing', 'CSA image header under the creator in slot %#x: CsaImage.EchoLinePosition = %r, '
                                              'CsaImage.ProtocolSliceNumber = %r, the header says 64 and 3' % (
                                                  e.tag.elem, res.get('CsaImage.EchoLinePosition'), res.get('CsaImage.ProtocolSliceNumber'))))
            # binary VRs: the text of the bytes when all of them are printable ASCII, nothing otherwise
            for e in ds:
                if e.VR in ('OB', 'OW', 'UN', 'OF', 'OD') and e.tag.group % 2 == 0 and isinstance(e.value, bytes) and e.value \
                        and e.keyword in ('EncapsulatedDocument', 'MAC', 'ICCProfile'):
                    printable = all(0x20 <= b_ <= 0x7e for b_ in e.value)
                    if printable and res.get(e.keyword) != e.value.decode('ascii'):
                        fails.append(('convert_binary', 'binary element %s = %r extracted as %r' % (e.keyword, e.value, res.get(e.keyword, '<absent>'))))
                    if not printable and e.keyword in res:
                        fails.append(('convert_binary', 'binary element %s = %r (not printable ASCII) extracted as %r' % (e.keyword, e.value, res[e.keyword])))
            if 'custom' in rules:
                for kw in ('ReferencedImageSequence', 'SourceImageSequence', 'EchoTime'):
                    if kw in res:
                        fails.append(('custom_rule', 'a user ignore rule for %s was not honoured' % kw))
            # the key is the keyword / camel-cased name itself; a tag suffix only disambiguates a clash between extracted
            # elements, so a suffixed key never stands alone
            import re as _re
            bases = {}
            for k in std_keys:
                m_ = _re.match(r'^(.*)_0X[0-9A-F]+_0X[0-9A-F]+$', k)
                if m_:
                    bases.setdefault(m_.group(1), []).append(k)
            for b_, ks_ in bases.items():
                if len(ks_) < 2:
                    fails.append(('needless_suffix', 'key %s carries a tag suffix although no other extracted element is named %s'
                                  % (ks_[0], b_)))
                    break
            if len(set(res.keys())) != len(res):
                fails.append(('keys', 'duplicate keys'))
            for sig, f in fails[:2]:
                rep.failure(f, {'tag': 'extract:' + sig, 'suite': 'extract', 'case': case})
        # model
        trs = [[t.name, int(t.tag.elem), t.priv_creator] for t in ex.translators]
        try:
            ab = abstraction(ds2, ex)
        except Exception as e:
            continue
        reqs.append({'op': 'extract_keys', 'rules': rules, 'translators': trs, 'elems': ab})
        meta.append((case, status, list(res.keys()) if res is not None else None))
    co = rep.corr.setdefault('extract', {'cases': 0, 'agree': 0, 'disagree': 0, 'skipped': 0})
    for a, (case, status, keys) in zip(drv.ask(reqs), meta):
        co['cases'] += 1
        if a == 'ValueError' or status != 'ok':
            ok = (a == 'ValueError') and (status == 'ValueError')
        else:
            ok = (a == keys)
        if ok:
            co['agree'] += 1
        else:
            co['disagree'] += 1
            rep.disagreements.append(('extract', 'extract', case, 'model %s vs implementation %s (%s)' % (
                json.dumps(a)[:400], json.dumps(keys)[:400], status)))
    # known finding witnesses
    for f in rep.known:
        w = f.get('witness') or {}
        if f.get('kind') == 'known' and w.get('suite') == 'extract_vr':
            ds = pydicom.dataset.Dataset()
            ds.add_new(tuple(w['tag']), w['vr'], bytes(w['bytes']))
            with warnings.catch_warnings():
                warnings.simplefilter('ignore')
                res = extract.default_extractor(ds)
            for k, v in res.items():
                if not jsonable(v):
                    rep.failure('value of %s (VR %s) is not JSON-serialisable: %r' % (k, w['vr'], v),
                                {'tag': 'extract:json:%s' % w['vr'], 'suite': 'extract', 'case': w})
    from .check_meta import finish_disagreements
    finish_disagreements(rep)
    return rep.finish()
