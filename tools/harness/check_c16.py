"""C16: Siemens ASCCONV protocol text is parsed without losing or altering any value."""
import json, os, warnings
from . import core

THEOREMS = ['C16.parse_blank', 'C16.parse_comment_only', 'C16.parse_no_equals', 'C16.f8_hex_before_float',
            'C16.string_both_dialects', 'C16.string_with_hash_and_comment', 'C16.malformed_instances',
            'C16.prot_unknown_key', 'C16.setKey_overwrites', 'C16.setKey_other', 'C16.protLoop_error',
            'C16.strip_sandwich', 'C16.find_first',
            'C16.parse_render_number', 'C16.parse_render_string', 'C16.parseNumber_dec', 'C16.parseNumber_hex',
            'C16.parseNumber_float', 'C16.parseNumber_point', 'C16.protLoop_ok', 'C16.parseProt_render']

D2, D1 = '""', '"'


def gen_key(r):
    parts = []
    for _ in range(r.randint(1, 3)):
        w = ''.join(r.choice('abcdefghijklmnopqrstuvwxyzABCDEFGHIJ_') for _ in range(r.randint(1, 8)))
        if r.random() < 0.3:
            w += '[%d]' % r.randint(0, 9)
        parts.append(w)
    return '.'.join(parts)


def gen_ws(r, allow_empty=True):
    return ''.join(r.choice(' \t') for _ in range(r.randint(0 if allow_empty else 1, 3)))


def gen_value(r, delim):
    kind = r.choice(['int', 'int', 'hex', 'float', 'float', 'str', 'str', 'str'])
    if kind == 'int':
        n = r.choice([0, 1, 7, 42, 2 ** 31, 10 ** 20, 9007199254740993, r.randint(-10 ** 6, 10 ** 6)])
        lex = str(n)
        if r.random() < 0.2:
            # zero-padded decimals are decimal integers too (Siemens pads some fields)
            lex = ('-' if n < 0 else '') + '0' * r.randint(1, 3) + str(abs(n))
        return kind, lex, n
    if kind == 'hex':
        n = r.choice([0, 1, 255, 0x1F, 0xABCDEF, r.randint(0, 2 ** 32)])
        lex = ('0x%x' if r.random() < 0.5 else '0x%X') % n
        return kind, lex, n
    if kind == 'float':
        f = r.choice([0.5, -1.25, 1e-05, 2.5e+20, 3.0, 123.456, r.uniform(-1000, 1000), r.uniform(0, 1) * 1e-8])
        lex = r.choice([repr(f), '%g' % f, '%.6f' % f, '%e' % f])
        # a float lexeme the grammar of the property covers: it has a point or a signed exponent
        if not ('.' in lex or 'e-' in lex or 'e+' in lex):
            lex = repr(float(lex))
        return kind, lex, float(lex)
    alphabet = 'abc XYZ019#=_-./:;,()[]\\\'üλ'
    n = r.randint(0, 12)
    s = ''.join(r.choice(alphabet) for _ in range(n))
    if n >= 3 and r.random() < 0.15:
        # characters that are legal inside the quotes although some line-splitting routines treat them
        # as line ends (vertical tab, form feed, FS/GS/RS, lone CR, NEL, LS, PS); never first or last
        i = r.randrange(1, n - 1)
        s = s[:i] + r.choice('\x0b\x0c\x1c\x1d\x1e\r\x85\u2028\u2029') + s[i + 1:]
    if delim == D2 and r.random() < 0.2 and n > 1:
        # a single quote character inside (not at the end, never doubled) is not the delimiter
        i = r.randrange(0, n - 1)
        s = s[:i] + '"' + s[i + 1:]
        s = s.replace('""', '"a')
        if s.endswith('"'):
            s = s[:-1] + 'q'
    return kind, delim + s + delim, s


def gen_comment(r):
    if r.random() < 0.6:
        return ''
    return gen_ws(r) + '#' + ''.join(r.choice('abc "=#xyz') for _ in range(r.randint(0, 10)))


def gen_line(r, delim):
    key = gen_key(r)
    kind, lex, val = gen_value(r, delim)
    line = gen_ws(r) + key + gen_ws(r) + '=' + gen_ws(r) + lex + gen_comment(r)
    if kind != 'str' and line.count('#') and line[:line.find('#')].count(delim) == 1:
        line = line[:line.find('#')]
    return {'line': line, 'delim': delim, 'key': key, 'kind': kind, 'value': val if kind != 'float' else repr(val)}


def gen_malformed(r, delim):
    key = gen_key(r)
    kind = r.choice(['noeq', 'unterminated', 'junk', 'junk_str', 'empty_val', 'word'])
    if kind == 'noeq':
        line = key + ' ' + str(r.randint(0, 99))
    elif kind == 'unterminated':
        line = key + ' = ' + delim + 'abc' + r.choice(['', ' # c', '#'])
    elif kind == 'junk':
        line = key + ' = ' + str(r.randint(0, 99)) + ' junk'
    elif kind == 'junk_str':
        line = key + ' = ' + delim + 'abc' + delim + ' junk'
    elif kind == 'empty_val':
        line = key + ' = '
    else:
        line = key + ' = ' + r.choice(['hello', 'xyz', '1.2.3', '--1', '0xZZ', '1e+', 'g5'])
    return {'line': line, 'delim': delim, 'kind': 'malformed:' + kind}


def gen_blank(r, delim):
    line = r.choice(['', '   ', '\t', '# only a comment', '   # c = 1', '#', ' ## ASCCONV'])
    return {'line': line, 'delim': delim, 'kind': 'blank'}


def impl_line(line, delim):
    from dcmstack import extract
    try:
        res = extract._parse_phoenix_line(line, delim)
    except extract.PhoenixParseError:
        return 'PARSE-ERROR'
    except Exception as e:
        return 'EXC:' + type(e).__name__
    return res


def canon_impl(res):
    """to the driver's vocabulary"""
    if res is None or isinstance(res, str):
        return res
    k, v = res
    if isinstance(v, bool):
        return [k, {'bool': v}]
    if isinstance(v, int):
        return [k, {'int': str(v)}]
    if isinstance(v, float):
        return [k, {'floatval': repr(v)}]
    return [k, {'str': v}]


def same(model, impl):
    if model is None or isinstance(model, str) or impl is None or isinstance(impl, str):
        return model == impl
    if model[0] != impl[0]:
        return False
    mv, iv = model[1], impl[1]
    if 'float' in mv:
        try:
            return 'floatval' in iv and repr(float(mv['float'])) == iv['floatval']
        except ValueError:
            return False
    return mv == iv


def real_protocols():
    """ASCCONV text of the test series shipped with the repository (via nibabel's CSA reader)"""
    out = []
    path = os.path.join(core.REPO, 'test', 'data', 'extract', 'csa_test.dcm')
    try:
        import pydicom
        from nibabel.nicom import csareader
        with warnings.catch_warnings():
            warnings.simplefilter('ignore')
            ds = pydicom.dcmread(path)
            csa = csareader.get_csa_header(ds, 'series')
        for key in ('MrPhoenixProtocol', 'MrProtocol'):
            items = csa['tags'].get(key, {}).get('items', [])
            for it in items:
                if isinstance(it, bytes):
                    it = it.decode('latin-1')
                out.append((key, it))
    except Exception as e:
        out.append(('ERROR', repr(e)))
    return out


def main(pid, tier):
    from dcmstack import extract
    rep = core.Report(pid, tier)
    rep.disagreements = []
    rep.trusted = [
        'Lean 4.33.0 kernel; standard axioms only',
        "CPython int()/float() conversion of an accepted lexeme (the model recognises CPython's syntax and returns the exact integer / the lexeme)",
        'Python str.find/count/strip/startswith/slicing are modelled literally on List Char (ASCII whitespace)',
        'nibabel csareader for the real protocol text',
    ]
    core.prove(rep, pid, THEOREMS)
    r = core.rng(pid)
    drv = core.Driver()
    n = 6000 if tier == 'quick' else 120000
    cases = []
    for i in range(n):
        delim = D2 if r.random() < 0.5 else D1
        x = r.random()
        cases.append(gen_line(r, delim) if x < 0.7 else (gen_malformed(r, delim) if x < 0.9 else gen_blank(r, delim)))
    # excluded points run on the real code (evidence only) + known-finding witnesses
    cases += [{'line': 'a = 1e5', 'delim': D2, 'kind': 'f8', 'key': 'a', 'value': repr(1e5)},
              {'line': 'b = "str"', 'delim': D1, 'kind': 'str', 'key': 'b', 'value': 'str'},
              {'line': 'b = ""str""', 'delim': D2, 'kind': 'str', 'key': 'b', 'value': 'str'},
              {'line': 'c = ""x""" # y', 'delim': D2, 'kind': 'excluded:quote-at-end'}]
    reqs = []
    for c in cases:
        rep.evaluations += 1
        rep.count('line/' + c['kind'].split(':')[0])
        rep.nontriv(c['line'] + '|' + c['delim'])
        rep.sample({'suite': 'phoenix', 'case': c}, cap=4)
        got = impl_line(c['line'], c['delim'])
        c['got'] = canon_impl(got)
        kind = c['kind']
        if kind in ('int', 'hex'):
            ok = (got == (c['key'], c['value']) and isinstance(got[1], int) and not isinstance(got[1], bool))
        elif kind in ('float', 'f8'):
            ok = (isinstance(got, tuple) and got[0] == c['key'] and isinstance(got[1], float) and repr(got[1]) == c['value'])
        elif kind == 'str':
            ok = (got == (c['key'], c['value']))
        elif kind == 'blank':
            ok = got is None
        elif kind.startswith('malformed'):
            ok = got == 'PARSE-ERROR'
        else:
            ok = True
        if not ok:
            exp = c.get('value', 'None' if kind == 'blank' else 'PhoenixParseError')
            rep.failure('_parse_phoenix_line(%r, %r) = %r, expected %r' % (c['line'], c['delim'], got, exp),
                        {'tag': 'phoenix:line:%s' % kind, 'suite': 'phoenix', 'case': {k: v for k, v in c.items() if k != 'got'}})
        reqs.append({'op': 'phx_line', 'line': c['line'], 'delim': c['delim']})
    co = rep.corr.setdefault('phoenix_line', {'cases': 0, 'agree': 0, 'disagree': 0, 'skipped': 0})
    for a, c in zip(drv.ask(reqs), cases):
        co['cases'] += 1
        if same(a, c['got']):
            co['agree'] += 1
        else:
            co['disagree'] += 1
            rep.disagreements.append(('phoenix_line', 'phoenix:line', {k: v for k, v in c.items() if k != 'got'},
                                      'model %s vs implementation %s' % (json.dumps(a), json.dumps(c['got']))))
    # ---- protocol level
    prots = []
    for i in range(60 if tier == 'quick' else 1500):
        key = r.choice(['MrPhoenixProtocol', 'MrProtocol'])
        delim = D2 if key == 'MrPhoenixProtocol' else D1
        lines, expect = [], {}
        for _ in range(r.randint(0, 12)):
            x = r.random()
            if x < 0.75:
                c = gen_line(r, delim)
                if r.random() < 0.15 and expect:
                    dupk = r.choice(list(expect))
                    c['line'] = c['line'].replace(c['key'], dupk, 1)
                    c['key'] = dupk
                lines.append(c['line'])
                v = c['value']
                expect[c['key']] = float(v) if c['kind'] == 'float' else v
            else:
                lines.append(gen_blank(r, delim)['line'])
        head = r.choice(['', 'junk before\n', '<XProtocol> ...\n'])
        text = head + '### ASCCONV BEGIN ###\n' + '\n'.join(lines) + '\n### ASCCONV END ###' + r.choice(['', '\ntrailer'])
        prots.append({'key': key, 'text': text, 'expect': expect})
    # strings whose text begins or ends with white space, and one that is white space only (both dialects)
    for key, dl in (('MrPhoenixProtocol', D2), ('MrProtocol', D1)):
        prots.append({'key': key, 'text': '### ASCCONV BEGIN ###\nt1 = %s  lead%s\nt2\t=\t%strail  %s\nt3 = %s %s\nn = 3\n### ASCCONV END ###' % (dl, dl, dl, dl, dl, dl),
                      'expect': {'t1': '  lead', 't2': 'trail  ', 't3': ' ', 'n': 3}})
    bad = gen_malformed(r, D2)
    prots.append({'key': 'MrPhoenixProtocol', 'text': '### ASCCONV BEGIN ###\na = 1\n%s\n### ASCCONV END ###' % bad['line'], 'expect': 'PARSE-ERROR'})
    prots.append({'key': 'SomethingElse', 'text': '### ASCCONV BEGIN ###\na = 1\n### ASCCONV END ###', 'expect': 'ValueError'})
    for key, text in real_protocols():
        if key == 'ERROR':
            rep.notes.append('real protocol text not available: ' + text)
        else:
            prots.append({'key': key, 'text': text, 'expect': None, 'real': True})
            rep.count('prot/real')
    reqs = []
    for p in prots:
        rep.evaluations += 1
        rep.count('prot/generated')
        rep.nontriv(p['text'][:3000])
        try:
            got = extract.parse_phoenix_prot(p['key'], p['text'])
            gotc = [canon_impl((k, v)) for k, v in got.items()]
        except extract.PhoenixParseError:
            got, gotc = 'PARSE-ERROR', 'PARSE-ERROR'
        except ValueError:
            got, gotc = 'ValueError', 'ValueError'
        except Exception as e:
            got = gotc = 'EXC:' + type(e).__name__
        p['gotc'] = gotc
        exp = p['expect']
        if isinstance(exp, dict):
            ok = isinstance(got, dict) and list(got.keys()) == list(exp.keys()) and \
                all(type(got[k]) == type(exp[k]) and got[k] == exp[k] for k in exp)
            if not ok:
                rep.failure('parse_phoenix_prot lost or altered an assignment: got %r, expected %r' % (
                    (dict(got) if isinstance(got, dict) else got), exp),
                    {'tag': 'phoenix:prot', 'suite': 'phoenix', 'case': {'key': p['key'], 'text': p['text']}})
        elif isinstance(exp, str) and got != exp:
            rep.failure('parse_phoenix_prot: %r, expected %s' % (got, exp),
                        {'tag': 'phoenix:prot', 'suite': 'phoenix', 'case': {'key': p['key'], 'text': p['text']}})
        elif p.get('real'):
            if not isinstance(got, dict) or len(got) < 10:
                rep.failure('real protocol text: %r' % (got if not isinstance(got, dict) else len(got)),
                            {'tag': 'phoenix:real', 'suite': 'phoenix', 'case': {'key': p['key']}})
            else:
                # every assignment line between the markers is recovered
                s, e = p['text'].find('### ASCCONV BEGIN '), p['text'].find('### ASCCONV END ###')
                body = p['text'][s:e].split('\n')[1:-1]
                nassign = len({ln.split('=')[0].strip() for ln in body if '=' in ln.split('#')[0]})
                rep.count('prot/real_assignments', nassign)
                if nassign != len(got):
                    rep.failure('real protocol: %d assignments in the text, %d recovered' % (nassign, len(got)),
                                {'tag': 'phoenix:real', 'suite': 'phoenix', 'case': {'key': p['key']}})
        reqs.append({'op': 'phx_prot', 'key': p['key'], 'text': p['text']})
        # ---- the result is a function of the two arguments only: not of earlier calls, and not of
        # what a caller did to an earlier result
        if isinstance(got, dict):
            def outcome(key, text):
                try:
                    return [repr(canon_impl(kv)) for kv in extract.parse_phoenix_prot(key, text).items()]
                except extract.PhoenixParseError:
                    return 'PARSE-ERROR'
                except ValueError:
                    return 'ValueError'
                except Exception as e:
                    return 'EXC:' + type(e).__name__
            first = [repr(x) for x in gotc]
            got.clear()
            got['Injected'] = 1
            again = outcome(p['key'], p['text'])
            rep.evaluations += 1
            rep.count('prot/history')
            if again != first:
                rep.failure('parse_phoenix_prot(%s, same text) after the caller changed the earlier result: %r, first call gave %r'
                            % (p['key'], again[:6], first[:6]),
                            {'tag': 'phoenix:history', 'suite': 'phoenix', 'case': {'key': p['key'], 'text': p['text'],
                             'history': 'parse; mutate result; parse'}})
            other = 'MrProtocol' if p['key'] == 'MrPhoenixProtocol' else 'MrPhoenixProtocol'
            h1 = outcome(other, p['text'])                      # straight after a parse of the same text
            outcome(p['key'], '### ASCCONV BEGIN ###\nzz = 1\n### ASCCONV END ###')
            h2 = outcome(other, p['text'])                      # after an unrelated parse
            if h1 != h2:
                rep.failure('parse_phoenix_prot(%s, text) depends on the calls before it: %r after parsing the same text as %s, %r after an unrelated parse'
                            % (other, h1 if isinstance(h1, str) else h1[:6], p['key'], h2 if isinstance(h2, str) else h2[:6]),
                            {'tag': 'phoenix:history', 'suite': 'phoenix', 'case': {'key': other, 'text': p['text'],
                             'history': 'parse(%s, text); parse(%s, text)' % (p['key'], other)}})
    # ---- the protocol inside a CSA series header: `csa_series_trans_func` merges what `parse_phoenix_prot` returns into the
    # header dictionary — same keys (prefixed), same values, same order, the protocol text itself removed
    from .check_c15 import make_csa2
    from nibabel.nicom import csareader

    class _Elem(object):
        def __init__(self, value):
            self.value = value
    for p in prots:
        if p['key'] not in ('MrPhoenixProtocol', 'MrProtocol') or p.get('real'):
            continue
        try:
            # NUL-terminated items, as scanners write them (csareader then hands the text over as str)
            blob = make_csa2([('UsedPatientWeight', 'IS', ['70\x00']), (p['key'], 'UN', [p['text'] + '\x00']), ('ZzTail', 'LO', ['x y \x00'])])
        except UnicodeEncodeError:
            continue
        try:
            plain = extract.simplify_csa_dict(csareader.read(blob))
            text = plain.get(p['key'])
        except Exception:
            continue
        if not isinstance(text, str):
            continue
        try:
            ref = list(extract.parse_phoenix_prot(p['key'], text).items())
        except Exception as e:
            ref = type(e).__name__
        try:
            merged = extract.csa_series_trans_func(_Elem(blob))
            got_m = [(k[len('MrPhoenixProtocol.'):], v) for k, v in merged.items() if k.startswith('MrPhoenixProtocol.')]
            rest_m = [(k, v) for k, v in merged.items() if not k.startswith('MrPhoenixProtocol.')]
        except Exception as e:
            merged, got_m, rest_m = None, type(e).__name__, None
        rep.evaluations += 1
        rep.count('prot/series_merge')
        case = {'key': p['key'], 'text': p['text']}
        if isinstance(ref, str) or isinstance(got_m, str):
            if ref != got_m:
                rep.failure('csa_series_trans_func: %r, parse_phoenix_prot on the same text: %r' % (got_m, ref),
                            {'tag': 'phoenix:series_merge', 'suite': 'phoenix', 'case': case})
            continue
        if [(k, repr(v)) for k, v in got_m] != [(k, repr(v)) for k, v in ref]:
            diff = [(a, b) for a, b in zip(got_m, ref) if (a[0], repr(a[1])) != (b[0], repr(b[1]))][:2]
            rep.failure('csa_series_trans_func stores %r where parse_phoenix_prot gives %r' % (
                [d_[0] for d_ in diff] or len(got_m), [d_[1] for d_ in diff] or len(ref)),
                {'tag': 'phoenix:series_merge', 'suite': 'phoenix', 'case': case})
        elif sorted(k for k, _ in rest_m) != sorted(k for k in plain if k != p['key']) or \
                any(repr(merged[k]) != repr(plain[k]) for k, _ in rest_m):
            rep.failure('csa_series_trans_func changed the other entries of the header: %r vs %r' % (rest_m, dict(plain)),
                        {'tag': 'phoenix:series_merge', 'suite': 'phoenix', 'case': case})
    co = rep.corr.setdefault('phoenix_prot', {'cases': 0, 'agree': 0, 'disagree': 0, 'skipped': 0})
    for a, p in zip(drv.ask(reqs), prots):
        co['cases'] += 1
        g = p['gotc']
        if isinstance(a, list) and isinstance(g, list):
            ok = len(a) == len(g) and all(same(x, y) for x, y in zip(a, g))
        else:
            ok = a == g
        if ok:
            co['agree'] += 1
        else:
            co['disagree'] += 1
            rep.disagreements.append(('phoenix_prot', 'phoenix:prot', {'key': p['key'], 'text': p['text'][:2000]},
                                      'model %s vs implementation %s' % (json.dumps(a)[:300], json.dumps(g)[:300])))
    from .check_meta import finish_disagreements
    finish_disagreements(rep)
    return rep.finish()
