"""Correspondence between the wrapper-level Lean model (Model/Wrap.lean: voxel data and affines of
NiftiWrapper.split / NiftiWrapper.from_sequence) and the implementation, on an integer lattice of
affines (signed permutation x integer zoom, integer translation; every entry is sent to the model
multiplied by two so that nibabel's centred fallback affine stays integral) and integer-valued voxel
data.  Header variants: sform only (what nibabel writes for Nifti1Image(data, affine)), qform only,
both coded, none coded."""
import json, copy
import numpy as np
from . import core, meta as M, suite_meta as SM

SCALE = 2


def int_aff(A):
    A = np.asarray(A, dtype=float)
    Z = np.rint(A[:3, :] * SCALE)
    if not np.allclose(Z, A[:3, :] * SCALE, atol=1e-3):
        return None
    return [[int(Z[0, k]), int(Z[1, k]), int(Z[2, k])] for k in range(4)]


def int_data(d):
    d = np.asanyarray(d)
    z = np.rint(d.astype(np.float64) * 4)
    if not np.array_equal(z, d.astype(np.float64) * 4):
        return None
    return {'shape': [int(n) for n in d.shape], 'data': [int(v) for v in z.flatten()]}


def with_header_variant(w_img, kind, aff):
    """returns a NiftiWrapper of an image that went through bytes, so that its affine is what the
    header says (as for any image loaded from a file)"""
    import nibabel as nb
    from dcmstack.dcmmeta import NiftiWrapper
    img = nb.Nifti1Image(np.asanyarray(w_img.dataobj).copy(), aff, w_img.header.copy())
    h = img.header
    if kind == 's':
        h.set_sform(aff, 2)
        h.set_qform(aff, 0)
    elif kind == 'q':
        h.set_qform(aff, 1)
        h.set_sform(None, 0)
        for f in ('srow_x', 'srow_y', 'srow_z'):
            h[f] = 0
    elif kind == 'sq':
        h.set_sform(aff, 2)
        h.set_qform(aff, 1)
    elif kind == 'none':
        h.set_qform(aff, 0)
        h.set_sform(None, 0)
        for f in ('srow_x', 'srow_y', 'srow_z'):
            h[f] = 0
    # affine=None: the header alone says where the image lies (a Nifti1Image given an affine that
    # differs from its header's best affine would write that affine into the sform)
    img1 = nb.Nifti1Image(np.asanyarray(img.dataobj), None, h)
    img2 = nb.Nifti1Image.from_bytes(img1.to_bytes())
    w = NiftiWrapper(img2)
    # the extension describes this image: its affine is the image's (for the uncoded variant that is
    # nibabel's fallback affine, for the qform-only variant the quaternion's matrix)
    w.meta_ext.affine = img2.affine.copy()
    return w


def hdr_req(hdr):
    s = int_aff(hdr.get_sform()) if int(hdr['sform_code']) != 0 else None
    q = int_aff(hdr.get_qform()) if int(hdr['qform_code']) != 0 else None
    base = int_aff(hdr.get_base_affine())
    if base is None or (int(hdr['sform_code']) != 0 and s is None) or (int(hdr['qform_code']) != 0 and q is None):
        return None
    return {'s': s, 'q': q, 'base': base}


def run_split(w, dim):
    try:
        pieces = list(w.split(dim))
    except ValueError:
        return 'ValueError', None
    except KeyError as e:
        return 'KeyError', None
    except Exception as e:
        return 'raise:%s: %s' % (type(e).__name__, e), None
    out = {'pieces': [], 'affs': [], 'best': []}
    for p in pieces:
        d = int_data(p.nii_img.dataobj)
        a = int_aff(p.nii_img.affine)
        b = int_aff(p.nii_img.header.get_best_affine())
        if d is None or a is None or b is None:
            return 'nonint', pieces
        out['pieces'].append(d)
        out['affs'].append(a)
        out['best'].append(b)
    return out, pieces


def rebuild(p, aff):
    import nibabel as nb
    from dcmstack.dcmmeta import NiftiWrapper
    img = nb.Nifti1Image(np.asanyarray(p.nii_img.dataobj).copy(), aff)
    img.header.set_dim_info(*p.nii_img.header.get_dim_info())
    ext = copy.deepcopy(p.meta_ext)
    ext.affine = aff
    img.header.extensions.append(ext)
    return NiftiWrapper(img)


def merge_sequences(r, pieces, dim):
    """(name, list of wrappers): in order, and the ways a sequence can be wrong"""
    n = len(pieces)
    seqs = [('order', list(pieces))]
    if n >= 2:
        seqs.append(('reversed', list(reversed(pieces))))
        seqs.append(('dup', [pieces[0], pieces[0]] + list(pieces[1:])))
        seqs.append(('first_two', list(pieces[:2])))
    if n >= 3:
        idx = list(range(n))
        i, j = sorted(r.sample(range(1, n), 2))
        idx[i], idx[j] = idx[j], idx[i]
        seqs.append(('swap', [pieces[k] for k in idx]))
        seqs.append(('gap', [pieces[k] for k in range(n) if k != 1]))
    if n >= 2:
        k = r.randrange(1, n)
        A = pieces[k].nii_img.affine.copy()
        o1, o2 = [a for a in range(3) if a != dim][:2] if dim < 3 else (0, 1)
        kind = r.choice(['swapcols', 'negcol', 'zoom_other', 'zoom_merge', 'neg_merge'])
        if kind == 'swapcols':
            A[:3, [o1, o2]] = A[:3, [o2, o1]]
        elif kind == 'negcol':
            A[:3, o1] = -A[:3, o1]
        elif kind == 'zoom_other':
            A[:3, o1] = 2 * A[:3, o1]
        elif kind == 'zoom_merge' and dim < 3:
            A[:3, dim] = 2 * A[:3, dim]
        elif kind == 'neg_merge' and dim < 3:
            A[:3, dim] = -A[:3, dim]
        sh = pieces[k].nii_img.shape
        if kind != 'swapcols' or sh[o1] == sh[o2]:
            try:
                alt = rebuild(pieces[k], A)
                seqs.append(('alt:' + kind, list(pieces[:k]) + [alt] + list(pieces[k + 1:])))
            except Exception:
                pass
    return seqs


def run_merge(seq, dim):
    from dcmstack.dcmmeta import NiftiWrapper
    try:
        m = NiftiWrapper.from_sequence(seq, dim)
    except ValueError:
        return 'ValueError'
    except IndexError:
        return 'IndexError'
    d = int_data(m.nii_img.dataobj)
    a = int_aff(m.nii_img.affine)
    if d is None or a is None:
        return 'nonint'
    return {'arr': d, 'aff': a}


def corr(rep, pid, tier, r):
    """wrap_split (C04, C05) and wrap_merge (C03, C05) correspondences; returns nothing, records
    disagreements in rep.disagreements (the callers' finish_disagreements turns them into a report)"""
    from . import check_wrapper as CW
    drv = core.Driver()
    n = 40 if tier == 'quick' else 600
    cs = rep.corr.setdefault('wrap_split', {'cases': 0, 'agree': 0, 'disagree': 0, 'skipped': 0, 'in_theorem_domain': 0})
    cm = rep.corr.setdefault('wrap_merge', {'cases': 0, 'agree': 0, 'disagree': 0, 'skipped': 0, 'in_theorem_domain': 0})
    reqs, expect = [], []
    for ci in range(n):
        case = CW.gen_wrapper_case(r, tier, canonical=True, trimmed=(r.random() < 0.85))
        if case.get('oblique'):
            case['affine'] = M.rand_affine(r).tolist()
            case.pop('oblique')
        if case['data_kind'] == 'scaled_file':
            case['data_kind'] = 'int16'
        hk = r.choice(['s', 's', 'q', 'sq', 'none'])
        case['hdr_kind'] = hk
        try:
            w0, data, aff = CW.build_wrapper(case)
            w = with_header_variant(w0.nii_img, hk, aff)
        except Exception as e:
            rep.count('wrapcorr/build_failed')
            continue
        hreq = hdr_req(w.nii_img.header)
        darr = int_data(w.nii_img.dataobj)
        if hreq is None or darr is None:
            rep.count('wrapcorr/nonint')
            continue
        shape = case['shape']
        trimmed = not ((len(shape) == 4 and shape[3] == 1) or (len(shape) == 5 and shape[4] == 1))
        dims = list(range(len(shape))) + [None]
        for dim in dims:
            region = 'wrapcorr:split:hdr-%s:%s' % (hk, 'default' if dim is None else SM.subset_region(case, dim))
            got, pieces = run_split(w, dim)
            if got == 'KeyError':
                # F23: get_subset on shapes with a singleton trailing axis (known finding region)
                cs['skipped'] += 1
                rep.count('wrapcorr/split_keyerror_untrimmed' if not trimmed else 'wrapcorr/split_keyerror')
                if trimmed:
                    rep.failure('split(%s) raised KeyError on a trimmed shape %s' % (dim, shape),
                                {'tag': region + '/raise:KeyError', 'case': case, 'dim': dim})
                continue
            if got == 'nonint':
                cs['skipped'] += 1
                continue
            if isinstance(got, str) and got.startswith('raise:'):
                rep.failure('split(%s) of a valid wrapper of shape %s raised %s' % (dim, shape, got[6:]),
                            {'tag': region + '/raise', 'case': case, 'dim': dim})
                continue
            reqs.append({'op': 'wrap_split', 'arr': darr, 'dim': dim, 'sd': case['sd'], 'hdr': hreq})
            expect.append(('split', region, case, dim, got))
            rep.evaluations += 1
            rep.count(region.split(':hdr')[0] + ':hdr-' + hk)
            rep.nontriv(['wrapcorr', case, dim])
            if pieces and dim is not None and pid in ('C03', 'C05'):
                for name, seq in merge_sequences(r, pieces, dim):
                    mregion = 'wrapcorr:merge:%s:%s:n%d' % (name, 'spatial' if dim < 3 else 'nonspatial', min(len(seq), 3))
                    try:
                        mgot = run_merge(seq, dim)
                    except Exception as e:
                        cm['skipped'] += 1
                        rep.count('wrapcorr/merge_other_exception:' + type(e).__name__)
                        f3 = (dim == 3 and len(seq[0].nii_img.shape) == 5 and seq[0].nii_img.shape[3] == 1)
                        tag = ('merge:time:5D-inputs-singleton-time' if f3 else mregion) + '/raise:' + type(e).__name__
                        rep.failure('from_sequence(%s pieces of split(%d), %d) raised %r' % (name, dim, dim, e),
                                    {'tag': tag, 'case': case, 'dim': dim, 'seq': name})
                        continue
                    ins = [int_data(p.nii_img.dataobj) for p in seq]
                    affs = [int_aff(p.nii_img.affine) for p in seq]
                    if mgot == 'nonint' or any(x is None for x in ins) or any(x is None for x in affs):
                        cm['skipped'] += 1
                        continue
                    reqs.append({'op': 'wrap_merge', 'inputs': ins, 'dim': dim, 'affs': affs})
                    expect.append(('merge', mregion, {'case': case, 'seq': name}, dim, mgot))
                    rep.evaluations += 1
                    rep.count(mregion)
    if not reqs:
        return
    ans = drv.ask(reqs)
    for q, (kind, region, case, dim, got), a in zip(reqs, expect, ans):
        c = cs if kind == 'split' else cm
        c['cases'] += 1
        if 'skip' in a:
            c['skipped'] += 1
            continue
        c['in_theorem_domain'] += 1
        if kind == 'split':
            if got == 'ValueError':
                model = 'ValueError' if a.get('err') == 'ValueError' else a
                same = model == 'ValueError'
            else:
                same = ('err' not in a and a['pieces'] == got['pieces'] and a['affs'] == got['affs']
                        and a['best'] == got['best'])
        else:
            if isinstance(got, str):
                same = a.get('err') == got
                f3 = (dim == 3 and len(q['inputs'][0]['shape']) == 5 and q['inputs'][0]['shape'][3] == 1)
                if not same and f3 and 'err' not in a:
                    # known finding F3: the extension merge of 5-D inputs with a singleton time axis
                    # fails (AttributeError, or ValueError from the final simplification)
                    c['skipped'] += 1
                    rep.failure('from_sequence(…, 3) of 5-D pieces with a singleton time axis raised %s' % got,
                                {'tag': 'merge:time:5D-inputs-singleton-time/raise:' + got, 'case': case, 'dim': dim})
                    continue
            else:
                same = 'err' not in a and a['arr'] == got['arr'] and a['aff'] == got['aff']
        if same:
            c['agree'] += 1
        else:
            c['disagree'] += 1
            detail = 'wrap_%s dim %s: model %s, implementation %s' % (
                kind, dim, json.dumps(a)[:300], json.dumps(got)[:300])
            rep.disagreements.append(('wrap_' + kind, region, {'case': case, 'dim': dim, 'req': q}, detail))
