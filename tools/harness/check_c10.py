"""C10: check_valid accepts exactly the contents that meet the format rules.
Valid extensions + all single / sampled double corruptions, through from_json and NiftiWrapper(img)."""
import json, copy, itertools, io, contextlib
import numpy as np
from . import core, meta as M, suite_meta as SM

THEOREMS = ['C10.checkValid_iff_rules_partial', 'C10.rules_accepted', 'C10.corruption_rejected',
            'C10.reject_missing_required', 'C10.reject_bad_geometry', 'C10.reject_missing_class_dict',
            'C10.reject_wrong_count', 'C10.reject_slice_meta_without_slice_dim',
            'C10.reject_duplicate_key', 'C10.checkValid_not_iff_rules_full',
            'C10.checkValid_iff_rules_of_no_unit_class', 'C10.f6_accepted', 'C10.f6_breaks_rules']

REQ = {'0.5': ['dcmmeta_affine', 'dcmmeta_slice_dim', 'dcmmeta_shape', 'dcmmeta_version', 'global'],
       '0.6': ['dcmmeta_affine', 'dcmmeta_reorient_transform', 'dcmmeta_slice_dim', 'dcmmeta_shape',
               'dcmmeta_version', 'global']}     # the rule set of the property (dcmmeta docs); the model uses the generated table


def base_content(r, tier):
    c = SM.gen_subset_case(r, tier)
    ext = SM.build_parent(c)
    return json.loads(json.dumps(ext._content))


def corruptions(r, content):
    """list of (name, function content -> content) single corruptions drawn from the property's list"""
    out = []
    for k in list(content.keys()):
        if k.startswith('dcmmeta') or k in ('global', 'time', 'vector'):
            out.append(('drop:' + k, lambda c, k=k: c.pop(k, None)))
    for base in ('global', 'time', 'vector'):
        for sub in ('const', 'samples', 'slices'):
            if base in content and sub in content[base]:
                out.append(('dropsub:%s.%s' % (base, sub), lambda c, b=base, s=sub: c.get(b, {}).pop(s, None)))
                for key, vals in content[base][sub].items():
                    if isinstance(vals, list) and sub != 'const':
                        out.append(('addval:%s.%s.%s' % (base, sub, key),
                                    lambda c, b=base, s=sub, k=key: c[b][s][k].append(7) if b in c and s in c[b] and k in c[b][s] else None))
                        if len(vals) > 0:
                            out.append(('delval:%s.%s.%s' % (base, sub, key),
                                        lambda c, b=base, s=sub, k=key: c[b][s][k].pop() if b in c and s in c[b] and k in c[b][s] and c[b][s][k] else None))
                        out.append(('scalar:%s.%s.%s' % (base, sub, key),
                                    lambda c, b=base, s=sub, k=key: c[b][s].__setitem__(k, 5) if b in c and s in c[b] else None))
                    # duplicate the key into another classification
                    for b2 in ('global', 'time', 'vector'):
                        for s2 in ('const', 'samples', 'slices'):
                            if (b2, s2) != (base, sub) and b2 in content and s2 in content[b2]:
                                out.append(('dup:%s.%s.%s->%s.%s' % (base, sub, key, b2, s2),
                                            lambda c, k=key, b2=b2, s2=s2, v=vals: c[b2][s2].__setitem__(k, copy.deepcopy(v)) if b2 in c and s2 in c[b2] else None))
    for sd in (None, 0, 1, 2, 3, -1, 5):
        out.append(('slice_dim:%s' % sd, lambda c, sd=sd: c.__setitem__('dcmmeta_slice_dim', sd)))
    shape = content.get('dcmmeta_shape', [2, 2, 2])
    out.append(('shape:short', lambda c: c.__setitem__('dcmmeta_shape', list(shape[:2]))))
    out.append(('shape:long', lambda c: c.__setitem__('dcmmeta_shape', list(shape) + [2] * (6 - len(shape)))))
    out.append(('shape:drop_last', lambda c: c.__setitem__('dcmmeta_shape', list(shape[:-1]))))
    out.append(('shape:add_dim', lambda c: c.__setitem__('dcmmeta_shape', list(shape) + [2])))
    for d in range(len(shape)):
        out.append(('shape:entry%d+1' % d, lambda c, d=d: c.__setitem__('dcmmeta_shape', [x + (1 if i == d else 0) for i, x in enumerate(shape)])))
        if shape[d] > 1:
            out.append(('shape:entry%d=1' % d, lambda c, d=d: c.__setitem__('dcmmeta_shape', [1 if i == d else x for i, x in enumerate(shape)])))
    out.append(('affine:3x4', lambda c: c.__setitem__('dcmmeta_affine', [[1, 0, 0, 0], [0, 1, 0, 0], [0, 0, 1, 0]])))
    out.append(('affine:4x3', lambda c: c.__setitem__('dcmmeta_affine', [[1, 0, 0]] * 4)))
    out.append(('affine:5x5', lambda c: c.__setitem__('dcmmeta_affine', np.eye(5).tolist())))
    out.append(('affine:flat', lambda c: c.__setitem__('dcmmeta_affine', list(range(16)))))
    for v in (0.5, 0.6, 0.7, 1, '0.6', None):
        out.append(('version:%r' % (v,), lambda c, v=v: c.__setitem__('dcmmeta_version', v)))
    return out


def abstract(content):
    """the abstraction the Lean model decides over; None if the content is outside its vocabulary"""
    try:
        top = [k for k in content.keys()]
        ver = content.get('dcmmeta_version', 'MISSING')
        if 'dcmmeta_version' not in content:
            version = None
        elif isinstance(ver, bool) or not isinstance(ver, (int, float)):
            version = 'other:%r' % (ver,)
        else:
            version = repr(float(ver)) if float(ver) in (0.5, 0.6) else 'other:%r' % (ver,)
        aff = content.get('dcmmeta_affine')
        arows = None
        if isinstance(aff, list) and all(isinstance(row, list) and all(isinstance(x, (int, float)) for x in row) for row in aff):
            arows = [len(row) for row in aff]
            if len(set(arows)) > 1:
                return None      # ragged: numpy raises, outside the vocabulary
        elif isinstance(aff, list):
            arows = [len(aff)] if False else [1] * 0 + [0] * 0
            return {'flat_affine': True}
        else:
            return None
        sd = content.get('dcmmeta_slice_dim')
        if sd is not None and (isinstance(sd, bool) or not isinstance(sd, int)):
            return None
        shape = content.get('dcmmeta_shape')
        if not isinstance(shape, list) or not all(isinstance(x, int) and x >= 0 for x in shape):
            return None
        d = {}
        for (base, sub), name in M.CLS.items():
            if base in content and isinstance(content[base], dict) and sub in content[base]:
                ents = []
                for k, v in content[base][sub].items():
                    try:
                        n = len(v)
                    except TypeError:
                        n = None
                    ents.append([k, n])
                d[name] = ents
            else:
                d[name] = None
        return {'op': 'check_valid', 'top': top, 'version': version, 'arows': arows, 'sd': sd,
                'shape': shape, 'dict': d}
    except Exception:
        return None


def rules(content):
    """the format rules of the property, written independently (full strength)"""
    ver = content.get('dcmmeta_version')
    key = None
    if isinstance(ver, (int, float)) and not isinstance(ver, bool):
        key = {0.5: '0.5', 0.6: '0.6'}.get(float(ver))
    if key is None:
        return False, 'version'
    if not all(k in content for k in REQ[key]):
        return False, 'required'
    aff = content['dcmmeta_affine']
    try:
        if np.array(aff).shape != (4, 4):
            return False, 'affine'
    except Exception:
        return False, 'affine'
    sd = content['dcmmeta_slice_dim']
    if sd is not None and not (isinstance(sd, int) and 0 <= sd < 3):
        return False, 'slice_dim'
    shape = content['dcmmeta_shape']
    if not (isinstance(shape, list) and 3 <= len(shape) <= 5):
        return False, 'shape'
    valid = M.ref_valid_classes(shape)
    S, T, V = M.dims_of(shape, sd)
    seen = set()
    unit = False
    for c in valid:
        base, sub = M.CLS_INV[c]
        if base not in content or sub not in content[base]:
            return False, 'missing-dict'
        for k, v in content[base][sub].items():
            if k in seen:
                return False, 'duplicate'
            seen.add(k)
            if c == 'gconst':
                continue
            mult = M.ref_mult(c, S, T, V, sd is not None)
            if mult == 0:
                return False, 'slices-without-slice-dim'
            if not isinstance(v, (list, str, dict)) or len(v) != mult:
                if mult == 1:
                    unit = True
                    continue
                return False, 'count'
    if unit:
        return False, 'count-unit-class'
    return True, ''


def accepts(content):
    from dcmstack.dcmmeta import DcmMetaExtension, NiftiWrapper, dcm_meta_ecode
    import nibabel as nb
    js = json.dumps(content)
    try:
        DcmMetaExtension.from_json(js)
        a = True
    except Exception:
        a = False
    # through an image
    try:
        ext = DcmMetaExtension(dcm_meta_ecode, js)
        shape = content.get('dcmmeta_shape', [2, 2, 2])
        ishape = shape if isinstance(shape, list) and 3 <= len(shape) <= 5 and all(isinstance(x, int) and 0 < x < 6 for x in shape) else [2, 2, 2]
        img = nb.Nifti1Image(np.zeros(ishape, dtype=np.int16), np.eye(4))
        img.header.extensions.append(ext)
        with contextlib.redirect_stdout(io.StringIO()):
            NiftiWrapper(img)
        b = True
    except Exception:
        b = False
    return a, b


def main(pid, tier):
    rep = core.Report(pid, tier)
    rep.disagreements = []
    rep.trusted = [
        'Lean 4.33.0 kernel; standard axioms only (audited)',
        'tools/gen_tables.py for _req_base_keys_map (the model looks the version up in the generated table)',
        'the abstraction function of this harness (content dictionary -> top-level keys, version repr, affine row lengths, slice dim, shape, len() of every value)',
        'json.loads / numpy.array(...).shape for the affine',
    ]
    rep.assumptions = ['values that are strings or dicts have a len() and are abstracted as sized; the rules treat them like lists (stated in DESIGN.md)']
    core.prove(rep, pid, THEOREMS)
    r = core.rng(pid)
    drv = core.Driver()
    nbase = 40 if tier == 'quick' else 400
    reqs, meta = [], []
    co = rep.corr.setdefault('check_valid', {'cases': 0, 'agree': 0, 'disagree': 0, 'skipped': 0})
    for bi in range(nbase):
        base = base_content(r, tier)
        cors = corruptions(r, base)
        variants = [('valid', [])]
        variants += [(n, [f]) for n, f in cors]
        ndouble = 60 if tier == 'quick' else 400
        for _ in range(ndouble):
            (n1, f1), (n2, f2) = r.sample(cors, 2)
            variants.append((n1 + '+' + n2, [f1, f2]))
        for name, fs in variants:
            c = copy.deepcopy(base)
            try:
                for f in fs:
                    f(c)
            except Exception:
                continue
            rep.evaluations += 1
            kind = '+'.join(sorted(x.split(':')[0] for x in name.split('+')))
            rep.count('corruption/' + kind)
            rep.nontriv([base.get('dcmmeta_shape'), name, json.dumps(c, sort_keys=True)[:2000]])
            rep.sample({'suite': 'check_valid', 'corruption': name, 'content': c}, cap=3)
            a_json, a_img = accepts(c)
            ok, why = rules(c)
            if a_json != a_img:
                rep.failure('from_json %s but NiftiWrapper(img) %s the same content' % (
                    'accepts' if a_json else 'rejects', 'accepts' if a_img else 'rejects'),
                    {'tag': 'check_valid:screening', 'suite': 'check_valid', 'corruption': name, 'content': c})
            if a_json != ok:
                tag = 'check_valid:%s:%s' % ('accepted-invalid' if a_json else 'rejected-valid', why or 'ok')
                rep.failure('check_valid %s content that %s the rules (%s) after %s' % (
                    'accepts' if a_json else 'rejects', 'meets' if ok else 'breaks', why, name),
                    {'tag': tag, 'suite': 'check_valid', 'corruption': name, 'content': c})
            ab = abstract(c)
            if ab is None or 'flat_affine' in ab:
                co['skipped'] += 1
                continue
            reqs.append(ab)
            meta.append((name, c, a_json))
    for a, (name, c, a_json) in zip(drv.ask(reqs), meta):
        co['cases'] += 1
        if a == a_json:
            co['agree'] += 1
        else:
            co['disagree'] += 1
            rep.disagreements.append(('check_valid', 'check_valid', {'corruption': name, 'content': c},
                                      'model %s vs implementation %s' % (a, a_json)))
    # known finding witnesses
    for f in rep.known:
        if f.get('kind') == 'known' and f.get('witness', {}).get('suite') == 'check_valid':
            c = f['witness']['content']
            a_json, _ = accepts(c)
            ok, why = rules(c)
            if a_json != ok:
                rep.failure('check_valid accepts content that breaks the rules (%s)' % why,
                            {'tag': 'check_valid:accepted-invalid:' + why, 'suite': 'check_valid', 'content': c})
    from .check_meta import finish_disagreements
    finish_disagreements(rep)
    return rep.finish()
