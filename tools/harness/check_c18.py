"""C18: grouping partitions the readable image files and isolates faulty ones."""
import os, json, copy, warnings, tempfile, shutil
import numpy as np
from . import core, synth, stackgen as G, check_stack as CS

THEOREMS = ['C18.group_partition', 'C18.group_skip_fault', 'C18.group_strict_raises', 'C18.first_fit_joins',
            'C18.first_fit_new', 'C18.stack_group_skip', 'C18.stack_group_strict',
            'C18.loop_on_files', 'C18.together_iff', 'C18.group_order_independent',
            'C18.order_matters_without_transitivity']


def write_ds(ds, path):
    try:
        ds.save_as(path, enforce_file_format=True)
    except TypeError:
        ds.save_as(path, write_like_original=False)


def gen_dir(r, tier, tmp):
    """several series (differing in UID / number / protocol / orientation within or beyond the
    tolerance) written to files; returns (paths in canonical order, info per path)"""
    nser = r.randint(1, 3)
    files = []
    base_iop = None
    for si in range(nser):
        series = G.gen_series(r, tier, S=r.randint(1, 3), T=r.choice([1, 2]), V=1, ordering='explicit')
        kind = r.choice(['new_uid', 'same_uid_new_number', 'same_but_orient_far', 'same_but_orient_near', 'new_protocol',
                         'same_but_no_orient', 'same_but_no_protocol', 'same_but_number_zero', 'same_but_no_number']) if si else 'first'
        if si == 0:
            first = series
            uid, num, prot = '1.2.3.100', 1, 'protA'
            iop = list(series['iop'])
        else:
            series['rows'], series['cols'], series['spacing'] = first['rows'], first['cols'], first['spacing']
            uid, num, prot = '1.2.3.100', 1, 'protA'
            iop = list(first['iop'])
            if kind == 'new_uid':
                uid = '1.2.3.%d' % (200 + si)
            elif kind == 'same_uid_new_number':
                num = 1 + si
            elif kind == 'new_protocol':
                prot = 'prot%d' % si
            elif kind == 'same_but_orient_far':
                iop = list(np.array(iop) + np.array([0, 0.01, 0, 0, 0, 0.01]))
            elif kind == 'same_but_orient_near':
                iop = list(np.array(iop) + np.array([0, 1e-6, 0, 0, 0, 0]))
            elif kind == 'same_but_no_protocol':
                prot = None           # the element is absent: a group-by value of None
            elif kind == 'same_but_number_zero':
                num = 0               # a group-by value that is falsy but present: its own group, keyed 0
            elif kind == 'same_but_no_number':
                num = None
            series['iop'] = [float(x) for x in iop]
            # keep positions apart so that tuples do not collide when series fall into one group
            for f in series['files']:
                f['ipp'] = [f['ipp'][0] + 1000.0 * si, f['ipp'][1], f['ipp'][2]]
        for f in series['files']:
            f = copy.deepcopy(f)
            f['meta'].update({'SeriesInstanceUID': uid, 'SeriesNumber': num, 'ProtocolName': prot})
            f['meta'].pop('PatientName', None)
            if prot is None:
                f['meta'].pop('ProtocolName', None)
            if num is None:
                f['meta'].pop('SeriesNumber', None)
            files.append((series, f, (uid, num, prot),
                          None if kind == 'same_but_no_orient' else [round(x, 9) for x in series['iop']], kind))
    paths, info = [], {}
    for i, (series, f, key, iop, kind) in enumerate(files):
        f = dict(f, id=i)
        ds = G.dataset_of(series, f)
        if iop is None:
            del ds.ImageOrientationPatient
        p = os.path.join(tmp, 'f%03d.dcm' % i)
        write_ds(ds, p)
        paths.append(p)
        info[p] = {'id': i, 'exact': key, 'iop': iop, 'kind': kind}
    return paths, info


def add_faults(r, tmp, paths, info):
    """insert faulty paths at random positions; returns new path list"""
    out = list(paths)
    faults = []
    for k in range(r.randint(0, 3)):
        kind = r.choice(['garbage', 'truncated', 'text', 'missing', 'nonimage'])
        p = os.path.join(tmp, 'bad%d_%s' % (k, kind))
        if kind == 'garbage':
            open(p, 'wb').write(bytes(r.randrange(256) for _ in range(300)))
        elif kind == 'truncated':
            src = open(paths[0], 'rb').read()
            open(p, 'wb').write(src[:140])
        elif kind == 'text':
            open(p, 'w').write('this is not a dicom file\n' * 5)
        elif kind == 'missing':
            pass
        else:
            import pydicom
            ds = synth.make_ds([0, 0, 0], [1, 0, 0, 0, 1, 0], 2, 2, [1, 1], None, with_pixels=False, uid='1.2.9.%d' % k,
                               meta={'SeriesInstanceUID': '1.2.3.100', 'SeriesNumber': 1, 'ProtocolName': 'protA'})
            write_ds(ds, p)
        # what the path is to the grouping is decided by pydicom itself (trusted reader)
        import pydicom, dcmstack
        try:
            with warnings.catch_warnings():
                warnings.simplefilter('ignore')
                dsr = pydicom.dcmread(p, force=False)
            cls = 'nonimage' if not dcmstack.dcmstack.is_image(dsr) else 'image'
        except Exception:
            cls = 'unreadable'
        if cls == 'image':
            continue
        info[p] = {'fault': cls, 'made_as': kind}
        out.insert(r.randint(0, len(out)), p)
        faults.append(p)
    return out, faults


def run_group(paths, warn):
    import dcmstack
    with warnings.catch_warnings(record=True) as wlist:
        warnings.simplefilter('always')
        try:
            g = dcmstack.parse_and_group(paths, warn_on_except=warn)
            return 'ok', g, len(wlist)
        except Exception as e:
            return 'raised:' + type(e).__name__, None, len(wlist)


def canon_groups(g):
    return sorted(sorted(x[2] for x in grp) for grp in g.values())


def chained_tolerance_probe(rep):
    """orientations a, a+4e-5, a+8e-5: neighbours are within np.allclose(atol=5e-5), the ends are not.
    Closeness is then not transitive (the hypothesis of C18.together_iff fails) and first-fit grouping
    depends on the path order (Lean: C18.order_matters_without_transitivity) -- finding F28."""
    import random
    import dcmstack
    r = random.Random(3)
    series = G.gen_series(r, 'quick', S=3, T=1, V=1, ordering='explicit', orient='axial')
    tmp = tempfile.mkdtemp(prefix='dcmverif_c18p_')
    try:
        paths = []
        for i, f in enumerate(series['files']):
            iop = list(series['iop'])
            iop[1] += 4e-5 * i
            f['meta'].update({'SeriesInstanceUID': '1.2.3', 'SeriesNumber': 1, 'ProtocolName': 'p'})
            p = os.path.join(tmp, 'f%d.dcm' % i)
            write_ds(G.dataset_of(series, f, iop=iop), p)
            paths.append(p)
        parts = set()
        for order in ([0, 1, 2], [1, 0, 2], [2, 1, 0]):
            st, g, _ = run_group([paths[i] for i in order], False)
            parts.add(json.dumps(canon_groups(g)) if st == 'ok' else st)
        rep.evaluations += 1
        rep.count('group/chained_tolerance_probe')
        if len(parts) != 1:
            rep.failure('orientations chained within the tolerance (a, a+4e-5, a+8e-5): the groups depend on the path order',
                        {'tag': 'group:order:chained-tolerance', 'suite': 'group',
                         'orders': [[0, 1, 2], [1, 0, 2], [2, 1, 0]], 'partitions': len(parts)})
    finally:
        shutil.rmtree(tmp, ignore_errors=True)


def main(pid, tier):
    import dcmstack
    rep = core.Report(pid, tier)
    rep.disagreements = []
    rep.trusted = [
        'Lean 4.33.0 kernel; standard axioms only',
        'pydicom reader (what it raises on garbage / truncated / non-DICOM files), is_image, extraction and np.allclose(atol=5e-5) are parameters of the model; the harness classifies each path (readable image / non-image / unreadable) by calling pydicom itself',
        'the file system (scratch directory outside /verif)',
    ]
    core.prove(rep, pid, THEOREMS)
    r = core.rng(pid)
    chained_tolerance_probe(rep)
    drv = core.Driver()
    n = 40 if tier == 'quick' else 600
    reqs, meta = [], []
    tmp = tempfile.mkdtemp(prefix='dcmverif_c18_')
    try:
        for ci in range(n):
            d = os.path.join(tmp, 'c%d' % ci)
            os.makedirs(d)
            paths, info = gen_dir(r, tier, d)
            allp, faults = add_faults(r, d, paths, info)
            rep.evaluations += 1
            rep.count('group/series_kinds/' + '+'.join(sorted({info[p]['kind'] for p in paths})))
            rep.count('group/faults/%d' % len(faults))
            rep.nontriv([ci, [info[p] for p in allp]])
            rep.sample({'suite': 'group', 'paths': [os.path.basename(p) for p in allp], 'info': [info[p] for p in allp][:6]}, cap=2)
            case = {'suite': 'group', 'n_files': len(paths), 'faults': [info[p]['fault'] for p in faults],
                    'kinds': [info[p]['kind'] for p in paths], 'order': [os.path.basename(p) for p in allp]}
            # clean run (no faults) is the reference
            st0, g0, _ = run_group(paths, False)
            if st0 != 'ok':
                rep.failure('parse_and_group failed on readable image files: %s' % st0, dict(case, tag='group:clean'))
                continue
            ref = canon_groups(g0)
            # every readable image file in exactly one group
            flat = [x for grp in ref for x in grp]
            if sorted(flat) != sorted(paths):
                rep.failure('groups are not a partition of the readable image files', dict(case, tag='group:partition'))
            # equal on every key together / differing apart
            for key, grp in g0.items():
                ids = {(info[x[2]]['exact']) for x in grp}
                if len(ids) != 1:
                    rep.failure('files with different group-by values share a group', dict(case, tag='group:apart'))
                iops = [info[x[2]]['iop'] for x in grp]
                if any((iops[0] is None) != (o is None) or
                       (o is not None and not np.allclose(np.array(iops[0]), np.array(o), atol=5e-5)) for o in iops):
                    rep.failure('files with orientation beyond tolerance share a group', dict(case, tag='group:apart'))
            byk = {}
            for p in paths:
                byk.setdefault((info[p]['exact'], None if info[p]['iop'] is None else tuple(np.round(info[p]['iop'], 3))), []).append(p)
            for members in byk.values():
                if not any(set(members) <= set(grp) for grp in ref):
                    rep.failure('files equal on every key are in different groups', dict(case, tag='group:together'))
            # keyed by the group-by values, in the order of group_by, also for another group_by order
            gbs = [('SeriesInstanceUID', 'SeriesNumber', 'ProtocolName', 'ImageOrientationPatient')]
            perm = list(gbs[0]); r.shuffle(perm)
            gbs.append(tuple(perm))
            gbs.append(tuple(r.sample(gbs[0], r.choice([2, 3]))))
            for gb in gbs:
                with warnings.catch_warnings():
                    warnings.simplefilter('ignore')
                    try:
                        gk = dcmstack.parse_and_group(paths, group_by=gb)
                    except Exception as e:
                        rep.failure('parse_and_group(group_by=%r) raised %r' % (gb, e), dict(case, tag='group:keys', group_by=list(gb)))
                        continue
                rep.evaluations += 1
                rep.count('group/keyed_by/%d' % len(gb))
                bad = None
                for key, grp in gk.items():
                    for x in grp:
                        inf = info[x[2]]
                        own = {'SeriesInstanceUID': inf['exact'][0], 'SeriesNumber': inf['exact'][1],
                               'ProtocolName': inf['exact'][2], 'ImageOrientationPatient': inf['iop']}
                        if len(key) != len(gb):
                            bad = (key, x[2]); break
                        for kk, name in zip(key, gb):
                            want = own[name]
                            if name == 'ImageOrientationPatient':
                                try:
                                    okk = (kk is None and want is None) or (kk is not None and want is not None and
                                                                           np.allclose(np.array(kk, dtype=float), np.array(want), atol=6e-5))
                                except (TypeError, ValueError):
                                    okk = False
                            else:
                                okk = (kk == want)
                            if not okk:
                                bad = (key, os.path.basename(x[2]), name); break
                        if bad:
                            break
                    if bad:
                        break
                if bad:
                    rep.failure('group_by=%r: a file sits under key %r, which is not its group-by values in that order (%s)' % (gb, bad[0], bad[1:]),
                                dict(case, tag='group:keys', group_by=list(gb)))
                flatk = sorted(x[2] for grp in gk.values() for x in grp)
                if flatk != sorted(paths):
                    rep.failure('group_by=%r: groups are not a partition of the readable image files' % (gb,), dict(case, tag='group:partition', group_by=list(gb)))
            # path order independence (partition)
            sh = list(paths)
            r.shuffle(sh)
            st1, g1, _ = run_group(sh, False)
            if st1 != 'ok' or canon_groups(g1) != ref:
                rep.failure('grouping depends on path order', dict(case, tag='group:order', shuffled=[os.path.basename(p) for p in sh]))
            # faults: warn mode == absence; strict raises for unreadable
            stw, gw, nwarn = run_group(allp, True)
            if stw != 'ok' or canon_groups(gw) != ref:
                rep.failure('with warn_on_except the result differs from the same input without the faulty files (%s)' % stw,
                            dict(case, tag='group:warn'))
            unread = [p for p in faults if info[p]['fault'] != 'nonimage']
            sts, gs, _ = run_group(allp, False)
            if unread and not sts.startswith('raised'):
                rep.failure('strict mode did not raise on an unreadable file', dict(case, tag='group:strict'))
            if not unread and (sts != 'ok' or canon_groups(gs) != ref):
                rep.failure('non-image datasets are not skipped: %s' % sts, dict(case, tag='group:nonimage'))
            # model
            items = []
            for p in allp:
                if 'fault' in info[p]:
                    items.append('n' if info[p]['fault'] == 'nonimage' else 'u')
                else:
                    iop = None if info[p]['iop'] is None else [int(round(x * 1e6)) for x in info[p]['iop']]
                    items.append([info[p]['id'], json.dumps(info[p]['exact']), [iop]])
            for warn in (True, False):
                reqs.append({'op': 'group', 'warn': warn, 'items': items})
                st, g, _ = (stw, gw, 0) if warn else (sts, gs, 0)
                got = 'raised' if st != 'ok' else sorted(sorted(info[x[2]]['id'] for x in grp) for grp in g.values())
                meta.append((case, warn, got))
            # ---- stack_group: incongruent / colliding files are isolated
            from dcmstack import extract
            sser = G.gen_series(r, tier, S=r.randint(2, 3), T=r.choice([1, 2]), V=1, ordering='explicit')
            grp = []
            for f in sser['files']:
                dsx = G.dataset_of(sser, f)
                with warnings.catch_warnings():
                    warnings.simplefilter('ignore')
                    grp.append((dsx, extract.default_extractor(dsx), 'mem%d' % f['id']))
            if len(grp) >= 2:
                bad_kind = r.choice(['collide', 'incongruent', 'collide_tr'])
                dcm, m, fn = grp[0]
                import pydicom
                bad = copy.deepcopy(dcm)
                bm = copy.deepcopy(m)
                if bad_kind == 'incongruent':
                    bm['Rows'] = m['Rows'] + 1
                elif bad_kind == 'collide_tr':
                    bm['RepetitionTime'] = 1234.0
                    bm['InPlanePhaseEncodingDirection'] = 'COL' if m.get('InPlanePhaseEncodingDirection') != 'COL' else 'ROW'
                pos = r.randint(1, len(grp))
                with_bad = list(grp[:pos]) + [(bad, bm, 'BAD')] + list(grp[pos:])
                rep.evaluations += 1
                rep.count('stack_group/' + bad_kind)
                try:
                    with warnings.catch_warnings():
                        warnings.simplefilter('ignore')
                        kw = {'time_order': 'EchoTime'}
                        s_ref = dcmstack.stack_group(grp, warn_on_except=False, **kw)
                        s_bad = dcmstack.stack_group(with_bad, warn_on_except=True, **kw)
                        d_ref = CS.nii_digest(CS.quiet(s_ref.to_nifti, 'LAS', True))
                        d_bad = CS.nii_digest(CS.quiet(s_bad.to_nifti, 'LAS', True))
                    if d_ref != d_bad:
                        rep.failure('stack_group(warn_on_except=True) with a %s file differs from the same group without it' % bad_kind,
                                    dict(case, tag='stack_group:' + bad_kind, position=pos))
                    try:
                        with warnings.catch_warnings():
                            warnings.simplefilter('ignore')
                            dcmstack.stack_group(with_bad, warn_on_except=False, **kw)
                        rep.failure('stack_group(strict) accepted a %s file' % bad_kind, dict(case, tag='stack_group:strict:' + bad_kind))
                    except Exception:
                        pass
                except Exception as e:
                    rep.failure('stack_group raised %r' % e, dict(case, tag='stack_group:raise'))
    finally:
        shutil.rmtree(tmp, ignore_errors=True)
    co = rep.corr.setdefault('group', {'cases': 0, 'agree': 0, 'disagree': 0, 'skipped': 0})
    for a, (case, warn, got) in zip(drv.ask(reqs), meta):
        co['cases'] += 1
        am = 'raised' if a == 'raised' else sorted(sorted(x) for x in a)
        if am == got:
            co['agree'] += 1
        else:
            co['disagree'] += 1
            rep.disagreements.append(('group', 'group', dict(case, warn=warn),
                                      'model %s vs implementation %s' % (json.dumps(am)[:300], json.dumps(got)[:300])))
    from .check_meta import finish_disagreements
    finish_disagreements(rep)
    return rep.finish()
