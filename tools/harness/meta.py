"""DcmMeta side of the harness: generators of extensions from ground-truth tables, conversion
between real `DcmMetaExtension` objects and the model's JSON, the reference decoder (the documented
layout, written independently of the implementation) and the reference minimal class."""
import json, itertools, copy
import numpy as np

CLS = {('global', 'const'): 'gconst', ('global', 'slices'): 'gslices',
       ('time', 'samples'): 'tsamples', ('time', 'slices'): 'tslices',
       ('vector', 'samples'): 'vsamples', ('vector', 'slices'): 'vslices'}
CLS_INV = {v: k for k, v in CLS.items()}
# the fixed preference order of the property text (C06)
PREF = ['gconst', 'vsamples', 'tsamples', 'tslices', 'vslices', 'gslices']


def dm():
    import dcmstack.dcmmeta as m
    return m


def cv(v):
    """canonical text of a metadata value (equality of texts == Python equality on the generator's
    value domain: ints, strings, None, lists, dicts with string keys, non-integral floats)"""
    return json.dumps(v, sort_keys=True)


# ------------------------------------------------------------------ geometry of an extension

def dims_of(shape, sd):
    S = shape[sd] if sd is not None else 1
    T = shape[3] if len(shape) > 3 else 1
    V = shape[4] if len(shape) > 4 else 1
    return S, T, V


def ref_valid_classes(shape):
    n = len(shape)
    if n == 3:
        return ['gconst', 'gslices']
    if n == 4:
        return ['gconst', 'gslices', 'tsamples', 'tslices']
    if shape[3] != 1:
        return ['gconst', 'gslices', 'tsamples', 'tslices', 'vsamples', 'vslices']
    return ['gconst', 'gslices', 'vsamples', 'vslices']


def ref_index(cls, S, T, V, s, t, v):
    """documented layout: slice index fastest, then time, then vector"""
    return {'gconst': 0, 'vsamples': v, 'tsamples': t + T * v, 'tslices': s,
            'vslices': s + S * t, 'gslices': s + S * (t + T * v)}[cls]


def ref_mult(cls, S, T, V, has_slice=True):
    if cls.endswith('slices') and not has_slice:
        return 0
    return {'gconst': 1, 'vsamples': V, 'tsamples': T * V, 'tslices': S, 'vslices': S * T,
            'gslices': S * T * V}[cls]


def ref_lookup(ext, key, s, t, v):
    """value the extension records for `key` at slice s, time t, vector v (None if absent);
    reference decoder, independent of NiftiWrapper.get_meta"""
    vals, cls = ext.get_values_and_class(key)
    if cls is None:
        return None
    c = CLS[tuple(cls)]
    if c == 'gconst':
        return vals
    S, T, V = dims_of(ext.shape, ext.slice_dim)
    return vals[ref_index(c, S, T, V, s, t, v)]


def representable(cls, table, S, T, V):
    """table[(s,t,v)] factors through the index map of cls"""
    seen = {}
    for (s, t, v), val in table.items():
        i = ref_index(cls, S, T, V, s, t, v)
        if i in seen and seen[i] != cv(val):
            return False
        seen[i] = cv(val)
    return True


def values_for(cls, table, S, T, V):
    out = [None] * ref_mult(cls, S, T, V)
    for (s, t, v), val in table.items():
        out[ref_index(cls, S, T, V, s, t, v)] = val
    return out


def ref_minimal_class(shape, sd, table, bases=None):
    """first class in the preference order that is valid for the shape and represents the table"""
    S, T, V = dims_of(shape, sd)
    valid = ref_valid_classes(shape)
    for c in PREF:
        if c not in valid:
            continue
        if bases is not None and CLS_INV[c][0] not in bases:
            continue
        if c.endswith('slices') and sd is None:
            continue
        if representable(c, table, S, T, V):
            return c
    return None


def table_of(ext, key):
    S, T, V = dims_of(ext.shape, ext.slice_dim)
    return {(s, t, v): ref_lookup(ext, key, s, t, v)
            for s in range(S) for t in range(T) for v in range(V)}


# ------------------------------------------------------------------ conversion real <-> model

def ext_to_model(ext):
    ents = []
    content = ext._content
    for cls in ext.get_valid_classes():
        c = CLS[tuple(cls)]
        if cls[0] not in content or cls[1] not in content[cls[0]]:
            continue
        for k, vals in content[cls[0]][cls[1]].items():
            if c == 'gconst':
                ents.append([k, c, [cv(vals)]])
            else:
                if not isinstance(vals, list):
                    return None          # not expressible (scalar stored for a varying class)
                ents.append([k, c, [cv(x) for x in vals]])
    return {'shape': [int(x) for x in ext.shape], 'sd': ext.slice_dim,
            't': 'time' in content, 'v': 'vector' in content, 'ents': ents}


def canon_model_ext(m):
    return {'shape': m['shape'], 'sd': m['sd'], 't': m['t'], 'v': m['v'],
            'ents': sorted([[e[0], e[1], list(e[2])] for e in m['ents']])}


def build_ext(shape, sd, entries, affine=None, reorient=None, force_bases=False):
    """real extension with the given (key, cls, values) entries"""
    m = dm()
    if affine is None:
        affine = np.eye(4)
    if reorient is None:
        reorient = np.eye(4)
    ext = m.DcmMetaExtension.make_empty(tuple(shape), affine, reorient, sd)
    for k, c, vals in entries:
        base, sub = CLS_INV[c]
        if base not in ext._content:
            if not force_bases:
                raise KeyError(base)
            from collections import OrderedDict
            ext._content[base] = OrderedDict([('samples', OrderedDict()), ('slices', OrderedDict())])
        ext._content[base][sub][k] = vals
    return ext


# ------------------------------------------------------------------ generators

VALS = [0, 1, 2, 'a', 'b', None, [1, 2], 0.5, {'x': 1}, 'ü', 10 ** 20, [None, 'a'], -3]


def gen_shape(r, tier='quick', want_nd=None, trimmed=None):
    hi = 3 if tier == 'quick' else 4
    nd = want_nd or r.choice([3, 3, 4, 4, 4, 5, 5, 5])
    sp = [r.randint(1, hi) for _ in range(3)]
    if trimmed is None:
        trimmed = r.random() < 0.85
    if nd == 3:
        shape = sp
    elif nd == 4:
        shape = sp + [r.randint(2, hi) if trimmed else 1]
    else:
        t = r.choice([1, 2, 2, 3, hi])
        v = r.randint(2, hi) if trimmed else 1
        shape = sp + [t, v]
    sd = r.choice([0, 1, 2, 0, 1, 2, 0, 1, 2, None]) if r.random() < 0.25 else r.choice([0, 1, 2])
    return shape, sd


PATTERNS = ['const', 'const', 'per_v', 'per_t', 'per_tv', 'per_s', 'per_s', 'per_st', 'irregular',
            'irregular', 'holes', 'two_level']


def gen_table(r, S, T, V, pattern=None, vals=None):
    pattern = pattern or r.choice(PATTERNS)
    pool = vals or r.sample(VALS, r.randint(2, 4))
    pick = lambda: r.choice(pool)
    grid = [(s, t, v) for s in range(S) for t in range(T) for v in range(V)]
    if pattern == 'const':
        c = pick()
        f = lambda s, t, v: c
    elif pattern == 'per_v':
        a = [pick() for _ in range(V)]
        f = lambda s, t, v: a[v]
    elif pattern == 'per_t':
        a = [pick() for _ in range(T)]
        f = lambda s, t, v: a[t]
    elif pattern == 'per_tv':
        a = [[pick() for _ in range(V)] for _ in range(T)]
        f = lambda s, t, v: a[t][v]
    elif pattern == 'per_s':
        a = [pick() for _ in range(S)]
        f = lambda s, t, v: a[s]
    elif pattern == 'per_st':
        a = [[pick() for _ in range(T)] for _ in range(S)]
        f = lambda s, t, v: a[s][t]
    elif pattern == 'two_level':
        a = [pick() for _ in range(S)]
        b = [pick() for _ in range(V)]
        f = lambda s, t, v: [a[s], b[v]]
    elif pattern == 'holes':
        a = {g: (None if r.random() < 0.5 else pick()) for g in grid}
        f = lambda s, t, v: a[(s, t, v)]
    else:
        a = {g: pick() for g in grid}
        f = lambda s, t, v: a[(s, t, v)]
    return {g: copy.deepcopy(f(*g)) for g in grid}, pattern


def classify(r, shape, sd, table, canonical=True, bases=None):
    """choose a class for the table: minimal (canonical) or any valid class able to represent it"""
    S, T, V = dims_of(shape, sd)
    valid = ref_valid_classes(shape)
    ok = [c for c in PREF if c in valid and representable(c, table, S, T, V)
          and not (c.endswith('slices') and sd is None)
          and (bases is None or CLS_INV[c][0] in bases)]
    if not ok:
        return None
    if canonical:
        return ok[0]
    return r.choice(ok)


def bases_of_shape(shape, f1_fixed=True):
    b = ['global']
    if len(shape) == 4 and (shape[3] != 1 or f1_fixed):
        b.append('time')
    if len(shape) == 5 and shape[3] != 1:
        b.append('time')
    if len(shape) == 5:
        b.append('vector')
    return b


def all_none(table):
    return all(v is None for v in table.values())


def gen_ext_from_tables(r, shape, sd, tables, canonical=True, affine=None):
    """tables: {key: table or None}. Returns (ext, entries) — keys whose table is all-None are
    dropped when canonical (they carry no information)"""
    S, T, V = dims_of(shape, sd)
    entries = []
    probe = dm().DcmMetaExtension.make_empty(tuple(shape), np.eye(4), None, sd)
    bases = [b for b in ('global', 'time', 'vector') if b in probe._content]
    for k, tab in tables.items():
        if tab is None:
            continue
        if canonical and all_none(tab):
            continue
        c = classify(r, shape, sd, tab, canonical, bases)
        if c is None:
            continue
        vals = values_for(c, tab, S, T, V)
        entries.append((k, c, vals[0] if c == 'gconst' else vals))
    return build_ext(shape, sd, entries, affine), entries


def rand_affine(r, exact=True):
    """signed permutation x positive integer zooms + integer translation (exact regime)"""
    perm = list(range(3))
    r.shuffle(perm)
    A = np.zeros((4, 4))
    for i in range(3):
        A[perm[i], i] = r.choice([-1, 1]) * r.choice([1, 2, 3])
    A[:3, 3] = [r.randint(-5, 5) for _ in range(3)]
    A[3, 3] = 1
    return A
