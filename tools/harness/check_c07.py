"""C07: every extension the library produces is valid, writable and matches its image.
Proof side: one-step validity lemmas (make_empty, merge, subset, simplify).  Search side: random
chains of API operations, after every step `check_valid`, `to_json`, and geometry vs the image."""
import json, io, contextlib, itertools, copy, os, tempfile, shutil
import numpy as np
from . import core, meta as M, suite_meta as SM, check_meta as CM, check_wrapper as CW

THEOREMS = ['C07.merge_valid_slice', 'C07.merge_valid_time', 'C07.simplify_valid',
            'C07.subset_slice_valid', 'C07.subset_time_valid', 'C07.subset_vector_valid',
            'C07.subset_slice_raw_valid', 'C07.makeEmpty_bases', 'C07.makeEmpty_valid',
            'C07.makeEmpty_refuses', 'C07.merge_valid_vector', 'C07.convert_valid', 'C07.split_chain_valid',
            'C07.produced_valid', 'C07.produced_slice_split_total', 'C07.produced_time_split_total',
            'C07.produced_vector_split_total', 'C07.produced_slice_merge_total']


def make_empty_round(rep, r, tier):
    import nibabel as nb
    from dcmstack.dcmmeta import NiftiWrapper, DcmMetaExtension
    drv = core.Driver()
    shapes = []
    rng_dims = [1, 2, 3]
    for nd in (3, 4, 5):
        for tail in itertools.product(rng_dims, repeat=nd - 2):
            shapes.append([2] * 2 + list(tail))
    shapes += [[2, 2], [2, 2, 2, 2, 2, 2]]
    reqs, meta = [], []
    for shape in shapes:
        for sd in (None, 0, 1, 2):
            rep.evaluations += 1
            rep.count('make_empty/%dD' % len(shape))
            rep.nontriv(['make_empty', shape, sd])
            status, ext = 'ok', None
            try:
                ext = DcmMetaExtension.make_empty(tuple(shape), np.eye(4), None, sd)
            except ValueError:
                status = 'ValueError'
            except Exception as e:
                status = 'Other'
            if 3 <= len(shape) <= 5:
                if status != 'ok':
                    rep.failure('make_empty(%s, slice_dim=%s) raised %s' % (shape, sd, status),
                                {'tag': 'make_empty:%dD' % len(shape), 'suite': 'make_empty', 'shape': shape, 'sd': sd})
                else:
                    fs = SM.oracle_valid(ext, shape, sd)
                    for f in fs[:1]:
                        rep.failure('make_empty(%s, slice_dim=%s): %s' % (shape, sd, f),
                                    {'tag': 'make_empty:%dD' % len(shape), 'suite': 'make_empty', 'shape': shape, 'sd': sd})
                    # through the wrapper
                    img = nb.Nifti1Image(np.zeros(shape, dtype=np.int16), np.eye(4))
                    img.header.set_dim_info(slice=sd)
                    try:
                        with contextlib.redirect_stdout(io.StringIO()):
                            w = NiftiWrapper(img, make_empty=True)
                        for f in CW.img_matches(w)[:1]:
                            rep.failure('NiftiWrapper(img %s, make_empty=True): %s' % (shape, f),
                                        {'tag': 'make_empty:wrapper:%dD' % len(shape), 'suite': 'make_empty', 'shape': shape, 'sd': sd})
                    except Exception as e:
                        rep.failure('NiftiWrapper(img %s, make_empty=True) raised %r' % (shape, e),
                                    {'tag': 'make_empty:wrapper:%dD' % len(shape), 'suite': 'make_empty', 'shape': shape, 'sd': sd})
            if 3 <= len(shape) <= 5 and status == 'ok' and sd in (None, 1):
                # an image whose orientation is carried by the qform alone (sform code 0, zeroed srows): the new extension
                # records the affine the image has
                try:
                    A = np.array([[0.0, -2.0, 0.0, 10.0], [1.5, 0.0, 0.0, -20.0], [0.0, 0.0, 3.0, 5.0], [0.0, 0.0, 0.0, 1.0]])
                    im0 = nb.Nifti1Image(np.zeros(shape, dtype=np.int16), A)
                    h0 = im0.header.copy()
                    h0.set_qform(A, code=1)
                    h0['sform_code'] = 0
                    for rn in ('srow_x', 'srow_y', 'srow_z'):
                        h0[rn] = 0
                    h0.set_dim_info(slice=sd)
                    imq = nb.Nifti1Image(np.zeros(shape, dtype=np.int16), h0.get_best_affine(), h0)
                    assert int(imq.header['sform_code']) == 0 and not np.any(imq.header['srow_x']), 'fixture: sform not cleared'
                    with contextlib.redirect_stdout(io.StringIO()):
                        wq = NiftiWrapper(imq, make_empty=True)
                    for f in CW.img_matches(wq)[:1]:
                        rep.failure('NiftiWrapper(qform-only img %s, make_empty=True): %s' % (shape, f),
                                    {'tag': 'make_empty:wrapper:qform:%dD' % len(shape), 'suite': 'make_empty', 'shape': shape, 'sd': sd})
                except Exception as e:
                    rep.failure('NiftiWrapper(qform-only img %s, make_empty=True) raised %r' % (shape, e),
                                {'tag': 'make_empty:wrapper:qform:%dD' % len(shape), 'suite': 'make_empty', 'shape': shape, 'sd': sd})
            if 3 <= len(shape) <= 5 and status == 'ok' and sd is not None and sd < 3 and int(np.prod(shape)) <= 400:
                # an image that already carries a code-0 extension which is not a valid DcmMeta header (another tool's, or a stale one):
                # the wrapper adds its own; every piece of a split, and the image after replace / remove, carries exactly the
                # extensions it should and can be wrapped again
                try:
                    rep.evaluations += 1
                    rep.count('make_empty/foreign-extension')
                    imf = nb.Nifti1Image(np.zeros(shape, dtype=np.int16), np.eye(4))
                    imf.header.set_dim_info(slice=sd)
                    foreign = DcmMetaExtension.make_empty(tuple(shape), np.eye(4), None, sd)
                    S_, T_, V_ = M.dims_of(shape, sd)
                    foreign.get_class_dict(('global', 'slices'))['Stale'] = [1] * (S_ * T_ * V_)      # one key in two classifications
                    foreign.get_class_dict(('global', 'const'))['Stale'] = 1
                    imf.header.extensions.append(foreign)
                    with contextlib.redirect_stdout(io.StringIO()):
                        wf = NiftiWrapper(imf, make_empty=True)
                        wf.meta_ext.get_class_dict(('global', 'const'))['Mark'] = 'own'

                        def n_valid(im):
                            k = 0
                            for e_ in im.header.extensions:
                                if e_.get_code() == 0:
                                    try:
                                        e_.check_valid()
                                        k += 1
                                    except Exception:
                                        pass
                            return k
                        bad = None
                        for dim_ in range(len(shape)):
                            if shape[dim_] < 2 or (dim_ < 3 and dim_ != sd):
                                continue
                            for pi, piece in enumerate(wf.split(dim_)):
                                if n_valid(piece.nii_img) != 1:
                                    bad = 'piece %d of split(%d) carries %d valid DcmMeta extensions' % (pi, dim_, n_valid(piece.nii_img))
                                    break
                                again = NiftiWrapper(piece.nii_img)
                                if again.meta_ext.to_json() != piece.meta_ext.to_json():
                                    bad = 'piece %d of split(%d) wraps again to another extension' % (pi, dim_)
                                    break
                            if bad:
                                break
                        if bad is None:
                            newext = DcmMetaExtension.make_empty(tuple(shape), np.eye(4), None, sd)
                            newext.get_class_dict(('global', 'const'))['Mark'] = 'replaced'
                            wf.replace_extension(newext)
                            again = NiftiWrapper(wf.nii_img)
                            if again.meta_ext.to_json() != newext.to_json() or len(wf.nii_img.header.extensions) != 2:
                                bad = 'after replace_extension the image wraps to %r with %d extensions' % (
                                    again.meta_ext.get_class_dict(('global', 'const')).get('Mark'), len(wf.nii_img.header.extensions))
                        if bad is None:
                            wf.remove_extension()
                            if n_valid(wf.nii_img) != 0 or len(wf.nii_img.header.extensions) != 1:
                                bad = 'after remove_extension the image carries %d valid DcmMeta extensions among %d' % (
                                    n_valid(wf.nii_img), len(wf.nii_img.header.extensions))
                    if bad:
                        rep.failure('image %s with a foreign code-0 extension next to the DcmMeta one: %s' % (shape, bad),
                                    {'tag': 'make_empty:wrapper:foreign:%dD' % len(shape), 'suite': 'make_empty', 'shape': shape, 'sd': sd})
                except Exception as e:
                    rep.failure('image %s with a foreign code-0 extension next to the DcmMeta one raised %r' % (shape, e),
                                {'tag': 'make_empty:wrapper:foreign:%dD' % len(shape), 'suite': 'make_empty', 'shape': shape, 'sd': sd})
            reqs.append({'op': 'make_empty', 'shape': shape, 'sd': sd})
            meta.append((shape, sd, status, ext))
    co = rep.corr.setdefault('make_empty', {'cases': 0, 'agree': 0, 'disagree': 0, 'skipped': 0})
    for a, (shape, sd, status, ext) in zip(drv.ask(reqs), meta):
        co['cases'] += 1
        agree, detail = SM.compare_model(a, status, ext)
        if agree:
            co['agree'] += 1
        else:
            co['disagree'] += 1
            rep.disagreements.append(('make_empty', 'make_empty', {'shape': shape, 'sd': sd}, detail))


def chain_round(rep, r, tier):
    """random chains: split -> pick piece / merge back / filter / clear slices / json reload / save+load"""
    from dcmstack.dcmmeta import NiftiWrapper, DcmMetaExtension
    import nibabel as nb
    n = 50 if tier == 'quick' else 800
    maxlen = 6 if tier == 'quick' else 12
    tmp = tempfile.mkdtemp(prefix='dcmverif_c07_')
    try:
        for ci in range(n):
            case = CW.gen_wrapper_case(r, tier, canonical=r.random() < 0.6, trimmed=r.random() < 0.9)
            try:
                with contextlib.redirect_stdout(io.StringIO()):
                    w, data, aff = CW.build_wrapper(case)
            except Exception:
                continue
            hist = []
            for step in range(r.randint(1, maxlen)):
                shape = w.nii_img.shape
                op = r.choice(['split', 'split', 'split_merge', 'filter', 'clear', 'json', 'file'])
                rep.evaluations += 1
                rep.count('chain/' + op)
                try:
                    with contextlib.redirect_stdout(io.StringIO()):
                        if op == 'split':
                            dim = r.randrange(len(shape))
                            i = r.randrange(shape[dim])
                            hist.append(['split', dim, i])
                            w = list(w.split(dim))[i]
                            full = False
                        elif op == 'split_merge':
                            cands = [d for d in range(len(shape)) if shape[d] >= 2 and
                                     (d >= 3 or d == w.meta_ext.slice_dim)]
                            if not cands:
                                continue
                            dim = r.choice(cands)
                            if dim == 3 and len(shape) == 5:
                                continue      # finding F3 region
                            hist.append(['split_merge', dim])
                            w = NiftiWrapper.from_sequence(list(w.split(dim)), dim)
                            full = True
                        elif op == 'filter':
                            drop = r.choice(['k0', 'k1', 'k2'])
                            hist.append(['filter', drop])
                            w.meta_ext.filter_meta(lambda k, v: k == drop)
                            full = None
                        elif op == 'clear':
                            hist.append(['clear'])
                            w.meta_ext.clear_slice_meta()
                            full = None
                        elif op == 'json':
                            hist.append(['json'])
                            ext2 = DcmMetaExtension.from_json(w.meta_ext.to_json())
                            w.replace_extension(ext2)
                            full = None
                        else:
                            hist.append(['file'])
                            path = os.path.join(tmp, 'x%d.nii.gz' % (ci % 3))
                            w.to_filename(path)
                            w = NiftiWrapper.from_filename(path)
                            w = NiftiWrapper(nb.Nifti1Image(np.asanyarray(w.nii_img.dataobj), w.nii_img.affine,
                                                            w.nii_img.header))
                            full = None
                except Exception as e:
                    tag = 'chain:' + op
                    if op in ('split', 'split_merge') and isinstance(e, KeyError) and len(shape) >= 4 and shape[-1] == 1:
                        # get_subset of an extension whose last axis is singleton but present (finding F23)
                        tag = 'subset:chain-untrimmed/raise:KeyError'
                    rep.failure('chain step %s raised %r' % (hist[-1] if hist else op, e),
                                {'tag': tag, 'suite': 'chain', 'case': case, 'history': hist})
                    break
                rep.nontriv([case, hist])
                fs = CW.img_matches(w, full_affine=bool(full)) if full is not None else \
                    SM.oracle_valid(w.meta_ext)
                if fs:
                    rep.failure('after %s: %s' % (hist, fs[0]),
                                {'tag': 'chain:' + op, 'suite': 'chain', 'case': case, 'history': hist})
                    break
            rep.sample({'suite': 'chain', 'case': case, 'history': hist}, cap=3)
    finally:
        shutil.rmtree(tmp, ignore_errors=True)


def inject_round(rep, r, tier):
    """extensions written by `nitool inject` (new keys, forced overwrites within and across
    classifications) are valid and hold each key once"""
    import contextlib
    from dcmstack import nitool_cli
    from dcmstack.dcmmeta import NiftiWrapper
    n = 12 if tier == 'quick' else 200
    tmp = tempfile.mkdtemp(prefix='dcmverif_c07i_')
    try:
        for ci in range(n):
            case = CW.gen_wrapper_case(r, tier, canonical=True, trimmed=True)
            with contextlib.redirect_stdout(io.StringIO()):
                w, data, aff = CW.build_wrapper(case)
            ext = w.meta_ext
            valid = [M.CLS[tuple(c)] for c in ext.get_valid_classes()]
            S, T, V = M.dims_of(case['shape'], case['sd'])
            for trial in range(3):
                key = r.choice(['newkey'] + [e[0] for e in case['ents']])
                cname = r.choice(valid)
                base, sub = M.CLS_INV[cname]
                vals = [str(r.randint(0, 9)) for _ in range(M.ref_mult(cname, S, T, V))]
                path = os.path.join(tmp, 'i%d_%d.nii.gz' % (ci, trial))
                w.to_filename(path)
                argv = ['nitool', 'inject', path, base, sub, key] + vals + ['-f']
                rep.evaluations += 1
                old = [e[1] for e in case['ents'] if e[0] == key]
                rep.count('inject/' + ('new' if not old else ('same_class' if old[0] == cname else 'other_class')))
                rep.nontriv(['inject', case, key, cname])
                buf = io.StringIO()
                with contextlib.redirect_stdout(buf):
                    try:
                        rc = nitool_cli.main(argv)
                    except SystemExit as e:
                        rc = e.code
                I = {'tag': 'cli:inject', 'suite': 'inject', 'case': case, 'argv': argv[2:]}
                if rc != 0:
                    rep.failure('nitool inject -f of %d value(s) into %s refused (rc %s)' % (len(vals), cname, rc), I)
                    continue
                try:
                    with contextlib.redirect_stdout(io.StringIO()):
                        after = NiftiWrapper.from_filename(path)
                    after.meta_ext.check_valid()
                except Exception as e:
                    rep.failure('the file written by nitool inject -f (%s -> %s) has no valid extension: %r' % (old or 'new', cname, e), I)
                    continue
                where = [c for c in after.meta_ext.get_valid_classes() if key in after.meta_ext.get_class_dict(c)]
                if len(where) != 1:
                    rep.failure('after nitool inject -f the key sits in %d classifications: %s' % (len(where), where), I)
                for f in CW.img_matches(after, full_affine=True)[:1]:
                    rep.failure('after nitool inject: ' + f, I)
                os.remove(path)
    finally:
        shutil.rmtree(tmp, ignore_errors=True)


def load_round(rep, r, tier):
    """JSON load is a constructor too: whatever `from_json` (and `NiftiWrapper` on an image carrying the text) returns must
    meet the format rules — so content that breaks them must be refused.  The rules are decided by the independent checker
    of the C10 check, on single corruptions of valid content (duplicated keys in every pair of classifications, wrong counts,
    dropped dictionaries, bad shapes / slice dimensions)."""
    import json, copy
    from . import check_c10 as C10
    from dcmstack.dcmmeta import DcmMetaExtension
    nbase = 12 if tier == 'quick' else 150
    for bi in range(nbase):
        base = C10.base_content(r, tier)
        cors = C10.corruptions(r, base)
        dups = [x for x in cors if x[0].startswith('dup:')]
        rest = [x for x in cors if not x[0].startswith('dup:')]
        picks = r.sample(dups, min(len(dups), 25)) + r.sample(rest, min(len(rest), 15))
        for name, f in picks:
            c = copy.deepcopy(base)
            try:
                f(c)
            except Exception:
                continue
            rep.evaluations += 1
            rep.count('load/' + name.split(':')[0])
            try:
                ext = DcmMetaExtension.from_json(json.dumps(c))
            except Exception:
                continue
            got = json.loads(ext.to_json())
            ok, why = C10.rules(got)
            rep.nontriv(['load', base.get('dcmmeta_shape'), name])
            if not ok:
                rep.failure('from_json returned an extension that breaks the format rules (%s) for content corrupted by %s' % (why, name),
                            {'tag': 'check_valid:accepted-invalid:%s' % why, 'suite': 'load', 'corruption': name, 'content': c})


def main(pid, tier):
    rep = core.Report(pid, tier)
    rep.disagreements = []
    rep.trusted = CM.TRUSTED + ['nibabel Nifti1Image / header / extension I/O (save and load of .nii.gz in a scratch directory)']
    rep.assumptions = ['chains avoid the recorded finding regions F3 (time merge of 5-D) only where stated in the code of the generator']
    core.prove(rep, pid, THEOREMS)
    r = core.rng(pid)
    n = CM.sizes(tier)
    CM.run_corpus(rep, pid, tier)
    CM.replay_known(rep, pid, tier)
    make_empty_round(rep, r, tier)
    CM.merge_round(rep, pid, [SM.gen_merge_case(r, tier) for _ in range(n['merge'] // 2)], tier)
    CM.subset_round(rep, pid, [SM.gen_subset_case(r, tier) for _ in range(n['subset'] // 2)], tier)
    CW.extend(rep, pid, tier, r)
    chain_round(rep, r, tier)
    inject_round(rep, r, tier)
    load_round(rep, r, tier)
    try:
        from . import check_stack
        check_stack.extend_c07(rep, tier, r)
    except ImportError:
        rep.notes.append('stack conversion / CLI injection results are checked by C01 / C19 checks')
    CM.finish_disagreements(rep)
    return rep.finish()
