"""Correspondence between whole methods *as translated from the source* (`Generated/Code_*.lean`, run by the second driver
`dcmcode`) and the real methods.  The theorems of `Props/Source_insertall.lean` are about `Py.insert_whole`; this check runs
`DcmMetaExtension._insert` itself and `Py.insert_whole` on the same state and compares what `self` holds key by key, whether the
`try` block raised, and what `other` holds afterwards — it validates the conventions of the function translator (the per-key view
`KContent` of `self`, the nested dictionaries `Content` of `other`, values as lists, None as "null") on a whole method."""
import os, json, subprocess, copy
import numpy as np
from . import core, meta as M, suite_meta as SM

CODE_DRIVER = os.path.join(core.LEAN, '.lake', 'build', 'bin', 'dcmcode')


def ask(reqs):
    if not reqs:
        return []
    data = '\n'.join(json.dumps(r, separators=(',', ':')) for r in reqs) + '\n'
    p = subprocess.run([CODE_DRIVER], input=data, stdout=subprocess.PIPE, stderr=subprocess.PIPE, text=True, timeout=1800)
    if p.returncode != 0:
        raise core.Infra('dcmcode crashed: ' + p.stderr[-1000:])
    lines = p.stdout.strip('\n').split('\n')
    if len(lines) != len(reqs):
        raise core.Infra('dcmcode answered %d lines for %d requests' % (len(lines), len(reqs)))
    return [json.loads(l) for l in lines]


def _vals(c, vals):
    if c == 'gconst':
        return [M.cv(vals)]
    if not isinstance(vals, list):
        return None
    return [M.cv(x) for x in vals]


def content_of(ext):
    """[[cls, [[key, [values]], …]], …] over the valid classifications; None when not expressible"""
    out = []
    for cls in ext.get_valid_classes():
        d = ext._content.get(cls[0], {}).get(cls[1])
        if d is None:
            return None
        ents = []
        for k, v in d.items():
            vv = _vals(M.CLS[tuple(cls)], v)
            if vv is None:
                return None
            ents.append([k, vv])
        out.append([M.CLS[tuple(cls)], ents])
    return out


def kcontent_of(ext):
    """[[key, [[cls, [values]], …]], …]: the classification dictionaries seen key by key"""
    c = content_of(ext)
    if c is None:
        return None
    order, per = [], {}
    for cls, ents in c:
        for k, vv in ents:
            if k not in per:
                per[k] = []
                order.append(k)
            per[k].append([cls, vv])
    return [[k, per[k]] for k in order]


def canon_k(kc):
    return {k: sorted(d) for k, d in kc if d}


def use_slices_of(a, b):
    an, bn = a.slice_normal, b.slice_normal
    return bool(an is not None and bn is not None and np.allclose(an, bn))


def insert_corr(rep, cases, tier):
    """every `_insert` a merge case performs, against `Py.insert_whole`"""
    m = M.dm()
    co = rep.corr.setdefault('insert_whole', {'cases': 0, 'agree': 0, 'disagree': 0, 'skipped': 0, 'raised': 0,
                                              'slices_set_aside': 0})
    if not os.path.exists(CODE_DRIVER):
        rep.unproved('the driver of the translated functions (dcmcode) is not built', {'kind': 'correspondence', 'suite': 'insert_whole'})
        return
    reqs, runs = [], []
    for case in cases:
        exts = SM.build_inputs(case)
        dim = case['dim']
        try:
            ra = SM.result_affine(case)
            result = m.DcmMetaExtension.from_sequence(exts[:1], dim) if ra is None else \
                m.DcmMetaExtension.from_sequence(exts[:1], dim, ra)
        except Exception:
            co['skipped'] += 1
            continue
        shape = list(result.shape)
        for j in range(1, len(exts)):
            other = exts[j]
            kc, oc = kcontent_of(result), content_of(other)
            if kc is None or oc is None:
                co['skipped'] += 1
                break
            use = use_slices_of(result, other)
            req = {'op': 'insert_whole', 'self_shape': [int(x) for x in result.shape], 'self_n_slices': result.n_slices,
                   'self_slice_dim': result.slice_dim, 'bases': [b for b in result._content if b in ('global', 'time', 'vector')],
                   'self': kc, 'other_shape': [int(x) for x in other.shape], 'other_n_slices': other.n_slices,
                   'other': oc, 'use_slices': use, 'dim': dim}
            try:
                result._insert(dim, other)
                status = 'ok'
            except Exception as e:  # noqa
                status = type(e).__name__
            after_self = kcontent_of(result) if status == 'ok' else None
            after_other = content_of(other)
            reqs.append(req)
            runs.append((case, j, status, after_self, oc, after_other, use))
            if status != 'ok':
                break
            shape[dim] += 1
            result.shape = shape
    answers = ask(reqs)
    for req, (case, j, status, after_self, oc, after_other, use), a in zip(reqs, runs, answers):
        co['cases'] += 1
        rep.evaluations += 1
        if not use:
            co['slices_set_aside'] += 1
        region = SM.merge_region(case)
        detail = None
        if 'bad' in a:
            detail = 'dcmcode: ' + a['bad']
        elif 'outer' in a:
            detail = 'translated _insert raises %s outside its try block' % a['outer']
        else:
            t = a['tried']
            if after_other != oc:
                detail = '_insert changed `other` (status %s)' % status
            elif a['other'] != oc:
                detail = 'translated _insert changes `other`'
            elif status == 'ok':
                if 'err' in t:
                    detail = 'translated _insert raises %s, the method returns' % t['err']
                elif after_self is None:
                    co['skipped'] += 1
                    continue
                elif canon_k(t['ok']) != canon_k(after_self):
                    x, y = canon_k(t['ok']), canon_k(after_self)
                    diff = [k for k in sorted(set(x) | set(y)) if x.get(k) != y.get(k)]
                    detail = 'key %s: translated %s, method %s' % (diff[0], json.dumps(x.get(diff[0]))[:300],
                                                                  json.dumps(y.get(diff[0]))[:300])
            else:
                co['raised'] += 1
                if 'ok' in t:
                    detail = 'the method raises %s, translated _insert returns' % status
        if detail is None:
            co['agree'] += 1
        else:
            co['disagree'] += 1
            rep.disagreements.append(('insert_whole', region, {'case': case, 'input': j, 'request': req}, detail))
