"""DicomStack checks: C01 (lossless embedded summary), C02 (voxels and geometry), C11 (complete
grid), C12 (history / add-order independence), C14 (filter), C20 (header timing / axis info).
Synthetic in-memory series; the oracles are the property statements executed on the real code."""
import json, copy, io, contextlib, warnings, itertools, hashlib
import numpy as np
from . import core, meta as M, synth, stackgen as G

ALL_ORDERS = None


def all_orders():
    global ALL_ORDERS
    if ALL_ORDERS is None:
        from .check_c17 import all_codes
        ALL_ORDERS = all_codes()
    return ALL_ORDERS


def quiet(f, *a, **k):
    with warnings.catch_warnings():
        warnings.simplefilter('ignore')
        with contextlib.redirect_stdout(io.StringIO()):
            return f(*a, **k)


def extracted(series, dss=None):
    """ground truth: extract.default_extractor on a fresh dataset of every file"""
    from dcmstack import extract
    out = {}
    for f in series['files']:
        ds = G.dataset_of(series, f)
        out[f['id']] = quiet(extract.default_extractor, ds)
    return out


def ras_of(series, f, rr, cc):
    rowc = np.array(series['iop'][:3])
    colc = np.array(series['iop'][3:])
    P = np.array(f['ipp']) + cc * series['spacing'][1] * rowc + rr * series['spacing'][0] * colc
    return np.array([-P[0], -P[1], P[2], 1.0])


def index_of(series, f, nii, rr=0, cc=0):
    inv = np.linalg.inv(nii.affine)
    idx = inv.dot(ras_of(series, f, rr, cc))[:3]
    ii = np.round(idx).astype(int)
    exact = bool(np.allclose(idx, ii, atol=1e-3))
    nd = len(nii.shape)
    full = tuple(int(x) for x in ii) + ((f['t'],) if nd > 3 else ()) + ((f['v'],) if nd > 4 else ())
    return full, exact


def grid_tv(series, st):
    """time / vector coordinates of every file as the stack orders them (for guessed ordering the
    generator guarantees that the guessed key orders volumes like (t, v))"""
    return {f['id']: (f['t'], f['v']) for f in series['files']}


# ------------------------------------------------------------------ oracles

def oracle_c02(series, nii, order):
    fails = []
    data = np.asanyarray(nii.dataobj)
    hit = np.zeros(data.shape, dtype=np.int32)
    S, T, V = series['S'], series['T'], series['V']
    exp_nd = 5 if V > 1 else (4 if T > 1 else 3)
    if data.ndim != exp_nd:
        fails.append('output has %d dimensions, expected %d' % (data.ndim, exp_nd))
        return fails
    for f in series['files']:
        pix = G.pixels_of(series, f)
        for rr in range(series['rows']):
            for cc in range(series['cols']):
                full, exact = index_of(series, f, nii, rr, cc)
                if not exact:
                    fails.append('affine does not map an integer index to the patient position of pixel (%d,%d) of file %d' % (rr, cc, f['id']))
                    return fails
                if not all(0 <= a < b for a, b in zip(full, data.shape)):
                    fails.append('patient position of pixel (%d,%d) of file %d falls outside the array (index %s)' % (rr, cc, f['id'], full))
                    return fails
                want = pix[rr, cc]
                if series.get('rescale'):
                    want = float(pix[rr, cc]) * series['rescale'][0] + series['rescale'][1]     # exact in binary64
                if float(data[full]) != float(want):
                    fails.append('voxel %s holds %s, source pixel (%d,%d) of file %d is %s%s' % (
                        full, data[full], rr, cc, f['id'], pix[rr, cc],
                        ' (rescaled: %s)' % want if series.get('rescale') else ''))
                    return fails
                hit[full] += 1
    if not (hit == 1).all():
        fails.append('not every output voxel comes from exactly one source pixel')
    if series.get('rescale'):
        return fails          # the data type of rescaled data is nibabel's (binary64); the values were compared exactly
    # dtype rule
    exp_dtype = np.int16 if (series.get('signed') or series.get('bits_stored', 16) < 16) else np.uint16
    if series.get('bits_allocated') == 8:
        exp_dtype = np.uint8          # the unsigned-to-signed choice is about 16-bit data only
    if series.get('bits_mix'):
        exp_dtype = data.dtype if data.dtype in (np.int16, np.uint16) else None   # decided by the first sorted file
    if data.dtype != exp_dtype:
        fails.append('dtype %s, expected %s (signed=%s, BitsStored=%s)' % (data.dtype, np.dtype(exp_dtype), series.get('signed'), series.get('bits_stored')))
    return fails


def oracle_c01(series, nii, truth, flt=None):
    from dcmstack.dcmmeta import NiftiWrapper
    import dcmstack
    flt = flt or dcmstack.default_meta_filter
    fails = []
    try:
        w = quiet(NiftiWrapper, nii)
    except Exception as e:
        return ['the converted image has no valid extension: %r' % e]
    keys = []
    for fid, d in truth.items():
        for k in d:
            if k not in keys:
                keys.append(k)
    keys = [k for k in keys if not flt(k, None)]
    for f in series['files']:
        full, exact = index_of(series, f, nii)
        if not exact or not all(0 <= a < b for a, b in zip(full, nii.shape)):
            fails.append('cannot locate file %d in the output (index %s)' % (f['id'], full))
            return fails
        for k in keys:
            exp = truth[f['id']].get(k)
            try:
                got = w.get_meta(k, full, None)
            except Exception as e:
                fails.append('get_meta(%s, %s) raised %r' % (k, full, e))
                return fails
            if not same_value(got, exp):
                fails.append('key %s at voxel %s (file %d: s=%d t=%d v=%d): lookup %r, the file says %r' % (
                    k, full, f['id'], f['s'], f['t'], f['v'], got, exp))
                return fails
    return fails


def same_value(a, b):
    def norm(x):
        if x is None:
            return None
        try:
            import pydicom
            if isinstance(x, pydicom.multival.MultiValue):
                x = list(x)
        except Exception:
            pass
        if isinstance(x, (list, tuple)):
            return [norm(y) for y in x]
        if isinstance(x, dict):
            return {k: norm(v) for k, v in x.items()}
        if isinstance(x, (int, float)) and not isinstance(x, bool):
            return float(x)
        return str(x)
    return norm(a) == norm(b)


def oracle_c14(series, nii, truth, excl=None, incl=None):
    """key set of the extension = extracted keys (not None everywhere) minus filtered"""
    import re
    import dcmstack
    from dcmstack.dcmmeta import NiftiWrapper
    fails = []
    excl = dcmstack.default_key_excl_res if excl is None else excl
    incl = dcmstack.default_key_incl_res if incl is None else incl
    w = quiet(NiftiWrapper, nii)
    have = set(w.meta_ext.get_keys())
    allk = set()
    for d in truth.values():
        for k, v in d.items():
            if v is not None:
                allk.add(k)

    def filtered(k):
        return any(re.search(e, k) for e in excl) and not any(re.search(i, k) for i in incl)
    exp = {k for k in allk if not filtered(k)}
    if have != exp:
        fails.append('extension keys differ from extracted-minus-filtered: extra %s, missing %s' % (
            sorted(have - exp), sorted(exp - have)))
    return fails


def oracle_c20(series, nii, order):
    fails = []
    hdr = nii.header
    aff = nii.affine
    rowc = np.array(series['iop'][:3]); colc = np.array(series['iop'][3:])
    normal = np.cross(rowc, colc)
    lps2ras = np.diag([-1, -1, 1])

    def axis_along(vec):
        v = lps2ras.dot(vec)
        best, bi = -1, None
        for i in range(3):
            col = aff[:3, i]
            c = abs(col.dot(v)) / (np.linalg.norm(col) * np.linalg.norm(v))
            if c > best:
                best, bi = c, i
        return bi, best
    freq, phase, slc = hdr.get_dim_info()
    sa, q = axis_along(normal)
    if slc != sa:
        fails.append('header slice axis %s, slices are stacked along output axis %s' % (slc, sa))
    pes = {f['meta'].get('InPlanePhaseEncodingDirection') for f in series['files']}
    if len(pes) == 1 and None not in pes:
        pe = list(pes)[0]
        pdir = rowc if pe == 'ROW' else colc
        fdir = colc if pe == 'ROW' else rowc
        pa, _ = axis_along(pdir)
        fa, _ = axis_along(fdir)
        if phase != pa or freq != fa:
            fails.append('header freq/phase axes (%s,%s), the source encoding directions lie along (%s,%s)' % (freq, phase, fa, pa))
    else:
        if phase is not None or freq is not None:
            fails.append('freq/phase recorded although the phase-encoding direction is not unique')
    trs = {f['meta'].get('RepetitionTime') for f in series['files']}
    pd4 = float(hdr['pixdim'][4])
    if len(trs) == 1 and None not in trs:
        if abs(pd4 - float(list(trs)[0])) > 1e-3:
            fails.append('pixdim[4] = %s, the unique repetition time is %s' % (pd4, list(trs)[0]))
    else:
        if any(t is not None and abs(pd4 - float(t)) < 1e-3 for t in trs):
            fails.append('pixdim[4] = %s recorded although the repetition time is not unique %s' % (pd4, sorted(map(str, trs))))
    # slice timing
    try:
        st = hdr.get_slice_times()
    except Exception:
        st = None
    if st is not None:
        from dcmstack import dcm_time_to_sec
        S = series['S']
        # every volume: the recorded time of output slice k is the acquisition time of the source
        # slice lying there, relative to the earliest slice of that volume
        for (tt, vv) in sorted({(f['t'], f['v']) for f in series['files']}):
            by_pos = {}
            for f in series['files']:
                if f['t'] == tt and f['v'] == vv:
                    full, exact = index_of(series, f, nii)
                    by_pos[full[slc]] = f
            times = {k: dcm_time_to_sec(f['meta']['AcquisitionTime']) for k, f in by_pos.items() if 'AcquisitionTime' in f['meta']}
            if len(times) != S:
                fails.append('slice times recorded although not every slice has an acquisition time')
                break
            elif set(times) != set(range(S)):
                fails.append('the source slices of volume (t=%d, v=%d) fall on positions %s of the slice axis recorded in the header, not on 0..%d'
                             % (tt, vv, sorted(times), S - 1))
                break
            else:
                t0 = min(times.values())
                bad = [k for k in range(S) if st[k] is None or abs(float(st[k]) - (times[k] - t0)) > 1e-3]
                if bad:
                    k = bad[0]
                    fails.append('slice time of output slice %d is %s; in volume (t=%d, v=%d) its source slice was acquired %.6f s after the first of that volume'
                                 % (k, st[k], tt, vv, times[k] - t0))
                    break
    return fails


def complete_grid(tuples):
    """independent decision: do the (v, t, p) tuples tile a full grid with evenly spaced positions"""
    vs = sorted({x[0] for x in tuples}, key=lambda z: (z is None, z))
    ts = sorted({x[1] for x in tuples}, key=lambda z: (z is None, z))
    ps = sorted({round(x[2], 6) for x in tuples})
    want = {(v, t, p) for v in vs for t in ts for p in ps}
    got = [(x[0], x[1], round(x[2], 6)) for x in tuples]
    if len(got) != len(want) or set(got) != want:
        return False
    if len(ps) > 2:
        gaps = np.diff(ps)
        if not np.allclose(gaps, gaps.mean(), rtol=1e-3):
            return None if np.allclose(np.mean(gaps), gaps, rtol=4e-2) else False
    return True


def nii_digest(nii):
    hdr = nii.header
    ext = ''
    for e in hdr.extensions:
        try:
            ext += e.to_json()
        except Exception:
            ext += repr(e.get_content())
    try:
        st = list(hdr.get_slice_times())
    except Exception:
        st = None
    h = hashlib.sha256()
    h.update(np.ascontiguousarray(np.asanyarray(nii.dataobj)).tobytes())
    # the affine as a NIfTI file stores it (float32): an image written and read back digests like
    # the one in memory
    h.update(np.ascontiguousarray(np.asarray(nii.affine, dtype=np.float32)).tobytes())
    h.update(json.dumps([list(map(str, hdr.get_dim_info())), [float(x) for x in hdr['pixdim']], st,
                         str(nii.get_data_dtype()), list(nii.shape), ext]).encode())
    return h.hexdigest()


# ------------------------------------------------------------------ runs

def header_request(st, nii, order):
    """what `to_nifti` derived the header fields from, read off the stack right after the conversion
    (file order as the conversion left it), and what the header says"""
    import dcmstack
    import nibabel as nb
    from nibabel.spatialimages import HeaderDataError
    files = [fi[0] for fi in st._files_info]

    def micro(x):
        return None if x is None else int(round(float(x) * 1e6))
    trs = [micro(w.get_meta('RepetitionTime')) for w in files]
    pes = [None if w.get_meta('InPlanePhaseEncodingDirection') is None else
           {'ROW': 0, 'COL': 1}.get(w.get_meta('InPlanePhaseEncodingDirection'), 2) for w in files]
    perm = [0, 1, 2]
    if order:
        data, aff = st.get_data(), st.get_affine()
        perm = [int(x) for x in list(zip(*dcmstack.reorder_voxels(data, aff, order)[3]))[0]]
    acq = [None if w.get_meta('AcquisitionTime') is None else micro(dcmstack.dcm_time_to_sec(w.get_meta('AcquisitionTime')))
           for w in files]
    shape = nii.shape
    nvols = 1
    for d in shape[3:]:
        nvols *= d
    fpv = len(files) // nvols
    hdr = nii.header
    n = shape[hdr.get_dim_info()[2]] if hdr.get_dim_info()[2] is not None else shape[perm[2]]
    req = {'op': 'header_info', 'trs': trs, 'pes': pes, 'perm': perm, 'acq': acq, 'fpv': fpv, 'nvols': nvols, 'n': int(n)}
    try:
        st_impl = [float(x) for x in hdr.get_slice_times()]
    except HeaderDataError:
        st_impl = None
    got = {'pixdim4': float(hdr['pixdim'][4]), 'dim_info': [None if x is None else int(x) for x in hdr.get_dim_info()],
           'times': st_impl, 'shape': [int(x) for x in shape]}
    return req, got


def header_compare(a, got):
    """model answer vs header; returns None or a description of the difference"""
    import nibabel as nb
    from nibabel.spatialimages import HeaderDataError
    if a['tr'] is None:
        if abs(got['pixdim4'] - 1.0) > 1e-6 and abs(got['pixdim4']) > 1e-6:
            return 'pixdim[4] = %s although the model records no repetition time' % got['pixdim4']
    elif abs(got['pixdim4'] - a['tr'] / 1e6) > 1e-3 * max(1.0, abs(a['tr'] / 1e6)) * 1e-2:
        return 'pixdim[4] = %s, model %s' % (got['pixdim4'], a['tr'] / 1e6)
    if [a['freq'], a['phase'], a['slice']] != got['dim_info']:
        return 'dim_info %s, model %s' % (got['dim_info'], [a['freq'], a['phase'], a['slice']])
    exp = None
    if a['times'] is not None:
        h = nb.Nifti1Header()
        h.set_data_shape(got['shape'])
        h.set_dim_info(slice=a['slice'])
        try:
            h.set_slice_times([t / 1e6 for t in a['times']])
            exp = [float(x) for x in h.get_slice_times()]
        except HeaderDataError:
            exp = None              # nibabel cannot store this pattern: to_nifti swallows the error
    if (exp is None) != (got['times'] is None):
        return 'slice times %s, model (through nibabel) %s' % (got['times'], exp)
    if exp is not None and (len(exp) != len(got['times']) or any(abs(x - y) > 1e-4 for x, y in zip(exp, got['times']))):
        return 'slice times %s, model %s' % (got['times'], exp)
    return None


def conv_round(rep, pid, r, tier):
    """conversions of complete grids under several voxel orders; oracles by property"""
    hreqs, hmeta = [], []
    try:
        _conv_round(rep, pid, r, tier, hreqs, hmeta)
    finally:
        if hreqs:
            co = rep.corr.setdefault('header_info', {'cases': 0, 'agree': 0, 'disagree': 0, 'skipped': 0})
            for a, (series, order, got) in zip(core.Driver().ask(hreqs), hmeta):
                co['cases'] += 1
                diff = header_compare(a, got)
                if diff is None:
                    co['agree'] += 1
                else:
                    co['disagree'] += 1
                    rep.disagreements.append(('header_info', 'stack:header', {'series': {k: v for k, v in series.items() if k != 'files'}, 'order': order},
                                              diff + ' (model %s)' % json.dumps(a)[:200]))


def _conv_round(rep, pid, r, tier, hreqs, hmeta):
    n = {'quick': 40, 'thorough': 800}[tier]
    norders = {'quick': 4, 'thorough': 49}[tier]
    for ci in range(n):
        if pid == 'C20' and ci % 5 == 4:
            # slice timing that is consistent between the first and the last volume only
            series = G.gen_series(r, tier, S=r.choice([2, 3]), T=r.choice([3, 3, 2]), V=r.choice([1, 1, 2]),
                                  acq='one_inconsistent')
        else:
            series = G.gen_series(r, tier, meta_modes=(pid == 'C02'), rescale=(pid == 'C02'))
        order_files = list(range(len(series['files'])))
        r.shuffle(order_files)
        try:
            st, dss = G.new_stack(series, order_files)
        except Exception as e:
            rep.failure('add_dcm raised %r on a congruent series' % e, {'tag': 'stack:add', 'suite': 'stack', 'series': series})
            continue
        truth = extracted(series) if pid in ('C01', 'C14') else None
        orders = [''] + r.sample(all_orders(), min(norders - 1, 48))
        if tier == 'thorough':
            orders = [''] + all_orders()
        rep.count('stack/orient/' + series['orient'])
        rep.count('stack/ordering/' + series['ordering'])
        rep.count('stack/dims/%dx%dx%d' % (series['S'], series['T'], series['V']))
        rep.sample({'suite': 'stack', 'series': {k: v for k, v in series.items() if k != 'files'}, 'n_files': len(series['files'])}, cap=2)
        for order in orders:
            rep.evaluations += 1
            rep.nontriv([ci, order, series['orient'], series['S'], series['T'], series['V'], series['origin'], series['patterns']])
            try:
                nii = quiet(st.to_nifti, order, pid in ('C01', 'C14', 'C07'))
            except Exception as e:
                rep.failure('to_nifti(%r) raised %r on a complete grid' % (order, e),
                            {'tag': 'stack:convert:raise', 'suite': 'stack', 'series': series, 'order': order, 'add_order': order_files})
                break
            if pid == 'C02':
                fails = oracle_c02(series, nii, order)
            elif pid == 'C01':
                fails = oracle_c01(series, nii, truth)
            elif pid == 'C14':
                fails = oracle_c14(series, nii, truth)
            elif pid == 'C20':
                fails = oracle_c20(series, nii, order)
                try:
                    q, got = header_request(st, nii, order)
                    hreqs.append(q)
                    hmeta.append((series, order, got))
                except Exception as e:
                    rep.count('header_corr/request_failed:' + type(e).__name__)
            else:
                fails = []
            for f in fails[:1]:
                rep.failure(f, {'tag': 'stack:%s:%s' % (pid, series['orient']), 'suite': 'stack', 'series': series,
                                'order': order, 'add_order': order_files})
            if fails:
                break


def stack_from(series, files, order=None):
    """stack over an arbitrary sub-multiset `files` (list of file dicts)"""
    import dcmstack
    kw = G.orders_of(series)
    st = dcmstack.DicomStack(**kw)
    status = []
    idx = list(range(len(files)))
    if order is not None:
        idx = order
    st._verif_ids = {}
    with warnings.catch_warnings():
        warnings.simplefilter('ignore')
        for i in idx:
            try:
                st.add_dcm(G.dataset_of(series, files[i]))
                st._verif_ids[id(st._files_info[-1][0])] = files[i]['id']
                status.append('ok')
            except Exception as e:
                status.append(type(e).__name__)
    return st, status


def queries(st):
    """outcome of the four queries: 'ok' or exception name"""
    out = {}
    for name, f in (('shape', st.get_shape), ('data', st.get_data), ('affine', st.get_affine),
                    ('nifti', lambda: st.to_nifti('', True))):
        try:
            quiet(f)
            out[name] = 'ok'
        except Exception as e:
            out[name] = type(e).__name__
    return out


def tuples_of(series, files):
    o = series['ordering']
    normal = np.cross(series['iop'][:3], series['iop'][3:])
    out = []
    for f in files:
        p = float(np.dot(normal, f['ipp']))
        t = f['meta'].get('EchoTime') if o in ('explicit', 'explicit_tv') else None
        v = f['meta'].get('FlipAngle') if o == 'explicit_tv' else None
        out.append((v, t, p))
    return out


def grid_round(rep, r, tier):
    """C11: sub-multisets of complete grids, perturbed files, add-time refusals"""
    n = {'quick': 60, 'thorough': 1200}[tier]
    for ci in range(n):
        series = G.gen_series(r, tier, ordering=r.choice(['explicit', 'explicit_tv', 'explicit', 'guess_vol', 'guess_file']))
        files = series['files']
        S, T, V = series['S'], series['T'], series['V']
        variants = [('complete', list(files))]
        if len(files) > 1:
            k = r.randrange(len(files))
            variants.append(('drop_one', [f for i, f in enumerate(files) if i != k]))
            if series['ordering'] in ('guess_vol', 'guess_file', 'none'):
                variants.append(('duplicate', list(files) + [files[k]]))
        if len(files) > 2:
            a, b = r.sample(range(len(files)), 2)
            variants.append(('drop_two', [f for i, f in enumerate(files) if i not in (a, b)]))
        if T > 1:
            tt = r.randrange(T)
            variants.append(('drop_time_point', [f for f in files if f['t'] != tt]))
        if V > 1:
            vv = r.randrange(V)
            variants.append(('drop_vector', [f for f in files if f['v'] != vv]))
        if S > 2:
            ss = r.randrange(S)
            variants.append(('drop_slice_position', [f for f in files if f['s'] != ss]))
        if S > 2:
            # irregular gap: move the last slice position by a fraction of the gap, away from the 4 % boundary
            frac = r.choice([0.01, 0.02, 0.2, 0.5, 1.0])
            fs = copy.deepcopy(files)
            normal = np.cross(series['iop'][:3], series['iop'][3:])
            for f in fs:
                if f['s'] == S - 1:
                    f['ipp'] = [f['ipp'][i] + normal[i] * series['gap'] * frac for i in range(3)]
            variants.append(('gap+%g' % frac, fs))
        for name, fl in variants:
            rep.evaluations += 1
            rep.count('grid/' + name.split('+')[0])
            rep.nontriv([ci, name, S, T, V, series['ordering']])
            order = list(range(len(fl)))
            r.shuffle(order)
            st, status = stack_from(series, fl, order)
            if any(s != 'ok' for s in status):
                if not (name == 'duplicate'):
                    rep.failure('add_dcm refused a congruent file (%s) in variant %s' % (status, name),
                                {'tag': 'grid:add', 'suite': 'grid', 'series': series, 'variant': name})
                continue
            q = queries(st)
            tup = tuples_of(series, fl)
            explicit = series['ordering'] in ('explicit', 'explicit_tv')
            if name == 'complete':
                want = True
            elif name.startswith('gap+'):
                frac = float(name[4:])
                # spacings (g, g, ..., g(1+frac)): accepted iff every spacing is within 4 % of the mean
                gaps = np.array([1.0] * (S - 2) + [1.0 + frac])
                want = bool(np.allclose(gaps.mean(), gaps, rtol=4e-2))
            elif explicit:
                cg = complete_grid(tup)
                want = cg
            else:
                want = None     # guessed ordering: the grid is defined by the key the stack picks
                if len(fl) % len({round(x[2], 6) for x in tup}) != 0:
                    want = False
            accepted = all(v == 'ok' for v in q.values())
            refused = all(v == 'InvalidStackError' for v in q.values())
            case = {'suite': 'grid', 'series': series, 'variant': name, 'files': [f['id'] for f in fl], 'queries': q}
            if not (accepted or refused):
                rep.failure('the four queries disagree or raise something else: %s' % q, dict(case, tag='grid:mixed:' + name.split('+')[0]))
            elif want is True and not accepted:
                rep.failure('a complete regular grid is rejected (%s): %s' % (name, q), dict(case, tag='grid:reject-complete:' + name.split('+')[0]))
            elif want is False and accepted:
                from collections import Counter
                pc = Counter(round(x[2], 6) for x in tup)
                vc = Counter(x[0] for x in tup)
                balanced = len(set(pc.values())) == 1 and len(set(vc.values())) == 1 and not name.startswith('gap+')
                rep.failure('an incomplete / irregular stack converts (%s)' % name,
                            dict(case, tag='grid:accept-incomplete:' + ('balanced-counts' if balanced else name.split('+')[0])))
            if accepted and explicit:
                # every cell filled, ordinates ordered along their axes
                fo = [fi[1] for fi in st._files_info]
                shape = st.get_shape()
                Sx = len({round(x[2], 6) for x in tup})
                if len(fl) != int(np.prod(shape[2:])) or shape[2] != Sx:
                    rep.failure('accepted stack of %d files has shape %s' % (len(fl), shape), dict(case, tag='grid:count'))
    # ---- small exhaustive scope: every sub-set of 4 or 6 files of a 2 x 2 x 2 grid with explicit
    #      time and vector ordering (unevenly represented vector values whose counts still factor are
    #      among them) -- implementation, independent oracle and Lean model on each
    drv = core.Driver()
    series = G.gen_series(r, tier, S=2, T=2, V=2, ordering='explicit_tv', orient='axial', acq='none')
    for f in series['files']:
        f['meta'] = {k: v for k, v in f['meta'].items() if k in ('EchoTime', 'FlipAngle')}
    files = series['files']
    reqs, meta = [], []
    sizes = (4, 6) if tier == 'quick' else (2, 3, 4, 5, 6, 7, 8)
    for k in sizes:
        for sub in itertools.combinations(range(len(files)), k):
            fl = [files[i] for i in sub]
            st, status = stack_from(series, fl)
            q = queries(st)
            accepted = all(v == 'ok' for v in q.values())
            refused = all(v == 'InvalidStackError' for v in q.values())
            cg = complete_grid(tuples_of(series, fl))
            rep.evaluations += 1
            rep.count('grid/exhaustive_2x2x2/size%d' % k)
            rep.nontriv(['ex222', sub])
            case = {'suite': 'grid', 'series': series, 'variant': 'subset-of-2x2x2', 'files': list(sub), 'queries': q}
            if not (accepted or refused):
                rep.failure('the four queries disagree or raise something else: %s' % q, dict(case, tag='grid:mixed:subset'))
            elif cg is True and not accepted:
                rep.failure('a complete grid is rejected: files %s' % (sub,), dict(case, tag='grid:reject-complete:subset'))
            elif cg is False and accepted:
                from collections import Counter
                tup = tuples_of(series, fl)
                pc = Counter(round(x[2], 6) for x in tup)
                vc = Counter(x[0] for x in tup)
                balanced = len(set(pc.values())) == 1 and len(set(vc.values())) == 1
                rep.failure('an incomplete stack converts: files %s' % ([(f['s'], f['t'], f['v']) for f in fl],),
                            dict(case, tag='grid:accept-incomplete:' + ('balanced-counts' if balanced else 'subset')))
            tuples = model_tuples(st)
            try:
                shape = quiet(st.get_shape)
                got = {'shape': list(shape), 'order': [t[3] for t in model_tuples(st)]}
            except Exception as e:
                got = type(e).__name__
            reqs.append({'op': 'stack_shape', 'files': tuples, 'num': 1, 'den': 25})
            meta.append((list(sub), got))
    co = rep.corr.setdefault('stack_shape_exhaustive', {'cases': 0, 'agree': 0, 'disagree': 0, 'skipped': 0})
    for a, (sub, got) in zip(drv.ask(reqs), meta):
        co['cases'] += 1
        if a == 'invalid' or isinstance(got, str):
            ok = (a == 'invalid') and (got == 'InvalidStackError')
        else:
            S, T, V = a['ok']
            dims = got['shape'][2:] + [1] * (5 - len(got['shape']))
            ok = (dims == [S, T, V]) and (a['order'] == got['order'])
        if ok:
            co['agree'] += 1
        else:
            co['disagree'] += 1
            rep.disagreements.append(('stack_shape', 'stack:shape', {'series': series, 'files': sub},
                                      'model %s vs implementation %s' % (json.dumps(a)[:200], json.dumps(got)[:200])))
    # ---- ordinates that lie closer together than any rounding a comparison might apply: a complete grid stays a grid
    for ci in range({'quick': 6, 'thorough': 60}[tier]):
        series = G.gen_series(r, tier, S=2, T=3, V=1, ordering='explicit')
        fl = copy.deepcopy(series['files'])
        for f in fl:
            f['meta']['EchoTime'] = 12.5001 + 0.0002 * f['t'] + (0.0001 if f['t'] == 2 else 0.0)
        order = list(range(len(fl)))
        r.shuffle(order)
        st, status = stack_from(series, fl, order)
        rep.evaluations += 1
        rep.count('grid/tight-ordinates')
        case = {'suite': 'grid', 'series': series, 'variant': 'tight-ordinates', 'echo_times': sorted({f['meta']['EchoTime'] for f in fl})}
        if any(s_ != 'ok' for s_ in status):
            rep.failure('add_dcm refused a file of a complete grid whose time values lie 2e-4 apart: %s' % status, dict(case, tag='grid:reject-complete:tight'))
            continue
        q = queries(st)
        if not all(v == 'ok' for v in q.values()):
            rep.failure('a complete grid whose time values lie 2e-4 apart is rejected: %s' % q, dict(case, tag='grid:reject-complete:tight'))
        else:
            shp = list(quiet(st.get_shape))
            if shp[2:] != [2, 3]:
                rep.failure('a complete 2 x 3 grid (time values 2e-4 apart) has shape %s' % shp, dict(case, tag='grid:count:tight'))
    # ---- add-time refusals
    for ci in range({'quick': 30, 'thorough': 400}[tier]):
        series = G.gen_series(r, tier, S=2, T=2, V=1, ordering='explicit')
        import dcmstack
        st, _ = G.new_stack(series)
        f = series['files'][0]
        f2 = dict(f, id=999, base=7)
        probes = [
            ('rows', dict(rows=series['rows'] + 1, pixels=np.zeros((series['rows'] + 1) * series['cols'])), 'IncongruentImageError'),
            ('cols', dict(cols=series['cols'] + 1, pixels=np.zeros(series['rows'] * (series['cols'] + 1))), 'IncongruentImageError'),
            # the transposed matrix: the same two numbers, each under the other key
            ('transposed', dict(rows=series['cols'], cols=series['rows'], pixels=np.zeros(series['rows'] * series['cols'])),
             'IncongruentImageError' if series['rows'] != series['cols'] else 'ImageCollisionError'),
            ('spacing_far', dict(spacing=[series['spacing'][0] * 1.01, series['spacing'][1]]), 'IncongruentImageError'),
            ('spacing_swapped', dict(spacing=[series['spacing'][1], series['spacing'][0]]),
             'IncongruentImageError' if series['spacing'][0] != series['spacing'][1] else 'ImageCollisionError'),
            ('spacing_near', dict(spacing=[series['spacing'][0] + 1e-6, series['spacing'][1]]), 'ImageCollisionError'),
            ('orient_far', dict(iop=list(np.array(series['iop']) + np.array([0, 0.01, 0, 0, 0, 0]))), 'IncongruentImageError'),
            ('orient_near', dict(iop=list(np.array(series['iop']) + np.array([0, 1e-6, 0, 0, 0, 0]))), 'ImageCollisionError'),
            ('no_pixels', dict(with_pixels=False), 'NonImageDataSetError'),
            ('collision', dict(), 'ImageCollisionError'),
            ('collision_other_tr', dict(meta=dict(f['meta'], RepetitionTime=1234.5,
                                                  InPlanePhaseEncodingDirection='COL' if f['meta'].get('InPlanePhaseEncodingDirection') != 'COL' else 'ROW')),
             'ImageCollisionError'),
        ]
        prev_probe = None
        for name, over, want in probes:
            rep.evaluations += 1
            rep.count('add/' + name)
            rep.nontriv([ci, 'add', name])
            try:
                before = (len(st._files_info), st.get_shape(), nii_digest(quiet(st.to_nifti, 'LAS', True)))
            except Exception as e:
                rep.failure('after refused add_dcm probes (last: %s) the complete stack no longer converts: %r' % (prev_probe, e),
                            {'tag': 'grid:add-state:' + str(prev_probe), 'suite': 'grid', 'series': series, 'probe': prev_probe})
                break
            prev_probe = name
            try:
                with warnings.catch_warnings():
                    warnings.simplefilter('ignore')
                    st.add_dcm(G.dataset_of(series, f2, **over))
                got = 'ok'
            except Exception as e:
                got = type(e).__name__
            if got != want and not (name.endswith('_near') and got in ('ok', 'ImageCollisionError')):
                rep.failure('add_dcm of a file with %s: %s, expected %s' % (name, got, want),
                            {'tag': 'grid:add:' + name, 'suite': 'grid', 'series': series, 'probe': name})
            try:
                after = (len(st._files_info), st.get_shape(), nii_digest(quiet(st.to_nifti, 'LAS', True)))
            except Exception as e:
                after = repr(e)
            if got != 'ok' and after != before:
                rep.failure('a refused add_dcm (%s) changed the stack: %s -> %s' % (name, before, after),
                            {'tag': 'grid:add-state:' + name, 'suite': 'grid', 'series': series, 'probe': name})
            if got == 'ok':
                st, _ = G.new_stack(series)
    # ---- congruence is judged against the stack (its first file), not against the file added last: a series whose
    # spacing / orientation drifts in steps inside the tolerance, the third file outside it relative to the first
    for ci in range({'quick': 8, 'thorough': 80}[tier]):
        import dcmstack
        series = G.gen_series(r, tier, S=3, T=1, V=1, ordering='explicit', orient=r.choice(list(G.synth.ORIENTS)))
        kind = r.choice(['spacing', 'orient'])
        fl = series['files']
        if kind == 'spacing':
            s0 = series['spacing'][0]
            tol = 5e-5 + 1e-5 * s0
            overs = [dict(), dict(spacing=[s0 + 0.8 * tol, series['spacing'][1]]), dict(spacing=[s0 + 1.6 * tol, series['spacing'][1]])]
        else:
            iop = np.array(series['iop'], dtype=float)
            j = int(np.argmin(np.abs(iop[:3])))           # a zero component of the row cosine
            step = np.zeros(6); step[j] = 0.8 * 5e-5
            overs = [dict(), dict(iop=list(iop + step)), dict(iop=list(iop + 2 * step))]
        st = dcmstack.DicomStack(**G.orders_of(series))
        outs = []
        for f, over in zip(fl, overs):
            try:
                with warnings.catch_warnings():
                    warnings.simplefilter('ignore')
                    st.add_dcm(G.dataset_of(series, f, **over))
                outs.append('ok')
            except Exception as e:
                outs.append(type(e).__name__)
        rep.evaluations += 1
        rep.count('add/drift_' + kind)
        rep.nontriv([ci, 'add', 'drift', kind, series['orient']])
        if outs != ['ok', 'ok', 'IncongruentImageError']:
            rep.failure('%s drifting in steps of 0.8 of the tolerance: add_dcm gave %s, the third file (1.6 tolerances from the first) '
                        'must be refused as incongruent with the stack' % (kind, outs),
                        {'tag': 'grid:add:drift-' + kind, 'suite': 'grid', 'series': series, 'overs': [str(o) for o in overs]})
    # ---- explicit ordering whose element is absent from the files (ordinate None): a second file for
    # an occupied cell is still refused
    for ci in range({'quick': 6, 'thorough': 60}[tier]):
        ordering = r.choice(['explicit', 'explicit_tv'])
        series = G.gen_series(r, tier, S=r.choice([1, 2, 3]), T=1, V=1, ordering='explicit')
        series['ordering'] = ordering          # the stack is built with time_order (and vector_order)
        drop = r.choice([['EchoTime'], ['EchoTime', 'FlipAngle']]) if ordering == 'explicit_tv' else ['EchoTime']
        for f in series['files']:
            for k in drop:
                f['meta'].pop(k, None)
        st, _ = G.new_stack(series)
        f2 = dict(series['files'][r.randrange(len(series['files']))], id=998, base=9)
        rep.evaluations += 1
        rep.count('add/collision_key_absent')
        rep.nontriv([ci, 'add', 'collision_key_absent', ordering, drop])
        try:
            with warnings.catch_warnings():
                warnings.simplefilter('ignore')
                st.add_dcm(G.dataset_of(series, f2))
            got = 'ok'
        except Exception as e:
            got = type(e).__name__
        if got != 'ImageCollisionError':
            rep.failure('explicit ordering (%s) whose element %s is absent from the files: a second file for an occupied cell: %s, expected ImageCollisionError'
                        % (ordering, drop, got),
                        {'tag': 'grid:add:collision_key_absent', 'suite': 'grid', 'series': series, 'probe': 'collision_key_absent'})
    # empty stack
    import dcmstack
    q = queries(dcmstack.DicomStack())
    rep.evaluations += 1
    if q['shape'] != 'InvalidStackError':
        rep.failure('empty stack: %s' % q, {'tag': 'grid:empty', 'suite': 'grid'})


def history_round(rep, r, tier):
    """C12: conversion results do not depend on add order or on earlier calls"""
    n = {'quick': 30, 'thorough': 500}[tier]
    maxlen = {'quick': 8, 'thorough': 16}[tier]
    def snap_inputs(st):
        return [json.dumps(fi[0].meta_ext._content, sort_keys=True, default=str) for fi in
                sorted(st._files_info, key=lambda fi: st._verif_ids.get(id(fi[0]), 0))]
    for ci in range(n):
        series = G.gen_series(r, tier) if ci % 5 else G.gen_series(r, tier, S=1, T=1, V=1)   # single-file stacks too
        if ci % 5 == 2:
            # a guessed per-file time key (instance numbers) that falls with the slice position: the order of the files within a
            # volume is then decided by the second sorting stage alone
            series = G.gen_series(r, tier, S=r.choice([2, 3]), T=2, V=1, ordering='guess_file', inst_desc=True)
        nfiles = len(series['files'])
        if nfiles > 1 and ci % 3 == 1:
            # a pixel spacing that differs between the files by less than the tolerance of the congruence check (rounding in
            # the last digits scanners write): which file was added first must not matter.  (The orientation is left alone:
            # every file computes its slice position from its own orientation, and positions are compared exactly.)
            jf = r.choice(series['files'])
            jf['spacing'] = [series['spacing'][0] + 4e-5, series['spacing'][1] - 3e-5]
        base_order = list(range(nfiles))
        args = [(o, e) for o in [''] + r.sample(all_orders(), 5) for e in (False, True)]
        class Ref(dict):
            def __missing__(self, a):
                st0, _ = G.new_stack(series, base_order)
                self[a] = nii_digest(quiet(st0.to_nifti, *a))
                return self[a]
        ref = Ref()
        # targeted + random histories
        flipping = [o for o in all_orders()]
        hists = []
        for o in r.sample(flipping, 3):
            hists.append([('nifti', o, True), ('nifti', '', True)])
            hists.append([('nifti', o, False), ('data',), ('affine',)])
            hists.append([('nifti', o, True), ('nifti', r.choice(flipping), True)])
        for _ in range(4):
            h = []
            for _ in range(r.randint(1, maxlen)):
                k = r.choice(['shape', 'data', 'affine', 'nifti', 'nifti', 'wrapper'])
                if k == 'nifti':
                    h.append(('nifti', r.choice([a[0] for a in args]), r.random() < 0.5))
                elif k == 'wrapper':
                    h.append(('wrapper', r.choice([a[0] for a in args])))
                else:
                    h.append((k,))
            hists.append(h)
        for h in hists:
            perm = list(range(nfiles))
            r.shuffle(perm)
            st, _ = G.new_stack(series, perm)
            rep.evaluations += 1
            rep.count('history/len%d' % len(h))
            rep.nontriv([ci, h, perm])
            rep.sample({'suite': 'history', 'history': h, 'add_order': perm, 'dims': [series['S'], series['T'], series['V']]}, cap=2)
            bad = None
            inputs0 = snap_inputs(st)
            held = []
            try:
                for step in h:
                    if step[0] == 'shape':
                        st.get_shape()
                    elif step[0] == 'data':
                        st.get_data()
                    elif step[0] == 'affine':
                        st.get_affine()
                    elif step[0] == 'wrapper':
                        d = nii_digest(quiet(st.to_nifti_wrapper, step[1]).nii_img)
                        if d != ref[(step[1], True)]:
                            bad = 'to_nifti_wrapper(%r) inside history %s differs from a fresh stack' % (step[1], h)
                            break
                    else:
                        out_nii = quiet(st.to_nifti, step[1], step[2])
                        d = nii_digest(out_nii)
                        held.append((out_nii, d, step))
                        if d != ref[(step[1], step[2])]:
                            bad = 'to_nifti%r inside history %s differs from a fresh stack' % (step[1:], h)
                            break
                if bad is None:
                    a = r.choice(args)
                    d = nii_digest(quiet(st.to_nifti, *a))
                    if d != ref[a]:
                        bad = 'to_nifti%r after history %s (add order %s) differs from a fresh stack' % (a, h, perm)
                if bad is None:
                    for out_nii, d, step in held:
                        if nii_digest(out_nii) != d:
                            bad = 'the image returned by to_nifti%r changed after later calls on the stack (history %s)' % (step[1:], h)
                            break
                if bad is None and snap_inputs(st) != inputs0:
                    bad = 'a conversion changed the metadata of an input file (history %s)' % (h,)
            except Exception as e:
                bad = 'history %s raised %r' % (h, e)
            if bad:
                rep.failure(bad, {'tag': 'history', 'suite': 'history', 'series': series, 'history': h, 'add_order': perm})
        # queries *between* the additions: what was asked of a partly filled stack (answered or refused) must not show later
        for trial in range(2):
            perm = list(range(nfiles))
            if trial:
                r.shuffle(perm)
            asked = []

            def between(st, asked=asked):
                if r.random() < 0.5:
                    q = r.choice(['get_shape', 'get_shape', 'get_data', 'get_affine'])
                    asked.append((len(st._files_info), q))
                    try:
                        getattr(st, q)()
                    except Exception:
                        pass
            bad = None
            try:
                st, _ = G.new_stack(series, perm, between=between)
                rep.evaluations += 1
                rep.count('history/interleaved')
                rep.nontriv([ci, 'interleaved', perm, asked])
                a = r.choice(args)
                d = nii_digest(quiet(st.to_nifti, *a))
                if d != ref[a]:
                    bad = 'to_nifti%r of a stack that was queried while it was filled (add order %s, queries after n files: %s) differs from a fresh stack' % (a, perm, asked)
            except Exception as e:
                bad = 'a stack that was queried while it was filled (add order %s, queries after n files: %s) raised %r' % (perm, asked, e)
            if bad:
                rep.failure(bad, {'tag': 'history:interleaved', 'suite': 'history', 'series': series, 'add_order': perm, 'asked': asked})


# ------------------------------------------------------------------ correspondence with the Lean stack model

def lattice(x, scale=1000):
    if x is None:
        return 0
    return int(round(float(x) * scale))


def model_tuples(st):
    """the sorting tuples the stack holds (after guessing they carry the guessed ordinate), on an
    integer lattice, with the file id taken from SOPInstanceUID"""
    out = []
    ids = getattr(st, '_verif_ids', {})
    for w, tup in st._files_info:
        fid = ids[id(w)] if id(w) in ids else int(str(w.get_meta('SOPInstanceUID')).split('.')[-1])
        out.append([lattice(tup[0]), lattice(tup[1]), lattice(tup[2]), fid])
    return out


def shape_correspondence(rep, r, tier):
    """get_shape + canonical order: model vs implementation on sub-multisets of grids"""
    drv = core.Driver()
    n = {'quick': 80, 'thorough': 1500}[tier]
    reqs, meta = [], []
    for ci in range(n):
        series = G.gen_series(r, tier, ordering=r.choice(['explicit', 'explicit_tv']))
        files = list(series['files'])
        kind = r.choice(['complete', 'complete', 'drop', 'drop2', 'gap'])
        if kind == 'drop' and len(files) > 1:
            files.pop(r.randrange(len(files)))
        elif kind == 'drop2' and len(files) > 2:
            files.pop(r.randrange(len(files)))
            files.pop(r.randrange(len(files)))
        elif kind == 'gap' and series['S'] > 2:
            frac = r.choice([0.2, 0.5, 1.0, 0.01])
            normal = np.cross(series['iop'][:3], series['iop'][3:])
            files = copy.deepcopy(files)
            for f in files:
                if f['s'] == series['S'] - 1:
                    f['ipp'] = [f['ipp'][i] + normal[i] * series['gap'] * frac for i in range(3)]
        order = list(range(len(files)))
        r.shuffle(order)
        st, status = stack_from(series, files, order)
        if any(s != 'ok' for s in status):
            continue
        tuples = model_tuples(st)
        try:
            shape = quiet(st.get_shape)
            got = {'shape': list(shape), 'order': [t[3] for t in model_tuples(st)]}
        except Exception as e:
            got = type(e).__name__
        reqs.append({'op': 'stack_shape', 'files': tuples, 'num': 1, 'den': 25})
        meta.append((series, kind, [f['id'] for f in files], got))
        rep.evaluations += 1
        rep.count('shape_corr/' + kind)
        rep.nontriv(['shape_corr', ci, kind])
    co = rep.corr.setdefault('stack_shape', {'cases': 0, 'agree': 0, 'disagree': 0, 'skipped': 0})
    for a, (series, kind, ids, got) in zip(drv.ask(reqs), meta):
        co['cases'] += 1
        if a == 'invalid' or isinstance(got, str):
            ok = (a == 'invalid') and (got == 'InvalidStackError')
        else:
            S, T, V = a['ok']
            # the implementation trims trailing singleton time / vector dims
            dims = got['shape'][2:] + [1] * (5 - len(got['shape']))
            ok = (dims == [S, T, V]) and (a['order'] == got['order'])
        if isinstance(got, str) and a != 'invalid' and kind != 'gap' and \
                complete_grid(tuples_of(series, [f for f in series['files'] if f['id'] in ids])) is True:
            # files that tile a complete regular grid (decided independently of model and code; the model agrees): refused
            rep.failure('a complete regular grid is rejected (%s): files added in the order %s' % (got, ids),
                        {'tag': 'grid:reject-complete:shape', 'suite': 'grid', 'series': series, 'files': ids})
        if ok:
            co['agree'] += 1
        else:
            co['disagree'] += 1
            rep.disagreements.append(('stack_shape', 'stack:shape', {'series': series, 'kind': kind, 'files': ids},
                                      'model %s vs implementation %s' % (json.dumps(a)[:200], json.dumps(got)[:200])))


def fill_correspondence(rep, r, tier):
    """get_data / get_affine vs the Lean model `stackData` / `stackAff` (Model/Wrap.lean): the fill
    of the 5-D array from the sorted files, the trimming of unused axes, the slice column of the
    affine.  Affines go to the model on the half-integer lattice (entries times two); series whose
    geometry is not on that lattice (oblique) are counted as skipped."""
    from . import check_wrapcorr as WC
    drv = core.Driver()
    n = {'quick': 40, 'thorough': 600}[tier]
    reqs, meta = [], []
    co = rep.corr.setdefault('stack_fill', {'cases': 0, 'agree': 0, 'disagree': 0, 'skipped': 0})
    for ci in range(n):
        series = G.gen_series(r, tier, ordering=r.choice(['explicit', 'explicit_tv', 'explicit']))
        order = list(range(len(series['files'])))
        r.shuffle(order)
        st, status = stack_from(series, series['files'], order)
        if any(s != 'ok' for s in status):
            continue
        try:
            shape = quiet(st.get_shape)
            files = [fi[0].nii_img for fi in st._files_info]          # canonical order after get_shape
            farrs = [WC.int_data(np.asanyarray(im.dataobj)) for im in files]
            faffs = [WC.int_aff(im.affine) for im in files]
            data = quiet(st.get_data)
            aff = quiet(st.get_affine)
        except Exception as e:
            rep.failure('query on a complete grid raised %r' % e, {'tag': 'stack:fill:raise', 'suite': 'stack', 'series': series})
            continue
        got = {'arr': WC.int_data(data), 'aff': WC.int_aff(aff)}
        if any(a is None for a in farrs) or any(a is None for a in faffs) or got['arr'] is None or got['aff'] is None:
            co['skipped'] += 1
            rep.count('fill_corr/off_lattice')
            continue
        dims = list(shape) + [1] * (5 - len(shape))
        reqs.append({'op': 'stack_fill', 'files': farrs, 'affs': faffs, 'rows': dims[0], 'cols': dims[1],
                     'S': dims[2], 'T': dims[3], 'V': dims[4]})
        meta.append((series, got))
        rep.evaluations += 1
        rep.count('fill_corr/%dD' % len(shape))
        rep.nontriv(['fill_corr', ci, series['orient'], dims])
    for a, (series, got) in zip(drv.ask(reqs), meta):
        co['cases'] += 1
        if 'err' not in a and a['arr'] == got['arr'] and a['aff'] == got['aff']:
            co['agree'] += 1
        else:
            co['disagree'] += 1
            rep.disagreements.append(('stack_fill', 'stack:fill', {'series': {k: v for k, v in series.items() if k != 'files'}},
                                      'model %s vs implementation %s' % (json.dumps(a)[:300], json.dumps(got)[:300])))


def add_correspondence(rep, r, tier):
    """sequences of add_dcm calls (files of a series in random order, interleaved with intruders: no
    pixels, other matrix size, spacing / orientation near and far, second file for an occupied cell,
    duplicate with another TR / phase-encoding direction) vs the Lean state machine `Stk.addAll`:
    outcome of every call, files held afterwards, sizes of the ordinate / TR / PE sets, reference
    input."""
    import dcmstack
    drv = core.Driver()
    n = {'quick': 40, 'thorough': 600}[tier]
    reqs, meta = [], []
    co = rep.corr.setdefault('stack_add', {'cases': 0, 'agree': 0, 'disagree': 0, 'skipped': 0})

    def micro(xs):
        return [int(round(float(x) * 1e6)) for x in xs]

    for ci in range(n):
        ordering = r.choice(['explicit', 'explicit_tv', 'none', 'explicit'])
        series = G.gen_series(r, tier, S=r.choice([1, 2, 3]), T=r.choice([1, 2]), V=1,
                              ordering='explicit' if ordering != 'none' else 'none')
        if ordering == 'none':
            series['ordering'] = 'none'
        elif ordering == 'explicit_tv':
            series['ordering'] = 'explicit_tv'       # vector element absent from the files: ordinate None
        kw = G.orders_of(series)
        st = dcmstack.DicomStack(**kw)
        explicit = bool(kw)
        plan = [('file', f, {}) for f in series['files']]
        r.shuffle(plan)
        nid = 900
        for _ in range(r.randint(1, 5)):
            f = r.choice(series['files'])
            kind = r.choice(['rows', 'cols', 'spacing_far', 'spacing_near', 'orient_far', 'orient_near',
                             'no_pixels', 'dup', 'dup_other_tr'])
            over = {}
            if kind == 'rows':
                over = dict(rows=series['rows'] + 1, pixels=np.zeros((series['rows'] + 1) * series['cols']))
            elif kind == 'cols':
                over = dict(cols=series['cols'] + 1, pixels=np.zeros(series['rows'] * (series['cols'] + 1)))
            elif kind == 'spacing_far':
                over = dict(spacing=[series['spacing'][0] + 1e-3, series['spacing'][1]])
            elif kind == 'spacing_near':
                over = dict(spacing=[series['spacing'][0] + 1e-5, series['spacing'][1]])
            elif kind in ('orient_far', 'orient_near'):
                # in-plane rotation (a valid pair of direction cosines) by 1e-2 / 1e-5 rad
                ang = 1e-2 if kind == 'orient_far' else 1e-5
                rw, cl = np.array(series['iop'][:3]), np.array(series['iop'][3:])
                over = dict(iop=list(np.cos(ang) * rw + np.sin(ang) * cl) + list(-np.sin(ang) * rw + np.cos(ang) * cl))
            elif kind == 'no_pixels':
                over = dict(with_pixels=False)
            elif kind == 'dup_other_tr':
                over = dict(meta=dict(f['meta'], RepetitionTime=1234.5, InPlanePhaseEncodingDirection='COL'))
            nid += 1
            f2 = dict(f, id=nid, base=7)
            if r.random() < 0.5 and kind not in ('dup', 'dup_other_tr'):
                # the intruder brings ordinates the series does not have: a slice position beyond the
                # last one and another echo time
                normal = np.cross(series['iop'][:3], series['iop'][3:])
                far = (series['S'] + r.randint(1, 3)) * series['gap'] * 1.37
                f2['ipp'] = [f['ipp'][i] + normal[i] * far for i in range(3)]
                m2 = dict(over.get('meta', f['meta']))
                if 'EchoTime' in m2:
                    m2['EchoTime'] = 77.0
                over = dict(over, meta=m2)
            plan.insert(r.randrange(len(plan) + 1), (kind, f2, over))
        cands, outs = [], []
        ok = True
        accepted_ds = []
        for kind, f, over in plan:
            try:
                ds = G.dataset_of(series, f, **over)
            except Exception:
                ok = False
                break
            from dcmstack.extract import default_extractor
            from nibabel.nicom.dicomwrappers import wrapper_from_data
            with warnings.catch_warnings():
                warnings.simplefilter('ignore')
                m = default_extractor(ds)
                is_img = dcmstack.is_image(ds)
                pos = wrapper_from_data(ds).slice_indicator if is_img else 0.0
                tv = kw['time_order'] if 'time_order' in kw else None
                vv = kw['vector_order'] if 'vector_order' in kw else None
                tval = m.get(tv) if tv else None
                vval = m.get(vv) if vv else None
                try:
                    st.add_dcm(ds)
                    outs.append('ok')
                    accepted_ds.append(G.dataset_of(series, f, **over))
                except Exception as e:
                    outs.append(type(e).__name__)
            pe = m.get('InPlanePhaseEncodingDirection')
            tr = m.get('RepetitionTime')
            cands.append({'img': bool(is_img), 'rows': int(ds.Rows), 'cols': int(ds.Columns),
                          'geom': micro(list(ds.PixelSpacing) + list(ds.ImageOrientationPatient)),
                          'v': lattice(vval), 't': lattice(tval), 'p': float(pos), 'id': f['id'],
                          'tr': None if tr is None else lattice(tr), 'pe': None if pe is None else {'ROW': 0, 'COL': 1}.get(pe, 2)})
        if not ok:
            co['skipped'] += 1
            continue
        # slice positions are compared for identity by the collision check: send their ranks
        ranks = {v: i for i, v in enumerate(sorted({c['p'] for c in cands}))}
        for c in cands:
            c['p'] = ranks[c['p']]
        ids = []
        for w, tup in st._files_info:
            ids.append(int(str(w.get_meta('SOPInstanceUID')).split('.')[-1]))
        got = {'outs': outs, 'files': ids, 'ntr': len(st._repetition_times), 'npe': len(st._phase_enc_dirs),
               'ntuples': len(st._sorting_tuples),
               'ref': None if st._ref_input is None else int(str(st._ref_input.get_meta('SOPInstanceUID')).split('.')[-1])}
        # refused datasets leave no trace: a stack that was only ever given the accepted datasets
        # answers every query the same way
        st2 = dcmstack.DicomStack(**kw)
        with warnings.catch_warnings():
            warnings.simplefilter('ignore')
            for d2 in accepted_ds:
                st2.add_dcm(d2)
        q1, q2 = queries(st), queries(st2)
        same = (q1 == q2)
        if same and q1.get('nifti') == 'ok':
            same = nii_digest(quiet(st.to_nifti, 'LAS', True)) == nii_digest(quiet(st2.to_nifti, 'LAS', True))
        if not same:
            rep.failure('a stack that was offered datasets it refused (%s) answers differently from a stack given only the '
                        'accepted datasets: %s vs %s' % ([k for (k, _, _), o in zip(plan, outs) if o != 'ok'], q1, q2),
                        {'tag': 'grid:add-trace', 'suite': 'grid', 'series': {k: v for k, v in series.items() if k != 'files'},
                         'plan': [k for k, _, _ in plan], 'outs': outs})
        reqs.append({'op': 'stack_add', 'explicit': explicit, 'cands': cands})
        meta.append((series, [k for k, _, _ in plan] + [json.dumps(cands)], got))
        rep.evaluations += 1
        rep.count('add_corr/' + ordering)
        for k, _, _ in plan:
            rep.count('add_corr/kind/' + k)
        rep.nontriv(['add_corr', ci, [k for k, _, _ in plan]])
    for a, (series, kinds, got) in zip(drv.ask(reqs), meta):
        co['cases'] += 1
        if a == got:
            co['agree'] += 1
        else:
            co['disagree'] += 1
            rep.disagreements.append(('stack_add', 'stack:add', {'series': {k: v for k, v in series.items() if k != 'files'}, 'plan': kinds},
                                      'model %s vs implementation %s (plan %s)' % (json.dumps(a)[:300], json.dumps(got)[:300], kinds)))


def guess_correspondence(rep, r, tier):
    """get_shape without ordering keys: which key of sort_guesses is picked, acceptance and dims --
    model (Stk.guessShape) vs implementation, on grids, sub-multisets and decoy keys"""
    import dcmstack
    drv = core.Driver()
    n = {'quick': 120, 'thorough': 2000}[tier]
    guesses = list(dcmstack.DicomStack.sort_guesses)
    reqs, meta = [], []
    for ci in range(n):
        series = G.gen_series(r, tier, ordering=r.choice(['guess_vol', 'guess_file', 'guess_file']), V=1,
                              T=r.choice([2, 2, 3, 4]))
        if series['ordering'] not in ('guess_vol', 'guess_file'):
            continue
        files = copy.deepcopy(series['files'])
        nvol = series['T']
        # decoy candidates: other guess keys that are unique per file / per volume / partly missing /
        # constant, and do or do not describe the same grid
        for key in r.sample(['InversionTime', 'TriggerTime', 'AcquisitionNumber', 'FlipAngle', 'RepetitionTime'], r.randint(0, 3)):
            pat = r.choice(['per_file_random', 'per_vol_ok', 'per_vol_wrong', 'missing_some', 'const'])
            perm = list(range(len(files))); r.shuffle(perm)
            for i, f in enumerate(files):
                if pat == 'per_file_random':
                    f['meta'][key] = float(100 + perm[i])
                elif pat == 'per_vol_ok':
                    f['meta'][key] = float(50 + 3 * f['t'])
                elif pat == 'per_vol_wrong':
                    f['meta'][key] = float(50 + (perm[i] % max(1, nvol)))
                elif pat == 'missing_some':
                    if i % 2:
                        f['meta'][key] = float(7 + i)
                    else:
                        f['meta'].pop(key, None)
                else:
                    f['meta'][key] = 5.0
            if key == 'AcquisitionNumber':
                for f in files:
                    if key in f['meta']:
                        f['meta'][key] = int(f['meta'][key])
        kind = r.choice(['complete', 'complete', 'drop', 'dup'])
        if kind == 'drop' and len(files) > 1:
            files.pop(r.randrange(len(files)))
        elif kind == 'dup':
            files.append(copy.deepcopy(r.choice(files)))
        order = list(range(len(files)))
        r.shuffle(order)
        st, status = stack_from(series, files, order)
        if any(x != 'ok' for x in status):
            continue
        base = model_tuples(st)                      # (0, 0, position, id) before any guess
        cands = []
        for key in guesses:
            vals = [fi[0].get_meta(key) for fi in st._files_info]
            present = sorted({v for v in vals if v is not None}, key=lambda z: (str(type(z)), z))
            try:
                present = sorted({v for v in vals if v is not None})
            except TypeError:
                pass
            rank = {v: i for i, v in enumerate(present)}
            cands.append([None if v is None else rank[v] for v in vals])
        gfiles = [[0, 0, b[2], b[3], [c[i] for c in cands]] for i, b in enumerate(base)]
        try:
            shape = quiet(st.get_shape)
            tvals = [fi[1][1] for fi in st._files_info]
            ids_now = [t[3] for t in model_tuples(st)]
            got = {'shape': list(shape)}
            # which key do the sorting tuples carry now?
            by_id = {}
            for fi, t in zip(st._files_info, model_tuples(st)):
                by_id[t[3]] = fi
            match = [k for k, key in enumerate(guesses)
                     if all(fi[0].get_meta(key) is not None and fi[0].get_meta(key) == fi[1][1] for fi in st._files_info)]
            got['keys'] = match
        except Exception as e:
            got = type(e).__name__
        reqs.append({'op': 'stack_guess', 'files': gfiles, 'ncands': len(guesses), 'num': 1, 'den': 25})
        meta.append((series, kind, [f['id'] for f in files], got))
        rep.evaluations += 1
        rep.count('guess_corr/' + kind)
        rep.nontriv(['guess_corr', ci, kind])
    co = rep.corr.setdefault('stack_guess', {'cases': 0, 'agree': 0, 'disagree': 0, 'skipped': 0})
    for a, (series, kind, ids, got) in zip(drv.ask(reqs), meta):
        co['cases'] += 1
        if a == 'invalid' or isinstance(got, str):
            ok = (a == 'invalid') and (got == 'InvalidStackError')
        else:
            S, T, V = a['ok']
            dims = got['shape'][2:] + [1] * (5 - len(got['shape']))
            ok = (dims == [S, T, V]) and (a['key'] is None or a['key'] in got['keys'])
            rep.count('guess_corr/key/%s' % (guesses[a['key']] if a['key'] is not None else 'none'))
        if ok:
            co['agree'] += 1
        else:
            co['disagree'] += 1
            rep.disagreements.append(('stack_guess', 'stack:guess', {'series': series, 'kind': kind, 'files': ids},
                                      'model %s vs implementation %s' % (json.dumps(a)[:200], json.dumps(got)[:200])))


def flips_slice(st_fresh, order):
    import dcmstack
    if not order:
        return False
    data = quiet(st_fresh.get_data)
    aff = quiet(st_fresh.get_affine)
    _, _, _, ot = dcmstack.reorder_voxels(data, aff, order)
    return int(ot[2][1]) == -1


def history_correspondence(rep, r, tier):
    """file order and dirty flag after every call of a history: model vs implementation"""
    drv = core.Driver()
    n = {'quick': 40, 'thorough': 600}[tier]
    reqs, meta = [], []
    for ci in range(n):
        series = G.gen_series(r, tier, ordering=r.choice(['explicit', 'explicit_tv']))
        nfiles = len(series['files'])
        perm = list(range(nfiles))
        r.shuffle(perm)
        st, _ = G.new_stack(series, perm)
        st0, _ = G.new_stack(series)
        added = model_tuples(st)
        ops, outs = [], []
        raised = None
        for _ in range(r.randint(1, 8)):
            k = r.choice(['shape', 'data', 'affine', 'nifti', 'nifti'])
            try:
                if k == 'shape':
                    ops.append('shape'); quiet(st.get_shape)
                elif k == 'data':
                    ops.append('data'); quiet(st.get_data)
                elif k == 'affine':
                    ops.append('affine'); quiet(st.get_affine)
                else:
                    o = r.choice([''] + all_orders())
                    fl = flips_slice(st0, o)
                    ops.append('nifti_flip' if fl else 'nifti')
                    quiet(st.to_nifti, o, r.random() < 0.5)
            except Exception as e:
                raised = e
                break
            outs.append(([t[3] for t in model_tuples(st)], bool(st._shape_dirty)))
        if raised is not None:
            # a complete regular series: no call of any history may fail
            rep.failure('call %d (%s) of the history %r on a complete series raised %r' % (len(ops), ops[-1], ops, raised),
                        {'tag': 'stack:history-raise', 'suite': 'stack', 'series': series, 'add_order': perm, 'ops': ops})
            continue
        S = series['S']
        reqs.append({'op': 'stack_run', 'files': added, 'S': S, 'vols': nfiles // S, 'ops': ops})
        meta.append((series, perm, ops, outs))
        rep.evaluations += 1
        rep.count('history_corr')
        rep.nontriv(['history_corr', ci, ops])
    co = rep.corr.setdefault('stack_history', {'cases': 0, 'agree': 0, 'disagree': 0, 'skipped': 0})
    for a, (series, perm, ops, outs) in zip(drv.ask(reqs), meta):
        co['cases'] += 1
        ok = (a['final'] == outs[-1][0]) and (a['dirty'] == outs[-1][1]) and \
            all(x == y[0] for x, y in zip(a['outs'], outs))
        if ok:
            co['agree'] += 1
        else:
            co['disagree'] += 1
            rep.disagreements.append(('stack_history', 'stack:history', {'series': series, 'add_order': perm, 'ops': ops},
                                      'model %s vs implementation %s' % (json.dumps(a)[:300], json.dumps(outs)[:300])))


THEOREMS = {
    'C01': ['C01.convert_lookup_key', 'C01.convert_lookup_key_4d', 'C01.convert_lookup_key_3d',
            'C01.convert_canonical_key', 'C01.meta_follows_flipped_data', 'C01.fill_index_in_range',
            'C01.fill_index_injective', 'C01.convert_total', 'C01.convert_total_4d', 'C01.convert_total_3d', 'C01.convert_total_5d_t1', 'C01.convert_end_to_end'],
    'C02': ['C02.fill_index_in_range', 'C02.fill_index_injective', 'C02.flipped_data_same_files',
            'C02.canonical_order_unique', 'C02.reorient_transform_maps_back', 'C02.order_change_is_signed_perm',
            'C02.reorder_shape_perm', 'C02.axes_follow_permutation', 'C02.reordered_affine_orientation',
            'C02.stack_fill', 'C02.stack_data_trim', 'C02.stack_affine'],
    'C11': ['C11.getShape_ok_iff', 'C11.accept_count', 'C11.accept_positions', 'C11.accept_vector_blocks',
            'C11.accept_spacing', 'C11.refuse_empty', 'C11.refuse_not_factoring', 'C11.refuse_spacing',
            'C11.refuse_vector_count', 'C11.refuse_bad_volume', 'C11.f13_accepted', 'C11.f13_mixes_time',
            'C11.accept_does_not_imply_one_time', 'C11.accept_complete', 'C11.accept_complete_order',
            'C11.guess_ok_accepts', 'C11.guess_first', 'C11.guess_refuses', 'C11.guess_single_volume',
            'C11.add_ok_iff', 'C11.add_refuses_nonimage', 'C11.add_refuses_incongruent', 'C11.add_refuses_collision',
            'C11.add_refused_unchanged', 'C11.add_files_are_accepted', 'C11.add_accepted_congruent',
            'C11.add_cells_distinct'],
    'C12': ['C12.sort_perm_invariant', 'C12.chkSort_perm_invariant', 'C12.step_spec', 'C12.run_inv',
            'C12.history_independent', 'C12.reverse_involutive', 'C12.add_order_and_history_independent'],
    'C20': ['C20.tm_colons_ignored', 'C20.tm_same_digits', 'C20.tm_instances', 'C20.tm_malformed',
            'C20.tm_two_digits', 'C20.tm_four_digits', 'C20.tm_six_plus', 'C20.time_fns_identical', 'C20.dim_info_axes',
            'C20.slice_times_follow_data', 'C20.reversal_index', 'C20.slice_times_every_volume',
            'C20.slice_times_need_all', 'C20.slice_times_inconsistent_none', 'C20.tr_recorded_iff', 'C20.dim_info_spec'],
}

TRUSTED = [
    'Lean 4.33.0 kernel; standard axioms only (audited)',
    'hand-written stack model (lean/DcmVerif/Model/Stack.lean: sorting tuples on an integer lattice, get_shape checks, _chk_order, per-volume reversal, dirty flag) tied to DicomStack by the sampled correspondences stack_shape / stack_history',
    'nibabel DicomWrapper (pixel array, rescale, affine from IOP/IPP/PixelSpacing, slice_indicator), Nifti1Image/Header; numpy indexing, allclose, sort stability',
    'pydicom in-memory datasets built by the harness (tools/harness/synth.py); extract.default_extractor is the ground truth for metadata (C15 is about it)',
    'float geometry is used by the oracle to locate voxels (exact lattice for axis-aligned series; predicates with atol 1e-3 for oblique ones)',
]


def tm_round(rep, r, tier):
    """DICOM TM strings: both implementations, the exact value, the Lean model"""
    import dcmstack
    from dcmstack import extract
    from fractions import Fraction
    drv = core.Driver()
    cases = []
    n = 1500 if tier == 'quick' else 30000
    for i in range(n):
        hh, mm, ss = r.randint(0, 23), r.randint(0, 59), r.randint(0, 59)
        nfrac = r.choice([0, 0, 1, 2, 3, 6, 6])
        frac = ''.join(r.choice('0123456789') for _ in range(nfrac))
        shape = r.choice(['hh', 'hhmm', 'hhmmss', 'hhmmss', 'hhmmss.f', 'hhmmss.f'])
        colon = r.random() < 0.3
        sep = ':' if colon else ''
        if shape == 'hh':
            s, exact = '%02d' % hh, Fraction(hh * 3600)
        elif shape == 'hhmm':
            s, exact = '%02d%s%02d' % (hh, sep, mm), Fraction(hh * 3600 + mm * 60)
        elif shape == 'hhmmss' or not frac:
            s, exact = '%02d%s%02d%s%02d' % (hh, sep, mm, sep, ss), Fraction(hh * 3600 + mm * 60 + ss)
        else:
            s = '%02d%s%02d%s%02d.%s' % (hh, sep, mm, sep, ss, frac)
            exact = Fraction(hh * 3600 + mm * 60 + ss) + Fraction(int(frac), 10 ** len(frac))
        cases.append((s, exact))
    cases += [(x, None) for x in ['', 'ab', '12x4', '1234yy', '12:', ':', '1', '12345', '1:2:3']]
    reqs = []
    co = rep.corr.setdefault('tm', {'cases': 0, 'agree': 0, 'disagree': 0, 'skipped': 0})
    res = []
    for s, exact in cases:
        rep.evaluations += 1
        rep.count('tm/len%d' % len(s.replace(':', '')))
        rep.nontriv('tm:' + s)
        outs = []
        for fn in (dcmstack.dcm_time_to_sec, extract.tm_to_seconds):
            try:
                outs.append(fn(s))
            except ValueError:
                outs.append('ValueError')
            except Exception as e:
                outs.append('EXC:' + type(e).__name__)
        if repr(outs[0]) != repr(outs[1]):
            rep.failure('dcm_time_to_sec(%r) = %r but tm_to_seconds gives %r' % (s, outs[0], outs[1]),
                        {'tag': 'tm:differ', 'suite': 'tm', 's': s})
        if exact is not None:
            if not isinstance(outs[0], float) or abs(Fraction(outs[0]) - exact) > Fraction(1, 10 ** 9):
                rep.failure('dcm_time_to_sec(%r) = %r, hh*3600+mm*60+ss.ffffff = %s' % (s, outs[0], float(exact)),
                            {'tag': 'tm:value', 'suite': 'tm', 's': s})
        res.append(outs[0])
        reqs.append({'op': 'tm', 's': s})
    for a, (s, exact), got in zip(drv.ask(reqs), cases, res):
        co['cases'] += 1
        if a == 'ValueError' or isinstance(got, str):
            ok = (a == 'ValueError') and (got == 'ValueError')
        else:
            val = Fraction(int(a['secs']))
            if 'mant' in a:
                m = Fraction(int(a['mant'])) / (Fraction(10) ** int(a['scale']))
                val += -m if a['neg'] else m
            ok = abs(Fraction(got) - val) <= Fraction(1, 10 ** 9)
        if ok:
            co['agree'] += 1
        else:
            co['disagree'] += 1
            rep.disagreements.append(('tm', 'tm', {'s': s}, 'model %s vs implementation %r' % (json.dumps(a), got)))


def hashseed_round(rep, tier):
    """the same files converted in processes with different PYTHONHASHSEED give identical bytes"""
    import subprocess, os, sys
    n = 12 if tier == 'quick' else 80
    seeds = ['0', '1', '2'] if tier == 'quick' else ['0', '1', '2', '3', '4', '5']
    outs = {}
    for hs in seeds:
        env = dict(os.environ, PYTHONHASHSEED=hs)
        p = subprocess.run([sys.executable, '-W', 'ignore', '-m', 'harness.hashprobe', str(n), tier],
                           cwd=os.path.join(core.VERIF, 'tools'), env=env, stdout=subprocess.PIPE,
                           stderr=subprocess.PIPE, text=True, timeout=1800)
        if p.returncode != 0:
            raise core.Infra('hash-seed probe failed: ' + p.stderr[-800:])
        outs[hs] = json.loads(p.stdout.strip().splitlines()[-1])
    ref = outs[seeds[0]]
    for hs in seeds:
        for i, a in enumerate(outs[hs]):
            if a.startswith('RAISED'):
                rep.failure('series %d of the hash-seed probe (complete series, some keys missing in every other file) under PYTHONHASHSEED=%s: conversion %s' % (i, hs, a),
                            {'tag': 'history:hashseed-raise', 'suite': 'hashseed', 'probe_index': i, 'seeds': [hs]})
                return
    for hs in seeds[1:]:
        for i, (a, b) in enumerate(zip(ref, outs[hs])):
            rep.evaluations += 1
            rep.count('hashseed')
            rep.nontriv(['hashseed', hs, i])
            if a != b:
                rep.failure('series %d of the hash-seed probe converts to different bytes under PYTHONHASHSEED=%s and %s' % (i, seeds[0], hs),
                            {'tag': 'history:hashseed', 'suite': 'hashseed', 'probe_index': i, 'seeds': [seeds[0], hs]})
                return


def main(pid, tier):
    rep = core.Report(pid, tier)
    rep.disagreements = []
    rep.trusted = TRUSTED
    rep.assumptions = ['series are single-frame slices (the mosaic / multi-frame branch of get_data is not exercised)',
                       'guessed ordering: the generator keeps the other sort_guesses keys from forming a different grid']
    theorems = THEOREMS[pid]
    core.prove(rep, pid, theorems)
    r = core.rng(pid)
    # known findings with a stack witness
    for f in rep.known:
        w = f.get('witness') or {}
        if f.get('kind') == 'known' and w.get('suite') == 'grid_files':
            series = w['series']
            st, status = stack_from(series, series['files'])
            q = queries(st)
            if all(v == 'ok' for v in q.values()) and complete_grid(tuples_of(series, series['files'])) is False:
                rep.failure('an incomplete stack converts', {'tag': w['tag'], 'suite': 'grid', 'series': series})
    if pid in ('C01', 'C02', 'C20'):
        conv_round(rep, pid, r, tier)
    if pid == 'C20':
        tm_round(rep, r, tier)
    if pid == 'C11':
        grid_round(rep, r, tier)
        shape_correspondence(rep, r, tier)
        guess_correspondence(rep, r, tier)
        add_correspondence(rep, r, tier)
    if pid == 'C12':
        add_correspondence(rep, r, tier)
        hashseed_round(rep, tier)
        history_round(rep, r, tier)
        history_correspondence(rep, r, tier)
        shape_correspondence(rep, r, tier)
    if pid == 'C02':
        fill_correspondence(rep, r, tier)
    if pid in ('C01', 'C02'):
        shape_correspondence(rep, r, tier)
        history_correspondence(rep, r, tier)
    from .check_meta import finish_disagreements
    finish_disagreements(rep)
    return rep.finish()


def extend_c07(rep, tier, r):
    """C07: extensions produced by stack conversion are valid and match their image"""
    from .check_wrapper import img_matches
    from dcmstack.dcmmeta import NiftiWrapper
    n = 15 if tier == 'quick' else 300
    for ci in range(n):
        series = G.gen_series(r, tier, S=1, T=1, V=1) if ci % 5 == 4 else G.gen_series(r, tier)
        st, _ = G.new_stack(series)
        held = []
        for order in [''] + r.sample(all_orders(), 3):
            rep.evaluations += 1
            rep.count('stack_convert_valid')
            rep.nontriv(['c07stack', ci, order])
            try:
                w = quiet(st.to_nifti_wrapper, order)
            except Exception as e:
                rep.failure('to_nifti_wrapper(%r) raised %r' % (order, e), {'tag': 'stack:c07', 'suite': 'stack', 'series': series, 'order': order})
                continue
            for f in img_matches(w, full_affine=True)[:1]:
                rep.failure('converted image: ' + f, {'tag': 'stack:c07', 'suite': 'stack', 'series': series, 'order': order})
            held.append((order, w))
        # an image handed out earlier still carries an extension that matches it after the stack
        # has been converted again
        for order, w in held:
            rep.evaluations += 1
            rep.count('stack_convert_valid_held')
            for f in img_matches(w, full_affine=True)[:1]:
                rep.failure('image converted with voxel order %r, after later conversions of the same stack: %s' % (order, f),
                            {'tag': 'stack:c07', 'suite': 'stack', 'series': series, 'order': order,
                             'history': [o for o, _ in held]})
