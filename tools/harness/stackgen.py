"""Generation of synthetic DICOM series (as plain replayable data) and construction of DicomStack
objects from them."""
import copy, warnings
import numpy as np
from . import synth

# keywords used for per-file metadata patterns (VR in comments)
PAT_KEYS = ['SequenceName',            # SH
            'ProtocolName',            # LO
            'WindowCenter',            # DS
            'SliceLocation',           # DS
            'AcquisitionNumber',       # IS
            'TemporalPositionIdentifier',  # IS
            'NumberOfAverages',        # DS
            'ImageType',               # CS, multi-valued
            'InversionTime',           # DS
            'ScanOptions',             # CS
            'PatientName',             # PN  (excluded by the default filter)
            'StudyDate',               # DA  (excluded)
            'SeriesInstanceUID',       # UI  (excluded)
            'InstitutionName',         # LO  (excluded)
            'ImageComments',           # LT  (excluded: "Comment")
            ]
EXCLUDED_BY_DEFAULT = {'PatientName', 'StudyDate', 'SeriesInstanceUID', 'InstitutionName', 'ImageComments'}


def value_for(key, code):
    """map a small integer code (or None) to a value legal for the keyword's VR"""
    if code is None:
        return None
    if key in ('SequenceName', 'ProtocolName', 'ScanOptions', 'InstitutionName', 'ImageComments'):
        return ['epfid2d1', 'tfl3d1', 'se2d', 'X_%d' % code][code % 4] if code < 3 else 'X_%d' % code
    if key in ('WindowCenter', 'SliceLocation', 'NumberOfAverages', 'InversionTime'):
        return [0.5, 1.0, 2.25, 100.0][code % 4] + (code // 4)
    if key in ('AcquisitionNumber', 'TemporalPositionIdentifier'):
        return int(code)
    if key == 'ImageType':
        return [['ORIGINAL', 'PRIMARY', 'M'], ['ORIGINAL', 'PRIMARY', 'P'], ['DERIVED', 'SECONDARY'],
                ['ORIGINAL', 'PRIMARY', 'M', 'ND']][code % 4]
    if key == 'PatientName':
        return 'Doe^J%d' % code
    if key == 'StudyDate':
        return '2020010%d' % (1 + code % 9)
    if key == 'SeriesInstanceUID':
        return '1.2.3.%d' % code
    return str(code)


def gen_series(r, tier='quick', **force):
    hi = 3 if tier == 'quick' else 4
    S = force.get('S', r.choice([1, 2, 2, 3, 3, hi]))
    T = force.get('T', r.choice([1, 1, 2, 2, 3]))
    V = force.get('V', r.choice([1, 1, 1, 2, 2, 3]))
    oname = force.get('orient', r.choice(list(synth.ORIENTS) + ['oblique']))
    if oname == 'oblique':
        rowc, colc = synth.oblique(r)
    else:
        rowc, colc = synth.ORIENTS[oname]
    rows, cols = r.randint(2, 4), r.randint(2, 4)
    spacing = [r.choice([1.0, 2.0, 0.5, 1.5]), r.choice([1.0, 2.0, 0.5, 3.0])]
    gap = r.choice([1.0, 2.0, 2.5, 4.0]) * force.get('direction', r.choice([1, -1]))
    origin = [float(r.randint(-20, 20)) for _ in range(3)]
    ordering = force.get('ordering', r.choice(['explicit', 'explicit', 'guess_vol', 'guess_file', 'explicit_tv']))
    if V > 1:
        ordering = 'explicit_tv'
    if T == 1 and V == 1 and ordering != 'explicit':
        ordering = r.choice(['none', 'explicit'])
    # per-file metadata patterns over (s,t,v)
    nkeys = r.randint(2, 6)
    pool = list(PAT_KEYS)
    inst_desc = ordering == 'guess_file' and (bool(force['inst_desc']) if 'inst_desc' in force else r.random() < 0.5)
    if ordering in ('guess_vol', 'guess_file', 'none'):
        # keys of DicomStack.sort_guesses must not offer the guesser another grid than (s, t, v)
        pool = [k for k in pool if k not in ('InversionTime', 'AcquisitionNumber')]
    keys = r.sample(pool, min(nkeys, len(pool)))
    patterns = {}
    for k in keys:
        pat = r.choice(['const', 'const', 'per_v', 'per_t', 'per_tv', 'per_s', 'per_st', 'irregular', 'holes'])
        patterns[k] = pat
    files = []
    tab = {}
    for k in keys:
        tab[k] = {}
        pat = patterns[k]
        a = [[[r.randint(0, 3) for _ in range(V)] for _ in range(T)] for _ in range(S)]
        for s in range(S):
            for t in range(T):
                for v in range(V):
                    code = {'const': 1, 'per_v': v, 'per_t': t, 'per_tv': t * 4 + v, 'per_s': s,
                            'per_st': s * 4 + t, 'irregular': a[s][t][v],
                            'holes': (None if a[s][t][v] == 0 else a[s][t][v])}[pat]
                    tab[k][(s, t, v)] = code
    normal = np.cross(rowc, colc)
    acq_pat = force.get('acq', r.choice(['asc', 'desc', 'interleaved', 'irregular', 'equal', 'inconsistent', 'none', 'partial',
                                         'one_inconsistent', 'other_pace']))
    tr_pat = r.choice(['same', 'same', 'vary', 'none', 'jitter', 'partial'])
    if ordering in ('guess_vol', 'guess_file', 'none') and tr_pat in ('vary', 'jitter'):
        tr_pat = 'same'
    pe = r.choice(['ROW', 'COL', 'vary', 'none', 'partial'])
    slice_t = {'asc': list(range(S)), 'desc': list(range(S - 1, -1, -1)),
               'interleaved': [(i // 2 if i % 2 == 0 else (S + 1) // 2 + i // 2) for i in range(S)],
               'irregular': [r.randint(0, 5) for _ in range(S)], 'equal': [0] * S,
               'inconsistent': list(range(S)), 'none': None, 'partial': list(range(S)),
               'one_inconsistent': list(range(S)), 'other_pace': list(range(S))}[acq_pat]
    # 'one_inconsistent': a single volume, neither the first nor (with three or more volumes) the
    # last, was acquired in the opposite slice order
    odd_vol = 1 if T * V >= 3 else T * V - 1
    # gantry tilt: successive slices are displaced in-plane as well as along the normal
    shear = force.get('shear', r.choice([[0.0, 0.0]] * 5 + [[r.choice([0.5, -0.75, 1.0]), r.choice([0.0, 0.25, -1.5])]]))
    # slice thickness / spacing as written in the headers (may disagree with the positions, may be negative)
    hdr = force.get('hdr', r.choice(['none', 'none', 'thickness', 'spacing', 'spacing_neg', 'spacing_other']))
    fid = 0
    for v in range(V):
        for t in range(T):
            for s in range(S):
                meta = {}
                for k in keys:
                    val = value_for(k, tab[k][(s, t, v)])
                    if val is not None:
                        meta[k] = val
                if hdr == 'thickness':
                    meta['SliceThickness'] = abs(gap) * 0.8
                elif hdr == 'spacing':
                    meta['SliceThickness'] = abs(gap)
                    meta['SpacingBetweenSlices'] = abs(gap)
                elif hdr == 'spacing_neg':
                    meta['SpacingBetweenSlices'] = -abs(gap)
                elif hdr == 'spacing_other':
                    meta['SliceThickness'] = 1.25
                    meta['SpacingBetweenSlices'] = 7.0
                if ordering in ('explicit', 'explicit_tv', 'guess_vol'):
                    meta['EchoTime'] = 10.0 + 5.0 * t
                if ordering == 'explicit_tv':
                    meta['FlipAngle'] = 15.0 + 10.0 * v
                if ordering == 'guess_file':
                    # acquisition order within a volume: bottom-up or top-down (instance numbers fall with the slice index)
                    meta['InstanceNumber'] = 1 + ((S - 1 - s) if inst_desc else s) + S * (t + T * v)
                if slice_t is not None:
                    st = slice_t[s]
                    if acq_pat == 'inconsistent' and (t + v) % 2 == 1:
                        st = S - 1 - st
                    if acq_pat == 'one_inconsistent' and (t + T * v) == odd_vol and T * V > 1:
                        st = S - 1 - st
                    # 'other_pace': the same slice order in every volume, another pace in the odd ones
                    pace = 1.25 if (acq_pat == 'other_pace' and (t + T * v) % 2 == 1) else 0.5
                    sec = 36000 + 100 * (t + T * v) + st * pace
                    meta['AcquisitionTime'] = '%02d%02d%02d.%06d' % (sec // 3600, (sec % 3600) // 60, int(sec % 60),
                                                                   int(round((sec % 1) * 1e6)))
                if tr_pat == 'same':
                    meta['RepetitionTime'] = 2000.0
                elif tr_pat == 'vary':
                    meta['RepetitionTime'] = 2000.0 + 100 * ((s + t + v) % 2)
                elif tr_pat == 'partial':
                    # the same repetition time in the files that state one; some files do not (never the first file)
                    if (s + t + v) % 2 == 0:
                        meta['RepetitionTime'] = 2000.0
                elif tr_pat == 'jitter':
                    # not the same in all files, though only just (the last digits scanners write vary)
                    meta['RepetitionTime'] = 2000.0 + 0.003 * ((s + 2 * t + 3 * v) % 4)
                if pe in ('ROW', 'COL'):
                    meta['InPlanePhaseEncodingDirection'] = pe
                elif pe == 'partial':
                    if (s + t + v) % 2 == 0:
                        meta['InPlanePhaseEncodingDirection'] = 'ROW'
                elif pe == 'vary':
                    meta['InPlanePhaseEncodingDirection'] = 'ROW' if (s + t + v) % 2 == 0 else 'COL'
                ipp = [origin[i] + normal[i] * gap * s + (rowc[i] * shear[0] + colc[i] * shear[1]) * s for i in range(3)]
                files.append({'id': fid, 's': s, 't': t, 'v': v, 'ipp': ipp, 'meta': meta,
                              'base': 100 * fid})
                fid += 1
    bits, signed = r.choice([16, 16, 12]), r.random() < 0.2
    maxpix = 100 * (len(files) - 1) + rows * cols
    if maxpix >= (1 << (bits - (1 if signed else 0))):
        bits = 16       # the labelled pixel values must be representable in BitsStored
    bits_mix = False
    if not signed and maxpix < 4096 and len(files) > 1 and r.random() < 0.2:
        # files of one series that disagree on BitsStored (the output data type is decided from the
        # first file of the sorted stack)
        bits_mix = True
        for f in files:
            f['bits'] = r.choice([12, 16])
    meta_mode = 'default'
    if not signed and bits == 16 and not bits_mix and r.random() < (0.5 if force.get('meta_modes') else 0.25):
        # unsigned 16-bit data using the upper half of the range in some files only (never in the
        # file at the grid origin, so that dark and bright files coexist whenever there are two)
        for f in files:
            if (f['s'] + f['t'] + f['v']) % 2 == 1:
                f['bright'] = 40000
        if force.get('meta_modes') and r.random() < 0.8:
            # what `dcmstack` without --embed-meta passes to add_dcm (only for conversions that do
            # not embed: the minimal extractor's raw pydicom values are not meant for the extension)
            meta_mode = 'minimal'
    if acq_pat == 'partial' and len(files) > 1:
        # only some of the files say when they were acquired
        for f in r.sample(files, r.randint(1, len(files) - 1)):
            f['meta'].pop('AcquisitionTime', None)
    rescale = None
    if force.get('rescale') and r.random() < 0.35:
        # RescaleSlope / RescaleIntercept: the output holds the rescaled values; integral parameters that leave the range
        # of the stored pixel type (negative results of unsigned data, doubled values past 2**15 / 2**16) and fractional ones
        rescale = r.choice([(1, -1024), (2, 0), (2, -7), (1, 100000), (0.5, 0), (0.25, 10.5), (3, -2048), (1, -5)])
    bits8 = False
    if force.get('rescale') and rescale is None and not signed and not bits_mix and meta_mode == 'default' \
            and not any('bright' in f for f in files) and len(files) * rows * cols <= 250 and r.random() < 0.35:
        # 8-bit unsigned pixels (BitsAllocated 8) that use the upper half of the range: every pixel is still labelled
        bits8, bits = True, 8
    return {'bits_allocated': 8 if bits8 else 16, 'rescale': rescale, 'op': 'stack', 'S': S, 'T': T, 'V': V, 'orient': oname, 'iop': list(map(float, rowc)) + list(map(float, colc)),
            'rows': rows, 'cols': cols, 'spacing': spacing, 'gap': gap, 'origin': origin,
            'ordering': ordering, 'files': files, 'patterns': patterns, 'acq': acq_pat, 'tr': tr_pat, 'pe': pe, 'shear': shear, 'hdr': hdr,
            'bits_stored': bits, 'signed': signed, 'meta_mode': meta_mode, 'bits_mix': bits_mix}


def pixels_of(series, f):
    rows, cols = series['rows'], series['cols']
    if series.get('bits_allocated') == 8:
        k = [g['id'] for g in series['files']].index(f['id'])
        return (255 - (k * rows * cols + np.arange(rows * cols))).reshape(rows, cols)
    return (f['base'] + f.get('bright', 0) + np.arange(rows * cols)).reshape(rows, cols)


def dataset_of(series, f, **over):
    kw = dict(ipp=f['ipp'], iop=f.get('iop', series['iop']), rows=series['rows'], cols=series['cols'],
              spacing=f.get('spacing', series['spacing']), pixels=pixels_of(series, f), meta=f['meta'],
              bits_stored=f.get('bits', series.get('bits_stored', 16)), signed=series.get('signed', False),
              uid='1.2.3.%d' % f['id'], bits_allocated=series.get('bits_allocated', 16))
    if series.get('rescale'):
        kw['slope'], kw['intercept'] = series['rescale']
    kw.update(over)
    return synth.make_ds(**kw)


def orders_of(series):
    o = series['ordering']
    if o == 'explicit':
        return {'time_order': 'EchoTime'}
    if o == 'explicit_tv':
        return {'time_order': 'EchoTime', 'vector_order': 'FlipAngle'}
    return {}


def new_stack(series, file_order=None, meta_filter=None, between=None):
    import dcmstack
    kw = orders_of(series)
    if meta_filter is not None:
        kw['meta_filter'] = meta_filter
    st = dcmstack.DicomStack(**kw)
    files = series['files']
    order = file_order if file_order is not None else list(range(len(files)))
    dss = {}
    st._verif_ids = {}
    with warnings.catch_warnings():
        warnings.simplefilter('ignore')
        for i in order:
            ds = dataset_of(series, files[i])
            dss[files[i]['id']] = ds
            mode = series.get('meta_mode', 'default')
            if mode == 'minimal':
                # what `dcmstack` without --embed-meta passes: only the keys the stack itself needs
                from dcmstack import extract
                st.add_dcm(ds, extract.minimal_extractor(ds))
            else:
                st.add_dcm(ds)
            st._verif_ids[id(st._files_info[-1][0])] = files[i]['id']
            if between is not None:
                between(st)
    return st, dss
