"""C17: reorder_voxels returns the same image in the requested orientation."""
import json, itertools, copy
import numpy as np
from . import core

THEOREMS = ['C17.code_valid_iff', 'C17.transform_reaches_code', 'C17.reorder_voxel_transform',
            'C17.reorder_shape_perm', 'C17.reorder_affine_orientation', 'C17.reorder_spells_code',
            'C17.reorder_refuses']

LET = 'LRAPSI'


def all_ornts():
    out = []
    for perm in itertools.permutations(range(3)):
        for signs in itertools.product([True, False], repeat=3):
            out.append([(perm[i], signs[i]) for i in range(3)])
    return out


def all_codes():
    lab = {0: 'LR', 1: 'PA', 2: 'IS'}
    return [''.join(lab[a][1 if pos else 0] for a, pos in o) for o in all_ornts()]


def affine_of(ornt, zooms, trans):
    A = np.zeros((4, 4))
    for i, (ax, pos) in enumerate(ornt):
        A[ax, i] = (1 if pos else -1) * zooms[i]
    A[:3, 3] = trans
    A[3, 3] = 1
    return A


def valid_code(s):
    u = s.upper()
    if len(u) != 3:
        return False
    return sorted({'L': 0, 'R': 0, 'A': 1, 'P': 1, 'S': 2, 'I': 2}.get(ch, 9) for ch in u) == [0, 1, 2]


def call(arr, aff, code):
    import dcmstack
    a0, f0 = arr.copy(), aff.copy()
    try:
        out = dcmstack.reorder_voxels(arr, aff, code)
    except ValueError:
        return 'ValueError', None, (np.array_equal(a0, arr) and np.array_equal(f0, aff))
    except Exception as e:
        return 'EXC:' + type(e).__name__, None, True
    return 'ok', out, (np.array_equal(a0, arr) and np.array_equal(f0, aff))


def check_image(arr, aff, code, out):
    """the property, executed: same image in the requested orientation"""
    import nibabel as nb
    o, oaff, T, ot = out
    fails = []
    if not np.allclose(oaff, aff.dot(T)):
        fails.append('output affine is not the input affine composed with the returned transform')
    # each output voxel equals the input voxel that the transform maps it to
    idxs = np.indices(o.shape[:3]).reshape(3, -1)
    src = (T[:3, :3].dot(idxs) + T[:3, 3:4])
    if not np.allclose(src, np.round(src)):
        fails.append('transform maps indices to non-integers')
    else:
        src = np.round(src).astype(int)
        ok = all((0 <= src[d]).all() and (src[d] < arr.shape[d]).all() for d in range(3))
        if not ok:
            fails.append('transform maps an output index outside the input array')
        else:
            a = o[idxs[0], idxs[1], idxs[2]]
            b = arr[src[0], src[1], src[2]]
            if a.shape != b.shape or not np.array_equal(a, b):
                fails.append('an output voxel differs from the input voxel the transform maps it to')
    if o.shape[3:] != arr.shape[3:]:
        fails.append('extra dimensions changed: %s -> %s' % (arr.shape, o.shape))
    spelled = ''.join(nb.aff2axcodes(oaff))
    if spelled != code.upper():
        fails.append('closest anatomical directions spell %s, requested %s' % (spelled, code.upper()))
    return fails


def main(pid, tier):
    rep = core.Report(pid, tier)
    rep.disagreements = []
    rep.trusted = [
        'Lean 4.33.0 kernel; standard axioms only; the 48x48 and 216-triple tables by `decide +kernel`',
        'nibabel io_orientation / apply_orientation / inv_ornt_aff are parameters of the model; their reference versions for axis-aligned affines are compared with nibabel on every case of this suite',
        'numpy indexing / dot',
    ]
    rep.assumptions = ['str.upper() is modelled on ASCII letters only']
    core.prove(rep, pid, THEOREMS)
    r = core.rng(pid)
    drv = core.Driver()
    ornts, codes = all_ornts(), all_codes()
    reqs, meta = [], []
    co = rep.corr.setdefault('orient', {'cases': 0, 'agree': 0, 'disagree': 0, 'skipped': 0})
    # ---- all 48 x 48 pairs, every run
    for oi, o in enumerate(ornts):
        for ci, code in enumerate(codes):
            shape = [r.randint(1, 4), r.randint(1, 4), r.randint(1, 4)]
            extra = r.choice([[], [], [2], [2, 3]]) if (oi + ci) % 5 == 0 else []
            zooms = [r.choice([1, 2, 3]) for _ in range(3)]
            trans = [r.randint(-4, 4) for _ in range(3)]
            arr = np.arange(int(np.prod(shape + extra)), dtype=np.int32).reshape(shape + extra)
            aff = affine_of(o, zooms, trans)
            cs = ''.join(ch.lower() if r.random() < 0.3 else ch for ch in code)
            status, out, pure = call(arr, aff, cs)
            rep.evaluations += 1
            rep.nontriv(['pair', oi, ci])
            rep.count('orient/pairs')
            if oi * 48 + ci < 2:
                rep.sample({'suite': 'orient', 'start': o, 'code': cs, 'shape': shape + extra})
            case = {'start': o, 'zooms': zooms, 'trans': trans, 'shape': shape + extra, 'code': cs}
            if not pure:
                rep.failure('reorder_voxels modified its inputs', {'tag': 'orient:purity', 'suite': 'orient', 'case': case})
            if status != 'ok':
                rep.failure('reorder_voxels raised %s for a valid code' % status, {'tag': 'orient:pairs', 'suite': 'orient', 'case': case})
            else:
                for f in check_image(arr, aff, cs, out)[:1]:
                    rep.failure(f, {'tag': 'orient:pairs', 'suite': 'orient', 'case': case})
            reqs.append({'op': 'reorder', 'nd': arr.ndim, 'aff_ok': True,
                         'cols': [[ax, pos, z] for (ax, pos), z in zip(o, zooms)], 'code': cs, 'shape': shape})
            meta.append(('reorder', case, status, out))
    # ---- oblique rotations (predicate only)
    nobl = 150 if tier == 'quick' else 3000
    for _ in range(nobl):
        o = r.choice(ornts)
        code = r.choice(codes)
        ang = [r.uniform(-0.5, 0.5) for _ in range(3)]      # well below the 45 degree ambiguity
        cx, sx, cy, sy, cz, sz = np.cos(ang[0]), np.sin(ang[0]), np.cos(ang[1]), np.sin(ang[1]), np.cos(ang[2]), np.sin(ang[2])
        R = np.array([[1, 0, 0], [0, cx, -sx], [0, sx, cx]]).dot(np.array([[cy, 0, sy], [0, 1, 0], [-sy, 0, cy]])).dot(
            np.array([[cz, -sz, 0], [sz, cz, 0], [0, 0, 1]]))
        if np.abs(R).max(axis=0).min() < 0.75:
            continue
        A = affine_of(o, [r.uniform(0.5, 3) for _ in range(3)], [r.uniform(-5, 5) for _ in range(3)])
        A[:3, :] = R.dot(A[:3, :])
        shape = [r.randint(1, 4) for _ in range(3)]
        arr = np.arange(int(np.prod(shape)), dtype=np.int32).reshape(shape)
        status, out, pure = call(arr, A, code)
        rep.evaluations += 1
        rep.count('orient/oblique')
        rep.nontriv(['oblique', code, [round(x, 3) for x in ang]])
        case = {'affine': A.tolist(), 'shape': shape, 'code': code}
        if status != 'ok':
            rep.failure('reorder_voxels raised %s on an oblique affine' % status, {'tag': 'orient:oblique', 'suite': 'orient', 'case': case})
        else:
            for f in check_image(arr, A, code, out)[:1]:
                rep.failure(f, {'tag': 'orient:oblique', 'suite': 'orient', 'case': case})
    # ---- strings: error cases
    alpha = 'LRAPSIlrapsi' + 'X'
    strings = []
    if tier == 'thorough':
        for n in range(0, 5):
            strings += [''.join(t) for t in itertools.product(alpha, repeat=n)]
    else:
        for n in range(0, 3):
            strings += [''.join(t) for t in itertools.product(alpha, repeat=n)]
        strings += [''.join(r.choice(alpha) for _ in range(3)) for _ in range(700)]
        strings += [''.join(r.choice(alpha) for _ in range(4)) for _ in range(200)]
        strings += ['ras ', ' RAS', 'R A', 'RAS\n', '123', 'rää']
    arr = np.zeros((2, 2, 2), dtype=np.int16)
    for s in strings:
        status, out, pure = call(arr, np.eye(4), s)
        rep.evaluations += 1
        rep.count('orient/strings')
        exp = 'ok' if valid_code(s) else 'ValueError'
        if len(s) >= 3:
            rep.nontriv(['str', s])
        if status != exp:
            rep.failure('voxel_order %r: %s, expected %s' % (s, status, exp), {'tag': 'orient:strings', 'suite': 'orient', 'code': s})
        if all(ord(ch) < 128 for ch in s):
            reqs.append({'op': 'check_code', 's': s})
            meta.append(('check_code', s, status, None))
    # ---- shape errors
    for arr, aff, what in [(np.zeros((2, 2)), np.eye(4), '2-D array'), (np.zeros((4,)), np.eye(4), '1-D array'),
                           (np.zeros((2, 2, 2)), np.eye(3), '3x3 affine'), (np.zeros((2, 2, 2)), np.zeros((3, 4)), '3x4 affine')]:
        status, out, pure = call(arr, aff, 'RAS')
        rep.evaluations += 1
        if status != 'ValueError':
            rep.failure('reorder_voxels on %s: %s, expected ValueError' % (what, status), {'tag': 'orient:shape', 'suite': 'orient', 'what': what})
        reqs.append({'op': 'reorder', 'nd': arr.ndim, 'aff_ok': aff.shape == (4, 4),
                     'cols': [[0, True, 1], [1, True, 1], [2, True, 1]], 'code': 'RAS', 'shape': [2, 2, 2]})
        meta.append(('reorder_err', what, status, None))
    # ---- correspondence
    for a, (kind, case, status, out) in zip(drv.ask(reqs), meta):
        co['cases'] += 1
        ok = True
        detail = ''
        if kind == 'check_code':
            ok = (a is True) == (status == 'ok')
            detail = 'model %s vs implementation %s for %r' % (a, status, case)
        elif kind == 'reorder_err':
            ok = (a == 'ValueError') == (status == 'ValueError')
            detail = 'model %s vs implementation %s (%s)' % (a, status, case)
        else:
            if a == 'ValueError' or status != 'ok':
                ok = (a == 'ValueError') and (status == 'ValueError')
                detail = 'model %s vs implementation %s' % (a, status)
            else:
                o, oaff, T, ot = out
                t_impl = [[int(x[0]), bool(x[1] == 1)] for x in np.asarray(ot)]
                T_impl = [[int(round(v)) for v in row] for row in np.asarray(T)[:3]]
                import nibabel as nb
                from nibabel.orientations import io_orientation
                io = [[int(x[0]), bool(x[1] == 1)] for x in io_orientation(oaff)]
                if a['t'] != t_impl:
                    ok, detail = False, 'ornt_trans: model %s vs implementation %s' % (a['t'], t_impl)
                elif a['T'] != T_impl:
                    ok, detail = False, 'transform: model %s vs implementation %s' % (a['T'], T_impl)
                elif a['shape'] != list(o.shape[:3]):
                    ok, detail = False, 'shape: model %s vs implementation %s' % (a['shape'], o.shape)
                elif a['ornt'] != io:
                    ok, detail = False, 'orientation of the output affine: model %s vs nibabel %s' % (a['ornt'], io)
        if ok:
            co['agree'] += 1
        else:
            co['disagree'] += 1
            rep.disagreements.append(('orient', 'orient', {'kind': kind, 'case': case}, detail))
    from .check_meta import finish_disagreements
    finish_disagreements(rep)
    return rep.finish()
