"""Synthetic in-memory DICOM datasets for DicomStack (no files needed)."""
import numpy as np


def make_ds(ipp, iop, rows, cols, spacing, pixels, meta=None, bits_stored=16, signed=False,
            slope=None, intercept=None, with_pixels=True, uid='1.2.3', bits_allocated=16):
    import pydicom
    from pydicom.dataset import Dataset, FileMetaDataset
    from pydicom.uid import ExplicitVRLittleEndian
    ds = Dataset()
    fm = FileMetaDataset()
    fm.TransferSyntaxUID = ExplicitVRLittleEndian
    fm.MediaStorageSOPClassUID = '1.2.840.10008.5.1.4.1.1.4'
    fm.MediaStorageSOPInstanceUID = uid
    ds.file_meta = fm
    try:
        ds.is_little_endian = True
        ds.is_implicit_VR = False
    except Exception:
        pass
    ds.SOPClassUID = '1.2.840.10008.5.1.4.1.1.4'
    ds.SOPInstanceUID = uid
    ds.Modality = 'MR'
    ds.ImagePositionPatient = [float(x) for x in ipp]
    ds.ImageOrientationPatient = [float(x) for x in iop]
    ds.PixelSpacing = [float(x) for x in spacing]
    ds.Rows = int(rows)
    ds.Columns = int(cols)
    ds.SamplesPerPixel = 1
    ds.PhotometricInterpretation = 'MONOCHROME2'
    ds.BitsAllocated = int(bits_allocated)
    ds.BitsStored = int(bits_stored)
    ds.HighBit = int(bits_stored) - 1
    ds.PixelRepresentation = 1 if signed else 0
    if slope is not None:
        ds.RescaleSlope = slope
        ds.RescaleIntercept = intercept if intercept is not None else 0
    if with_pixels:
        if bits_allocated == 8:
            arr = np.asarray(pixels, dtype=np.int8 if signed else np.uint8).reshape(rows, cols)
        else:
            arr = np.asarray(pixels, dtype=np.int16 if signed else np.uint16).reshape(rows, cols)
        ds.PixelData = arr.tobytes()
        ds['PixelData'].VR = 'OB' if bits_allocated == 8 else 'OW'
    for k, v in (meta or {}).items():
        if v is None:
            continue
        setattr(ds, k, v)
    return ds


# orientations: (row direction cosines, column direction cosines) in LPS
ORIENTS = {
    'axial': ([1, 0, 0], [0, 1, 0]),
    'sagittal': ([0, 1, 0], [0, 0, -1]),
    'coronal': ([1, 0, 0], [0, 0, -1]),
    'axial_rot90': ([0, 1, 0], [-1, 0, 0]),
    'axial_flipx': ([-1, 0, 0], [0, 1, 0]),
    'sag_rot': ([0, 0, 1], [0, 1, 0]),
}


def oblique(r):
    """a random rotation of the axial orientation (exact-ish floats)"""
    a, b = r.uniform(-0.4, 0.4), r.uniform(-0.4, 0.4)
    Rx = np.array([[1, 0, 0], [0, np.cos(a), -np.sin(a)], [0, np.sin(a), np.cos(a)]])
    Ry = np.array([[np.cos(b), 0, np.sin(b)], [0, 1, 0], [-np.sin(b), 0, np.cos(b)]])
    R = Rx.dot(Ry)
    return list(R[:, 0]), list(R[:, 1])


def normal(rowc, colc):
    # nibabel: slice_normal = cross(iop[:,0], iop[:,1]) with iop rows reversed; it uses
    # np.cross(*self.rotation_matrix.T[:2]) = cross(F[:,1]?...) -- computed by the harness from nibabel itself
    return np.cross(rowc, colc)
