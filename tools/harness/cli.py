import sys, os, traceback, fcntl
from . import core

MODULES = {
    'C08': 'check_lookup', 'C07': 'check_c07', 'C10': 'check_c10', 'C17': 'check_c17', 'C16': 'check_c16', 'C19': 'check_c19', 'C18': 'check_c18', 'C15': 'check_c15', 'C09': 'check_c09', 'C14': 'check_c14', 'C01': 'check_stack', 'C02': 'check_stack', 'C11': 'check_stack', 'C12': 'check_stack', 'C20': 'check_stack',
    'C03': 'check_meta', 'C04': 'check_meta', 'C05': 'check_meta', 'C06': 'check_meta', 'C13': 'check_meta',
}


def main(argv):
    if not argv:
        print('usage: tools/check <Cxx> [quick|thorough]')
        return 2
    pid = argv[0]
    if '--replay' in argv:
        # a replay file records the seed and tier of the run that produced it: every random choice
        # derives from VERIF_SEED and the property id, so the same run reproduces the same case
        import json
        path = argv[argv.index('--replay') + 1]
        rec = json.load(open(path))
        print('replaying %s: %s' % (path, rec.get('what', '')[:300]))
        os.environ['VERIF_SEED'] = str(rec.get('seed', 0))
        argv = [pid, rec.get('tier', 'quick')]
    tier = argv[1] if len(argv) > 1 and not argv[1].startswith('--') else os.environ.get('VERIF_TIER', 'quick')
    if tier not in ('quick', 'thorough'):
        tier = 'quick'
    if pid not in MODULES:
        print('no check for', pid)
        return 2
    try:
        mod = __import__('harness.' + MODULES[pid], fromlist=['main'])
        return mod.main(pid, tier)
    except core.Infra as e:
        print('INFRASTRUCTURE FAILURE:', e)
        return 2
    except Exception as e:
        traceback.print_exc()
        frames = traceback.extract_tb(e.__traceback__)
        repo = os.path.realpath(os.environ.get('DCMSTACK_REPO', '/repo')) + os.sep
        inner = [f for f in frames if os.path.realpath(f.filename).startswith(repo)]
        if not inner:
            return 2
        # the implementation raised where no generated (valid) input may make it raise and the
        # harness had no handler: the property is no longer shown to hold; the input is not in hand
        # failing inputs found before the abort are kept (and reported first)
        rep = core.LAST_REPORT if (core.LAST_REPORT is not None and core.LAST_REPORT.pid == pid) else core.Report(pid, tier)
        rep.notes.append('check aborted by an exception raised inside the implementation')
        rep.unproved('the implementation raised %r at %s:%d (%s) during the check; run aborted' % (
            e, inner[-1].filename, inner[-1].lineno, inner[-1].name),
            {'tag': 'harness:implementation-exception', 'traceback': traceback.format_exception(type(e), e, e.__traceback__)[-12:]})
        return rep.finish()


if __name__ == '__main__':
    sys.exit(main(sys.argv[1:]))
