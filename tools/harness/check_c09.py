"""C09: serialisation round-trips exactly through JSON and through NIfTI files."""
import json, os, copy, tempfile, shutil, io, contextlib
from collections import OrderedDict
import numpy as np
from . import core, meta as M, suite_meta as SM

THEOREMS = ['C09.decode_encode', 'C09.loads_dumps', 'C09.encode_injective', 'C09.order_matters',
            'C09.strip_pad', 'C09.dumps_examples']

RICH = [0, -1, 2 ** 70, -10 ** 30, 0.1, -2.5e-7, 1e+20, 3.141592653589793, 5e-324, 1.7976931348623157e+308,
        'plain', '', 'ü', 'e\u0301 decomposed', '\u2126 ohm \u212b', 'quote"back\\slash', 'tab\tnl\n', '\u0001', '日本語', '\U0001F600 astral', None, True, False,
        [1, [2, [3, []]]], {'a': 1, 'z': {'y': [None, 'x']}, 'b': []}, [], {}, [0.5, 'x', None],
        # strings that spell JSON literals and number tokens (a text-level rewrite of the encoded form must not touch them)
        'NaN', 'SNR was NaN here', 'Infinity', 'gain -Infinity dB', 'null', 'true', 'false', '1e5', '-0', '[1, 2]', '{"a": 1}',
        0.0, -0.0, [0.0, -0.0, 0.0, -0.0], {'z': -0.0, 'p': 0.0}, [-0.0],
        '    four spaces', 'trailing spaces    ', 'a,\n    b', ': colon, comma', {'NaN': 'Infinity', 'null': None}]


def tree(v):
    if v is None:
        return ['n']
    if isinstance(v, bool):
        return ['b', v]
    if isinstance(v, int):
        return ['num', str(v)]
    if isinstance(v, float):
        return ['num', float.__repr__(v)]
    if isinstance(v, str):
        return ['s', v]
    if isinstance(v, (list, tuple)):
        return ['a', [tree(x) for x in v]]
    if isinstance(v, dict):
        return ['o', [[k, tree(x)] for k, x in v.items()]]
    raise TypeError(type(v))


def ordered(v):
    """structure with key order made explicit (for comparisons that must see order)"""
    if isinstance(v, dict):
        return ['o', [[k, ordered(x)] for k, x in v.items()]]
    if isinstance(v, (list, tuple)):
        return ['a', [ordered(x) for x in v]]
    if isinstance(v, float):
        return ['f', float.hex(v)]
    if isinstance(v, bool):
        return ['b', v]
    if isinstance(v, int):
        return ['i', str(v)]
    return v


def gen_ext(r, tier):
    case = SM.gen_subset_case(r, tier)
    # an affine whose entries binary32 (what a NIfTI header stores) cannot represent: the extension keeps its own, in binary64
    aff = np.array([[2.2, -0.0, 0.1, -93.7], [0.0, -1.1, 0.3, 40.1], [0.05, -0.0, 3.3, -12.7], [0.0, 0.0, 0.0, 1.0]]) \
        if r.random() < 0.6 else None
    ext = SM.build_parent(case, affine=aff)
    # replace values by rich ones, keeping counts; shuffle key names to non-sorted, unicode keys
    names = ['zeta', 'Alpha', 'kü', 'ke\u0301', 'k\u00e9', 'b b', 'k"q', '\U0001F600', 'Mid', 'a.b.c', '0num', 'NaN voxel count', 'null', 'Infinity', 'true', 'in    dent']
    r.shuffle(names)
    for cls in ext.get_valid_classes():
        d = ext.get_class_dict(cls)
        items = list(d.items())
        d.clear()
        for k, vals in items:
            nk = names.pop() if names else k
            if cls == ('global', 'const'):
                d[nk] = copy.deepcopy(r.choice(RICH))
            else:
                d[nk] = [copy.deepcopy(r.choice(RICH)) for _ in vals]
    return case, ext


def main(pid, tier):
    from dcmstack.dcmmeta import DcmMetaExtension, NiftiWrapper, InvalidExtensionError
    import nibabel as nb
    rep = core.Report(pid, tier)
    rep.disagreements = []
    rep.trusted = [
        'Lean 4.33.0 kernel; standard axioms only',
        "CPython json: lexing, shortest-repr float printing / parsing (floats travel as lexemes), str escapes are compared byte for byte with the model printer",
        'zlib / gzip, nibabel Nifti1Image and extension I/O (save/load in a scratch directory outside /verif)',
    ]
    core.prove(rep, pid, THEOREMS)
    r = core.rng(pid)
    drv = core.Driver()
    n = 250 if tier == 'quick' else 5000
    nfiles = 40 if tier == 'quick' else 600
    tmp = tempfile.mkdtemp(prefix='dcmverif_c09_')
    reqs, meta = [], []
    try:
        for i in range(n):
            case, ext = gen_ext(r, tier)
            rep.evaluations += 1
            rep.count('json/ext')
            try:
                js = ext.to_json()
            except Exception as e:
                rep.failure('to_json raised %r on a valid extension' % e, {'tag': 'json:to_json', 'suite': 'json', 'case': case})
                continue
            rep.nontriv(js)
            rep.sample({'suite': 'json', 'json_head': js[:300]}, cap=2)
            reqs.append({'op': 'dumps', 'val': tree(ext._content)})
            meta.append(('dumps', js))
            reqs.append({'op': 'tokens', 'val': tree(ext._content)})
            meta.append(('tokens', True))
            fails = []
            try:
                back = DcmMetaExtension.from_json(js)
                if ordered(back._content) != ordered(ext._content):
                    fails.append('from_json(to_json(e)) differs from e (values, types or key order)')
                if not (back == ext):
                    fails.append('from_json(to_json(e)) != e')
                if back.to_json() != js:
                    fails.append('re-serialising the loaded extension is not byte-identical')
                rr = DcmMetaExtension.from_runtime_repr(copy.deepcopy(ext._content))
                if rr.to_json() != js or not (rr == back):
                    fails.append('from_runtime_repr and from_json disagree')
                # the same content as another writer spells it (characters outside ASCII written as they are): loaded as it stands —
                # no key or string is rewritten (two keys that differ only in Unicode normalisation stay two keys)
                raw = json.dumps(ext._content, ensure_ascii=False)
                back_raw = DcmMetaExtension.from_json(raw)
                if ordered(back_raw._content) != ordered(ext._content):
                    fails.append('from_json of the same content written with unescaped non-ASCII characters differs from the content')
                if str(ext) != js:
                    fails.append('str(ext) is not its JSON')
                # text encodes to what the container stores
                if ext._mangle(ext._content) != js.encode('utf-8'):
                    fails.append('container bytes are not the utf-8 JSON')
            except Exception as e:
                fails.append('round trip raised %r' % e)
            # files
            if i < nfiles:
                rep.count('json/file')
                try:
                    shape = tuple(ext.shape)
                    img = nb.Nifti1Image(np.zeros(shape, dtype=np.int16), np.array(ext.affine))   # the image sits where the extension says
                    img.header.set_dim_info(slice=ext.slice_dim)
                    img.header.extensions.append(ext)
                    w = NiftiWrapper(img)
                    for cyc in range(3):
                        path = os.path.join(tmp, 'x.nii.gz' if (i + cyc) % 2 == 0 else 'x.nii')
                        w.to_filename(path)
                        with contextlib.redirect_stdout(io.StringIO()):
                            w2 = NiftiWrapper.from_filename(path)
                        if w2.meta_ext.to_json() != js or ordered(w2.meta_ext._content) != ordered(ext._content):
                            fails.append('save/load cycle %d through %s changed the extension' % (cyc, os.path.basename(path)))
                            break
                        # detach from the file before overwriting it
                        w = NiftiWrapper(nb.Nifti1Image(np.asanyarray(w2.nii_img.dataobj).copy(), w2.nii_img.affine,
                                                        w2.nii_img.header.copy()))
                    # one wrapper written more than once, its meta data edited in place between the
                    # writes (a value changed, a key added): every file holds what the extension said
                    # when that file was written
                    img3 = nb.Nifti1Image(np.zeros(shape, dtype=np.int16), np.eye(4))
                    img3.header.set_dim_info(slice=ext.slice_dim)
                    ext3 = DcmMetaExtension.from_json(js)
                    img3.header.extensions.append(ext3)
                    w3 = NiftiWrapper(img3)
                    for wr in range(3):
                        path = os.path.join(tmp, 'y%d.nii%s' % (wr, '.gz' if (i + wr) % 2 else ''))
                        w3.to_filename(path)
                        with contextlib.redirect_stdout(io.StringIO()):
                            back = NiftiWrapper.from_filename(path)
                        if back.meta_ext.to_json() != w3.meta_ext.to_json():
                            fails.append('write %d of one wrapper (meta data edited in place between the writes): the file '
                                         'does not hold the extension as it was when written' % wr)
                            break
                        gc = w3.meta_ext.get_class_dict(('global', 'const'))
                        gc['verif_added_%d' % wr] = [wr, 'x' * (wr * 7 + 1)]
                        for k0 in list(gc)[:1]:
                            gc[k0] = {'edited': wr}
                except Exception as e:
                    fails.append('file round trip raised %r' % e)
            for f in fails[:1]:
                rep.failure(f, {'tag': 'json:roundtrip', 'suite': 'json', 'case': case, 'json': js[:3000]})
        # invalid content must not load
        bad = json.loads(js)
        bad.pop('dcmmeta_shape', None)
        rep.evaluations += 1
        try:
            DcmMetaExtension.from_json(json.dumps(bad))
            rep.failure('from_json accepted content without dcmmeta_shape', {'tag': 'json:validity', 'suite': 'json'})
        except Exception:
            pass
    finally:
        shutil.rmtree(tmp, ignore_errors=True)
    co = rep.corr.setdefault('json', {'cases': 0, 'agree': 0, 'disagree': 0, 'skipped': 0})
    for a, (kind, exp) in zip(drv.ask(reqs), meta):
        co['cases'] += 1
        if a == exp:
            co['agree'] += 1
        else:
            co['disagree'] += 1
            rep.disagreements.append(('json', 'json:' + kind, {'kind': kind},
                                      'model %s vs implementation %s' % (json.dumps(a)[:400], json.dumps(exp)[:400])))
    from .check_meta import finish_disagreements
    finish_disagreements(rep)
    return rep.finish()
