"""Wrapper level: NiftiWrapper.split / NiftiWrapper.from_sequence with labelled voxel data and
exact (signed permutation x integer zoom) affines.  Oracles for the data / affine / image-match
clauses of C03, C04, C05, C07 (and input purity for C13)."""
import json, copy, itertools
import numpy as np
from . import core, meta as M, suite_meta as SM


def gen_wrapper_case(r, tier, canonical=True, trimmed=True):
    c = SM.gen_subset_case(r, tier, canonical=canonical, trimmed=trimmed)
    if c['sd'] is None:
        c['sd'] = r.choice([0, 1, 2])
        c2 = SM.gen_subset_case(r, tier, canonical=canonical, trimmed=trimmed)
        c2['shape'], c2['sd'] = c['shape'], c['sd']
        # regenerate entries for this geometry
        S, T, V = M.dims_of(c['shape'], c['sd'])
        ents = []
        bases = M.bases_of_shape(c['shape'])
        for ki in range(r.randint(1, 4)):
            tab, _ = M.gen_table(r, S, T, V)
            if M.all_none(tab) and canonical:
                continue
            cl = M.classify(r, c['shape'], c['sd'], tab, canonical, bases)
            if cl is None:
                continue
            vals = M.values_for(cl, tab, S, T, V)
            ents.append(['k%d' % ki, cl, vals[0] if cl == 'gconst' else vals])
        c['ents'] = ents
    c['op'] = 'wrapper'
    # voxel data: in-memory integers, in-memory floats with fractions, or a file-backed integer
    # image with scale factors (the data object then delivers scaled floats, the header says int16)
    c['data_kind'] = r.choice(['int32', 'int32', 'int16', 'float32', 'scaled_file'])
    c['affine'] = M.rand_affine(r).tolist()
    if r.random() < 0.25:
        # oblique (rotation about one axis by an "exact" 3-4-5 angle), predicate comparison only
        co, si = 0.6, 0.8
        R = np.eye(4)
        a, b = r.sample(range(3), 2)
        R[a, a], R[a, b], R[b, a], R[b, b] = co, -si, si, co
        c['affine'] = (R @ np.array(c['affine'])).tolist()
        c['oblique'] = True
    return c


def build_wrapper(case):
    import nibabel as nb
    from dcmstack.dcmmeta import NiftiWrapper
    aff = np.array(case['affine'], dtype=float)
    ext = SM.build_parent(case, affine=aff)
    shape = case['shape']
    kind = case.get('data_kind', 'int32')
    base = np.arange(int(np.prod(shape))).reshape(shape)
    if kind == 'float32':
        data = (base * 0.5 + 0.25).astype(np.float32)
    elif kind == 'int16':
        data = base.astype(np.int16)
    else:
        data = base.astype(np.int32)
    img = nb.Nifti1Image(data, aff)
    img.header.set_dim_info(slice=case['sd'])
    img.header.extensions.append(ext)
    if kind == 'scaled_file':
        # written as int16, then scl_slope / scl_inter patched into the header: the loaded image
        # delivers base * 0.5 + 0.25 as float64 while its header data type stays int16
        import tempfile, os, struct
        d = tempfile.mkdtemp(prefix='dcmverif_wr_')
        pth = os.path.join(d, 'scaled.nii')
        img16 = nb.Nifti1Image(base.astype(np.int16), aff)
        img16.header.set_dim_info(slice=case['sd'])
        img16.header.extensions.append(ext)
        nb.save(img16, pth)
        with open(pth, 'r+b') as fh:
            fh.seek(112)
            fh.write(struct.pack('<2f', 0.5, 0.25))
        loaded = nb.load(pth)
        data = np.asanyarray(loaded.dataobj)        # read now: the scratch file is removed below
        img = nb.Nifti1Image.from_bytes(open(pth, 'rb').read())
        import shutil
        shutil.rmtree(d, ignore_errors=True)
        assert data.dtype.kind == 'f' and (data.size < 2 or float(data.flat[1]) == 0.75), 'scaled fixture not as expected'
    return NiftiWrapper(img), data, aff


def snap(w):
    """everything observable about a wrapper: voxel data, the image affine, the header as stored (both transforms with
    their codes, dim_info, zooms, data type — `bytes(header.structarr)`), the extension content, the shape"""
    hdr = w.nii_img.header
    return (np.asanyarray(w.nii_img.dataobj).tobytes(), w.nii_img.affine.tobytes(),
            json.dumps(w.meta_ext._content, default=str), tuple(w.nii_img.shape),
            hdr.structarr.tobytes(), np.asarray(hdr.get_best_affine()).tobytes())


def img_matches(w, full_affine=True):
    """C07: recorded shape, slice dim and geometry of the extension equal those of the image"""
    fails = []
    e, img = w.meta_ext, w.nii_img
    try:
        e.check_valid()
        e.to_json()
    except Exception as ex:
        return ['extension invalid: %s' % ex]
    if tuple(e.shape) != tuple(img.shape):
        fails.append('extension shape %s, image shape %s' % (tuple(e.shape), tuple(img.shape)))
    hsd = img.header.get_dim_info()[2]
    if e.slice_dim != hsd:
        fails.append('extension slice_dim %s, header slice dim %s' % (e.slice_dim, hsd))
    A, B = np.array(e.affine), img.affine
    if full_affine:
        if not np.allclose(A, B, atol=1e-4):
            fails.append('extension affine differs from image affine')
    else:
        if not np.allclose(A[:3, :3], B[:3, :3], atol=1e-4):
            fails.append('extension axis directions / voxel sizes differ from the image')
    return fails


def split_oracles(case, w, data, aff, dim):
    """returns (pieces, fails_by_property)"""
    fails = {'C04': [], 'C07': [], 'C13': []}
    before = snap(w)
    shape = case['shape']
    try:
        pieces = list(w.split(dim))
    except Exception as e:
        fails['C04'].append('split(%d) raised %r' % (dim, e))
        return None, fails
    if snap(w) != before:
        fails['C13'].append('split(%d) changed its input' % dim)
    if len(pieces) != shape[dim]:
        fails['C04'].append('split(%d) yields %d pieces for an axis of length %d' % (dim, len(pieces), shape[dim]))
        return pieces, fails
    for i, p in enumerate(pieces):
        pd = np.asanyarray(p.nii_img.dataobj)
        exp = np.take(data, [i], axis=dim)
        if dim >= 3 and dim == len(shape) - 1:
            exp = exp[..., 0]
        while exp.ndim > 3 and exp.shape[-1] == 1 and pd.ndim < exp.ndim:
            exp = exp[..., 0]
        if pd.shape != exp.shape or not np.array_equal(pd, exp):
            fails['C04'].append('piece %d of split(%d): data is not the %d-th hyperplane (shape %s vs %s)' % (i, dim, i, pd.shape, exp.shape))
            break
        ea = aff.copy()
        if dim < 3:
            ea[:3, 3] = aff[:3, 3] + i * aff[:3, dim]
        if not np.allclose(p.nii_img.affine, ea, atol=1e-3):
            fails['C04'].append('piece %d of split(%d): affine does not send voxel 0 to where voxel %d of the parent was' % (i, dim, i))
            break
        f7 = img_matches(p, full_affine=False)
        if f7:
            fails['C07'].append('piece %d of split(%d): %s' % (i, dim, f7[0]))
        # metadata through the public lookup
        pshape = p.nii_img.shape
        sd = case['sd']
        try:
            for k, cl, _ in case['ents']:
                for idx in itertools.islice(itertools.product(*[range(n) for n in pshape]), 0, 40):
                    pidx = list(idx) + [0] * (len(shape) - len(idx))
                    pidx = pidx[:len(shape)]
                    pidx[dim] = i
                    a = p.get_meta(k, idx, None)
                    b = w.get_meta(k, tuple(pidx), None)
                    if M.cv(a) != M.cv(b):
                        fails['C04'].append('piece %d of split(%d): get_meta(%s, %s) = %s, parent at %s = %s' % (
                            i, dim, k, idx, M.cv(a)[:40], tuple(pidx), M.cv(b)[:40]))
                        raise StopIteration
        except StopIteration:
            break
        except Exception as e:
            fails['C04'].append('piece %d of split(%d): lookup raised %r' % (i, dim, e))
            break
    return pieces, fails


def data_alias_probe(case, dim):
    """C13 at image level: the voxel arrays of the pieces of a split share nothing with the parent's —
    writing into a piece leaves the parent's voxels as they were, and writing into the parent leaves
    the pieces as they were.  Works on a wrapper of its own (in-memory data only)."""
    fails = []
    if case.get('data_kind') == 'scaled_file':
        return fails
    try:
        w2, data2, _ = build_wrapper(case)
        pieces = list(w2.split(dim))
    except Exception:
        return fails
    parent_before = np.array(np.asanyarray(w2.nii_img.dataobj), copy=True)
    saved = []
    for p in pieces:
        arr = np.asanyarray(p.nii_img.dataobj)
        saved.append(np.array(arr, copy=True))
    for p in pieces:
        arr = np.asanyarray(p.nii_img.dataobj)
        try:
            arr[...] = -7
        except Exception:
            return fails            # read-only data: nothing can be written through it
    if not np.array_equal(np.asanyarray(w2.nii_img.dataobj), parent_before):
        fails.append('writing into the voxel data of the pieces of split(%d) changed the voxel data of the image that was split' % dim)
        return fails
    # other direction, on a fresh wrapper
    w3, _, _ = build_wrapper(case)
    pieces3 = list(w3.split(dim))
    before3 = [np.array(np.asanyarray(p.nii_img.dataobj), copy=True) for p in pieces3]
    try:
        np.asanyarray(w3.nii_img.dataobj)[...] = -9
    except Exception:
        return fails
    for i, (p, b) in enumerate(zip(pieces3, before3)):
        if not np.array_equal(np.asanyarray(p.nii_img.dataobj), b):
            fails.append('writing into the voxel data of the split image changed piece %d of split(%d) produced earlier' % (i, dim))
            break
    return fails


def merge_back_oracles(case, w, data, aff, dim, pieces):
    from dcmstack.dcmmeta import NiftiWrapper
    fails = {'C05': [], 'C07': [], 'C13': [], 'C03': []}
    before = [snap(p) for p in pieces]
    before_sem = [(np.asanyarray(p.nii_img.dataobj).copy(), p.nii_img.affine.copy(),
                   M.canon_model_ext(M.ext_to_model(p.meta_ext))) for p in pieces]
    try:
        back = NiftiWrapper.from_sequence(pieces, dim)
    except Exception as e:
        fails['C05'].append('from_sequence(split(%d)) raised %r' % (dim, e))
        return fails
    if [snap(p) for p in pieces] != before:
        fails['C13'].append('from_sequence changed an input image/extension')
    bd = np.asanyarray(back.nii_img.dataobj)
    if bd.shape != data.shape or not np.array_equal(bd, data):
        fails['C05'].append('data after split(%d)+merge differs (shape %s vs %s)' % (dim, bd.shape, data.shape))
        fails['C03'].append('merged voxel data is not the inputs stacked in input order along dim %d' % dim)
    if not np.allclose(back.nii_img.affine, aff, atol=1e-3):
        fails['C05'].append('affine after split(%d)+merge differs' % dim)
        fails['C03'].append('affine of the image merged along dim %d is not the parent affine' % dim)
    # inputs of different data types (a later one wider than the first): position i of the merged
    # image still holds input i's values exactly, and splitting gives them back
    try:
        import nibabel as nb
        mixed = []
        for i, pc in enumerate(pieces):
            if i == 1:
                d2 = np.asanyarray(pc.nii_img.dataobj).astype(np.float32) + np.float32(0.5)
                im2 = nb.Nifti1Image(d2, pc.nii_img.affine, pc.nii_img.header)
                im2.header.set_data_dtype(np.float32)
                mixed.append(NiftiWrapper(im2))
            else:
                mixed.append(pc)
        mw = NiftiWrapper.from_sequence(mixed, dim)
        md = np.asanyarray(mw.nii_img.dataobj)
        sl = [slice(None)] * md.ndim
        for i, pc in enumerate(mixed):
            if dim < md.ndim:
                sl[dim] = i
                got = md[tuple(sl)]
            else:
                got = md
            want = np.asanyarray(pc.nii_img.dataobj).squeeze()
            if got.squeeze().shape != want.shape or not np.array_equal(got.squeeze().astype(np.float64), want.astype(np.float64)):
                msg = 'inputs of mixed data types (input 1 float32 with fractions) merged along dim %d: position %d does not hold input %d' % (dim, i, i)
                fails['C03'].append(msg)
                fails['C05'].append(msg)
                break
    except Exception as e:
        fails['C03'].append('merging inputs of mixed data types along dim %d raised %r' % (dim, e))
    # inputs that do not touch: every piece moved a further half step along the merge axis.  The merged image has the longer
    # step as its column, its extension records that same affine, and the meta data are what the contiguous merge gives
    if dim < 3 and len(pieces) >= 2 and not case.get('hdr_kind'):
        try:
            import nibabel as nb, copy as _copy
            spaced = []
            for i, pc in enumerate(pieces):
                A = pc.nii_img.affine.copy()
                A[:3, 3] += i * 0.5 * aff[:3, dim]
                e_ = _copy.deepcopy(pc.meta_ext)
                e_.affine = A
                h_ = pc.nii_img.header.copy()
                while len(h_.extensions):
                    del h_.extensions[0]
                h_.extensions.append(e_)
                im_ = nb.Nifti1Image(np.asanyarray(pc.nii_img.dataobj).copy(), A, h_)
                spaced.append(NiftiWrapper(im_))
            before_sp = [snap(p_) for p_ in spaced]
            sm = NiftiWrapper.from_sequence(spaced, dim)
            if [snap(p_) for p_ in spaced] != before_sp:
                fails['C13'].append('from_sequence of pieces 1.5 steps apart (dim %d) changed an input image / affine / extension' % dim)
            want_col = 1.5 * aff[:3, dim]
            if not np.allclose(sm.nii_img.affine[:3, dim], want_col, atol=1e-3):
                fails['C03'].append('pieces 1.5 steps apart merged along dim %d: the merged column is %s, expected %s' % (
                    dim, sm.nii_img.affine[:3, dim].tolist(), want_col.tolist()))
            mm = img_matches(sm, full_affine=True)
            fails['C03'] += ['pieces 1.5 steps apart merged along dim %d: %s' % (dim, f) for f in mm]
            fails['C07'] += ['merged (pieces 1.5 steps apart): ' + f for f in mm]
            a_s, a_b = M.ext_to_model(sm.meta_ext), M.ext_to_model(back.meta_ext)
            if a_s is None or a_b is None or M.canon_model_ext(a_s)['ents'] != M.canon_model_ext(a_b)['ents']:
                fails['C03'].append('pieces 1.5 steps apart merged along dim %d: meta data differ from the contiguous merge' % dim)
        except Exception as e:
            fails['C03'].append('merging pieces 1.5 steps apart along dim %d raised %r' % (dim, e))
    a = M.ext_to_model(back.meta_ext)
    b = M.ext_to_model(w.meta_ext)
    if a is None or M.canon_model_ext(a) != M.canon_model_ext(b):
        fails['C05'].append('extension after split(%d)+merge differs: %s vs %s' % (
            dim, json.dumps(a)[:200], json.dumps(b)[:200]))
    fails['C07'] += ['merged: ' + f for f in img_matches(back, full_affine=True)]
    # the same pieces merged once more give the same image (a merge must not have used up or
    # altered its inputs)
    try:
        back2 = NiftiWrapper.from_sequence(pieces, dim)
        a2 = M.ext_to_model(back2.meta_ext)
        if not np.array_equal(np.asanyarray(back2.nii_img.dataobj), bd) or a2 is None or \
                M.canon_model_ext(a2) != M.canon_model_ext(a):
            fails['C05'].append('merging the pieces of split(%d) a second time gives a different image / extension' % dim)
    except Exception as e:
        fails['C05'].append('merging the pieces of split(%d) a second time raised %r' % (dim, e))
    # conversely: splitting the merged image gives back the pieces (data and extension as they were
    # before the merge)
    try:
        again = list(back.split(dim))
        if len(again) != len(pieces):
            fails['C05'].append('split(%d) of the merged image yields %d pieces, %d were merged' % (dim, len(again), len(pieces)))
        else:
            for i, (p2, (d0, a0, e0)) in enumerate(zip(again, before_sem)):
                m2 = M.ext_to_model(p2.meta_ext)
                if not np.array_equal(np.asanyarray(p2.nii_img.dataobj), d0) or \
                        not np.allclose(p2.nii_img.affine, a0, atol=1e-3) or m2 is None or M.canon_model_ext(m2) != e0:
                    fails['C05'].append('piece %d of split(%d) of the merged image differs from input %d as it was before the merge' % (i, dim, i))
                    break
    except Exception as e:
        fails['C05'].append('split(%d) of the merged image raised %r' % (dim, e))
    return fails


def refusal_oracles(case, w, data, aff, dim, pieces, r):
    """C03: inputs whose orientation differs, or whose positions are not strictly increasing along the
    merge axis, are refused with ValueError"""
    import nibabel as nb
    from dcmstack.dcmmeta import NiftiWrapper
    fails = []
    if dim >= 3 or len(pieces) < 2:
        return fails
    # reversed order: positions decreasing
    try:
        NiftiWrapper.from_sequence(list(reversed(pieces)), dim)
        fails.append('from_sequence accepted pieces in decreasing position order along dim %d' % dim)
    except ValueError:
        pass
    except Exception as e:
        fails.append('from_sequence on decreasing positions raised %r instead of ValueError' % e)
    # any order that is not strictly increasing along the axis must be refused, also when every
    # input lies ahead of the first one (swap / repeat later inputs)
    n = len(pieces)
    seqs = []
    if n >= 3:
        for _ in range(3):
            idx = list(range(n))
            i, j = sorted(r.sample(range(1, n), 2)) if n > 2 else (1, 1)
            idx[i], idx[j] = idx[j], idx[i]
            seqs.append(idx)
        seqs.append([0, 1, 1] + list(range(2, n)))
        seqs.append(list(range(n)) + [n - 1])
        seqs.append([0] + list(range(n - 1, 0, -1)))
    for idx in seqs:
        if idx == sorted(set(idx)):
            continue
        try:
            NiftiWrapper.from_sequence([pieces[k] for k in idx], dim)
            fails.append('from_sequence accepted inputs whose positions along dim %d are in the order %s (not strictly increasing)' % (dim, idx))
            break
        except ValueError:
            pass
        except Exception as e:
            fails.append('from_sequence on position order %s raised %r instead of ValueError' % (idx, e))
            break
    # same position twice
    try:
        NiftiWrapper.from_sequence([pieces[0], pieces[0]], dim)
        fails.append('from_sequence accepted two inputs at the same position')
    except ValueError:
        pass
    except Exception as e:
        fails.append('from_sequence on equal positions raised %r instead of ValueError' % e)
    # different orientation on the second input
    p1 = pieces[1]
    a2 = p1.nii_img.affine.copy()
    o = (dim + 1) % 3
    a2[:3, [o, (dim + 2) % 3]] = a2[:3, [(dim + 2) % 3, o]]
    d2 = np.asanyarray(p1.nii_img.dataobj)
    if d2.shape[o] == d2.shape[(dim + 2) % 3]:
        img2 = nb.Nifti1Image(d2.copy(), a2)
        img2.header.set_dim_info(slice=p1.nii_img.header.get_dim_info()[2])
        img2.header.extensions.append(copy.deepcopy(p1.meta_ext))
        try:
            NiftiWrapper.from_sequence([pieces[0], NiftiWrapper(img2)], dim)
            fails.append('from_sequence accepted inputs of different orientation')
        except ValueError:
            pass
        except Exception as e:
            fails.append('from_sequence on different orientations raised %r instead of ValueError' % e)
    return fails


def extend(rep, pid, tier, r):
    if pid not in ('C03', 'C04', 'C05', 'C07', 'C13'):
        return
    n = 60 if tier == 'quick' else 1500
    for ci in range(n):
        case = gen_wrapper_case(r, tier, canonical=(pid in ('C05',) or r.random() < 0.7))
        try:
            w, data, aff = build_wrapper(case)
            # header variants: which of sform / qform is coded (files written by other tools often
            # carry a qform only); the image goes through bytes so that its affine is the header's
            hk = r.choice(['s', 's', 's', 'q', 'sq', 'none'])
            if hk != 's' and case.get('data_kind') != 'scaled_file' and not case.get('oblique'):
                from . import check_wrapcorr
                w = check_wrapcorr.with_header_variant(w.nii_img, hk, aff)
                aff = w.nii_img.affine.copy()
                data = np.asanyarray(w.nii_img.dataobj)
                case['hdr_kind'] = hk
        except Exception as e:
            rep.count('wrapper/build_failed')
            continue
        shape = case['shape']
        for dim in range(len(shape)):
            rep.evaluations += 1
            region = 'wrapper:' + SM.subset_region(case, dim) + (':oblique' if case.get('oblique') else '')
            if case.get('hdr_kind'):
                rep.count('wrapper/hdr-' + case['hdr_kind'])
            rep.count(region)
            rep.nontriv([case, dim])
            rep.sample({'suite': 'wrapper', 'case': case, 'dim': dim}, cap=2)
            pieces, fs = split_oracles(case, w, data, aff, dim)
            if pid == 'C13' and not case.get('hdr_kind'):
                fs.setdefault('C13', [])
                fs['C13'] += data_alias_probe(case, dim)
            fm = {}
            if pieces is not None and len(pieces) == shape[dim] and shape[dim] >= 1 and \
                    (dim == case['sd'] or dim >= 3):
                fm = merge_back_oracles(case, w, data, aff, dim, pieces)
                if pid == 'C03':
                    fm.setdefault('C03', [])
            if pid == 'C03' and pieces is not None:
                fm.setdefault('C03', [])
                fm['C03'] += refusal_oracles(case, w, data, aff, dim, pieces, r)
            allf = list(fs.get(pid, [])) + list(fm.get(pid, []))
            for f in allf[:1]:
                # the C13 clauses of this suite are all about inputs being left alone: never attributed to a finding about results
                rep.failure(f, {'tag': region + ('/inputs' if pid == 'C13' else ''), 'suite': 'wrapper', 'case': case, 'dim': dim})
    if pid in ('C03', 'C04', 'C05'):
        from . import check_wrapcorr
        check_wrapcorr.corr(rep, pid, tier, r)
