"""Wrapper level (NiftiWrapper.split / from_sequence with voxel data and affines)."""


def extend(rep, pid, tier, r):
    return
