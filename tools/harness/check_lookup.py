"""C08: NiftiWrapper.get_meta / meta_valid / __getitem__ against the Lean model `getMeta` and the
property oracle (value at the asked position, default when unsure, IndexError on a bad index)."""
import json, itertools, copy
import numpy as np
from . import core, meta as M, suite_meta as SM

THEOREMS = ['C08.getMeta_matched', 'C08.getMeta_mismatch', 'C08.getMeta_noindex', 'C08.getMeta_bounds',
            'C08.metaValid_matched']

SENTINEL = '__DEFAULT__'


def gen_case(r, tier):
    c = SM.gen_subset_case(r, tier)
    if c['sd'] is None and r.random() < 0.8:
        c['sd'] = r.choice([0, 1, 2])
        c = SM.gen_subset_case(r, tier)
        if c['sd'] is None:
            c['sd'] = 0
            c['ents'] = [e for e in c['ents'] if not e[1].endswith('slices')]
    shape = list(c['shape'])
    kind = r.choice(['match'] * 5 + ['crop_t', 'ext_t', 'crop_v', 'ext_v', 'slices', 'axis', 'flip', 'nodim',
                                     'drop_dims', 'add_dim'])
    ishape, isd, flip = list(shape), c['sd'], False
    if kind in ('crop_t', 'ext_t') and len(shape) >= 4:
        ishape[3] = max(1, shape[3] + (-1 if kind == 'crop_t' else 1))
    elif kind in ('crop_v', 'ext_v') and len(shape) == 5:
        ishape[4] = max(1, shape[4] + (-1 if kind == 'crop_v' else 1))
    elif kind == 'slices' and c['sd'] is not None:
        ishape[c['sd']] = shape[c['sd']] + r.choice([1, 2])
    elif kind == 'axis' and c['sd'] is not None:
        isd = r.choice([d for d in range(3) if d != c['sd']])
    elif kind == 'flip':
        flip = True
    elif kind == 'nodim':
        isd = None
    elif kind == 'drop_dims' and len(shape) > 3:
        ishape = shape[:-1]
    elif kind == 'add_dim' and len(shape) < 5:
        ishape = shape + [2]
    else:
        kind = 'match'
    c.update({'op': 'lookup', 'ishape': ishape, 'isd': isd, 'flip': flip, 'kind': kind})
    # geometry: the extension's affine and the image's.  Mostly equal (any kind of matrix: diagonal,
    # signed permutation, cyclic permutation, oblique rotation, shear); sometimes the image has been
    # given another matrix, whose slice row may or may not agree with the extension's
    ea = gen_affine(r)
    ia = ea
    if kind == 'match' and r.random() < 0.25:
        ia = gen_affine(r)
        c['kind'] = 'other_affine'
    c['eaff'] = [[float(x) for x in row] for row in ea]
    c['iaff'] = [[float(x) for x in row] for row in ia]
    return c


def gen_affine(r):
    k = r.choice(['eye', 'diag', 'sperm', 'cyclic', 'oblique', 'oblique', 'shear', 'transpose_pair'])
    A = np.eye(4)
    if k == 'diag':
        A[:3, :3] = np.diag([r.choice([1.0, 2.0, 0.5, -1.5]) for _ in range(3)])
    elif k == 'sperm':
        A = M.rand_affine(r)
    elif k == 'cyclic':
        P = np.zeros((3, 3))
        sh = r.choice([1, 2])
        for i in range(3):
            P[(i + sh) % 3, i] = r.choice([1.0, 2.0, -1.0])
        A[:3, :3] = P
    elif k in ('oblique', 'transpose_pair'):
        a, b = r.uniform(-0.6, 0.6), r.uniform(-0.6, 0.6)
        Rx = np.array([[1, 0, 0], [0, np.cos(a), -np.sin(a)], [0, np.sin(a), np.cos(a)]])
        Rz = np.array([[np.cos(b), -np.sin(b), 0], [np.sin(b), np.cos(b), 0], [0, 0, 1]])
        R = Rx.dot(Rz).dot(np.diag([r.choice([1.0, 2.0]), 1.0, r.choice([1.0, 3.0])]))
        A[:3, :3] = R.T if k == 'transpose_pair' else R
    elif k == 'shear':
        A[:3, :3] = np.array([[1.0, 0.0, 0.5], [0.0, 2.0, 0.0], [0.0, 0.25, 1.0]])
    A[:3, 3] = [r.randint(-5, 5) for _ in range(3)]
    return A


def build(case):
    import nibabel as nb
    from dcmstack.dcmmeta import NiftiWrapper
    ext = SM.build_parent(case, affine=np.array(case['eaff']))
    aff = np.array(case['iaff'])
    if case['flip'] and case['isd'] is not None:
        # the slice axis runs the other way (a real flip of the voxel axis: its column is negated and
        # the origin moves to the other end)
        n = case['ishape'][case['isd']]
        aff[:3, 3] = aff[:3, 3] + (n - 1) * aff[:3, case['isd']]
        aff[:3, case['isd']] = -aff[:3, case['isd']]
    img = nb.Nifti1Image(np.zeros(case['ishape'], dtype=np.int16), aff)
    img.header.set_dim_info(slice=case['isd'])
    img.header.extensions.append(ext)
    return NiftiWrapper(img), ext


def indices_for(r, case):
    ishape = case['ishape']
    allidx = list(itertools.product(*[range(n) for n in ishape]))
    if len(allidx) > 60:
        allidx = r.sample(allidx, 60)
    bad = []
    for _ in range(4):
        idx = [r.randrange(n) for n in ishape]
        d = r.randrange(len(ishape))
        idx[d] = r.choice([ishape[d], ishape[d] + 1, -1, -ishape[d]])
        bad.append(tuple(idx))
    bad.append(tuple([0] * (len(ishape) - 1)))
    bad.append(tuple([0] * (len(ishape) + 1)))
    return allidx, bad


def call(w, key, index):
    try:
        v = w.get_meta(key, index, SENTINEL)
    except IndexError:
        return 'IndexError'
    except Exception as e:
        return 'EXC:' + type(e).__name__
    if isinstance(v, str) and v == SENTINEL:
        return 'default'
    return {'value': M.cv(v)}


def aligned_flag(w, case):
    """is the image's slice direction (the world direction of its slice axis: column `slice_dim` of
    its affine) the extension's?  Computed from the generated matrices, not through the
    implementation's properties"""
    if case['isd'] is None or case['sd'] is None:
        return False
    icol = np.array(case['iaff'])[:3, case['isd']] * (-1.0 if case['flip'] else 1.0)
    ecol = np.array(case['eaff'])[:3, case['sd']]
    return bool(np.allclose(icol, ecol, atol=1e-6))


def affected(cls, case):
    """does the stated mismatch affect this classification (property text)"""
    es, isx = case['shape'], case['ishape']
    if cls == 'gconst':
        return False
    if cls == 'vsamples':
        return tuple(es[4:]) != tuple(isx[4:])
    if cls == 'tsamples':
        return tuple(es[3:]) != tuple(isx[3:])
    # per slice classes
    if case['isd'] is None or case['sd'] is None or case['isd'] != case['sd'] or case['flip']:
        return True
    if case['kind'] == 'other_affine' and not aligned_flag(None, case):
        return True
    if es[case['sd']] != isx[case['isd']]:
        return True
    if cls == 'vslices':
        return (es[3] if len(es) > 3 else None) != (isx[3] if len(isx) > 3 else None)
    if cls == 'gslices':
        return tuple(es[3:]) != tuple(isx[3:])
    return False


def reoriented_round(rep, r, tier, reqs, meta):
    """the image is reoriented with nibabel (axes permuted and / or flipped, data, affine and
    dim_info moved together) while the extension stays as it was.  Whatever the agreement tests
    decide, a lookup may only return the default or the value of the position the voxel came from:
    never a value belonging to another position, never an exception for an in-bounds index"""
    import nibabel as nb
    from dcmstack.dcmmeta import NiftiWrapper
    n = 60 if tier == 'quick' else 1200
    for ci in range(n):
        c = SM.gen_subset_case(r, tier)
        if c['sd'] is None:
            continue
        shape = list(c['shape'])
        if r.random() < 0.6:
            # make the slice axis exchangeable with another one (same length)
            o = r.choice([d for d in range(3) if d != c['sd']])
            shape[o] = shape[c['sd']]
            c2 = SM.gen_subset_case(r, tier)
            c['shape'] = shape
            S, T, V = M.dims_of(shape, c['sd'])
            ents = []
            bases = M.bases_of_shape(shape)
            for ki in range(r.randint(1, 4)):
                tab, _ = M.gen_table(r, S, T, V)
                cl = M.classify(r, shape, c['sd'], tab, True, bases)
                if cl is None:
                    continue
                vals = M.values_for(cl, tab, S, T, V)
                ents.append(['k%d' % ki, cl, vals[0] if cl == 'gconst' else vals])
            c['ents'] = ents
        ea = gen_affine(r)
        if r.random() < 0.5:
            # isotropic voxels: a permuted image can keep every agreement test satisfied
            z = r.choice([1.0, 2.0])
            P = np.zeros((3, 3))
            perm = list(range(3))
            r.shuffle(perm)
            for i in range(3):
                P[perm[i], i] = z * r.choice([1.0, 1.0, -1.0])
            ea[:3, :3] = P
        perm = list(range(3))
        if r.random() < 0.7:
            r.shuffle(perm)
        flips = [r.choice([1, 1, -1]) for _ in range(3)]
        ornt = np.array([[perm[i], flips[i]] for i in range(3)], dtype=float)
        c.update({'op': 'lookup_reoriented', 'eaff': [[float(x) for x in row] for row in ea],
                  'ornt': [[int(perm[i]), int(flips[i])] for i in range(3)], 'kind': 'reoriented'})
        try:
            ext = SM.build_parent(c, affine=ea)
            img = nb.Nifti1Image(np.zeros(shape, dtype=np.int16), ea)
            img.header.set_dim_info(slice=c['sd'])
            img.header.extensions.append(ext)
            img2 = img.as_reoriented(ornt)
            w = NiftiWrapper(img2)
        except Exception as e:
            rep.count('lookup/reoriented_build_failed:' + type(e).__name__)
            continue
        ishape = list(img2.shape)
        isd = img2.header.get_dim_info()[2]
        # new index -> index before the reorientation
        T = nb.orientations.inv_ornt_aff(ornt, shape[:3])
        rep.count('lookup/kind/reoriented')
        rep.count('lookup/reoriented/%s' % ('identity' if perm == [0, 1, 2] and flips == [1, 1, 1] else
                                            ('flip_only' if perm == [0, 1, 2] else
                                             ('perm_only' if flips == [1, 1, 1] else 'perm_flip'))))
        c['ishape'], c['isd'], c['flip'] = ishape, isd, False
        c['iaff'] = [[float(x) for x in row] for row in img2.affine]
        al = aligned_flag(w, c) if isd is not None else False
        ent = {e[0]: e for e in c['ents']}
        allidx = list(itertools.product(*[range(k) for k in ishape]))
        if len(allidx) > 40:
            allidx = r.sample(allidx, 40)
        for k, e in ent.items():
            cls = e[1]
            ks = [cls, [M.cv(e[2])] if cls == 'gconst' else [M.cv(x) for x in e[2]]]
            for index in allidx:
                got = call(w, k, index)
                rep.evaluations += 1
                rep.nontriv(['reoriented', shape, c['sd'], c['ornt'], cls, index])
                old = T.dot(np.array(list(index[:3]) + [1.0]))[:3]
                old = [int(round(x)) for x in old]
                s = old[c['sd']]
                t = index[3] if len(index) > 3 else 0
                v = index[4] if len(index) > 4 else 0
                truth = {'value': M.cv(M.ref_lookup(ext, k, s, t, v))}
                if got != 'default' and got != truth:
                    rep.failure('image reoriented with nibabel (ornt %s, extension unchanged): get_meta(%r, %r) returned %s; '
                                'the voxel came from slice %d whose value is %s' % (
                                    c['ornt'], k, index, json.dumps(got)[:80], s, json.dumps(truth)[:80]),
                                {'tag': 'lookup:reoriented:%s' % cls, 'suite': 'lookup', 'case': c, 'key': k,
                                 'index': list(index)})
                reqs.append({'op': 'get_meta', 'eshape': c['shape'], 'esd': c['sd'], 'ishape': ishape, 'isd': isd,
                             'aligned': al, 'ks': ks, 'index': [int(x) for x in index]})
                meta.append((c, k, index, got))


def main(pid, tier):
    rep = core.Report(pid, tier)
    rep.disagreements = []
    rep.trusted = [
        'Lean 4.33.0 kernel; standard axioms only (audited)',
        'model getMeta/metaValid (lean/DcmVerif/Model/Key.lean) tied to NiftiWrapper.get_meta/meta_valid by this sampled correspondence',
        'np.allclose of the slice direction (atol 1e-6) is a parameter (`aligned`) of the model, computed by numpy',
        'nibabel header dim_info / get_n_slices',
    ]
    rep.assumptions = ['negative index components are sent to the model as out-of-range naturals (the model indexes with Nat)']
    core.prove(rep, pid, THEOREMS)
    r = core.rng(pid)
    drv = core.Driver()
    ncases = 220 if tier == 'quick' else 4000
    co = rep.corr.setdefault('lookup', {'cases': 0, 'agree': 0, 'disagree': 0, 'skipped': 0})
    reqs, meta = [], []
    for ci in range(ncases):
        case = gen_case(r, tier)
        try:
            w, ext = build(case)
        except Exception as e:
            rep.count('lookup/build_failed')
            continue
        rep.count('lookup/kind/' + case['kind'])
        rep.sample({'suite': 'lookup', 'case': case}, cap=3)
        al = aligned_flag(w, case)
        good, bad = indices_for(r, case)
        keys = [e[0] for e in case['ents']] + ['absent_key']
        ent = {e[0]: e for e in case['ents']}
        matched = (case['kind'] == 'match' and case['sd'] is not None) or \
            (case['kind'] == 'other_affine' and case['sd'] is not None and al)
        for k in keys:
            cls = ent[k][1] if k in ent else None
            rep.count('lookup/class/%s' % cls)
            ks = None
            if k in ent:
                vals = ent[k][2]
                ks = [cls, [M.cv(vals)] if cls == 'gconst' else [M.cv(x) for x in vals]]
            for index in [None] + good + bad:
                got = call(w, k, index)
                rep.evaluations += 1
                if cls not in (None, 'gconst'):
                    rep.nontriv([case['shape'], case['sd'], case['ishape'], case['isd'], case['flip'], cls, index])
                # ---- model request (negatives -> out of range)
                midx = None
                if index is not None:
                    midx = [int(x) if x >= 0 else 10 ** 6 for x in index]
                reqs.append({'op': 'get_meta', 'eshape': case['shape'], 'esd': case['sd'],
                             'ishape': case['ishape'], 'isd': case['isd'], 'aligned': al, 'ks': ks, 'index': midx})
                meta.append((case, k, index, got))
                # ---- oracle
                exp = None
                if cls is None:
                    exp = 'default'
                elif cls == 'gconst':
                    exp = {'value': M.cv(ent[k][2])}
                elif matched:
                    if index is None:
                        exp = 'default'
                    elif len(index) != len(case['ishape']) or any(not (0 <= x < n) for x, n in zip(index, case['ishape'])):
                        exp = 'IndexError'
                    else:
                        s = index[case['sd']]
                        t = index[3] if len(index) > 3 else 0
                        v = index[4] if len(index) > 4 else 0
                        exp = {'value': M.cv(M.ref_lookup(ext, k, s, t, v))}
                elif affected(cls, case):
                    exp = 'default'
                if exp is not None and exp != got:
                    rep.failure('get_meta(%r, %r) returned %s, expected %s' % (k, index, json.dumps(got)[:80], json.dumps(exp)[:80]),
                                {'tag': 'lookup:%s:%s' % (case['kind'], cls), 'suite': 'lookup', 'case': case, 'key': k,
                                 'index': index})
        # meta_valid per class
        for cname, cl in M.CLS_INV.items():
            try:
                mv = bool(w.meta_valid(cl))
            except Exception as e:
                mv = 'EXC:' + type(e).__name__
            reqs.append({'op': 'meta_valid', 'eshape': case['shape'], 'esd': case['sd'], 'ishape': case['ishape'],
                         'isd': case['isd'], 'aligned': al, 'cls': cname})
            meta.append((case, cname, 'meta_valid', mv))
    reoriented_round(rep, r, tier, reqs, meta)
    answers = drv.ask(reqs)
    for a, (case, k, index, got) in zip(answers, meta):
        co['cases'] += 1
        if index == 'meta_valid':
            # classes that are not valid for the extension's shape are outside the model (KeyError etc.)
            if k not in M.ref_valid_classes(case['shape']):
                co['skipped'] += 1
                continue
            ok = (a == got)
        else:
            ok = (a == got)
        if ok:
            co['agree'] += 1
        else:
            co['disagree'] += 1
            rep.disagreements.append(('lookup', 'lookup:' + case['kind'], {'case': case, 'key': k, 'index': index},
                                      'model %s vs implementation %s' % (json.dumps(a)[:100], json.dumps(got)[:100])))
    # ---- long series: value lists longer than 2**15 (and, thorough, 2**16) entries — positions past what a 16-bit header field
    # can count still read their own value
    import nibabel as nb
    from dcmstack.dcmmeta import NiftiWrapper
    for shape in ([(1, 1, 40, 1000), (1, 2, 30, 300, 5)] + ([(1, 1, 70, 1000)] if tier == 'thorough' else [])):
        sd_ = 2
        S_, T_ = shape[2], shape[3]
        V_ = shape[4] if len(shape) > 4 else 1
        ext = M.build_ext(list(shape), sd_, [('SliceTag', 'gslices', list(range(S_ * T_ * V_))),
                                            ('VolTag', 'tsamples', list(range(T_ * V_)))])
        img = nb.Nifti1Image(np.zeros(shape, dtype=np.int8), np.eye(4))
        img.header.set_dim_info(slice=sd_)
        img.header.extensions.append(ext)
        w = NiftiWrapper(img)
        picks = [(0, 0, S_ - 1, T_ - 1) + ((V_ - 1,) if V_ > 1 else ()), (0, 0, 8, 819 % T_) + ((V_ - 1,) if V_ > 1 else ()),
                 (0, 0, 0, 0) + ((0,) if V_ > 1 else ())]
        for _ in range(12):
            picks.append((0, r.randrange(shape[1]), r.randrange(S_), r.randrange(T_)) + ((r.randrange(V_),) if V_ > 1 else ()))
        for index in picks:
            s_, t_ = index[2], index[3]
            v_ = index[4] if V_ > 1 else 0
            rep.evaluations += 1
            rep.count('lookup/long-series')
            want = {'SliceTag': s_ + S_ * (t_ + T_ * v_), 'VolTag': t_ + T_ * v_}
            for key_, exp_ in want.items():
                got = call(w, key_, index)
                if got != {'value': M.cv(exp_)}:
                    rep.failure('get_meta(%r, %s) on an image of shape %s returned %s, the value stored for that position is %s' % (
                        key_, index, shape, json.dumps(got)[:80], exp_),
                        {'tag': 'lookup:long-series', 'suite': 'lookup', 'shape': list(shape), 'key': key_, 'index': list(index)})
                    break
    # ---- a dictionary left over for a classification the shape does not allow (a time section in a 3-D extension or next to
    # a singular time axis, a vector section below 5-D): the format rules ignore it, and so does every lookup
    from collections import OrderedDict
    for shape, left in [((2, 2, 3), ['time', 'vector']), ((2, 2, 3, 2), ['vector']), ((2, 2, 3, 1, 2), ['time'])]:
        sd_ = 2
        S_ = shape[2]
        T_ = shape[3] if len(shape) > 3 else 1
        V_ = shape[4] if len(shape) > 4 else 1
        ents = [('Dup', 'gconst', 'good'), ('SliceTag', 'gslices', list(range(S_ * T_ * V_)))]
        if V_ > 1:
            ents.append(('DupV', 'vsamples', ['v%d' % i for i in range(V_)]))
        ext = M.build_ext(list(shape), sd_, ents)
        for base in left:
            ext._content[base] = OrderedDict([('samples', OrderedDict([('Dup', ['stale'] * 2), ('DupV', ['stale'] * 2), ('Only', ['stale'] * 2)])),
                                              ('slices', OrderedDict([('SliceTag', ['stale'] * (2 * S_)), ('OnlyS', ['stale'] * (2 * S_))]))])
        try:
            img = nb.Nifti1Image(np.zeros(shape, dtype=np.int8), np.eye(4))
            img.header.set_dim_info(slice=sd_)
            img.header.extensions.append(ext)
            w = NiftiWrapper(img)
        except Exception as e:
            rep.count('lookup/leftover-section-refused')
            continue
        for index in itertools.product(*[range(n) for n in shape]):
            rep.evaluations += 1
            rep.count('lookup/leftover-section')
            s_ = index[2]
            t_ = index[3] if len(shape) > 3 else 0
            v_ = index[4] if len(shape) > 4 else 0
            want = {'Dup': {'value': M.cv('good')}, 'SliceTag': {'value': M.cv(s_ + S_ * (t_ + T_ * v_))}, 'Only': 'default', 'OnlyS': 'default'}
            if V_ > 1:
                want['DupV'] = {'value': M.cv('v%d' % v_)}
            bad_ = [(k_, call(w, k_, index)) for k_ in want if call(w, k_, index) != want[k_]]
            if bad_:
                rep.failure('extension of shape %s with a left-over %s section: get_meta(%r, %s) returned %s, the valid classifications say %s' % (
                    shape, '/'.join(left), bad_[0][0], index, json.dumps(bad_[0][1])[:80], json.dumps(want[bad_[0][0]])[:80]),
                    {'tag': 'lookup:leftover-section', 'suite': 'lookup', 'shape': list(shape), 'leftover': left, 'key': bad_[0][0], 'index': list(index)})
                break
    from .check_meta import finish_disagreements
    finish_disagreements(rep)
    return rep.finish()
