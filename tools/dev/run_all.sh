#!/bin/bash
# usage: run_all.sh <tier> <seed> [ids...]  -- runs the checks one after another, prints the summary lines;
# its log directory is private to this invocation and removed at the end (KEEP_LOGS=1 keeps it)
tier=${1:-quick}; seed=${2:-0}; shift 2
ids=${@:-C01 C02 C03 C04 C05 C06 C07 C08 C09 C10 C11 C12 C13 C14 C15 C16 C17 C18 C19 C20}
cd "$(dirname "$0")/../.."
logd=$(mktemp -d /tmp/runall.XXXXXX)
for p in $ids; do
  s=$(date +%s)
  VERIF_SEED=$seed timeout 7200 tools/check $p $tier > $logd/$p.log 2>&1
  rc=$?
  echo "$p rc=$rc $(( $(date +%s) - s ))s $(grep -v KNOWN $logd/$p.log | tail -1)"
  grep '^VIOLATION' $logd/$p.log
  if [ $rc -ne 0 ]; then tail -15 $logd/$p.log; fi
done
if [ -n "$KEEP_LOGS" ]; then echo "logs in $logd"; else rm -rf "$logd"; fi
