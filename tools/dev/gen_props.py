"""one-off helper used to seed lean/DcmVerif/Props/*.lean: copies theorem statements and proves them by reference.
usage: gen_props.py <pid> <proofs file> <namespace prefix, e.g. _root_. or Orient.> <import module> new=orig ..."""
import re,sys
SRCFILE=sys.argv[2]; NS=sys.argv[3]; IMPORT=sys.argv[4]
src=open(SRCFILE).read()
def get_stmt(name):
    m=re.search(r'^((?:/--(?:(?!-/).)*-/\s*)?)(?:omit[^\n]*\n)?theorem '+re.escape(name)+r"(?![\w?'.])", src, re.M|re.S)
    assert m, name
    start=m.end()
    depth=0; i=start; end=None
    while i < len(src):
        ch=src[i]
        if ch in '([{⟨': depth+=1
        elif ch in ')]}⟩': depth-=1
        elif depth==0 and src.startswith(':=', i):
            end=i; break
        i+=1
    # doc
    doc=m.group(1)
    return doc, src[start:end]
def split_binders(text):
    # returns (binders_text, type_text, explicit names)
    depth=0; i=0; names=[]
    n=len(text)
    while i<n:
        ch=text[i]
        if ch in '([{': 
            # find matching
            open_ch=ch; close={'(':')','[':']','{':'}'}[ch]
            d=0; j=i
            while j<n:
                if text[j] in '([{': d+=1
                elif text[j] in ')]}':
                    d-=1
                    if d==0: break
                j+=1
            grp=text[i+1:j]
            if open_ch=='(':
                nm=grp.split(':')[0].split()
                names+=nm
            i=j+1
        elif ch==':':
            return text[:i], text[i+1:], names
        else:
            i+=1
    raise Exception('no colon')
def emit(newname, orig):
    doc,stmt=get_stmt(orig)
    b,t,names=split_binders(stmt)
    return f"{doc}theorem {newname}{b.rstrip()} :{t.rstrip()} :=\n  {NS}{orig} {' '.join(names)}\n"
if __name__=='__main__':
    pid=sys.argv[1]
    pairs=[a.split('=') for a in sys.argv[5:]]
    out=f"import {IMPORT}\n/-! Property theorems for {pid}. Statements only; proofs are by reference to `Proofs/`. -/\nset_option autoImplicit false\nopen Cls\n\nnamespace {pid}\nvariable {{α : Type}} [DecidableEq α]\n" + (f"open {NS[:-1]}\n" if NS not in ("_root_.",) else "") + "\n"
    for new,orig in pairs:
        out+=emit(new,orig)+"\n"
    out+=f"end {pid}\n"
    open(f'/verif/lean/DcmVerif/Props/{pid}.lean','w').write(out)
