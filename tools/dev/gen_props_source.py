"""seeds lean/DcmVerif/Props/Source.lean from Proofs/Code.lean (statements copied, proofs by reference)"""
import sys, os
sys.argv = ['x', 'C00', '/verif/lean/DcmVerif/Proofs/Code.lean', 'Src.', 'DcmVerif.Proofs.Code']
sys.path.insert(0, os.path.dirname(__file__))
import gen_props as G
pairs = [('get_valid_classes_is_model', 'get_valid_classes_eq'), ('get_valid_classes_refuses', 'get_valid_classes_refuses'),
         ('get_multiplicity_is_model', 'get_multiplicity_eq'), ('file_idx_is_model', 'file_idx_eq'),
         ('file_idx_volume_is_model', 'file_idx_volume_eq'), ('get_meta_index_is_model', 'get_meta_index_eq'),
         ('is_constant_is_model', 'is_constant_eq'), ('is_repeating_is_model', 'is_repeating_eq'),
         ('get_const_period_is_model', 'get_const_period_eq'), ('meta_valid_is_model', 'meta_valid_eq'),
         ('get_shape_counts_is_model', 'get_shape_counts_eq'), ('accept_is_counts_and_order', 'acceptB_counts'),
         ('get_data_trim_is_model', 'get_data_trim_eq')]
out = ("import DcmVerif.Proofs.Code\n/-! The tie by proof: functions translated from the Python source on every run (`tools/gen_code.py` →\n"
       "`Generated/Code.lean`) are the model functions the property theorems speak about. Statements only;\nproofs are by reference to `Proofs/Code.lean`. -/\n"
       "set_option autoImplicit false\nset_option linter.unusedVariables false\nopen Cls\n\nnamespace Source\nvariable {α κ : Type}\nopen Src Stk\n\n")
for new, orig in pairs:
    out += G.emit(new, orig) + "\n"
out += "/-- the translator translated every function it is asked for -/\ntheorem translator_complete : Gen.codeMissing = [] := rfl\n\nend Source\n"
open('/verif/lean/DcmVerif/Props/Source.lean', 'w').write(out)
print(len(pairs) + 1, 'theorems')
