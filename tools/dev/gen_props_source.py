"""seeds lean/DcmVerif/Props/Source_<group>.lean from Proofs/Code_<group>.lean
(statements copied, proofs by reference)"""
import sys, os, importlib
sys.path.insert(0, os.path.dirname(__file__))
GROUPS = {
 'classes': ('dcmmeta.py: get_valid_classes, get_multiplicity',
   [('get_valid_classes_is_model', 'get_valid_classes_eq'), ('get_valid_classes_refuses', 'get_valid_classes_refuses'),
    ('get_multiplicity_is_model', 'get_multiplicity_eq')]),
 'dicts': ('dcmmeta.py: make_empty (base dictionaries), get_classification, get_values_and_class, get_values',
   [('make_empty_bases_is_model', 'make_empty_bases_eq'), ('get_values_and_class_is_lookup', 'get_values_and_class_eq'),
    ('get_values_is_lookup', 'get_values_eq')]),
 'simplify': ('dcmmeta.py: _simplify, _get_const_period, is_constant, is_repeating',
   [('is_constant_is_model', 'is_constant_eq'), ('is_repeating_is_model', 'is_repeating_eq'),
    ('get_const_period_is_model', 'get_const_period_eq'), ('simplify_is_model', 'simplify_eq')]),
 'lookup': ('dcmmeta.py: NiftiWrapper.get_meta, meta_valid',
   [('get_meta_index_is_model', 'get_meta_index_eq'), ('meta_valid_is_model', 'meta_valid_eq'), ('get_meta_is_model', 'get_meta_eq')]),
 'valid': ('dcmmeta.py: DcmMetaExtension.check_valid', [('check_valid_is_model', 'check_valid_eq')]),
 'shapes': ('dcmmeta.py: result shapes of get_subset / from_sequence',
   [('subset_shape_is_model', 'subset_shape_eq'), ('merge_shape_is_model', 'merge_shape_eq')]),
 'wrapsplit': ('dcmmeta.py: NiftiWrapper.split index expressions',
   [('split_specs_is_model', 'split_specs_eq'), ('split_trim_is_model', 'split_trim_eq')]),
 'wrapmerge': ('dcmmeta.py: NiftiWrapper.from_sequence index expressions',
   [('wrap_merge_shape_is_model', 'wrap_merge_shape_eq'), ('fill_specs_is_model', 'fill_specs_eq')]),
 'stack': ('dcmstack.py: DicomStack.get_shape / _chk_order',
   [('get_shape_counts_is_model', 'get_shape_counts_eq'), ('accept_is_counts_and_order', 'acceptB_counts'),
    ('chk_order_check_is_cellwise', 'chk_order_check_eq'), ('cells_are_model_blocks', 'cells_eq_chunks'),
    ('get_shape_accepts_iff_model', 'source_accepts_iff')]),
 'values': ('dcmmeta.py: value-list arithmetic of get_subset / from_sequence (_get_changed_class, _copy_slice, _global_slice_subset, the interleaving of _insert_slice / _insert_sample)',
   [('get_changed_class_is_model', 'get_changed_class_eq'), ('copy_slice_dest_is_model', 'copy_slice_dest_eq'),
    ('copy_slice_vals_is_model', 'copy_slice_vals_eq'), ('copy_slice_vals_zero_div', 'copy_slice_vals_zero_div'),
    ('global_slice_subset_is_model', 'global_slice_subset_eq'),
    ('insert_slice_interleave_is_model', 'insert_slice_interleave_eq'), ('insert_sample_interleave_is_model', 'insert_sample_interleave_eq'),
    ('slice_step_is_model', 'pyStep_eq'), ('get_changed_class_no_slice_dim_is_model', 'get_changed_class_none_eq')]),
 'insert': ('dcmmeta.py: per-key dictionary edits of merges (_change_class, _insert_slice, _insert_non_slice, _insert_sample)',
   [('change_class_is_model', 'change_class_eq'), ('reclassify_is_model', 'reclassify_eq'), ('insert_dispatch_is_model', 'insert_dispatch_eq'), ('insert_slice_is_model', 'insert_slice_eq'),
    ('insert_non_slice_is_model', 'insert_non_slice_eq'), ('insert_sample_is_model', 'insert_sample_eq')]),
 'subset': ('dcmmeta.py: get_subset for one key of the parent (class dispatch, _copy_slice, _copy_sample)',
   [('copy_slice_is_model', 'copy_slice_eq'), ('copy_sample_is_model', 'copy_sample_eq'),
    ('get_subset_slice_axis_is_model', 'get_subset_key_slice_eq'), ('get_subset_spatial_axis_copies', 'get_subset_key_spatial_eq'),
    ('get_subset_sample_axis_is_model', 'get_subset_key_sample_eq')]),
 'extract': ('extract.py: the default ignore rules of MetaExtractor',
   [('ignore_private_is_model', 'ignore_private_eq'), ('ignore_pixel_data_is_model', 'ignore_pixel_data_eq'),
    ('ignore_overlay_data_is_model', 'ignore_overlay_data_eq'), ('ignore_color_lut_data_is_model', 'ignore_color_lut_data_eq')]),
 'cli': ('dcmstack_cli.py: the naming of output files in main',
   [('cli_out_name_is_model', 'cli_out_name_eq')]),
 'group': ('dcmstack.py: the placement step of parse_and_group',
   [('group_place_is_model', 'group_place_eq'), ('group_place_keeps_keys_distinct', 'place_nodup')]),
 'content': ('dcmmeta.py: filter_meta, clear_slice_meta, get_keys',
   [('filter_meta_filters_every_valid_dictionary', 'filter_meta_eq'), ('filter_meta_is_model', 'filter_meta_model'),
    ('clear_slice_meta_is_model', 'clear_slice_meta_model'), ('get_keys_is_model', 'get_keys_model')]),
 'insertall': ('dcmmeta.py: _insert as a whole',
   [('insert_leaves_other_unchanged', 'insert_whole_eq'), ('insert_on_model_extension', 'insert_whole_on_ext'),
    ('insert_treats_keys_independently', 'insert_try_per_key'),
    ('insert_treats_keys_independently_on_model_extension', 'insert_try_per_key_on_ext'),
    ('insert_key_step_non_slice_is_model', 'keyStep_non_slice_eq'), ('insert_key_step_slice_is_model', 'keyStep_slice_eq'),
    ('insert_key_step_sample_is_model', 'keyStep_sample_eq'), ('insert_try_ends_normally_when_steps_do', 'insert_try_ok')]),
 'filter': ('dcmstack.py: make_key_regex_filter and its inner function',
   [('key_regex_filter_is_model', 'key_regex_filter_eq')]),
 'orient': ('dcmstack.py: the voxel_order checks of reorder_voxels',
   [('check_voxel_order_is_model', 'check_voxel_order_eq')]),
 'phoenix': ('extract.py: _parse_phoenix_line, parse_phoenix_prot',
   [('parse_phoenix_line_is_model', 'parse_phoenix_line_eq'), ('parse_phoenix_prot_is_model', 'parse_phoenix_prot_eq')]),
 'header': ('dcmstack.py: repetition time, dim_info and slice timing in DicomStack.to_nifti',
   [('header_slice_times_is_model', 'header_slice_times_eq'), ('header_dim_info_is_model', 'header_dim_info_eq')]),
 'stackadd': ('dcmstack.py: DicomStack.add_dcm, _chk_congruent, _chk_close, _chk_equal',
   [('chk_congruent_is_model', 'chk_congruent_eq'), ('add_dcm_is_model', 'add_dcm_eq')]),
 'data': ('dcmstack.py: DicomStack.get_data',
   [('file_idx_is_model', 'file_idx_eq'), ('file_idx_volume_is_model', 'file_idx_volume_eq'),
    ('get_data_trim_is_model', 'get_data_trim_eq')]),
}
EXTRA = {'content': 'variable [DecidableEq κ]\n', 'insertall': 'variable [DecidableEq κ] [DecidableEq α]\n', 'subset': 'variable [DecidableEq α]\n', 'filter': 'variable {ρ : Type}\n', 'group': 'variable {E V : Type} [DecidableEq E]\n'}
OPENS = {'extract': 'Src Ex', 'cli': 'Src Cli', 'group': 'Src Grp', 'orient': 'Src Orient', 'phoenix': 'Src Phx', 'header': 'Src Stk', 'stackadd': 'Src Stk', 'stack': 'Src Stk', 'data': 'Src Stk Wrap', 'wrapsplit': 'Src Wrap', 'wrapmerge': 'Src Wrap'}
for grp, (srcfile, pairs) in GROUPS.items():
    mod = 'Code_' + grp
    sys.argv = ['x', 'C00', '/verif/lean/DcmVerif/Proofs/%s.lean' % mod, 'Src.', 'DcmVerif.Proofs.%s' % mod]
    import gen_props as G
    importlib.reload(G)
    out = ("import DcmVerif.Proofs.%s\n/-! The tie by proof (%s): functions translated from the Python source on every run\n"
           "(`tools/gen_code.py` → `Generated/%s.lean`) are the model functions the property theorems speak about.\n"
           "Statements only; proofs are by reference to `Proofs/%s.lean`. One file per function group, so that an edit\n"
           "of one function only unsettles the properties that depend on it. -/\n"
           "set_option autoImplicit false\nset_option linter.unusedVariables false\nopen Cls\n\nnamespace Source\nvariable {α κ : Type}\nopen %s\n%s\n"
           % (mod, srcfile, mod, mod, OPENS.get(grp, "Src"), EXTRA.get(grp, "")))
    for new, orig in pairs:
        out += G.emit(new, orig) + "\n"
    out += ("/-- the translator translated every function of this group (%s) -/\ntheorem translator_complete_%s : Gen.codeMissing_%s = [] := rfl\n\nend Source\n"
            % (srcfile, grp, grp))
    open('/verif/lean/DcmVerif/Props/Source_%s.lean' % grp, 'w').write(out)
    print(grp, len(pairs) + 1, 'theorems')
