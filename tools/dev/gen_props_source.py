"""seeds lean/DcmVerif/Props/SourceMeta.lean and SourceStack.lean from Proofs/CodeMeta.lean / CodeStack.lean
(statements copied, proofs by reference)"""
import sys, os, importlib
sys.path.insert(0, os.path.dirname(__file__))
GROUPS = {
 'Meta': ('CodeMeta', 'codeMissingMeta', 'dcmmeta.py',
          [('get_valid_classes_is_model', 'get_valid_classes_eq'), ('get_valid_classes_refuses', 'get_valid_classes_refuses'),
           ('get_multiplicity_is_model', 'get_multiplicity_eq'), ('get_meta_index_is_model', 'get_meta_index_eq'),
           ('is_constant_is_model', 'is_constant_eq'), ('is_repeating_is_model', 'is_repeating_eq'),
           ('get_const_period_is_model', 'get_const_period_eq'), ('meta_valid_is_model', 'meta_valid_eq'), ('check_valid_is_model', 'check_valid_eq'), ('subset_shape_is_model', 'subset_shape_eq'), ('merge_shape_is_model', 'merge_shape_eq')]),
 'Stack': ('CodeStack', 'codeMissingStack', 'dcmstack.py',
           [('file_idx_is_model', 'file_idx_eq'), ('file_idx_volume_is_model', 'file_idx_volume_eq'),
            ('get_shape_counts_is_model', 'get_shape_counts_eq'), ('accept_is_counts_and_order', 'acceptB_counts'),
            ('get_data_trim_is_model', 'get_data_trim_eq'), ('chk_order_check_is_cellwise', 'chk_order_check_eq'), ('cells_are_model_blocks', 'cells_eq_chunks'), ('get_shape_accepts_iff_model', 'source_accepts_iff')]),
}
for grp, (mod, missing, srcfile, pairs) in GROUPS.items():
    sys.argv = ['x', 'C00', '/verif/lean/DcmVerif/Proofs/%s.lean' % mod, 'Src.', 'DcmVerif.Proofs.%s' % mod]
    import gen_props as G
    importlib.reload(G)
    out = ("import DcmVerif.Proofs.%s\n/-! The tie by proof (%s): functions translated from the Python source on every run\n"
           "(`tools/gen_code.py` → `Generated/Code.lean`) are the model functions the property theorems speak about.\n"
           "Statements only; proofs are by reference to `Proofs/%s.lean`. -/\n"
           "set_option autoImplicit false\nset_option linter.unusedVariables false\nopen Cls\n\nnamespace Source\nvariable {α κ : Type}\nopen Src Stk\n\n"
           % (mod, srcfile, mod))
    for new, orig in pairs:
        out += G.emit(new, orig) + "\n"
    out += ("/-- the translator translated every function of %s it is asked for -/\ntheorem translator_complete_%s : Gen.%s = [] := rfl\n\nend Source\n"
            % (srcfile, grp.lower(), missing))
    open('/verif/lean/DcmVerif/Props/Source%s.lean' % grp, 'w').write(out)
    print(grp, len(pairs) + 1, 'theorems')
