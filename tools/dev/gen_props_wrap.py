"""seeds lean/DcmVerif/Props/Cxx_wrap.lean from Proofs/Wrap.lean (statements copied, proofs by reference)"""
import sys, os
sys.argv = ['x', 'C00', '/verif/lean/DcmVerif/Proofs/Wrap.lean', 'Wrap.', 'DcmVerif.Proofs.Wrap']
sys.path.insert(0, os.path.dirname(__file__))
import gen_props as G
FILES = {
 'C03': [('merge_data_stacked', "mergeData_spec'"), ('merge_data_refuses', 'mergeData_refuses'),
         ('merge_accept_iff', 'mergeAccept_iff'), ('merge_refuses_orientation', 'merge_refuses_orientation'),
         ('merge_refuses_position', 'merge_refuses_position'), ('merge_affine_consistent', 'mergeAff_consistent')],
 'C04': [('split_data_hyperplane', 'splitData_spec'), ('split_piece_count', 'splitAll_length'),
         ('split_piece_order', 'splitAll_get'), ('split_affine', 'splitAffs_get'),
         ('split_affine_voxel', 'shift_apply'), ('split_piece_header', 'pieceHdr_best')],
 'C05': [('merge_split_data', 'merge_split_data'), ('merge_split_affine', 'merge_split_affs')],
 'C02': [('stack_fill', 'stackFill_el'), ('stack_data_trim', 'stackData_el'), ('stack_affine', 'stackAff_consistent')],
}
EXAMPLES = {
 'C03': """/-- non-vacuity: three axial slices 4 mm apart are accepted along axis 2, the same slices with the
    last two swapped are refused, and the merged affine has the 4 mm step as its slice column -/
example :
    let A (z : Int) : Aff := ⟨⟨2, 0, 0⟩, ⟨0, 3, 0⟩, ⟨0, 0, 4⟩, ⟨10, 20, z⟩⟩
    mergeAccept [A 30, A 34, A 38] 2 = true ∧ mergeAccept [A 30, A 38, A 34] 2 = false ∧
    mergeAccept [A 30, A 30] 2 = false ∧
    mergeAff [A 30, A 34, A 38] 2 = some ⟨⟨2, 0, 0⟩, ⟨0, 3, 0⟩, ⟨0, 0, 4⟩, ⟨10, 20, 30⟩⟩ := by decide

""",
 'C05': """/-- non-vacuity: the hypotheses of `merge_split_affine` hold for a qform-only header -/
example : let h : Hdr := ⟨none, some ⟨⟨2, 0, 0⟩, ⟨0, 3, 0⟩, ⟨0, 0, 4⟩, ⟨10, 20, 30⟩⟩, ⟨⟨1, 0, 0⟩, ⟨0, 1, 0⟩, ⟨0, 0, 1⟩, ⟨0, 0, 0⟩⟩⟩
    (2 < 3 → h.best.col 2 ≠ V3.zero) ∧
    splitAffs h 2 3 = [⟨⟨2, 0, 0⟩, ⟨0, 3, 0⟩, ⟨0, 0, 4⟩, ⟨10, 20, 30⟩⟩, ⟨⟨2, 0, 0⟩, ⟨0, 3, 0⟩, ⟨0, 0, 4⟩, ⟨10, 20, 34⟩⟩,
      ⟨⟨2, 0, 0⟩, ⟨0, 3, 0⟩, ⟨0, 0, 4⟩, ⟨10, 20, 38⟩⟩] := by decide

""",
}
for pid, pairs in FILES.items():
    out = ("import DcmVerif.Proofs.Wrap\n/-! Property theorems for %s at wrapper level (voxel data, affines). Statements only; proofs are by "
           "reference to `Proofs/Wrap.lean`. -/\nset_option autoImplicit false\n\nnamespace %s\nvariable {α : Type}\nopen Wrap\n\n" % (pid, pid))
    for new, orig in pairs:
        out += G.emit(new, orig) + "\n"
    out += EXAMPLES.get(pid, '') + "end %s\n" % pid
    open('/verif/lean/DcmVerif/Props/%s_wrap.lean' % pid, 'w').write(out)
    print(pid, [n for n, _ in pairs])
