#!/usr/bin/env python3
"""Re-run every kept seeded change against the current checks.

For each /verif/seeded/<id>/: git -C /repo apply patch.diff; run the quick check of its property
(and of the checks recorded in meta.json's caught_by); git -C /repo checkout -- .
Prints one line per seed and exits 1 if a seed is no longer caught by its own property's check.
"""
import os, sys, json, subprocess
REPO = os.environ.get('DCMSTACK_REPO', '/repo')
VERIF = os.path.normpath(os.path.join(os.path.dirname(os.path.abspath(__file__)), '..', '..'))


def sh(cmd, **k):
    p = subprocess.run(cmd, stdout=subprocess.PIPE, stderr=subprocess.STDOUT, text=True, **k)
    return p.returncode, p.stdout


def main():
    own = '--own' in sys.argv        # only the check of the seed's own property
    only = [a for a in sys.argv[1:] if not a.startswith('--')]
    bad = 0
    if sh(['git', '-C', REPO, 'status', '--short'])[1].strip():
        print('/repo not clean'); return 2
    for sid in sorted(os.listdir(os.path.join(VERIF, 'seeded'))):
        d = os.path.join(VERIF, 'seeded', sid)
        mp = os.path.join(d, 'meta.json')
        if not os.path.exists(mp) or (only and not any(sid.startswith(o) for o in only)):
            continue
        meta = json.load(open(mp))
        checks = [meta['property']] if own else sorted(set([meta['property']] + list(meta.get('caught_by', []))))
        rc, out = sh(['git', '-C', REPO, 'apply', os.path.join(d, 'patch.diff')])
        if rc != 0:
            print(sid, 'patch does not apply'); bad += 1; continue
        res = {}
        try:
            for c in checks:
                rc, out = sh([os.path.join(VERIF, 'tools', 'check'), c, 'quick'], cwd=VERIF)
                nf = any(l.startswith('VIOLATION') and l.rstrip().endswith('no-failing-input-found') for l in out.splitlines())
                res[c] = {0: 'MISSED', 1: 'caught' + ('(no-input)' if nf else ''), 2: 'CRASH'}.get(rc, 'rc%d' % rc)
        finally:
            sh(['git', '-C', REPO, 'checkout', '--', '.'])
            sh(['git', '-C', VERIF, 'checkout', '--', 'evidence'])
        ok = res.get(meta['property'], '').startswith('caught')
        bad += 0 if ok else 1
        print(sid, ' '.join('%s=%s' % kv for kv in sorted(res.items())), '' if ok else '  <-- own property check does not catch it')
    return 1 if bad else 0


if __name__ == '__main__':
    sys.exit(main())
