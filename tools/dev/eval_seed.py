#!/usr/bin/env python3
"""Confirm a seeded change and run the checks against it.

usage: eval_seed.py <seed id> <dir with patch.diff and demo_break.py> <property> [checks to run ...]

1. scratch worktree of /repo (outside /repo and /verif): apply the patch, run the pinned test
   suite (all 88 stable tests must still pass), run the demonstration with and without the patch;
2. apply the patch to /repo, run the listed checks (default: the property's own), undo;
3. write /verif/seeded/<id>/{patch.diff, demo_break.py, meta.json}.
"""
import sys, os, json, subprocess, shutil, tempfile, re, time
import xml.etree.ElementTree as ET

VERIF = os.path.normpath(os.path.join(os.path.dirname(os.path.abspath(__file__)), '..', '..'))


def sh(cmd, cwd=None, env=None, timeout=3600):
    p = subprocess.run(cmd, cwd=cwd, env=env, shell=isinstance(cmd, str), stdout=subprocess.PIPE,
                       stderr=subprocess.STDOUT, text=True, timeout=timeout)
    return p.returncode, p.stdout


def stable_ok(tree):
    base = json.load(open('/root/.vp/BASELINE.json'))['stable_pass']
    junit = os.path.join(tempfile.gettempdir(), 'seed_junit_%d.xml' % os.getpid())
    sh(['/venv/bin/python', '-m', 'pytest', '-q', '-p', 'no:cacheprovider', '--timeout=900',
        '--continue-on-collection-errors', '--junitxml=' + junit], cwd=tree)
    passed = set()
    try:
        for tc in ET.parse(junit).iter('testcase'):
            if not any(c.tag in ('failure', 'error', 'skipped') for c in tc):
                passed.add(tc.get('classname') + '::' + tc.get('name'))
    finally:
        if os.path.exists(junit):
            os.remove(junit)
    missing = [x for x in base if x not in passed]
    return missing, len(passed)


def main():
    sid, src, prop = sys.argv[1], sys.argv[2], sys.argv[3]
    checks = sys.argv[4:] or [prop]
    patch = os.path.join(src, 'patch.diff')
    demo = os.path.join(src, 'demo_break.py')
    meta = {'id': sid, 'property': prop, 'checks_run': checks, 'at': time.strftime('%Y-%m-%dT%H:%M:%SZ', time.gmtime())}
    wt = tempfile.mkdtemp(prefix='seedcheck_')
    shutil.rmtree(wt)
    rc, out = sh(['git', '-C', '/repo', 'worktree', 'add', '--detach', '-q', wt, 'HEAD'])
    try:
        env = dict(os.environ, PYTHONPATH=os.path.join(wt, 'src'))
        shutil.copy(demo, os.path.join(wt, 'demo_break.py'))
        rc0, o0 = sh(['/venv/bin/python', 'demo_break.py'], cwd=wt, env=env)
        rca, oa = sh(['git', 'apply', patch], cwd=wt)
        if rca != 0:
            print('patch does not apply:', oa)
            meta['confirmed'] = False
            meta['why'] = 'patch does not apply to /repo HEAD: ' + oa[-300:]
        else:
            rc1, o1 = sh(['/venv/bin/python', 'demo_break.py'], cwd=wt, env=env)
            missing, npass = stable_ok(wt)
            meta['demo_rc_unchanged'] = rc0
            meta['demo_rc_changed'] = rc1
            meta['demo_output_changed_tail'] = o1[-600:]
            meta['stable_tests_missing_after_change'] = missing
            meta['tests_passing_after_change'] = npass
            meta['confirmed'] = (rc0 == 0 and rc1 != 0 and not missing)
    finally:
        sh(['git', '-C', '/repo', 'worktree', 'remove', '--force', wt])
        shutil.rmtree(wt, ignore_errors=True)
    print(json.dumps({k: meta[k] for k in meta if k != 'demo_output_changed_tail'}, indent=1))
    results = {}
    if meta.get('confirmed'):
        rc, out = sh(['git', '-C', '/repo', 'apply', patch])
        try:
            for c in checks:
                t0 = time.time()
                rc, out = sh([os.path.join(VERIF, 'tools', 'check'), c, 'quick'], cwd=VERIF)
                viol = [l for l in out.splitlines() if l.startswith('VIOLATION')]
                what = []
                for l in viol[:3]:
                    m = re.search(r'replay=(\S+)', l)
                    if m and os.path.exists(m.group(1)):
                        try:
                            what.append(json.load(open(m.group(1)))['what'][:300])
                        except Exception:
                            pass
                results[c] = {'exit': rc, 'violations': viol[:3], 'what': what, 'wall_s': round(time.time() - t0, 1),
                              'summary': out.strip().splitlines()[-1][:200] if out.strip() else ''}
                print(c, 'exit', rc, viol[:2], what[:1])
        finally:
            sh(['git', '-C', '/repo', 'checkout', '--', '.'])
            # the evidence files written while the change was applied describe the changed tree
            sh(['git', '-C', VERIF, 'checkout', '--', 'evidence'])
    meta['check_results'] = results
    meta['caught_by'] = sorted(c for c, r in results.items() if r['exit'] == 1)
    d = os.path.join(VERIF, 'seeded', sid)
    os.makedirs(d, exist_ok=True)
    shutil.copy(patch, os.path.join(d, 'patch.diff'))
    shutil.copy(demo, os.path.join(d, 'demo_break.py'))
    prev = {}
    mp = os.path.join(d, 'meta.json')
    if os.path.exists(mp):
        prev = json.load(open(mp))
    for k in ('needs', 'author', 'notes'):
        if k in prev:
            meta[k] = prev[k]
    json.dump(meta, open(mp, 'w'), indent=1)
    rc, out = sh(['git', '-C', '/repo', 'status', '--short'])
    if out.strip():
        print('WARNING /repo not clean:', out)


if __name__ == '__main__':
    main()
