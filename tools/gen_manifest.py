#!/usr/bin/env python3
"""Writes /verif/MANIFEST.json from the table below (kept in one place so that it stays valid)."""
import json, sys as _sys, os as _os
_sys.path.insert(0, _os.path.join(_os.path.dirname(_os.path.abspath(__file__)), 'harness'))
GROUP_FUNCS = {
    'classes': 'get_valid_classes, get_multiplicity', 'simplify': '_simplify, _get_const_period, is_constant, is_repeating',
    'dicts': 'the base dictionaries of make_empty, get_classification / get_values_and_class',
    'lookup': 'get_meta, meta_valid', 'valid': 'check_valid', 'shapes': 'the result shapes of get_subset / from_sequence',
    'values': '_get_changed_class, _global_slice_subset, the value arithmetic of _copy_slice and of the interleaving loops',
    'insert': '_change_class, the reclassification and dispatch of _insert, _insert_slice, _insert_non_slice, _insert_sample',
    'subset': 'the class dispatch of get_subset, _copy_slice, _copy_sample',
    'wrapsplit': 'the index expressions and trimming loop of NiftiWrapper.split',
    'wrapmerge': 'the result shape and fill slices of NiftiWrapper.from_sequence',
    'stack': 'the count checks of get_shape, the thorough check of _chk_order', 'stackadd': 'add_dcm, _chk_congruent, _chk_close, _chk_equal',
    'phoenix': '_parse_phoenix_line, parse_phoenix_prot',
    'extract': 'the four default ignore rules of MetaExtractor',
    'cli': 'the naming of output files in dcmstack_cli.main',
    'group': 'the placement step of parse_and_group',
    'filter': 'make_key_regex_filter with its inner function',
    'insertall': '_insert as a whole (setting the per-slice dictionaries of other aside and back around the try block, the loops over classifications and keys)',
    'content': 'filter_meta, clear_slice_meta, get_keys (whole methods over the nested dictionaries)',
    'orient': 'the voxel_order checks of reorder_voxels',
    'header': 'the repetition-time, dim_info and slice-timing blocks of to_nifti', 'data': 'the trimming block and file index expressions of get_data'}


def tie_text(pid):
    try:
        import source_groups as SG
    except Exception:
        return ''
    gs = SG.DEPS.get(pid, [])
    if not gs:
        return ''
    return (' Tie by proof: ' + '; '.join(GROUP_FUNCS[g] for g in gs) + ' are translated from the Python source on every run '
            '(tools/gen_code.py) and proved equal to the model functions these theorems are about (Props/Source_{' + ','.join(gs) + '}.lean); '
            'an edit of one of them re-opens exactly these obligations.')


import os

HERE = os.path.dirname(os.path.abspath(__file__))
VERIF = os.path.normpath(os.path.join(HERE, '..'))

BASE_NOTE = ('Trusted: Lean 4.33.0 kernel, axioms within {propext, Classical.choice, Quot.sound} (audited by '
             '#print axioms on every run; no sorry/admit/native_decide/bv_decide/own axioms), the translator '
             'tools/gen_tables.py for the named tables and tools/gen_code.py for the functions it translates statement by statement (get_valid_classes, get_multiplicity, the index block of get_meta, the file_idx expressions of get_data: proved equal to the model functions on every run), and the sampled differential correspondence between the rest of the '
             'hand-written Lean model and /repo (generators, canonicalisers, driver JSON decoding). CPython, numpy, '
             'nibabel, pydicom semantics are modelled as parameters, not verified.')

CLAIMED = {
    'C03': dict(
        technique='Lean 4 theorems (induction over inputs and value lists) about an executable model + differential correspondence + oracle search',
        text='Per key and for every number of inputs, shape, classification mix and value list, the Lean model of from_sequence/_insert/_insert_slice/_insert_sample/_insert_non_slice/_get_changed_class is proved to concatenate lookups (slice, time, vector axes), to keep exactly the agreeing keys on non-slice axes and to yield valid results, and the merges are proved unable to raise for valid inputs in those regions (merge_*_total); the model is tied to dcmmeta.py by running both on generated merges (all axes, 3-5 D, canonical and non-canonical inputs, missing keys, differing slice normals) and the property itself is searched for a failing input on the implementation. Voxel data and geometry (Model/Wrap.lean): for any number of inputs of one shape the fill loop of NiftiWrapper.from_sequence is proved to put input i at position i of the merge axis voxel by voxel (merge_data_stacked, loop invariant by induction); the acceptance loop is proved to accept iff every input has the first input\'s axes and lies strictly ahead of its predecessor along the merge axis (merge_accept_iff, merge_refuses_orientation, merge_refuses_position); the merged affine is proved to send index i of the merge axis to voxel 0 of input i (merge_affine_consistent, exact integer arithmetic). wrap_merge correspondence on right and wrong sequences under four header variants.',
        design='DESIGN.md §7 C03', note=BASE_NOTE + ' numpy view / broadcast semantics are stated in the model as index maps (assumed, validated by the correspondence); affines are exact over the integers (float geometry near tolerances is runtime); header fields other than the transforms are oracle-only.'),
    'C04': dict(
        technique='Lean 4 theorems about the executable model of get_subset/_copy_slice/_copy_sample + differential correspondence + oracle search',
        text='For every valid extension, axis and index the model of get_subset is proved to be restriction of lookups (slice axis, time axis of 4-D, vector axis of 5-D, raw list surgery for every class), with valid results; get_subset and _simplify are proved unable to raise on valid keys in those regions (subset_*_total, simplify_total); correspondence over all dims/indices of generated 3-5 D extensions. Voxel data and geometry (Model/Wrap.lean): for every 3-5 D array, axis and index the data of a piece of NiftiWrapper.split is proved to be the hyperplane (index expression per axis and trimming loop modelled literally; split_data_hyperplane), pieces come in index order, as many as the axis is long; the cumulative translation update is proved to give piece i the parent affine moved by i steps of the split axis for any number of pieces (split_affine, split_affine_voxel) whichever of sform / qform is coded (split_piece_header); wrap_split correspondence over all axes, the default axis and four header variants.',
        design='DESIGN.md §7 C04', note=BASE_NOTE + ' numpy basic indexing is stated in the model as index maps (assumed, validated by the correspondence); nibabel header I/O is trusted; affines exact over the integers.'),
    'C05': dict(
        technique='Lean 4 theorems (uniqueness of canonical form + C03/C04 theorems) + differential correspondence + oracle search',
        text='split-then-merge is proved to be the identity on canonical keys for the slice axis, the time axis of 4-D and the vector axis of 5-D extensions, for all sizes, and without premises: every split and the merge are proved to succeed (split_merge_*_total); chains, repeated merges of the same pieces and re-splits are searched on the implementation. The time axis of 5-D extensions is the recorded finding F3. Voxel data and geometry: merging the pieces of a split is proved to give back every voxel and the shape of any 3-5 D array without trailing singular axes (merge_split_data), and the pieces\' affines are proved accepted by the merge with the parent affine as result, for any number of pieces including one (merge_split_affine).',
        design='DESIGN.md §7 C05', note=BASE_NOTE + ' numpy semantics as index maps (assumed); data types and scaling are oracle-only.'),
    'C06': dict(
        technique='Lean 4 theorems (simplify reaches a class no earlier class can replace; merge invariants) + differential correspondence + oracle search',
        text='_simplify is proved to preserve lookups and validity and to reach from global slices the first class in the preference order able to represent the values; merges of canonical inputs (slice) and of any valid inputs (time, vector) and the three-level conversion merge are proved canonical; reference minimal class computed independently on every result.',
        design='DESIGN.md §7 C06', note=BASE_NOTE),
    'C13': dict(
        technique='Lean 4 theorems (per-key factorisation of dictionary updates and of from_sequence / get_subset at extension level) + before/after snapshots + single-key re-runs on the implementation',
        text='A per-key update run over a dictionary is proved to change each key independently (foldl_putKey_key, insertWith_key, filterMeta_key); the result entry of every key of a successful from_sequence / get_subset is proved to be the per-key merge / subset of the entries the inputs hold for that key (fromSequence_key, getSubset_key); on the implementation every merge/subset input is snapshotted before and after and every result is compared with the result of inputs restricted to one key.',
        design='DESIGN.md §7 C13', note=BASE_NOTE + ' Aliasing of nested mutable values (Python object identity) is runtime: every merge / subset is re-run on fresh objects, the values inside the result are edited in place and the inputs must not move, and vice versa.'),
    'C07': dict(
        technique='Lean 4 validity theorems: one-step (make_empty, merge, subset, simplify) and closure of validity under every nesting of splits and merges by induction over an inductively defined set of produced key states + random API-operation chains checked after every step',
        text='make_empty is proved to create exactly the base dictionaries its valid classes need and to refuse bad shapes / slice dims; merge (slice, time), subset (slice, time, vector) and simplify are proved to produce key states of the right class and count for every size; the set Produced (valid key states closed under pieces of slice / time / vector splits and under slice / time / vector merges of any number of members) is proved to contain only valid key states of consistent shapes (produced_valid), and splits / slice merges are proved unable to fail on its members; on the implementation random chains of split / merge / filter / clear / JSON reload / file save+load are checked after every step with check_valid, to_json and geometry against the image.',
        design='DESIGN.md §7 C07', note=BASE_NOTE + ' Filter / clear / reload steps of the searched chains are covered by the C14 / C09 theorems, not by Produced; the image side (shape, slice dim, affine of the image) is the wrapper model of C03 / C04; nibabel file I/O is trusted.'),
    'C08': dict(
        technique='Lean 4 theorems about the executable model of get_meta / meta_valid + exhaustive-index differential correspondence',
        text='For every matched image and in-bounds index get_meta is proved to return the value at proj(class, slice, time, vector); without index only constants; wrong-length / out-of-range indices raise; any stated mismatch returns the default. The model is compared with NiftiWrapper.get_meta on all keys x all in-bounds indices (+ bad indices) of generated extensions under image perturbations, and on images reoriented with nibabel (axes permuted / flipped, extension untouched), where a lookup may only return the default or the value of the position the voxel came from.',
        design='DESIGN.md §7 C08', note=BASE_NOTE + ' The float comparison of slice directions (np.allclose, atol 1e-6) is a Boolean parameter of the model, computed by the harness from the generated matrices as the world direction of the slice axis (column slice_dim).'),
    'C10': dict(
        technique='Lean 4 iff theorem between the transcribed check_valid and the declarative rule set + refutation of the full-strength iff (finding F6) + corruption correspondence',
        text='check_valid (as decision logic over an abstraction of the content) is proved to accept iff the rules hold with the count rule imposed on multiplicities > 1; each rule violation is proved rejected; the full-strength iff is refuted by a kernel-checked witness (F6) and proved outside multiplicity-1 classes. All single and sampled double corruptions of generated extensions are run through from_json and NiftiWrapper(img) and through the model.',
        design='DESIGN.md §7 C10', note=BASE_NOTE + ' The abstraction function (content -> Content record) is part of the trusted harness.'),
    'C16': dict(
        technique='Lean 4 theorems about a literal List-Char model of _parse_phoenix_line / parse_phoenix_prot + differential correspondence on generated grammar lines and the real protocol text',
        text='Proved for all inputs: blank and comment-only lines give None, lines without = raise, unknown protocol key raises, the protocol loop stops at the first malformed line, later duplicates overwrite and other keys are untouched, strip/find lemmas; kernel-evaluated instances for every value kind x dialect (including # and = inside quotes, trailing comments) and for the malformed variants; F8 (hex tried before float) is a kernel-checked witness. Unbounded round trip proved: for either dialect, any whitespace layout, any well-formed key and an optional trailing comment, a quoted string without a quote character (# and = allowed) parses to exactly its content (parse_render_string), a number token reaches the numeric conversions unchanged (parse_render_number), decimal / 0x-hex digit strings of any length give their value and tokens with a point or exponent sign give the float lexeme or the parse error, never an integer (parseNumber_dec/hex/float); a whole protocol text laid out between the markers yields the dictionary folded from its lines (parseProt_render). The correspondence (model = implementation on every generated line, protocol and the real protocol text) ties the model to the code; call histories probe hidden state.',
        design='DESIGN.md §7 C16', note=BASE_NOTE + ' CPython int()/float() numeric conversion of an accepted lexeme is trusted.'),
    'C17': dict(
        technique='Lean 4 theorems: 48x48 orientation table and 216 letter triples by decide +kernel lifted to all strings / shapes / zooms by lemmas + exhaustive 48x48 correspondence',
        text='For every string the voxel-order check passes iff the upper-cased string is one of the 48 codes; for all 48x48 start/requested orientations ornt_transform succeeds and the reordered orientation is the requested one; for each of the 48 transforms and every shape and in-range index the returned matrix maps output indices to the input index apply_orientation used; the output affine spells the code; bad code / <3-D / non-4x4 raise. All 2304 pairs + oblique rotations + strings of length 0-4 are run against the implementation every run.',
        design='DESIGN.md §7 C17', note=BASE_NOTE + ' nibabel io_orientation/apply_orientation/inv_ornt_aff are parameters with executable reference versions validated by the suite; oblique affines only through predicates.'),
    'C01': dict(
        technique='Lean 4 theorems (three-level merge succeeds and is lossless for every key and grid; reversed file list follows flipped data; fill index arithmetic) + stack/merge/lookup correspondences + per-file oracle through the output affine',
        text='For every S x T x V and every value pattern the per-key three-level merge of to_nifti(embed_meta) is proved to return at (s,t,v) what the file placed there said (convert_lookup_key and its 4-D / 3-D forms); that the three levels of merging cannot fail for any complete stack (T, V >= 2 where those axes exist) is proved too, so the statement holds without premise (convert_total, convert_total_4d, convert_total_3d); the canonical file order is proved unique, the per-volume reversal is proved to put at output slice k the file whose pixels the flip moves there, and get_meta is proved to read the documented position (C08). On the implementation every source file of synthetic series (6 orientations + oblique, both directions, explicit / guessed ordering, shuffled adds, several voxel orders) is located through the output affine and every extracted non-filtered key compared.',
        design='DESIGN.md §7 C01', note=BASE_NOTE + ' The per-key pipeline is composed with the stack model (canonical order for any add order, per-volume reversal on a slice flip) in one Lean theorem (convert_end_to_end); the axis-permutation part of a voxel order and the pixel placement are C02 / C17; extraction is ground truth here; float geometry locates voxels.'),
    'C02': dict(
        technique='Lean 4 theorems (fill of the 5-D array and slice column of the affine, fill index in range and injective, canonical order unique, reversal index, reorientation transform maps back for all 48 transforms and shapes) + stack_fill correspondence + pixel-exact oracle through the affine',
        text='get_data is proved to put pixel (i,j) of file v*T*S + t*S + s at output voxel (i,j,s,t,v) and to keep every voxel when trimming unused axes (stack_fill, stack_data_trim); get_affine is proved to send slice index s to where file s of a regularly spaced first volume lies (stack_affine, exact integers); the file index arithmetic is proved a bijection between grid cells and files; for each of the 48 transforms and every shape the reorientation matrix maps output indices to source indices and the output orientation is the requested one; on the implementation every source pixel of labelled synthetic series is looked up at the index the output affine assigns to its DICOM patient position (LPS->RAS), each output voxel hit exactly once, dtype rule checked, for several voxel orders per series.',
        design='DESIGN.md §7 C02', note=BASE_NOTE + ' nibabel DicomWrapper (pixel array orientation, rescale, affine) and binary64 rounding are trusted; exact only on the integer / axis-aligned lattice, atol 1e-3 for oblique series.'),
    'C11': dict(
        technique='Lean 4 iff theorem between get_shape (model) and the spelled-out acceptance conditions + soundness corollaries + refutation of the full-strength claim (F13) + sub-multiset search',
        text='get_shape is proved to accept iff: non-empty, counts factor, spacing test passes, every volume block lists exactly the sorted distinct positions, every vector block is constant; hence n = S*T*V and each refusal condition of the property gives invalid. The claim that every volume has one time ordinate is refuted by a kernel-checked witness (F13). A complete regular S x T x V grid added in any order is proved accepted with shape (S,T,V) (accept_complete, accept_complete_order, unbounded). add_dcm is modelled as a state machine: a dataset is proved accepted iff it has pixels, is congruent with the reference input and (explicit ordering) its cell is free (add_ok_iff, add_refuses_*), a refused dataset is proved to leave every field of the stack unchanged (add_refused_unchanged), and after any sequence of calls the stack is proved to hold exactly the accepted datasets, pairwise in different cells (add_files_are_accepted, add_cells_distinct). Sub-multisets (drop one/two, duplicate, drop volume/position, irregular gap), add sequences with intruders and the four queries are run on the implementation; model and implementation agree on acceptance, dims and canonical order.',
        design='DESIGN.md §7 C11', note=BASE_NOTE + ' That a complete regular grid is accepted for every add order is a theorem (accept_complete_order); the key-guessing loop of get_shape is modelled (guessShape), proved to pick only keys under which the stack is a complete grid, and compared with the implementation.'),
    'C12': dict(
        technique='Lean 4 invariant proof over all op histories of the stack state machine (sort is a function of the multiset) + byte comparison of histories and hash seeds on the implementation',
        text='For every add order and every finite history of get_shape/get_data/get_affine/to_nifti the file order a call builds its output from is proved to be a function of the file set and the call (history_independent), by an invariant over the dirty flag and permutation invariance of the two-stage sort; its premise (pairwise different sorting tuples) is proved to be established by add_dcm itself for every sequence of calls with explicit ordering, refused datasets included (add_order_and_history_independent). On the implementation random and targeted histories and add permutations are compared byte-wise with a fresh stack, and the same series is converted in processes with different PYTHONHASHSEED.',
        design='DESIGN.md §7 C12', note=BASE_NOTE + ' The model covers file order and the dirty flag; numpy aliasing of the first file affine and header construction are runtime (covered by the byte comparison).'),
    'C14': dict(
        technique='Lean 4 theorems about regexFilter / filterMeta over the extracted default lists + differential correspondence + key-set oracle on conversions',
        text='exclude-unless-included is proved for any matching relation; the extracted default lists are proved metacharacter-free and the default filter characterised by substring tests; extra lists compose by append; filter_meta is proved to remove exactly the told keys in every classification, leaving values, geometry and validity. Correspondence on random literal lists and keys (DICOM keyword dictionary, translator-prefixed, arbitrary); conversions compared with extracted-minus-filtered under default and custom filters.',
        design='DESIGN.md §7 C14', note=BASE_NOTE + ' Python re is trusted for non-literal patterns (oracle only).'),
    'C20': dict(
        technique='Lean 4 theorems (axis permutation lemma for all 48 transforms, reversed list follows flipped data, TM string model) + header oracle on conversions + TM correspondence',
        text='For each of the 48 transforms output axis permutation[i] is proved to carry source axis i (so the header slice axis is the stacking axis and freq/phase keep their world directions); slice times are read from the reversed list, proved to hold at position k the file shown at output slice k; colons are proved ignored, 2- and 4-digit TM forms proved for all digits, 6+-digit forms by kernel-evaluated instances and correspondence; the two Python functions are proved AST-identical by the translator. The header block of to_nifti is modelled: when slice timing is recorded it is proved right for every volume (slice_times_every_volume, slice_times_inconsistent_none), pixdim[4] is proved recorded iff every file of the stack carries the same repetition time (tr_recorded_iff, over all add_dcm sequences), dim_info follows the permutation (dim_info_spec); header_info correspondence after every conversion. Header dim_info / pixdim[4] / slice times checked against geometry and source times for all acquisition patterns.',
        design='DESIGN.md §7 C20', note=BASE_NOTE + ' nibabel set_slice_times / slice codes and binary64 rounding of the sum are trusted.'),
    'C09': dict(
        technique='Lean 4 theorems (token-level decode∘encode = id for every nesting, encoder injective, NUL padding strip) + byte-exact printer correspondence + file round trips',
        text='For every value tree (any depth/width, ordered objects, number lexemes) decoding the encoded token stream returns the value, hence the encoder is injective and key order is part of the value; stripping the NIfTI NUL padding restores the content; the Lean character-level printer is compared byte for byte with to_json() on extensions holding big ints, extreme floats, unicode incl. astral, nested lists/dicts, None; from_json/from_runtime_repr/str agreement and .nii/.nii.gz save-load cycles are checked on the implementation.',
        design='DESIGN.md §7 C09', note=BASE_NOTE + ' CPython json lexing and float repr, zlib and nibabel I/O are trusted; there is no character-level parser in the model.'),
    'C15': dict(
        technique='Lean 4 theorems about the executable model of MetaExtractor.__call__ over abstracted elements + key-list correspondence + value oracle',
        text='For every dataset, translator set and rule set: each element yields at most one standard entry, only if non-blank, non-ignored and with a value, entries keep dataset order; under the extracted default rules no entry has an odd group, one of the pixel-data tags the translator reads out of ignore_pixel_data (PixelData, FloatPixelData, DoubleFloatPixelData), an overlay-data tag or a colour-LUT tag (private data only through translators). The ordered key list of the model equals the implementation on generated datasets (all common VRs/VMs, nested sequences, private blocks incl. parseable CSA headers, private / standard name clashes, seven configurations incl. explicitly empty translators and a user ignore rule); values, JSON-serialisability, determinism, independence of what the extractor processed before, and pixel purity are checked by the oracle.',
        design='DESIGN.md §7 C15', note=BASE_NOTE + ' pydicom and the CSA reader are parameters; the abstraction of elements is computed by the harness. Injectivity of suffixed keys is checked on generated data only.'),
    'C18': dict(
        technique='Lean 4 theorems about the first-fit grouping model (partition, order independence via a loop invariant, fault isolation by list surgery, strict raise) + directory-level correspondence and oracle',
        text='For every list of items and any closeness relation the ids in the groups are a permutation of the readable image files; inserting a non-image dataset (or in warn mode an unreadable file) anywhere leaves the result unchanged, strict mode raises; first-fit placement lemmas; two files share a group iff they agree on the exact keys and are close on the tolerance keys, for any order of the paths, whenever closeness is an equivalence (together_iff, group_order_independent; invariant of the grouping loop); stack_group skips or aborts on files that cannot join. Synthetic directories with several series, shuffled paths and injected faults are grouped by the implementation and by the model.',
        design='DESIGN.md §7 C18', note=BASE_NOTE + ' Order independence is proved where closeness is an equivalence on the values at hand (group_order_independent); where tolerances chain it fails in the model (kernel-checked witness) and in the code (finding F28); pydicom reading is trusted.'),
    'C19': dict(
        technique='Lean 4 theorems (no aliasing of module defaults per translator flag => invocation sequences are independent; unique output names; inject decision logic) + in-process vs fresh-process vs API comparison',
        text='The translator extracts whether dcmstack_cli.main aliases the module default regex lists; given it does not, module state is proved unchanged by an invocation and the filter lists of the i-th invocation of any sequence proved to depend on its own arguments only; output names are proved pairwise distinct for any natural names; nitool inject is proved to refuse invalid class / count / existing key, to touch only its key and to keep validity. Invocation sequences are run in one process and compared with fresh processes and with the equivalent API calls; nitool dump/embed/split/merge/lookup/inject compared with the API.',
        design='DESIGN.md §7 C19', note=BASE_NOTE + ' That the tools write what the API returns is glue established by the comparison only.'),
}

ALL = ['C%02d' % i for i in range(1, 21)]

PENDING_REASON = 'check not built yet in this round (planned: Lean model + correspondence as in DESIGN.md §7); not a claim that the technique cannot apply'


def main():
    checks = []
    for pid in ALL:
        if pid not in CLAIMED:
            continue
        c = CLAIMED[pid]
        checks.append({
            'property_id': pid,
            'quick_cmd': 'tools/check %s quick' % pid,
            'thorough_cmd': 'tools/check %s thorough' % pid,
            'evidence_file': 'evidence/%s.json' % pid,
            'replay_cmd_template': 'tools/check %s --replay {path}' % pid,
            'engine': 'lean-model',
            'level_claimed': {'category': 'proof', 'text': c['text'] + tie_text(c['id'] if 'id' in c else pid), 'design_ref': c['design']},
            'level_note': c['note'],
            'technique': c['technique'],
        })
    man = {
        'version': 1,
        'setup_cmd': 'cd lean && python3 ../tools/gen_tables.py && python3 ../tools/gen_code.py && lake build DcmVerif dcmdriver dcmcode ' + ' '.join('DcmVerif.Props.C%02d' % i for i in range(1, 21)),
        'hooks': {
            'guard': 'DCMSTACK_VERIF',
            'enable': 'no source hooks are needed: the harness imports /repo/src in-process (PYTHONPATH) and observes through the public API; DCMSTACK_VERIF=1 is exported by tools/check for completeness',
            'baseline_off_cmd': 'cd /repo && /venv/bin/python -m pytest -ra -q -p no:cacheprovider --timeout=900 --continue-on-collection-errors',
            'source_commits': [],
            'add_only': True,
        },
        'engines': [{
            'name': 'lean-model', 'path': 'lean/',
            'serves_properties': sorted(CLAIMED),
            'kind_free_text': 'Lean 4 model (lean/DcmVerif/Model), proofs (Proofs, Props), generated tables and translated functions (Generated, from tools/gen_tables.py and tools/gen_code.py), compiled JSON-line driver (lean/Main.lean) used by the Python correspondence harness (tools/harness)',
        }],
        'checks': checks,
        'notes': 'Every check: translator -> lake build of the property theorems -> axiom audit -> correspondence (model vs /repo working tree) -> oracle search on the implementation -> evidence. Exit 0 clean, 1 with VIOLATION lines, 2 infrastructure.',
        'not_applicable': [{'property_id': p, 'reason': PENDING_REASON} for p in ALL if p not in CLAIMED],
    }
    with open(os.path.join(VERIF, 'MANIFEST.json'), 'w') as fh:
        json.dump(man, fh, indent=1)
    print('MANIFEST.json: %d checks, %d not applicable' % (len(checks), len(man['not_applicable'])))


if __name__ == '__main__':
    main()
