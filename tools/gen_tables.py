#!/usr/bin/env python3
"""Translator: regenerate lean/DcmVerif/Generated/Tables.lean from the *current* source of
/repo/src/dcmstack (never imports it; `ast` + `literal_eval` only).

Every named table / constant the algorithms are driven by is emitted as a Lean definition.  The
hand-written model imports the generated file, so the theorems are re-checked against what the
code says now.  If a table is missing or not a literal the translator writes a definition that
keeps the file well-formed but changes the content (an empty table plus `Gen.missing`), which
makes the dependent proofs / pinned examples fail: that routes to the failing-input search.
"""
import ast, sys, os, json, hashlib
from fractions import Fraction

REPO = os.environ.get('DCMSTACK_REPO', '/repo')
SRC = os.path.join(REPO, 'src', 'dcmstack')
OUT = os.path.join(os.path.dirname(os.path.abspath(__file__)), '..', 'lean', 'DcmVerif',
                   'Generated', 'Tables.lean')

CLS = {('global', 'const'): 'gconst', ('global', 'slices'): 'gslices',
       ('time', 'samples'): 'tsamples', ('time', 'slices'): 'tslices',
       ('vector', 'samples'): 'vsamples', ('vector', 'slices'): 'vslices'}
CLS_ORDER = ['gconst', 'gslices', 'tsamples', 'tslices', 'vsamples', 'vslices']

missing = []


def parse(name):
    with open(os.path.join(SRC, name)) as f:
        return ast.parse(f.read())


def find_assign(body, target):
    for node in body:
        if isinstance(node, ast.Assign):
            for t in node.targets:
                if isinstance(t, ast.Name) and t.id == target:
                    return node.value
    return None


def find_class(tree, name):
    for node in tree.body:
        if isinstance(node, ast.ClassDef) and node.name == name:
            return node
    return None


def find_func(body, name):
    for node in body:
        if isinstance(node, ast.FunctionDef) and node.name == name:
            return node
    return None


def lit(node, what):
    if node is None:
        missing.append(what)
        return None
    try:
        return ast.literal_eval(node)
    except Exception:
        # allow tuple() / set((...)) wrappers
        try:
            if isinstance(node, ast.Call) and isinstance(node.func, ast.Name):
                if node.func.id == 'tuple' and not node.args:
                    return ()
                if node.func.id in ('set', 'tuple', 'list') and len(node.args) == 1:
                    return ast.literal_eval(node.args[0])
        except Exception:
            pass
        missing.append(what)
        return None


def lit_dict_with_calls(node, what):
    """dict literal whose values may be `tuple()` / `set((..))` calls"""
    if node is None or not isinstance(node, ast.Dict):
        missing.append(what)
        return None
    out = {}
    for k, v in zip(node.keys, node.values):
        kk = lit(k, what + ' key')
        vv = lit(v, what + ' value')
        if vv is None and what + ' value' in missing:
            return None
        out[kk] = vv
    return out


def lean_str(s):
    out = []
    for ch in s:
        if ch == '"':
            out.append('\\"')
        elif ch == '\\':
            out.append('\\\\')
        elif ch == '\n':
            out.append('\\n')
        elif 32 <= ord(ch) < 127:
            out.append(ch)
        else:
            out.append('\\u{%x}' % ord(ch))
    return '"' + ''.join(out) + '"'


def lean_strlist(l):
    return '[' + ', '.join(lean_str(x) for x in l) + ']'


def cls_name(c, what):
    if c is None:
        return None
    c = tuple(c) if isinstance(c, (list, tuple)) else c
    if c not in CLS:
        missing.append(what + ' unknown class %r' % (c,))
        return None
    return CLS[c]


def cls_list(l, what):
    names = [cls_name(c, what) for c in l]
    return '[' + ', '.join(n for n in names if n) + ']'


def frac(x):
    f = Fraction(str(x))
    return '(%d, %d)' % (f.numerator, f.denominator)


def allclose_kwargs(func):
    """[(atol or None, rtol or None)] for every np.allclose call in `func`, in source order"""
    res = []
    if func is None:
        return res
    calls = [n for n in ast.walk(func) if isinstance(n, ast.Call)
             and isinstance(n.func, ast.Attribute) and n.func.attr == 'allclose']
    calls.sort(key=lambda n: (n.lineno, n.col_offset))
    for n in calls:
        kw = {k.arg: k.value for k in n.keywords}
        at = rt = None
        try:
            if 'atol' in kw:
                at = ast.literal_eval(kw['atol'])
            if 'rtol' in kw:
                rt = ast.literal_eval(kw['rtol'])
        except Exception:
            missing.append('allclose kwargs in ' + func.name)
        res.append((at, rt))
    return res


def strip_doc(func):
    body = list(func.body)
    if body and isinstance(body[0], ast.Expr) and isinstance(getattr(body[0], 'value', None), ast.Constant) \
            and isinstance(body[0].value.value, str):
        body = body[1:]
    return [ast.dump(b) for b in body]


def main():
    meta = parse('dcmmeta.py')
    stack = parse('dcmstack.py')
    extract = parse('extract.py')
    cli = parse('dcmstack_cli.py')
    L = []
    A = L.append
    A('/- GENERATED by tools/gen_tables.py from /repo/src/dcmstack — do not edit. -/')
    A('import DcmVerif.Model.Cls')
    A('set_option autoImplicit false')
    A('open Cls')
    A('')

    ext_cls = find_class(meta, 'DcmMetaExtension')
    ebody = ext_cls.body if ext_cls else []
    if not ext_cls:
        missing.append('class DcmMetaExtension')

    # classifications
    classes = lit(find_assign(ebody, 'classifications'), 'classifications') or ()
    A('/-- `DcmMetaExtension.classifications` (order matters: `get_valid_classes` slices it) -/')
    A('def Gen.classifications : List Cls := ' + cls_list(classes, 'classifications'))
    A('')

    def table(pyname, leanname, doc, with_none=False):
        d = lit_dict_with_calls(find_assign(ebody, pyname), pyname) or {}
        A('/-- `%s` -/' % doc)
        if with_none:
            A('def %s : Option Cls → List Cls' % leanname)
            A('  | none => ' + cls_list(d.get(None, ()), pyname))
            for c in CLS_ORDER:
                key = [k for k, v in CLS.items() if v == c][0]
                A('  | some %s => %s' % (c, cls_list(d.get(key, ()), pyname)))
        else:
            A('def %s : Cls → List Cls' % leanname)
            for c in CLS_ORDER:
                key = [k for k, v in CLS.items() if v == c][0]
                A('  | %s => %s' % (c, cls_list(d.get(key, ()), pyname)))
            A('')
            A('/-- the classifications that are keys of `%s` (a lookup of any other one is a KeyError) -/' % doc)
            A('def Gen.%sKeys : List Cls := [%s]' % (leanname, ', '.join(CLS[k] for k in CLS if k in d)))
        A('')
        return d

    table('_const_tests', 'constTests', 'DcmMetaExtension._const_tests')
    table('_repeat_tests', 'repeatTests', 'DcmMetaExtension._repeat_tests')
    table('_preserving_changes', 'preserving', 'DcmMetaExtension._preserving_changes', with_none=True)

    ver = lit(find_assign(meta.body, '_meta_version'), '_meta_version')
    A('def Gen.metaVersion : String := ' + lean_str(repr(ver)))
    req = lit_dict_with_calls(find_assign(meta.body, '_req_base_keys_map'), '_req_base_keys_map') or {}
    A('/-- `_req_base_keys_map` : version ↦ required top-level keys (sorted) -/')
    A('def Gen.reqBaseKeys : List (String × List String) := [' + ', '.join(
        '(%s, %s)' % (lean_str(repr(k)), lean_strlist(sorted(v))) for k, v in sorted(req.items())) + ']')
    A('')

    # dcmstack.py
    excl = lit(find_assign(stack.body, 'default_key_excl_res'), 'default_key_excl_res') or []
    incl = lit(find_assign(stack.body, 'default_key_incl_res'), 'default_key_incl_res') or []
    A('def Gen.defaultExcl : List String := ' + lean_strlist(excl))
    A('def Gen.defaultIncl : List String := ' + lean_strlist(incl))
    grp = lit(find_assign(stack.body, 'default_group_keys'), 'default_group_keys') or ()
    cls_ = lit(find_assign(stack.body, 'default_close_keys'), 'default_close_keys') or ()
    pix = lit(find_assign(stack.body, '_pix_attrs'), '_pix_attrs') or ()
    A('def Gen.defaultGroupKeys : List String := ' + lean_strlist(grp))
    A('def Gen.defaultCloseKeys : List String := ' + lean_strlist(cls_))
    A('def Gen.pixAttrs : List String := ' + lean_strlist(pix))
    ds = find_class(stack, 'DicomStack')
    dbody = ds.body if ds else []
    guesses = lit(find_assign(dbody, 'sort_guesses'), 'sort_guesses') or []
    A('def Gen.sortGuesses : List String := ' + lean_strlist(guesses))
    # minimal_keys = set(sort_guesses + [...] + list(default_group_keys))
    mk = find_assign(dbody, 'minimal_keys')
    extra = None
    try:
        binop = mk.args[0]
        extra = ast.literal_eval(binop.left.right)
        assert binop.left.left.id == 'sort_guesses' and binop.right.args[0].id == 'default_group_keys'
    except Exception:
        missing.append('minimal_keys')
        extra = []
    A('def Gen.minimalKeys : List String := ' + lean_strlist(sorted(set(list(guesses) + list(extra) + list(grp)))))
    A('')

    # tolerances (np.allclose keyword arguments inside named functions), as exact rationals
    def tol(name, pairs):
        A('/-- (atol?, rtol?) of every `np.allclose` call in `%s`, in source order; `(0,0)` = not given -/' % name)
        A('def Gen.tol_%s : List ((Nat × Nat) × (Nat × Nat)) := [' % name.replace('.', '_') + ', '.join(
            '(%s, %s)' % (frac(a) if a is not None else '(0, 0)', frac(r) if r is not None else '(0, 0)')
            for a, r in pairs) + ']')
    tol('chk_close', allclose_kwargs(find_func(dbody, '_chk_close')))
    tol('get_shape', allclose_kwargs(find_func(dbody, 'get_shape')))
    tol('parse_and_group', allclose_kwargs(find_func(stack.body, 'parse_and_group')))
    nw = find_class(meta, 'NiftiWrapper')
    nbody = nw.body if nw else []
    tol('meta_valid', allclose_kwargs(find_func(nbody, 'meta_valid')))
    tol('wrapper_from_sequence', allclose_kwargs(find_func(nbody, 'from_sequence')))
    tol('ext_from_sequence', allclose_kwargs(find_func(ebody, 'from_sequence')))
    tol('insert', allclose_kwargs(find_func(ebody, '_insert')))
    A('')

    # extract.py
    uvm = lit(find_assign(extract.body, 'unpack_vr_map'), 'unpack_vr_map') or {}
    A('def Gen.unpackVrMap : List (String × String) := [' + ', '.join(
        '(%s, %s)' % (lean_str(k), lean_str(v)) for k, v in uvm.items()) + ']')
    conv = find_assign(extract.body, 'default_conversions')
    convs = []
    if isinstance(conv, ast.Dict):
        for k, v in zip(conv.keys, conv.values):
            try:
                convs.append((ast.literal_eval(k), v.id if isinstance(v, ast.Name) else ast.dump(v)))
            except Exception:
                missing.append('default_conversions')
    else:
        missing.append('default_conversions')
    A('/-- `default_conversions` : VR ↦ name of the converting callable -/')
    A('def Gen.defaultConversions : List (String × String) := [' + ', '.join(
        '(%s, %s)' % (lean_str(k), lean_str(v)) for k, v in convs) + ']')
    rules = find_assign(extract.body, 'default_ignore_rules')
    rnames = []
    try:
        rnames = [e.id for e in rules.elts]
    except Exception:
        missing.append('default_ignore_rules')
    A('def Gen.defaultIgnoreRules : List String := ' + lean_strlist(rnames))
    # colour LUT element numbers in ignore_color_lut_data
    lut = []
    f = find_func(extract.body, 'ignore_color_lut_data')
    try:
        for n in ast.walk(f):
            if isinstance(n, ast.Tuple) and all(isinstance(e, ast.Constant) for e in n.elts):
                lut = [e.value for e in n.elts]
    except Exception:
        missing.append('ignore_color_lut_data')
    A('def Gen.colorLutElems : List Nat := [' + ', '.join(str(x) for x in lut) + ']')
    # element numbers of group 0x7FE0 that ignore_pixel_data covers: either
    #   elem.tag == Tag(0x7fe0, E)            or   elem.tag.group == 0x7fe0 and elem.tag.elem in (E, ...)
    pix = []
    f = find_func(extract.body, 'ignore_pixel_data')
    try:
        ok_group = False
        for n in ast.walk(f):
            if isinstance(n, ast.Call) and getattr(n.func, 'attr', getattr(n.func, 'id', '')) == 'Tag' \
                    and len(n.args) == 2 and all(isinstance(a, ast.Constant) for a in n.args) and n.args[0].value == 0x7fe0:
                pix.append(n.args[1].value); ok_group = True
            if isinstance(n, ast.Compare) and len(n.ops) == 1:
                left = ast.unparse(n.left)
                if isinstance(n.ops[0], ast.Eq) and left.endswith('.group') and isinstance(n.comparators[0], ast.Constant) \
                        and n.comparators[0].value == 0x7fe0:
                    ok_group = True
                if left.endswith('.elem'):
                    c = n.comparators[0]
                    if isinstance(n.ops[0], ast.In) and isinstance(c, (ast.Tuple, ast.List)) and all(isinstance(e, ast.Constant) for e in c.elts):
                        pix += [e.value for e in c.elts]
                    elif isinstance(n.ops[0], ast.Eq) and isinstance(c, ast.Constant):
                        pix.append(c.value)
        if not ok_group or not pix:
            raise ValueError
    except Exception:
        missing.append('ignore_pixel_data')
        pix = []
    A('/-- elements of group 0x7FE0 that `ignore_pixel_data` refuses (PixelData 0x10, FloatPixelData 0x8, DoubleFloatPixelData 0x9) -/')
    A('def Gen.pixelDataElems : List Nat := [' + ', '.join(str(x) for x in sorted(set(pix))) + ']')
    A('')

    # the two TM conversion functions: identical modulo docstring?
    f1 = find_func(stack.body, 'dcm_time_to_sec')
    f2 = find_func(extract.body, 'tm_to_seconds')
    same = bool(f1 and f2 and strip_doc(f1) == strip_doc(f2)
                and ast.dump(f1.args) == ast.dump(f2.args))
    A('/-- the ASTs of `dcmstack.dcm_time_to_sec` and `extract.tm_to_seconds` are equal modulo docstring -/')
    A('def Gen.timeFnBodiesIdentical : Bool := ' + ('true' if same else 'false'))
    A('')
    # dcmstack_cli.main: are the module default regex lists bound directly and then extended in place?
    cli_main = find_func(cli.body, 'main')
    aliases = None
    if cli_main is None:
        missing.append('dcmstack_cli.main')
    else:
        bound = {}
        aliases = False
        for n in ast.walk(cli_main):
            if isinstance(n, ast.Assign) and len(n.targets) == 1 and isinstance(n.targets[0], ast.Name) \
                    and n.targets[0].id in ('include_regexes', 'exclude_regexes'):
                v = n.value
                bound[n.targets[0].id] = isinstance(v, ast.Attribute) and v.attr in ('default_key_incl_res', 'default_key_excl_res')
        for n in ast.walk(cli_main):
            if isinstance(n, ast.AugAssign) and isinstance(n.target, ast.Name) and bound.get(n.target.id):
                aliases = True
            if isinstance(n, ast.Call) and isinstance(n.func, ast.Attribute) and n.func.attr in ('extend', 'append') \
                    and isinstance(n.func.value, ast.Name) and bound.get(n.func.value.id):
                aliases = True
        if set(bound) != {'include_regexes', 'exclude_regexes'}:
            missing.append('dcmstack_cli.main filter lists')
    A('/-- `dcmstack_cli.main` binds a module default regex list itself and then extends it in place -/')
    A('def Gen.cliAliasesDefaults : Bool := ' + ('true' if aliases else 'false'))
    A('')
    A('/-- names the translator could not extract as literals (must be empty) -/')
    A('def Gen.missing : List String := ' + lean_strlist(missing))
    A('')
    text = '\n'.join(L)
    out = os.path.normpath(OUT)
    os.makedirs(os.path.dirname(out), exist_ok=True)
    old = None
    if os.path.exists(out):
        with open(out) as fh:
            old = fh.read()
    changed = old != text
    if changed:
        with open(out, 'w') as fh:
            fh.write(text)
    print(json.dumps({'out': out, 'changed': changed, 'missing': missing,
                      'sha': hashlib.sha256(text.encode()).hexdigest()[:16]}))
    return 0


if __name__ == '__main__':
    sys.exit(main())
