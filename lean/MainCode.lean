import Lean.Data.Json
import DcmVerif.Generated.Code_insertall
/-! `dcmcode`: the functions translated from the Python source (`Generated/Code_*.lean`), run on JSON input — one request per
line, one answer per line.  The harness runs the real methods on the same inputs and compares: this validates the conventions
of the function translator (`KContent`, `Content`, values as lists, None as `"null"`) on whole methods.  Values of metadata are
opaque strings (the canonical JSON text of each value). -/
open Lean Cls

abbrev V := String
abbrev K := String

def clsName : Cls → String
  | gconst => "gconst" | gslices => "gslices" | tsamples => "tsamples"
  | tslices => "tslices" | vsamples => "vsamples" | vslices => "vslices"

def clsOf : String → Except String Cls
  | "gconst" => .ok gconst | "gslices" => .ok gslices | "tsamples" => .ok tsamples
  | "tslices" => .ok tslices | "vsamples" => .ok vsamples | "vslices" => .ok vslices
  | s => .error s!"bad class {s}"

def errName : PyErr → String
  | .valueError => "ValueError" | .indexError => "IndexError" | .assertionError => "AssertionError"
  | .invalidStack => "InvalidStackError" | .invalidExtension => "InvalidExtensionError" | .fuelExhausted => "fuel"
  | .unboundLocal => "UnboundLocalError" | .zeroDivision => "ZeroDivisionError" | .typeError => "TypeError"
  | .keyError => "KeyError" | .nonImageDataSet => "NonImageDataSetError" | .incongruentImage => "IncongruentImageError"
  | .imageCollision => "ImageCollisionError"

def getNatList (j : Json) : Except String (List Nat) := do (← j.getArr?).toList.mapM fun x => x.getNat?
def getStrList (j : Json) : Except String (List String) := do (← j.getArr?).toList.mapM fun x => x.getStr?
def getOptNat (j : Json) : Except String (Option Nat) := if j.isNull then .ok none else do pure (some (← j.getNat?))

/-- `[[key, [[cls, [values]], …]], …]` -/
def getKContent (j : Json) : Except String (KContent K V) := do
  (← j.getArr?).toList.mapM fun e => do
    match (← e.getArr?).toList with
    | [k, d] =>
      let kd ← (← d.getArr?).toList.mapM fun p => do
        match (← p.getArr?).toList with
        | [c, vals] => pure (← clsOf (← c.getStr?), ← getStrList vals)
        | _ => .error "bad key dict entry"
      pure (← k.getStr?, kd)
    | _ => .error "bad key entry"

/-- `[[cls, [[key, [values]], …]], …]` -/
def getContent (j : Json) : Except String (Content K V) := do
  (← j.getArr?).toList.mapM fun e => do
    match (← e.getArr?).toList with
    | [c, d] =>
      let dict ← (← d.getArr?).toList.mapM fun p => do
        match (← p.getArr?).toList with
        | [k, vals] => pure (← k.getStr?, ← getStrList vals)
        | _ => .error "bad dict entry"
      pure (← clsOf (← c.getStr?), dict)
    | _ => .error "bad class entry"

def strs (l : List String) : Json := Json.arr (l.map Json.str).toArray
def kcontentJson (kc : KContent K V) : Json :=
  Json.arr (kc.map fun p => Json.arr #[Json.str p.1, Json.arr (p.2.map fun q => Json.arr #[Json.str (clsName q.1), strs q.2]).toArray]).toArray
def contentJson (c : Content K V) : Json :=
  Json.arr (c.map fun p => Json.arr #[Json.str (clsName p.1), Json.arr (p.2.map fun q => Json.arr #[Json.str q.1, strs q.2]).toArray]).toArray

def handle (j : Json) : Except String Json := do
  let op ← (← j.getObjVal? "op").getStr?
  match op with
  | "insert_whole" =>
    let ss ← getNatList (← j.getObjVal? "self_shape")
    let sn ← getOptNat (← j.getObjVal? "self_n_slices")
    let sd ← getOptNat (← j.getObjVal? "self_slice_dim")
    let bases ← getStrList (← j.getObjVal? "bases")
    let kc ← getKContent (← j.getObjVal? "self")
    let os ← getNatList (← j.getObjVal? "other_shape")
    let on ← getOptNat (← j.getObjVal? "other_n_slices")
    let oc ← getContent (← j.getObjVal? "other")
    let use ← (← j.getObjVal? "use_slices").getBool?
    let dim ← (← j.getObjVal? "dim").getNat?
    match Py.insert_whole "null" ss sn sd bases kc os on oc use dim with
    | .error e => pure (Json.mkObj [("outer", Json.str (errName e))])
    | .ok (tried, other) =>
      let t := match tried with
        | .ok kc' => Json.mkObj [("ok", kcontentJson kc')]
        | .error e => Json.mkObj [("err", Json.str (errName e))]
      pure (Json.mkObj [("tried", t), ("other", contentJson other)])
  | "filter_meta" =>
    let shape ← getNatList (← j.getObjVal? "shape")
    let c ← getContent (← j.getObjVal? "content")
    let drop ← getStrList (← j.getObjVal? "drop")
    match Py.filter_meta shape c (fun k _ => drop.contains k) with
    | .error e => pure (Json.mkObj [("err", Json.str (errName e))])
    | .ok c' => pure (Json.mkObj [("ok", contentJson c')])
  | "clear_slice_meta" =>
    let shape ← getNatList (← j.getObjVal? "shape")
    let c ← getContent (← j.getObjVal? "content")
    match Py.clear_slice_meta shape c with
    | .error e => pure (Json.mkObj [("err", Json.str (errName e))])
    | .ok c' => pure (Json.mkObj [("ok", contentJson c')])
  | "get_keys" =>
    let shape ← getNatList (← j.getObjVal? "shape")
    let c ← getContent (← j.getObjVal? "content")
    match Py.get_keys shape c with
    | .error e => pure (Json.mkObj [("err", Json.str (errName e))])
    | .ok ks => pure (Json.mkObj [("ok", strs ks)])
  | _ => .error s!"unknown op {op}"

partial def loop (hin hout : IO.FS.Stream) : IO Unit := do
  let line ← hin.getLine
  if line.isEmpty then return ()
  let ans := match Json.parse line with
    | .error e => Json.mkObj [("bad", Json.str e)]
    | .ok j => match handle j with
      | .ok a => a
      | .error e => Json.mkObj [("bad", Json.str e)]
  hout.putStrLn ans.compress
  loop hin hout

def main : IO Unit := do
  loop (← IO.getStdin) (← IO.getStdout)
