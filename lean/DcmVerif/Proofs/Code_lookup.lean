import DcmVerif.Generated.Code_lookup
import DcmVerif.Model.Ext
import DcmVerif.Proofs.CodeLemmas
/-! `meta_valid` and the index block of `get_meta` as translated from dcmmeta.py are the model's `metaValid` and the lookup of `getMeta`. -/
set_option autoImplicit false
set_option linter.unusedSimpArgs false
set_option linter.unusedVariables false
open Cls

namespace Src
variable {α κ : Type}

/-! ### the index block of `get_meta` -/

/-- all index components in range, starting at axis `k` -/
def inRangeFrom (shape : List Nat) : List Nat → Nat → Bool
  | [], _ => true
  | i :: is, k => decide (i < shape[k]!) && inRangeFrom shape is (k + 1)

theorem bounds_loop (shape : List Nat) : ∀ (index : List Nat) (k : Nat) (u : PUnit),
    (forIn (m := Except PyErr) (index.zipIdx k) u fun (x : Nat × Nat) (__s : PUnit) =>
        match x with
        | (ind_val, dim) =>
          if (!(decide (0 ≤ ind_val) && decide (ind_val < shape[dim]!))) = true then do
            throw PyErr.indexError
            pure (ForInStep.yield PUnit.unit)
          else pure (ForInStep.yield PUnit.unit)) =
      if inRangeFrom shape index k then .ok PUnit.unit else .error PyErr.indexError
  | [], k, u => by simp [inRangeFrom]; rfl
  | i :: is, k, u => by
    rw [List.zipIdx_cons, List.forIn_cons]
    by_cases h : i < shape[k]?.getD 0
    · have h1 : (!(decide (0 ≤ i) && decide (i < shape[k]!))) = false := by simp [h]
      simp only [h1, Bool.false_eq_true, if_false, pure_bind, bounds_loop shape is (k + 1)]
      simp [inRangeFrom, h]
    · have h1 : (!(decide (0 ≤ i) && decide (i < shape[k]!))) = true := by simp [h]
      simp only [h1, if_true]
      simp [inRangeFrom, h, bind, Except.bind, throw, throwThe, MonadExceptOf.throw]

def toGetOut : Except PyErr (Option α) → GetOut α
  | .ok (some a) => .value a
  | .ok none => .dflt
  | .error _ => .indexError

theorem toGetOut_idx (vals : List α) (j : Nat) :
    toGetOut (pyIndex vals j >>= fun v => pure (some v)) = GetOut.ofIdx vals[j]? := by
  unfold pyIndex
  cases vals[j]? <;> rfl

theorem toGetOut_idx' (vals : List α) (j : Nat) :
    toGetOut (some <$> pyIndex vals j) = GetOut.ofIdx vals[j]? := by
  unfold pyIndex
  cases vals[j]? <;> rfl


theorem inRangeFrom_zip (shape : List Nat) : ∀ (idx : List Nat) (k : Nat), idx.length + k = shape.length →
    inRangeFrom shape idx k = (List.zip idx (shape.drop k)).all (fun p => decide (p.1 < p.2))
  | [], k, _ => by simp [inRangeFrom]
  | i :: is, k, h => by
    have hk : k < shape.length := by simp at h; omega
    have hd : shape.drop k = shape[k] :: shape.drop (k + 1) := (List.drop_eq_getElem_cons hk)
    rw [hd]
    simp only [inRangeFrom, List.zip_cons_cons, List.all_cons]
    rw [inRangeFrom_zip shape is (k + 1) (by simp at h ⊢; omega)]
    simp [hk]

theorem get_meta_index_eq (shape idx : List Nat) (sd : Nat) (al : Bool) (e : ExtGeom) (cl : Cls) (vals : List α)
    (h3 : 3 ≤ shape.length) (h5 : shape.length ≤ 5) (hsd3 : sd < 3) (hc : cl ≠ gconst)
    (hvalid : metaValid e ⟨shape, some sd, al⟩ cl = true) :
    toGetOut (Py.get_meta_index shape sd cl vals idx) =
      getMeta e ⟨shape, some sd, al⟩ (some (cl, vals)) (some idx) := by
  unfold Py.get_meta_index getMeta
  simp only [hc, if_false, hvalid, Bool.not_true, Bool.false_eq_true]
  have hz : idx.zipIdx = idx.zipIdx 0 := rfl
  by_cases hl : idx.length = shape.length
  · have hl' : (idx.length != shape.length) = false := by simp [hl]
    simp only [hl', Bool.false_eq_true, if_false, hz, bounds_loop, ne_eq, hl, not_true_eq_false]
    rw [inRangeFrom_zip shape idx 0 (by simpa using hl)]
    simp only [List.drop_zero]
    by_cases hr : (List.zip idx shape).all (fun p => decide (p.1 < p.2)) = true
    · simp only [hr, if_true, Bool.not_true, Bool.false_eq_true, if_false]
      have hsd : sd = 0 ∨ sd = 1 ∨ sd = 2 := by omega
      match shape, idx, h3, h5, hl with
      | [a, b, c], [i0, i1, i2], _, _, _ =>
        rcases hsd with rfl | rfl | rfl <;> cases cl <;>
          first
          | exact absurd rfl hc
          | (simp [toGetOut_idx, toGetOut_idx', ok_bind', List.zipIdx, Nat.mul_comm, Nat.mul_left_comm, Nat.mul_assoc, Nat.left_distrib, Nat.add_assoc])
      | [a, b, c, d], [i0, i1, i2, i3], _, _, _ =>
        rcases hsd with rfl | rfl | rfl <;> cases cl <;>
          first
          | exact absurd rfl hc
          | (simp [toGetOut_idx, toGetOut_idx', ok_bind', List.zipIdx, Nat.mul_comm, Nat.mul_left_comm, Nat.mul_assoc, Nat.left_distrib, Nat.add_assoc])
      | [a, b, c, d, f], [i0, i1, i2, i3, i4], _, _, _ =>
        rcases hsd with rfl | rfl | rfl <;> cases cl <;>
          first
          | exact absurd rfl hc
          | (simp [toGetOut_idx, toGetOut_idx', ok_bind', List.zipIdx, Nat.mul_comm, Nat.mul_left_comm, Nat.mul_assoc, Nat.left_distrib, Nat.add_assoc])
      | [], _, h3, _, _ | [_], _, h3, _, _ | [_, _], _, h3, _, _ => simp at h3
      | _ :: _ :: _ :: _ :: _ :: _ :: _, _, _, h5, _ => simp at h5
      | [_, _, _], [], _, _, hl | [_, _, _], [_], _, _, hl | [_, _, _], [_, _], _, _, hl
      | [_, _, _], _ :: _ :: _ :: _ :: _, _, _, hl => simp at hl
      | [_, _, _, _], [], _, _, hl | [_, _, _, _], [_], _, _, hl | [_, _, _, _], [_, _], _, _, hl
      | [_, _, _, _], [_, _, _], _, _, hl | [_, _, _, _], _ :: _ :: _ :: _ :: _ :: _, _, _, hl => simp at hl
      | [_, _, _, _, _], [], _, _, hl | [_, _, _, _, _], [_], _, _, hl | [_, _, _, _, _], [_, _], _, _, hl
      | [_, _, _, _, _], [_, _, _], _, _, hl | [_, _, _, _, _], [_, _, _, _], _, _, hl
      | [_, _, _, _, _], _ :: _ :: _ :: _ :: _ :: _ :: _, _, _, hl => simp at hl
    · simp [hr, toGetOut, bind, Except.bind]
  · have hl' : (idx.length != shape.length) = true := by simp [hl]
    simp [hl', hl, toGetOut, bind, Except.bind, throw, throwThe, MonadExceptOf.throw]


/-! ### `meta_valid` -/

/-- **`meta_valid` as written in dcmmeta.py is the model's `metaValid`** (the header reads and the
    comparison of the slice directions are the same parameters on both sides); slice dims in range,
    and a fourth axis on both sides where `('vector', 'slices')` reads it -/
theorem meta_valid_eq (e : ExtGeom) (img : Img) (c : Cls)
    (hisd : ∀ d, img.sliceDim = some d → d < img.shape.length)
    (hesd : ∀ d, e.sliceDim = some d → d < e.shape.length)
    (h4 : c = vslices → 3 < e.shape.length ∧ 3 < img.shape.length) :
    Py.meta_valid img.shape e.shape img.sliceDim (e.sliceDim.map fun d => e.shape[d]!) img.aligned c =
      .ok (metaValid e img c) := by
  obtain ⟨eshape, esd⟩ := e
  obtain ⟨ishape, isd, al⟩ := img
  cases c <;> cases isd <;> cases esd <;>
    simp_all [Py.meta_valid, metaValid, pure, Except.pure, bind, Except.bind, throw, throwThe, MonadExceptOf.throw] <;>
    (split <;> simp_all)




/-! ### `get_meta`, the whole method -/

/-- the method is its glue (absent key, constants, `meta_valid`) around the index block -/
theorem get_meta_unfold (ishape eshape : List Nat) (sd : Nat) (mns : Option Nat) (al : Bool) (vals : List α) (c : Cls)
    (idx : List Nat) :
    Py.get_meta ishape eshape (some sd) mns al vals (some c) (some idx) =
      (if (c == gconst) = true then pure vals.head?
       else do
        let v ← Py.meta_valid ishape eshape (some sd) mns al c
        if (!v) = true then pure none else Py.get_meta_index ishape sd c vals idx) := by
  unfold Py.get_meta Py.get_meta_index
  by_cases hc : (c == gconst) = true
  · simp [hc]
  · simp only [hc, if_false]
    rfl

/-- **`get_meta` as written in dcmmeta.py is the model's `getMeta`**: an absent key and a classification that is not valid for the
    image give the default, a constant its value whatever the index, every other key the value at the position the index
    arithmetic of its classification computes — or IndexError for an index of the wrong length or out of bounds -/
theorem get_meta_eq (e : ExtGeom) (shape : List Nat) (sd : Nat) (al : Bool) (ks : KeyState α) (index : Option (List Nat))
    (h3 : 3 ≤ shape.length) (h5 : shape.length ≤ 5) (hsd3 : sd < 3)
    (hesd : ∀ d, e.sliceDim = some d → d < e.shape.length)
    (h4 : ∀ c v, ks = some (c, v) → c = vslices → 3 < e.shape.length ∧ 3 < shape.length) :
    toGetOut (Py.get_meta shape e.shape (some sd) (e.sliceDim.map fun d => e.shape[d]!) al
        (match ks with | some (_, v) => v | none => []) (ks.map (·.1)) index) =
      getMeta e ⟨shape, some sd, al⟩ ks index := by
  cases ks with
  | none => cases index <;> rfl
  | some cv =>
    obtain ⟨c, vals⟩ := cv
    have hmv := meta_valid_eq e ⟨shape, some sd, al⟩ c (by intro d hd; simp at hd; show d < shape.length; omega) hesd (h4 c vals rfl)
    simp only [Option.map_some]
    by_cases hc : c = gconst
    · subst hc
      cases index <;> (simp [Py.get_meta, getMeta, toGetOut]; cases vals.head? <;> rfl)
    · have hcb : (c == gconst) = false := by simpa using hc
      cases index with
      | none =>
        simp only [Py.get_meta, getMeta, hc, hcb, if_false, Bool.false_eq_true, hmv, ok_bind']
        cases metaValid e ⟨shape, some sd, al⟩ c <;> rfl
      | some idx =>
        rw [get_meta_unfold]
        simp only [hcb, Bool.false_eq_true, if_false, hmv, ok_bind']
        cases hv : metaValid e ⟨shape, some sd, al⟩ c
        · simp [getMeta, hc, hv, toGetOut]
          rfl
        · simp only [Bool.not_true, Bool.false_eq_true, if_false]
          exact get_meta_index_eq shape idx sd al e c vals h3 h5 hsd3 hc hv

end Src
