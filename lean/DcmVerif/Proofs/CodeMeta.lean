import DcmVerif.Generated.Code
import DcmVerif.Model.Ext
import DcmVerif.Model.Stack
import DcmVerif.Model.Wrap
/-! The functions `tools/gen_code.py` translates from the Python source (`Generated/Code.lean`,
namespace `Py`) are equal to the hand-written model functions the property theorems are about.
These proofs are re-checked against what the source says on every run: an edit of
`get_valid_classes`, `get_multiplicity`, the index block of `get_meta` or the `file_idx` expressions
of `get_data` changes the generated definitions and the equalities below must still hold. -/
set_option autoImplicit false
set_option linter.unusedSimpArgs false
set_option linter.unusedVariables false
open Cls

namespace Src
variable {α κ : Type}

/-! ### `get_valid_classes`, `get_multiplicity` -/

/-- **`get_valid_classes` as written in dcmmeta.py is the model's `validClasses`** (3 to 5 axes) … -/
theorem get_valid_classes_eq (e : DExt κ α) (sdArg : Option Nat) (h3 : 3 ≤ e.shape.length)
    (h5 : e.shape.length ≤ 5) :
    Py.get_valid_classes e.shape = .ok (validClasses (e.shp sdArg)) := by
  obtain ⟨shape, sd, ht, hv, ents⟩ := e
  match shape, h3, h5 with
  | [a, b, c], _, _ => simp [Py.get_valid_classes, validClasses, DExt.shp, Gen.classifications]; rfl
  | [a, b, c, d], _, _ => simp [Py.get_valid_classes, validClasses, DExt.shp, Gen.classifications]; rfl
  | [a, b, c, d, f], _, _ =>
    by_cases hd : d = 1 <;>
      simp [Py.get_valid_classes, validClasses, DExt.shp, Gen.classifications, hd] <;> rfl
  | [], h3, _ | [_], h3, _ | [_, _], h3, _ => simp at h3
  | _ :: _ :: _ :: _ :: _ :: _ :: _, _, h5 => simp at h5

/-- … and raises ValueError for any other number of axes -/
theorem get_valid_classes_refuses (shape : List Nat) (h : ¬ (3 ≤ shape.length ∧ shape.length ≤ 5)) :
    Py.get_valid_classes shape = .error PyErr.valueError := by
  have h3 : (shape.length == 3) = false := by simp; omega
  have h4 : (shape.length == 4) = false := by simp; omega
  have h5 : (shape.length == 5) = false := by simp; omega
  simp [Py.get_valid_classes, h3, h4, h5]
  rfl

/-- **`get_multiplicity` as written in dcmmeta.py is the model's `mult`** for every classification
    valid for the shape (`n_slices` is `shape[slice_dim]`, or None without slice dimension) … -/
theorem get_multiplicity_eq (e : DExt κ α) (h3 : 3 ≤ e.shape.length) (h5 : e.shape.length ≤ 5)
    (c : Cls) (hv : c ∈ validClasses e.shp) :
    Py.get_multiplicity e.shape (e.sliceDim.map fun d => e.shape.getD d 1) c = .ok (mult e.shp c) := by
  obtain ⟨shape, sd, ht, hvv, ents⟩ := e
  match shape, h3, h5 with
  | [a, b, c'], _, _ =>
    cases sd <;> cases c <;> simp [validClasses, DExt.shp] at hv <;>
      simp [Py.get_multiplicity, Py.get_valid_classes, Gen.classifications, Cls.base, Cls.sub, mult, DExt.shp,
        bind, Except.bind, pure, Except.pure, Nat.mul_assoc]
  | [a, b, c', d], _, _ =>
    cases sd <;> cases c <;> simp [validClasses, DExt.shp] at hv <;>
      simp [Py.get_multiplicity, Py.get_valid_classes, Gen.classifications, Cls.base, Cls.sub, mult, DExt.shp,
        bind, Except.bind, pure, Except.pure, Nat.mul_assoc]
  | [a, b, c', d, f], _, _ =>
    by_cases hd : d = 1 <;> cases sd <;> cases c <;> simp [validClasses, DExt.shp, hd] at hv <;>
      simp [Py.get_multiplicity, Py.get_valid_classes, Gen.classifications, Cls.base, Cls.sub, mult, DExt.shp, hd,
        bind, Except.bind, pure, Except.pure, Nat.mul_assoc]
  | [], h3, _ | [_], h3, _ | [_, _], h3, _ => simp at h3
  | _ :: _ :: _ :: _ :: _ :: _ :: _, _, h5 => simp at h5

/-! ### the index block of `get_meta` -/

/-- all index components in range, starting at axis `k` -/
def inRangeFrom (shape : List Nat) : List Nat → Nat → Bool
  | [], _ => true
  | i :: is, k => decide (i < shape[k]!) && inRangeFrom shape is (k + 1)

theorem bounds_loop (shape : List Nat) : ∀ (index : List Nat) (k : Nat) (u : PUnit),
    (forIn (m := Except PyErr) (index.zipIdx k) u fun (x : Nat × Nat) (__s : PUnit) =>
        match x with
        | (ind_val, dim) =>
          if (!(decide (0 ≤ ind_val) && decide (ind_val < shape[dim]!))) = true then do
            throw PyErr.indexError
            pure (ForInStep.yield PUnit.unit)
          else pure (ForInStep.yield PUnit.unit)) =
      if inRangeFrom shape index k then .ok PUnit.unit else .error PyErr.indexError
  | [], k, u => by simp [inRangeFrom]; rfl
  | i :: is, k, u => by
    rw [List.zipIdx_cons, List.forIn_cons]
    by_cases h : i < shape[k]?.getD 0
    · have h1 : (!(decide (0 ≤ i) && decide (i < shape[k]!))) = false := by simp [h]
      simp only [h1, Bool.false_eq_true, if_false, pure_bind, bounds_loop shape is (k + 1)]
      simp [inRangeFrom, h]
    · have h1 : (!(decide (0 ≤ i) && decide (i < shape[k]!))) = true := by simp [h]
      simp only [h1, if_true]
      simp [inRangeFrom, h, bind, Except.bind, throw, throwThe, MonadExceptOf.throw]

def toGetOut : Except PyErr (Option α) → GetOut α
  | .ok (some a) => .value a
  | .ok none => .dflt
  | .error _ => .indexError

theorem toGetOut_idx (vals : List α) (j : Nat) :
    toGetOut (pyIndex vals j >>= fun v => pure (some v)) = GetOut.ofIdx vals[j]? := by
  unfold pyIndex
  cases vals[j]? <;> rfl

theorem toGetOut_idx' (vals : List α) (j : Nat) :
    toGetOut (some <$> pyIndex vals j) = GetOut.ofIdx vals[j]? := by
  unfold pyIndex
  cases vals[j]? <;> rfl

theorem ok_bind' {β γ : Type} (b : β) (f : β → Except PyErr γ) : (Except.ok b >>= f) = f b := rfl

theorem inRangeFrom_zip (shape : List Nat) : ∀ (idx : List Nat) (k : Nat), idx.length + k = shape.length →
    inRangeFrom shape idx k = (List.zip idx (shape.drop k)).all (fun p => decide (p.1 < p.2))
  | [], k, _ => by simp [inRangeFrom]
  | i :: is, k, h => by
    have hk : k < shape.length := by simp at h; omega
    have hd : shape.drop k = shape[k] :: shape.drop (k + 1) := (List.drop_eq_getElem_cons hk)
    rw [hd]
    simp only [inRangeFrom, List.zip_cons_cons, List.all_cons]
    rw [inRangeFrom_zip shape is (k + 1) (by simp at h ⊢; omega)]
    simp [hk]

theorem get_meta_index_eq (shape idx : List Nat) (sd : Nat) (al : Bool) (e : ExtGeom) (cl : Cls) (vals : List α)
    (h3 : 3 ≤ shape.length) (h5 : shape.length ≤ 5) (hsd3 : sd < 3) (hc : cl ≠ gconst)
    (hvalid : metaValid e ⟨shape, some sd, al⟩ cl = true) :
    toGetOut (Py.get_meta_index shape sd cl vals idx) =
      getMeta e ⟨shape, some sd, al⟩ (some (cl, vals)) (some idx) := by
  unfold Py.get_meta_index getMeta
  simp only [hc, if_false, hvalid, Bool.not_true, Bool.false_eq_true]
  have hz : idx.zipIdx = idx.zipIdx 0 := rfl
  by_cases hl : idx.length = shape.length
  · have hl' : (idx.length != shape.length) = false := by simp [hl]
    simp only [hl', Bool.false_eq_true, if_false, hz, bounds_loop, ne_eq, hl, not_true_eq_false]
    rw [inRangeFrom_zip shape idx 0 (by simpa using hl)]
    simp only [List.drop_zero]
    by_cases hr : (List.zip idx shape).all (fun p => decide (p.1 < p.2)) = true
    · simp only [hr, if_true, Bool.not_true, Bool.false_eq_true, if_false]
      have hsd : sd = 0 ∨ sd = 1 ∨ sd = 2 := by omega
      match shape, idx, h3, h5, hl with
      | [a, b, c], [i0, i1, i2], _, _, _ =>
        rcases hsd with rfl | rfl | rfl <;> cases cl <;>
          first
          | exact absurd rfl hc
          | (simp [toGetOut_idx, toGetOut_idx', ok_bind', List.zipIdx, Nat.mul_comm, Nat.mul_left_comm, Nat.mul_assoc, Nat.left_distrib, Nat.add_assoc])
      | [a, b, c, d], [i0, i1, i2, i3], _, _, _ =>
        rcases hsd with rfl | rfl | rfl <;> cases cl <;>
          first
          | exact absurd rfl hc
          | (simp [toGetOut_idx, toGetOut_idx', ok_bind', List.zipIdx, Nat.mul_comm, Nat.mul_left_comm, Nat.mul_assoc, Nat.left_distrib, Nat.add_assoc])
      | [a, b, c, d, f], [i0, i1, i2, i3, i4], _, _, _ =>
        rcases hsd with rfl | rfl | rfl <;> cases cl <;>
          first
          | exact absurd rfl hc
          | (simp [toGetOut_idx, toGetOut_idx', ok_bind', List.zipIdx, Nat.mul_comm, Nat.mul_left_comm, Nat.mul_assoc, Nat.left_distrib, Nat.add_assoc])
      | [], _, h3, _, _ | [_], _, h3, _, _ | [_, _], _, h3, _, _ => simp at h3
      | _ :: _ :: _ :: _ :: _ :: _ :: _, _, _, h5, _ => simp at h5
      | [_, _, _], [], _, _, hl | [_, _, _], [_], _, _, hl | [_, _, _], [_, _], _, _, hl
      | [_, _, _], _ :: _ :: _ :: _ :: _, _, _, hl => simp at hl
      | [_, _, _, _], [], _, _, hl | [_, _, _, _], [_], _, _, hl | [_, _, _, _], [_, _], _, _, hl
      | [_, _, _, _], [_, _, _], _, _, hl | [_, _, _, _], _ :: _ :: _ :: _ :: _ :: _, _, _, hl => simp at hl
      | [_, _, _, _, _], [], _, _, hl | [_, _, _, _, _], [_], _, _, hl | [_, _, _, _, _], [_, _], _, _, hl
      | [_, _, _, _, _], [_, _, _], _, _, hl | [_, _, _, _, _], [_, _, _, _], _, _, hl
      | [_, _, _, _, _], _ :: _ :: _ :: _ :: _ :: _ :: _, _, _, hl => simp at hl
    · simp [hr, toGetOut, bind, Except.bind]
  · have hl' : (idx.length != shape.length) = true := by simp [hl]
    simp [hl', hl, toGetOut, bind, Except.bind, throw, throwThe, MonadExceptOf.throw]


/-! ### `is_constant`, `is_repeating`, `_get_const_period` -/

/-- a `for` loop that returns False at the first element failing `P` and falls through otherwise -/
theorem forIn_search {β : Type} (P : β → Bool) : ∀ (l : List β),
    (forIn (m := Except PyErr) l ((none : Option Bool), ()) fun (x : β) (__s : Option Bool × Unit) =>
        if (!P x) = true then pure (ForInStep.done (some false, ())) else pure (ForInStep.yield (none, ()))) =
      .ok (if l.all P then (none, ()) else (some false, ()))
  | [] => by simp; rfl
  | x :: xs => by
    rw [List.forIn_cons]
    by_cases h : P x = true
    · simp only [h, Bool.not_true, Bool.false_eq_true, if_false, pure_bind, forIn_search P xs]
      simp [h]
    · have h' : P x = false := by simpa using h
      simp [h', bind, Except.bind, pure, Except.pure]

def errOf {β : Type} : Except Err β → Except PyErr β
  | .ok b => .ok b
  | .error _ => .error PyErr.valueError

/-- **`is_constant` as written in dcmmeta.py is the model's `pyIsConstant`** (guards and result), for
    every list and period -/
theorem is_constant_eq [DecidableEq α] (l : List α) (p : Option Nat) :
    Py.is_constant l p = errOf (pyIsConstant l p) := by
  cases p with
  | none =>
    cases l with
    | nil => rfl
    | cons x xs => simp [Py.is_constant, pyIsConstant, isConstantAll, errOf, pure, Except.pure]
  | some p =>
    unfold Py.is_constant pyIsConstant
    by_cases h1 : p ≤ 1
    · simp [h1, errOf, bind, Except.bind, throw, throwThe, MonadExceptOf.throw]
    · by_cases h2 : l.length % p = 0
      · have h2' : (l.length % p != 0) = false := by simp [h2]
        simp only [h1, decide_false, Bool.false_eq_true, if_false, h2', Nat.add_sub_cancel_left, h2,
          ne_eq, not_true_eq_false, errOf]
        have := forIn_search (fun b => ((l.drop (b * p)).take p).all fun x => some x == l[b * p]?)
          (List.range (l.length / p))
        simp only [this, isConstantP]
        cases hb : (List.range (l.length / p)).all
            (fun b => ((l.drop (b * p)).take p).all fun x => some x == l[b * p]?) <;> rfl
      · have h2' : (l.length % p != 0) = true := by simp [h2]
        simp [h1, h2, h2', errOf, bind, Except.bind, throw, throwThe, MonadExceptOf.throw]

theorem range_all_skip0 (Q : Nat → Bool) (k : Nat) (h0 : Q 0 = true) :
    (List.range' 1 (k - 1)).all Q = (List.range k).all Q := by
  cases k with
  | zero => simp
  | succ n =>
    rw [List.range_eq_range', List.range'_succ]
    simp [h0]

/-- **`is_repeating` as written in dcmmeta.py is the model's `pyIsRepeating`** -/
theorem is_repeating_eq [DecidableEq α] (l : List α) (p : Nat) :
    Py.is_repeating l p = errOf (pyIsRepeating l p) := by
  unfold Py.is_repeating pyIsRepeating
  by_cases h1 : p ≤ 1 ∨ p ≥ l.length
  · have h1' : (decide (p ≤ 1) || decide (p ≥ l.length)) = true := by simpa using h1
    simp [h1, h1', errOf, bind, Except.bind, throw, throwThe, MonadExceptOf.throw]
  · have h1' : (decide (p ≤ 1) || decide (p ≥ l.length)) = false := by
      simp at h1 ⊢; omega
    by_cases h2 : l.length % p = 0
    · have h2' : (l.length % p != 0) = false := by simp [h2]
      simp only [h1, h1', Bool.false_eq_true, if_false, h2', Nat.add_sub_cancel_left, h2, ne_eq,
        not_true_eq_false, errOf]
      have := forIn_search (fun b => ((l.drop (b * p)).take p) == l.take p)
        (List.range' 1 (l.length / p - 1))
      simp only [bne, this, isRepeatingP]
      rw [range_all_skip0 (fun b => ((l.drop (b * p)).take p) == l.take p) _ (by simp)]
      cases hb : (List.range (l.length / p)).all
          (fun b => ((l.drop (b * p)).take p) == l.take p) <;> rfl
    · have h2' : (l.length % p != 0) = true := by simp [h2]
      simp [h1, h1', h2, h2', errOf, bind, Except.bind, throw, throwThe, MonadExceptOf.throw]

/-- **`_get_const_period` as written in dcmmeta.py is the model's `constPeriod`** on every entry of
    the `_const_tests` table whose classes are valid for the shape -/
theorem get_const_period_eq (e : DExt κ α) (h3 : 3 ≤ e.shape.length) (h5 : e.shape.length ≤ 5)
    (hsl : e.sliceDim.isSome = true) (src dest : Cls) (hs : src ∈ validClasses e.shp)
    (hd : dest ∈ validClasses e.shp) (htab : dest ∈ constTests src) :
    Py.get_const_period e.shape (e.sliceDim.map fun d => e.shape.getD d 1) src dest =
      .ok (constPeriod e.shp src dest) := by
  have hm1 := get_multiplicity_eq e h3 h5 src hs
  have hm2 := get_multiplicity_eq e h3 h5 dest hd
  unfold Py.get_const_period
  obtain ⟨shape, sd, ht, hvv, ents⟩ := e
  cases sd with
  | none => simp at hsl
  | some d =>
    cases src <;> cases dest <;> simp [constTests] at htab <;>
      simp_all [constPeriod, DExt.shp, bind, Except.bind, pure, Except.pure] <;>
      (match shape, h3, h5 with
       | [a, b, c], _, _ => simp_all [validClasses, DExt.shp]
       | [a, b, c, d'], _, _ => simp_all [validClasses, DExt.shp]
       | [a, b, c, d', f], _, _ => simp_all [validClasses, DExt.shp]
       | [], h3, _ | [_], h3, _ | [_, _], h3, _ => simp at h3
       | _ :: _ :: _ :: _ :: _ :: _ :: _, _, h5 => simp at h5)


/-! ### `meta_valid` -/

/-- **`meta_valid` as written in dcmmeta.py is the model's `metaValid`** (the header reads and the
    comparison of the slice directions are the same parameters on both sides); slice dims in range,
    and a fourth axis on both sides where `('vector', 'slices')` reads it -/
theorem meta_valid_eq (e : ExtGeom) (img : Img) (c : Cls)
    (hisd : ∀ d, img.sliceDim = some d → d < img.shape.length)
    (hesd : ∀ d, e.sliceDim = some d → d < e.shape.length)
    (h4 : c = vslices → 3 < e.shape.length ∧ 3 < img.shape.length) :
    Py.meta_valid img.shape e.shape img.sliceDim (e.sliceDim.map fun d => e.shape[d]!) img.aligned c =
      .ok (metaValid e img c) := by
  obtain ⟨eshape, esd⟩ := e
  obtain ⟨ishape, isd, al⟩ := img
  cases c <;> cases isd <;> cases esd <;>
    simp_all [Py.meta_valid, metaValid, pure, Except.pure, bind, Except.bind, throw, throwThe, MonadExceptOf.throw] <;>
    (split <;> simp_all)




/-! ### `check_valid` -/

/-- a `for` loop over a unit state whose body either goes on or raises `e0`, decided by `P` -/
theorem forIn_guard_unit {β : Type} (e0 : PyErr) (P : β → Bool)
    (f : β → PUnit → Except PyErr (ForInStep PUnit)) : ∀ (l : List β),
    (∀ x, x ∈ l → ∀ s, f x s = if P x then .ok (ForInStep.yield PUnit.unit) else .error e0) →
    forIn l PUnit.unit f = if l.all P then .ok PUnit.unit else .error e0
  | [], _ => by simp; rfl
  | x :: xs, hf => by
    rw [List.forIn_cons, hf x (by simp)]
    by_cases hp : P x = true
    · simp only [hp, if_true, List.all_cons, Bool.true_and]
      have := forIn_guard_unit e0 P f xs (fun y hy s => hf y (by simp [hy]) s)
      simpa [bind, Except.bind] using this
    · have hp' : P x = false := by simpa using hp
      simp [hp', bind, Except.bind]

theorem cv_valid_classes (c : CV.Content) (h3 : 3 ≤ c.shape.length) (h6 : c.shape.length < 6) :
    Py.get_valid_classes c.shape = .ok (validClasses c.shp) := by
  obtain ⟨tk, ver, ar, sd, shape, dict⟩ := c
  match shape, h3, h6 with
  | [a, b, c'], _, _ => simp [Py.get_valid_classes, validClasses, CV.Content.shp, Gen.classifications]; rfl
  | [a, b, c', d], _, _ => simp [Py.get_valid_classes, validClasses, CV.Content.shp, Gen.classifications]; rfl
  | [a, b, c', d, f], _, _ =>
    by_cases hd : d = 1 <;>
      simp [Py.get_valid_classes, validClasses, CV.Content.shp, Gen.classifications, hd] <;> rfl
  | [], h3, _ | [_], h3, _ | [_, _], h3, _ => simp at h3
  | _ :: _ :: _ :: _ :: _ :: _ :: _, _, h6 => simp at h6; omega

theorem cv_multiplicity (c : CV.Content) (h3 : 3 ≤ c.shape.length) (h6 : c.shape.length < 6)
    (cl : Cls) (hv : cl ∈ validClasses c.shp) :
    Py.get_multiplicity c.shape (c.sliceDim.map fun d => c.shape.getD d.toNat 0) cl = .ok (mult c.shp cl) := by
  obtain ⟨tk, ver, ar, sd, shape, dict⟩ := c
  match shape, h3, h6 with
  | [a, b, c'], _, _ =>
    cases sd <;> cases cl <;> simp [validClasses, CV.Content.shp] at hv <;>
      simp [Py.get_multiplicity, Py.get_valid_classes, Gen.classifications, Cls.base, Cls.sub, mult, CV.Content.shp,
        bind, Except.bind, pure, Except.pure, Nat.mul_assoc]
  | [a, b, c', d], _, _ =>
    cases sd <;> cases cl <;> simp [validClasses, CV.Content.shp] at hv <;>
      simp [Py.get_multiplicity, Py.get_valid_classes, Gen.classifications, Cls.base, Cls.sub, mult, CV.Content.shp,
        bind, Except.bind, pure, Except.pure, Nat.mul_assoc]
  | [a, b, c', d, f], _, _ =>
    by_cases hd : d = 1 <;> cases sd <;> cases cl <;> simp [validClasses, CV.Content.shp, hd] at hv <;>
      simp [Py.get_multiplicity, Py.get_valid_classes, Gen.classifications, Cls.base, Cls.sub, mult, CV.Content.shp, hd,
        bind, Except.bind, pure, Except.pure, Nat.mul_assoc]
  | [], h3, _ | [_], h3, _ | [_, _], h3, _ => simp at h3
  | _ :: _ :: _ :: _ :: _ :: _ :: _, _, h6 => simp at h6; omega

theorem cv_inner (m : Nat) (d : List (String × CV.EShape)) :
    (forIn (m := Except PyErr) d PUnit.unit fun (x : String × CV.EShape) (__s : PUnit) =>
        match x with
        | (key, vals) =>
          if (vals != CV.EShape.sized m) = true then do
            throw PyErr.invalidExtension
            pure (ForInStep.yield PUnit.unit)
          else pure (ForInStep.yield PUnit.unit)) =
      if d.all (fun p => p.2 == CV.EShape.sized m) then .ok PUnit.unit else .error PyErr.invalidExtension := by
  apply forIn_guard_unit PyErr.invalidExtension (fun (p : String × CV.EShape) => p.2 == CV.EShape.sized m)
  intro x _ s
  obtain ⟨k, v⟩ := x
  by_cases h : v = CV.EShape.sized m <;>
    simp [h, bind, Except.bind, throw, throwThe, MonadExceptOf.throw, pure, Except.pure]

/-- the body of the first loop of `check_valid` (per classification) -/
def cvBody1 (c : CV.Content) (classes : Cls) (_s : PUnit) : Except PyErr (ForInStep PUnit) := do
  if (!(c.dict classes).isSome) then
    throw PyErr.invalidExtension
  if (!(c.dict classes).isSome) then
    throw PyErr.invalidExtension
  let cls_meta := ((c.dict classes).getD [])
  let cls_mult ← Py.get_multiplicity c.shape (c.sliceDim.map fun d => c.shape.getD d.toNat 0) classes
  if ((cls_mult == 0) && ((cls_meta).length != 0)) then
    throw PyErr.invalidExtension
  else if (decide (cls_mult > 1)) then
    for (key, vals) in cls_meta do
      if (vals != CV.EShape.sized cls_mult) then
        throw PyErr.invalidExtension
  pure (ForInStep.yield PUnit.unit)

/-- the body of the inner loop of the uniqueness test -/
def cvBody2 (c : CV.Content) (classes other_classes : Cls) (_s : PUnit) : Except PyErr (ForInStep PUnit) := do
  if (classes == other_classes) then
    return (ForInStep.yield PUnit.unit)
  let intersect := ((CV.keysOf c classes).filter fun k => (CV.keysOf c other_classes).contains k)
  if ((intersect).length != 0) then
    throw PyErr.invalidExtension
  pure (ForInStep.yield PUnit.unit)

theorem cvBody1_eq (c : CV.Content) (h3 : 3 ≤ c.shape.length) (h6 : c.shape.length < 6) (cl : Cls)
    (hv : cl ∈ validClasses c.shp) (s : PUnit) :
    cvBody1 c cl s = if CV.classOk c cl then .ok (ForInStep.yield PUnit.unit) else .error PyErr.invalidExtension := by
  unfold cvBody1 CV.classOk
  simp only [cv_inner]
  rw [cv_multiplicity c h3 h6 cl hv]
  cases hd : c.dict cl with
  | none => simp [bind, Except.bind, throw, throwThe, MonadExceptOf.throw]
  | some d =>
    by_cases hm0 : mult c.shp cl = 0
    · cases d with
      | nil => simp [hm0, bind, Except.bind, pure, Except.pure]
      | cons x xs => simp [hm0, bind, Except.bind, throw, throwThe, MonadExceptOf.throw]
    · by_cases hm1 : mult c.shp cl > 1
      · cases hall : d.all (fun p => p.2 == CV.EShape.sized (mult c.shp cl)) <;>
          simp [hall, hm0, hm1, bind, Except.bind, pure, Except.pure]
        all_goals (first | omega | trace_state)
      · simp [hm0, hm1, bind, Except.bind, pure, Except.pure]

theorem filter_nil_iff_all (A B : List String) :
    (A.filter fun k => B.contains k) = [] ↔ (A.all fun k => !(B.contains k)) = true := by
  rw [List.filter_eq_nil_iff, List.all_eq_true]
  constructor
  · intro h k hk; simpa using h k hk
  · intro h k hk; simpa using h k hk

theorem cvBody2_eq (c : CV.Content) (a b : Cls) (s : PUnit) :
    cvBody2 c a b s =
      if (a == b || (CV.keysOf c a).all fun k => !((CV.keysOf c b).contains k))
      then .ok (ForInStep.yield PUnit.unit) else .error PyErr.invalidExtension := by
  unfold cvBody2
  by_cases hab : a = b
  · simp [hab, pure, Except.pure]
  · have hne : (a == b) = false := by simp [hab]
    by_cases hf : ((CV.keysOf c a).filter fun k => (CV.keysOf c b).contains k) = []
    · have hall := (filter_nil_iff_all _ _).1 hf
      rw [hall]
      simp only [hne, Bool.false_eq_true, if_false, hf, List.length_nil, bne_self_eq_false, Bool.or_true, if_true]
      rfl
    · have hall : ((CV.keysOf c a).all fun k => !((CV.keysOf c b).contains k)) = false := by
        cases h : (CV.keysOf c a).all (fun k => !((CV.keysOf c b).contains k)) with
        | false => rfl
        | true => exact absurd ((filter_nil_iff_all _ _).2 h) hf
      have hl : (((CV.keysOf c a).filter fun k => (CV.keysOf c b).contains k).length != 0) = true := by
        cases hfl : (CV.keysOf c a).filter (fun k => (CV.keysOf c b).contains k) with
        | nil => exact absurd hfl hf
        | cons x xs => rfl
      rw [hall]
      simp only [hne, Bool.false_eq_true, if_false, hl, if_true, Bool.or_false]
      rfl

theorem check_valid_unfold (c : CV.Content) : Py.check_valid c = (do
    if (!(CV.requiredOk c)) then
      throw PyErr.invalidExtension
    if (c.affineRows != [4, 4, 4, 4]) then
      throw PyErr.invalidExtension
    let slice_dim := c.sliceDim
    if let some slice_dim := slice_dim then
      if (!((decide (0 ≤ slice_dim)) && (decide (slice_dim < 3)))) then
        throw PyErr.invalidExtension
    if (!((decide (3 ≤ (c.shape).length)) && (decide ((c.shape).length < 6)))) then
      throw PyErr.invalidExtension
    let valid_classes ← Py.get_valid_classes c.shape
    forIn valid_classes PUnit.unit (cvBody1 c)
    forIn valid_classes PUnit.unit (fun classes _ => do
      forIn valid_classes PUnit.unit (cvBody2 c classes)
      pure (ForInStep.yield PUnit.unit))
    return ()) := rfl

theorem cv_loop2 (c : CV.Content) (vc : List Cls) :
    (forIn (m := Except PyErr) vc PUnit.unit (fun classes (_ : PUnit) => do
        forIn vc PUnit.unit (cvBody2 c classes)
        pure (ForInStep.yield PUnit.unit))) =
      if vc.all (fun a => vc.all fun b => a == b || (CV.keysOf c a).all fun k => !((CV.keysOf c b).contains k))
      then .ok PUnit.unit else .error PyErr.invalidExtension := by
  apply forIn_guard_unit PyErr.invalidExtension
    (fun a => vc.all fun b => a == b || (CV.keysOf c a).all fun k => !((CV.keysOf c b).contains k))
  intro a _ s
  rw [forIn_guard_unit PyErr.invalidExtension
    (fun b => a == b || (CV.keysOf c a).all fun k => !((CV.keysOf c b).contains k)) (cvBody2 c a) vc
    (fun b _ s' => cvBody2_eq c a b s')]
  cases vc.all (fun b => a == b || (CV.keysOf c a).all fun k => !((CV.keysOf c b).contains k)) <;> rfl

/-- **`check_valid` as written in dcmmeta.py is the model's `checkValid`** over the abstraction
    `CV.Content` of the content dictionary: it returns iff the model accepts and raises
    InvalidExtensionError otherwise -/
theorem check_valid_eq (c : CV.Content) :
    Py.check_valid c = if CV.checkValid c then .ok () else .error PyErr.invalidExtension := by
  rw [check_valid_unfold]
  unfold CV.checkValid CV.geometryOk CV.uniqueOk
  cases hr : CV.requiredOk c with
  | false => simp [bind, Except.bind, throw, throwThe, MonadExceptOf.throw]
  | true =>
    have hvcall := fun (hl : 3 ≤ c.shape.length ∧ c.shape.length < 6) => cv_valid_classes c hl.1 hl.2
    have h2 := cv_loop2 c (validClasses c.shp)
    by_cases ha : c.affineRows = [4, 4, 4, 4]
    · by_cases hl : 3 ≤ c.shape.length ∧ c.shape.length < 6
      · have hvc := hvcall hl
        have h1 := forIn_guard_unit PyErr.invalidExtension (CV.classOk c) (cvBody1 c) (validClasses c.shp)
          (fun x hx s => cvBody1_eq c hl.1 hl.2 x hx s)
        cases hsd : c.sliceDim with
        | none =>
          simp only [ha, hl, hsd, hvc, bne_self_eq_false, Bool.false_eq_true, if_false, Bool.not_true,
            decide_true, Bool.and_self, ok_bind', Bool.true_and, beq_self_eq_true, Bool.and_true, and_self]
          rw [h1]
          cases (validClasses c.shp).all (CV.classOk c)
          · rfl
          · simp only [if_true, ok_bind', Bool.true_and]
            rw [h2]
            cases (validClasses c.shp).all (fun a => (validClasses c.shp).all fun b =>
              a == b || (CV.keysOf c a).all fun k => !((CV.keysOf c b).contains k)) <;> rfl
        | some d =>
          by_cases hd : 0 ≤ d ∧ d < 3
          · simp only [ha, hl, hsd, hd, hvc, bne_self_eq_false, Bool.false_eq_true, if_false, Bool.not_true,
              decide_true, Bool.and_self, ok_bind', Bool.true_and, beq_self_eq_true, Bool.and_true, and_self]
            rw [h1]
            cases (validClasses c.shp).all (CV.classOk c)
            · rfl
            · simp only [if_true, ok_bind', Bool.true_and]
              rw [h2]
              cases (validClasses c.shp).all (fun a => (validClasses c.shp).all fun b =>
                a == b || (CV.keysOf c a).all fun k => !((CV.keysOf c b).contains k)) <;> rfl
          · have hd' : (decide (0 ≤ d) && decide (d < 3)) = false := by
              simp at hd ⊢; omega
            simp [ha, hsd, hd, hd', bind, Except.bind, throw, throwThe, MonadExceptOf.throw]
      · have hl' : (decide (3 ≤ c.shape.length) && decide (c.shape.length < 6)) = false := by
          simp at hl ⊢; omega
        cases hsd : c.sliceDim with
        | none => simp [ha, hl, hl', hsd, bind, Except.bind, throw, throwThe, MonadExceptOf.throw]
        | some d =>
          by_cases hd : 0 ≤ d ∧ d < 3
          · have hd' : (decide (0 ≤ d) && decide (d < 3)) = true := by simp [hd]
            simp [ha, hl, hl', hsd, hd, hd', bind, Except.bind, throw, throwThe, MonadExceptOf.throw]
          · have hd' : (decide (0 ≤ d) && decide (d < 3)) = false := by
              simp at hd ⊢; omega
            simp [ha, hsd, hd, hd', bind, Except.bind, throw, throwThe, MonadExceptOf.throw]
    · simp [ha, bind, Except.bind, throw, throwThe, MonadExceptOf.throw]


/-! ### result shapes of `get_subset` and `from_sequence` (`while` loops) -/

/-- `while cond: s = step(s)` run for at most `n` rounds -/
def whileFuel {σ : Type} (cond : σ → Bool) (step : σ → σ) : Nat → σ → σ
  | 0, s => s
  | n + 1, s => if cond s then whileFuel cond step n (step s) else s

/-- the `for _ in range(fuel): if not cond: break; s = step(s)` rendering of a `while` loop -/
theorem forIn_while {β σ : Type} (cond : σ → Bool) (step : σ → σ) : ∀ (l : List β) (s : σ),
    (forIn (m := Except PyErr) l s fun (_ : β) (r : σ) =>
        if (!cond r) = true then pure (ForInStep.done r) else pure (ForInStep.yield (step r))) =
      .ok (whileFuel cond step l.length s)
  | [], s => rfl
  | x :: xs, s => by
    rw [List.forIn_cons]
    by_cases h : cond s = true
    · simp only [h, Bool.not_true, Bool.false_eq_true, if_false, List.length_cons, whileFuel, if_true]
      exact forIn_while cond step xs (step s)
    · have h' : cond s = false := by simpa using h
      simp [h', whileFuel, bind, Except.bind, pure, Except.pure]

def trimCond (l : List Nat) : Bool := (l[l.length - 1]! == 1) && decide (l.length > 3)

theorem whileFuel_trim : ∀ (n : Nat) (r : List Nat), r.length ≤ n →
    whileFuel trimCond List.dropLast n r.reverse = (trimRev r).reverse
  | 0, r, h => by
    have : r = [] := List.eq_nil_of_length_eq_zero (by omega)
    subst this; rfl
  | n + 1, [], _ => by simp [whileFuel, trimCond, trimRev]
  | n + 1, x :: rest, h => by
    have hrev : (x :: rest).reverse = rest.reverse ++ [x] := by simp
    rw [hrev]
    have hlast : (rest.reverse ++ [x])[(rest.reverse ++ [x]).length - 1]! = x := by simp
    have hlen : (rest.reverse ++ [x]).length = rest.length + 1 := by simp
    have hd : (rest.reverse ++ [x]).dropLast = rest.reverse := by simp
    by_cases hx : x = 1
    · subst hx
      by_cases h3 : 3 ≤ rest.length
      · have hc : trimCond (rest.reverse ++ [1]) = true := by
          unfold trimCond; rw [hlast, hlen]; simp; omega
        rw [whileFuel, if_pos hc, hd]
        have : trimRev (1 :: rest) = trimRev rest := by simp [trimRev, h3]
        rw [this]
        exact whileFuel_trim n rest (by simp at h; omega)
      · have hc : trimCond (rest.reverse ++ [1]) = false := by
          unfold trimCond; rw [hlast, hlen]; simp; omega
        rw [whileFuel, if_neg (by simp [hc])]
        have : trimRev (1 :: rest) = 1 :: rest := by simp [trimRev, h3]
        rw [this, hrev]
    · have hc : trimCond (rest.reverse ++ [x]) = false := by
        unfold trimCond; rw [hlast]; simp [hx]
      have ht : trimRev (x :: rest) = x :: rest := by
        unfold trimRev
        split
        · rename_i heq; simp at heq; exact absurd heq.1 hx
        · rfl
      rw [whileFuel, if_neg (by simp [hc]), ht, hrev]

theorem whileFuel_stable {σ : Type} (cond : σ → Bool) (step : σ → σ) (n : Nat) (s : σ) (h : cond s = false) :
    whileFuel cond step n s = s := by
  cases n <;> simp [whileFuel, h]

/-- after enough rounds the loop condition is false -/
theorem trimCond_after : ∀ (n : Nat) (r : List Nat), r.length ≤ n →
    trimCond (whileFuel trimCond List.dropLast n r) = false
  | 0, r, h => by
    have : r = [] := List.eq_nil_of_length_eq_zero (by omega)
    subst this; simp [whileFuel, trimCond]
  | n + 1, r, h => by
    by_cases hc : trimCond r = true
    · rw [whileFuel, if_pos hc]
      apply trimCond_after n r.dropLast
      have : 3 < r.length := by
        unfold trimCond at hc; simp at hc; exact hc.2
      simp; omega
    · have hc' : trimCond r = false := by simpa using hc
      rw [whileFuel_stable _ _ _ _ hc']; exact hc'

/-- **the result shape computed by `get_subset` as written in dcmmeta.py is the model's `subsetShape`**
    (split axis singular, trailing singular axes beyond the third removed) for every shape and axis; the
    bounded rendering of the `while` loop never runs out of rounds -/
theorem subset_shape_eq (shape : List Nat) (dim : Nat) :
    Py.subset_shape shape dim = .ok (DExt.subsetShape shape dim) := by
  unfold Py.subset_shape DExt.subsetShape trimTrailing
  have hfin := trimCond_after shape.length (shape.set dim 1) (by simp)
  have hres := whileFuel_trim shape.length (shape.set dim 1).reverse (by simp)
  rw [List.reverse_reverse] at hres
  simp only [forIn_while, List.length_range, ok_bind']
  have hc : (fun (r : List Nat) => r[r.length - 1]! == 1 && decide (r.length > 3)) = trimCond := rfl
  rw [hc]
  have hfin' : ((whileFuel trimCond List.dropLast shape.length (shape.set dim 1))[
      (whileFuel trimCond List.dropLast shape.length (shape.set dim 1)).length - 1]! == 1 &&
      decide ((whileFuel trimCond List.dropLast shape.length (shape.set dim 1)).length > 3)) = false := hfin
  rw [if_neg (by rw [hfin']; simp), hres]
  rfl

def padCond (dim : Nat) (l : List Nat) : Bool := decide (l.length ≤ dim)

theorem whileFuel_pad (dim : Nat) : ∀ (n : Nat) (l : List Nat), dim + 1 - l.length ≤ n →
    whileFuel (padCond dim) (fun l => l ++ [1]) n l = l ++ List.replicate (dim + 1 - l.length) 1
  | 0, l, h => by
    have : dim + 1 - l.length = 0 := by omega
    simp [whileFuel, this]
  | n + 1, l, h => by
    by_cases hc : l.length ≤ dim
    · have hc' : padCond dim l = true := by simp [padCond, hc]
      rw [whileFuel, if_pos hc', whileFuel_pad dim n (l ++ [1]) (by simp; omega)]
      have e : dim + 1 - l.length = (dim + 1 - (l ++ [1]).length) + 1 := by simp; omega
      rw [e, List.replicate_succ, List.append_assoc]
      rfl
    · have hc' : padCond dim l = false := by simp [padCond, hc]
      have : dim + 1 - l.length = 0 := by omega
      rw [whileFuel, if_neg (by simp [hc'])]
      simp [this]

/-- **the result shape computed by `from_sequence` as written in dcmmeta.py is the model's `outShapeOf`** -/
theorem merge_shape_eq {κ α : Type} (first : DExt κ α) (dim n : Nat) :
    Py.merge_shape first.shape dim n = .ok (DExt.outShapeOf first dim n) := by
  unfold Py.merge_shape DExt.outShapeOf
  simp only [forIn_while, List.length_range, ok_bind']
  have hc : (fun (r : List Nat) => decide (r.length ≤ dim)) = padCond dim := rfl
  rw [hc, whileFuel_pad dim (dim + 1) first.shape (by omega)]
  have hlen : ¬ (first.shape ++ List.replicate (dim + 1 - first.shape.length) 1).length ≤ dim := by
    simp; omega
  rw [if_neg (by simp only [decide_eq_true_eq]; exact hlen)]
  rfl

end Src
