import DcmVerif.Generated.Code
import DcmVerif.Model.Ext
import DcmVerif.Model.Stack
import DcmVerif.Model.Wrap
/-! The functions `tools/gen_code.py` translates from the Python source (`Generated/Code.lean`,
namespace `Py`) are equal to the hand-written model functions the property theorems are about.
These proofs are re-checked against what the source says on every run: an edit of
`get_valid_classes`, `get_multiplicity`, the index block of `get_meta` or the `file_idx` expressions
of `get_data` changes the generated definitions and the equalities below must still hold. -/
set_option autoImplicit false
set_option linter.unusedSimpArgs false
set_option linter.unusedVariables false
open Cls

namespace Src
variable {α κ : Type}

/-! ### `get_valid_classes`, `get_multiplicity` -/

/-- **`get_valid_classes` as written in dcmmeta.py is the model's `validClasses`** (3 to 5 axes) … -/
theorem get_valid_classes_eq (e : DExt κ α) (sdArg : Option Nat) (h3 : 3 ≤ e.shape.length)
    (h5 : e.shape.length ≤ 5) :
    Py.get_valid_classes e.shape = .ok (validClasses (e.shp sdArg)) := by
  obtain ⟨shape, sd, ht, hv, ents⟩ := e
  match shape, h3, h5 with
  | [a, b, c], _, _ => simp [Py.get_valid_classes, validClasses, DExt.shp, Gen.classifications]; rfl
  | [a, b, c, d], _, _ => simp [Py.get_valid_classes, validClasses, DExt.shp, Gen.classifications]; rfl
  | [a, b, c, d, f], _, _ =>
    by_cases hd : d = 1 <;>
      simp [Py.get_valid_classes, validClasses, DExt.shp, Gen.classifications, hd] <;> rfl
  | [], h3, _ | [_], h3, _ | [_, _], h3, _ => simp at h3
  | _ :: _ :: _ :: _ :: _ :: _ :: _, _, h5 => simp at h5

/-- … and raises ValueError for any other number of axes -/
theorem get_valid_classes_refuses (shape : List Nat) (h : ¬ (3 ≤ shape.length ∧ shape.length ≤ 5)) :
    Py.get_valid_classes shape = .error PyErr.valueError := by
  have h3 : (shape.length == 3) = false := by simp; omega
  have h4 : (shape.length == 4) = false := by simp; omega
  have h5 : (shape.length == 5) = false := by simp; omega
  simp [Py.get_valid_classes, h3, h4, h5]
  rfl

/-- **`get_multiplicity` as written in dcmmeta.py is the model's `mult`** for every classification
    valid for the shape (`n_slices` is `shape[slice_dim]`, or None without slice dimension) … -/
theorem get_multiplicity_eq (e : DExt κ α) (h3 : 3 ≤ e.shape.length) (h5 : e.shape.length ≤ 5)
    (c : Cls) (hv : c ∈ validClasses e.shp) :
    Py.get_multiplicity e.shape (e.sliceDim.map fun d => e.shape.getD d 1) c = .ok (mult e.shp c) := by
  obtain ⟨shape, sd, ht, hvv, ents⟩ := e
  match shape, h3, h5 with
  | [a, b, c'], _, _ =>
    cases sd <;> cases c <;> simp [validClasses, DExt.shp] at hv <;>
      simp [Py.get_multiplicity, Py.get_valid_classes, Gen.classifications, Cls.base, Cls.sub, mult, DExt.shp,
        bind, Except.bind, pure, Except.pure, Nat.mul_assoc]
  | [a, b, c', d], _, _ =>
    cases sd <;> cases c <;> simp [validClasses, DExt.shp] at hv <;>
      simp [Py.get_multiplicity, Py.get_valid_classes, Gen.classifications, Cls.base, Cls.sub, mult, DExt.shp,
        bind, Except.bind, pure, Except.pure, Nat.mul_assoc]
  | [a, b, c', d, f], _, _ =>
    by_cases hd : d = 1 <;> cases sd <;> cases c <;> simp [validClasses, DExt.shp, hd] at hv <;>
      simp [Py.get_multiplicity, Py.get_valid_classes, Gen.classifications, Cls.base, Cls.sub, mult, DExt.shp, hd,
        bind, Except.bind, pure, Except.pure, Nat.mul_assoc]
  | [], h3, _ | [_], h3, _ | [_, _], h3, _ => simp at h3
  | _ :: _ :: _ :: _ :: _ :: _ :: _, _, h5 => simp at h5

/-! ### the index block of `get_meta` -/

/-- all index components in range, starting at axis `k` -/
def inRangeFrom (shape : List Nat) : List Nat → Nat → Bool
  | [], _ => true
  | i :: is, k => decide (i < shape[k]!) && inRangeFrom shape is (k + 1)

theorem bounds_loop (shape : List Nat) : ∀ (index : List Nat) (k : Nat) (u : PUnit),
    (forIn (m := Except PyErr) (index.zipIdx k) u fun (x : Nat × Nat) (__s : PUnit) =>
        match x with
        | (ind_val, dim) =>
          if (!(decide (0 ≤ ind_val) && decide (ind_val < shape[dim]!))) = true then do
            throw PyErr.indexError
            pure (ForInStep.yield PUnit.unit)
          else pure (ForInStep.yield PUnit.unit)) =
      if inRangeFrom shape index k then .ok PUnit.unit else .error PyErr.indexError
  | [], k, u => by simp [inRangeFrom]; rfl
  | i :: is, k, u => by
    rw [List.zipIdx_cons, List.forIn_cons]
    by_cases h : i < shape[k]?.getD 0
    · have h1 : (!(decide (0 ≤ i) && decide (i < shape[k]!))) = false := by simp [h]
      simp only [h1, Bool.false_eq_true, if_false, pure_bind, bounds_loop shape is (k + 1)]
      simp [inRangeFrom, h]
    · have h1 : (!(decide (0 ≤ i) && decide (i < shape[k]!))) = true := by simp [h]
      simp only [h1, if_true]
      simp [inRangeFrom, h, bind, Except.bind, throw, throwThe, MonadExceptOf.throw]

def toGetOut : Except PyErr (Option α) → GetOut α
  | .ok (some a) => .value a
  | .ok none => .dflt
  | .error _ => .indexError

theorem toGetOut_idx (vals : List α) (j : Nat) :
    toGetOut (pyIndex vals j >>= fun v => pure (some v)) = GetOut.ofIdx vals[j]? := by
  unfold pyIndex
  cases vals[j]? <;> rfl

theorem toGetOut_idx' (vals : List α) (j : Nat) :
    toGetOut (some <$> pyIndex vals j) = GetOut.ofIdx vals[j]? := by
  unfold pyIndex
  cases vals[j]? <;> rfl

theorem ok_bind' {β γ : Type} (b : β) (f : β → Except PyErr γ) : (Except.ok b >>= f) = f b := rfl

theorem inRangeFrom_zip (shape : List Nat) : ∀ (idx : List Nat) (k : Nat), idx.length + k = shape.length →
    inRangeFrom shape idx k = (List.zip idx (shape.drop k)).all (fun p => decide (p.1 < p.2))
  | [], k, _ => by simp [inRangeFrom]
  | i :: is, k, h => by
    have hk : k < shape.length := by simp at h; omega
    have hd : shape.drop k = shape[k] :: shape.drop (k + 1) := (List.drop_eq_getElem_cons hk)
    rw [hd]
    simp only [inRangeFrom, List.zip_cons_cons, List.all_cons]
    rw [inRangeFrom_zip shape is (k + 1) (by simp at h ⊢; omega)]
    simp [hk]

theorem get_meta_index_eq (shape idx : List Nat) (sd : Nat) (al : Bool) (e : ExtGeom) (cl : Cls) (vals : List α)
    (h3 : 3 ≤ shape.length) (h5 : shape.length ≤ 5) (hsd3 : sd < 3) (hc : cl ≠ gconst)
    (hvalid : metaValid e ⟨shape, some sd, al⟩ cl = true) :
    toGetOut (Py.get_meta_index shape sd cl vals idx) =
      getMeta e ⟨shape, some sd, al⟩ (some (cl, vals)) (some idx) := by
  unfold Py.get_meta_index getMeta
  simp only [hc, if_false, hvalid, Bool.not_true, Bool.false_eq_true]
  have hz : idx.zipIdx = idx.zipIdx 0 := rfl
  by_cases hl : idx.length = shape.length
  · have hl' : (idx.length != shape.length) = false := by simp [hl]
    simp only [hl', Bool.false_eq_true, if_false, hz, bounds_loop, ne_eq, hl, not_true_eq_false]
    rw [inRangeFrom_zip shape idx 0 (by simpa using hl)]
    simp only [List.drop_zero]
    by_cases hr : (List.zip idx shape).all (fun p => decide (p.1 < p.2)) = true
    · simp only [hr, if_true, Bool.not_true, Bool.false_eq_true, if_false]
      have hsd : sd = 0 ∨ sd = 1 ∨ sd = 2 := by omega
      match shape, idx, h3, h5, hl with
      | [a, b, c], [i0, i1, i2], _, _, _ =>
        rcases hsd with rfl | rfl | rfl <;> cases cl <;>
          first
          | exact absurd rfl hc
          | (simp [toGetOut_idx, toGetOut_idx', ok_bind', List.zipIdx, Nat.mul_comm, Nat.mul_left_comm, Nat.mul_assoc, Nat.left_distrib, Nat.add_assoc])
      | [a, b, c, d], [i0, i1, i2, i3], _, _, _ =>
        rcases hsd with rfl | rfl | rfl <;> cases cl <;>
          first
          | exact absurd rfl hc
          | (simp [toGetOut_idx, toGetOut_idx', ok_bind', List.zipIdx, Nat.mul_comm, Nat.mul_left_comm, Nat.mul_assoc, Nat.left_distrib, Nat.add_assoc])
      | [a, b, c, d, f], [i0, i1, i2, i3, i4], _, _, _ =>
        rcases hsd with rfl | rfl | rfl <;> cases cl <;>
          first
          | exact absurd rfl hc
          | (simp [toGetOut_idx, toGetOut_idx', ok_bind', List.zipIdx, Nat.mul_comm, Nat.mul_left_comm, Nat.mul_assoc, Nat.left_distrib, Nat.add_assoc])
      | [], _, h3, _, _ | [_], _, h3, _, _ | [_, _], _, h3, _, _ => simp at h3
      | _ :: _ :: _ :: _ :: _ :: _ :: _, _, _, h5, _ => simp at h5
      | [_, _, _], [], _, _, hl | [_, _, _], [_], _, _, hl | [_, _, _], [_, _], _, _, hl
      | [_, _, _], _ :: _ :: _ :: _ :: _, _, _, hl => simp at hl
      | [_, _, _, _], [], _, _, hl | [_, _, _, _], [_], _, _, hl | [_, _, _, _], [_, _], _, _, hl
      | [_, _, _, _], [_, _, _], _, _, hl | [_, _, _, _], _ :: _ :: _ :: _ :: _ :: _, _, _, hl => simp at hl
      | [_, _, _, _, _], [], _, _, hl | [_, _, _, _, _], [_], _, _, hl | [_, _, _, _, _], [_, _], _, _, hl
      | [_, _, _, _, _], [_, _, _], _, _, hl | [_, _, _, _, _], [_, _, _, _], _, _, hl
      | [_, _, _, _, _], _ :: _ :: _ :: _ :: _ :: _ :: _, _, _, hl => simp at hl
    · simp [hr, toGetOut, bind, Except.bind]
  · have hl' : (idx.length != shape.length) = true := by simp [hl]
    simp [hl', hl, toGetOut, bind, Except.bind, throw, throwThe, MonadExceptOf.throw]


/-! ### `is_constant`, `is_repeating`, `_get_const_period` -/

/-- a `for` loop that returns False at the first element failing `P` and falls through otherwise -/
theorem forIn_search {β : Type} (P : β → Bool) : ∀ (l : List β),
    (forIn (m := Except PyErr) l ((none : Option Bool), ()) fun (x : β) (__s : Option Bool × Unit) =>
        if (!P x) = true then pure (ForInStep.done (some false, ())) else pure (ForInStep.yield (none, ()))) =
      .ok (if l.all P then (none, ()) else (some false, ()))
  | [] => by simp; rfl
  | x :: xs => by
    rw [List.forIn_cons]
    by_cases h : P x = true
    · simp only [h, Bool.not_true, Bool.false_eq_true, if_false, pure_bind, forIn_search P xs]
      simp [h]
    · have h' : P x = false := by simpa using h
      simp [h', bind, Except.bind, pure, Except.pure]

def errOf {β : Type} : Except Err β → Except PyErr β
  | .ok b => .ok b
  | .error _ => .error PyErr.valueError

/-- **`is_constant` as written in dcmmeta.py is the model's `pyIsConstant`** (guards and result), for
    every list and period -/
theorem is_constant_eq [DecidableEq α] (l : List α) (p : Option Nat) :
    Py.is_constant l p = errOf (pyIsConstant l p) := by
  cases p with
  | none =>
    cases l with
    | nil => rfl
    | cons x xs => simp [Py.is_constant, pyIsConstant, isConstantAll, errOf, pure, Except.pure]
  | some p =>
    unfold Py.is_constant pyIsConstant
    by_cases h1 : p ≤ 1
    · simp [h1, errOf, bind, Except.bind, throw, throwThe, MonadExceptOf.throw]
    · by_cases h2 : l.length % p = 0
      · have h2' : (l.length % p != 0) = false := by simp [h2]
        simp only [h1, decide_false, Bool.false_eq_true, if_false, h2', Nat.add_sub_cancel_left, h2,
          ne_eq, not_true_eq_false, errOf]
        have := forIn_search (fun b => ((l.drop (b * p)).take p).all fun x => some x == l[b * p]?)
          (List.range (l.length / p))
        simp only [this, isConstantP]
        cases hb : (List.range (l.length / p)).all
            (fun b => ((l.drop (b * p)).take p).all fun x => some x == l[b * p]?) <;> rfl
      · have h2' : (l.length % p != 0) = true := by simp [h2]
        simp [h1, h2, h2', errOf, bind, Except.bind, throw, throwThe, MonadExceptOf.throw]

theorem range_all_skip0 (Q : Nat → Bool) (k : Nat) (h0 : Q 0 = true) :
    (List.range' 1 (k - 1)).all Q = (List.range k).all Q := by
  cases k with
  | zero => simp
  | succ n =>
    rw [List.range_eq_range', List.range'_succ]
    simp [h0]

/-- **`is_repeating` as written in dcmmeta.py is the model's `pyIsRepeating`** -/
theorem is_repeating_eq [DecidableEq α] (l : List α) (p : Nat) :
    Py.is_repeating l p = errOf (pyIsRepeating l p) := by
  unfold Py.is_repeating pyIsRepeating
  by_cases h1 : p ≤ 1 ∨ p ≥ l.length
  · have h1' : (decide (p ≤ 1) || decide (p ≥ l.length)) = true := by simpa using h1
    simp [h1, h1', errOf, bind, Except.bind, throw, throwThe, MonadExceptOf.throw]
  · have h1' : (decide (p ≤ 1) || decide (p ≥ l.length)) = false := by
      simp at h1 ⊢; omega
    by_cases h2 : l.length % p = 0
    · have h2' : (l.length % p != 0) = false := by simp [h2]
      simp only [h1, h1', Bool.false_eq_true, if_false, h2', Nat.add_sub_cancel_left, h2, ne_eq,
        not_true_eq_false, errOf]
      have := forIn_search (fun b => ((l.drop (b * p)).take p) == l.take p)
        (List.range' 1 (l.length / p - 1))
      simp only [bne, this, isRepeatingP]
      rw [range_all_skip0 (fun b => ((l.drop (b * p)).take p) == l.take p) _ (by simp)]
      cases hb : (List.range (l.length / p)).all
          (fun b => ((l.drop (b * p)).take p) == l.take p) <;> rfl
    · have h2' : (l.length % p != 0) = true := by simp [h2]
      simp [h1, h1', h2, h2', errOf, bind, Except.bind, throw, throwThe, MonadExceptOf.throw]

/-- **`_get_const_period` as written in dcmmeta.py is the model's `constPeriod`** on every entry of
    the `_const_tests` table whose classes are valid for the shape -/
theorem get_const_period_eq (e : DExt κ α) (h3 : 3 ≤ e.shape.length) (h5 : e.shape.length ≤ 5)
    (hsl : e.sliceDim.isSome = true) (src dest : Cls) (hs : src ∈ validClasses e.shp)
    (hd : dest ∈ validClasses e.shp) (htab : dest ∈ constTests src) :
    Py.get_const_period e.shape (e.sliceDim.map fun d => e.shape.getD d 1) src dest =
      .ok (constPeriod e.shp src dest) := by
  have hm1 := get_multiplicity_eq e h3 h5 src hs
  have hm2 := get_multiplicity_eq e h3 h5 dest hd
  unfold Py.get_const_period
  obtain ⟨shape, sd, ht, hvv, ents⟩ := e
  cases sd with
  | none => simp at hsl
  | some d =>
    cases src <;> cases dest <;> simp [constTests] at htab <;>
      simp_all [constPeriod, DExt.shp, bind, Except.bind, pure, Except.pure] <;>
      (match shape, h3, h5 with
       | [a, b, c], _, _ => simp_all [validClasses, DExt.shp]
       | [a, b, c, d'], _, _ => simp_all [validClasses, DExt.shp]
       | [a, b, c, d', f], _, _ => simp_all [validClasses, DExt.shp]
       | [], h3, _ | [_], h3, _ | [_, _], h3, _ => simp at h3
       | _ :: _ :: _ :: _ :: _ :: _ :: _, _, h5 => simp at h5)


/-! ### `meta_valid` -/

/-- **`meta_valid` as written in dcmmeta.py is the model's `metaValid`** (the header reads and the
    comparison of the slice directions are the same parameters on both sides); slice dims in range,
    and a fourth axis on both sides where `('vector', 'slices')` reads it -/
theorem meta_valid_eq (e : ExtGeom) (img : Img) (c : Cls)
    (hisd : ∀ d, img.sliceDim = some d → d < img.shape.length)
    (hesd : ∀ d, e.sliceDim = some d → d < e.shape.length)
    (h4 : c = vslices → 3 < e.shape.length ∧ 3 < img.shape.length) :
    Py.meta_valid img.shape e.shape img.sliceDim (e.sliceDim.map fun d => e.shape[d]!) img.aligned c =
      .ok (metaValid e img c) := by
  obtain ⟨eshape, esd⟩ := e
  obtain ⟨ishape, isd, al⟩ := img
  cases c <;> cases isd <;> cases esd <;>
    simp_all [Py.meta_valid, metaValid, pure, Except.pure, bind, Except.bind, throw, throwThe, MonadExceptOf.throw] <;>
    (split <;> simp_all)



end Src
