import DcmVerif.Generated.Code_phoenix
/-! `_parse_phoenix_line` as translated from extract.py is the model's `Phx.parseLine`. -/
set_option autoImplicit false
set_option linter.unusedSimpArgs false
set_option linter.unusedVariables false

namespace Src
open Phx

theorem take_min_len (b : Nat) (l : Str) : List.take (min b l.length) l = List.take b l := by
  by_cases h : b ≤ l.length
  · rw [Nat.min_eq_left h]
  · rw [Nat.min_eq_right (by omega), List.take_of_length_le (Nat.le_refl _), List.take_of_length_le (by omega)]

theorem drop_min_len (a : Nat) (l : Str) : List.drop (min a l.length) l = List.drop a l := by
  by_cases h : a ≤ l.length
  · rw [Nat.min_eq_left h]
  · rw [Nat.min_eq_right (by omega), List.drop_eq_nil_of_le (Nat.le_refl _), List.drop_eq_nil_of_le (by omega)]

theorem pySlice_nat (a b : Nat) (l : Str) : pySlice (a : Int) (b : Int) l = (l.take b).drop a := by
  unfold pySlice pyBound
  have ha : ¬ ((a : Int) < 0) := by omega
  have hb : ¬ ((b : Int) < 0) := by omega
  simp only [ha, hb, if_false, Int.toNat_natCast, take_min_len]
  by_cases h : a ≤ l.length
  · rw [Nat.min_eq_left h]
  · rw [Nat.min_eq_right (by omega)]
    have hl : (List.take b l).length ≤ l.length := by simp; omega
    rw [List.drop_eq_nil_of_le hl, List.drop_eq_nil_of_le (by omega)]

theorem pySlice_from (a : Nat) (l : Str) : pySlice (a : Int) (l.length : Int) l = l.drop a := by
  rw [pySlice_nat]; simp

theorem pySlice_to (b : Nat) (l : Str) : pySlice (0 : Int) (b : Int) l = l.take b := by
  have := pySlice_nat 0 b l
  simpa using this

theorem findI_some (sub l : Str) (i : Nat) (h : findSub sub l = some i) : findI sub l = (i : Int) := by simp [findI, h]
theorem findI_none (sub l : Str) (h : findSub sub l = none) : findI sub l = -1 := by simp [findI, h]

/-- the part of `_parse_phoenix_line` after the comment handling (the text of the translation from `if line.strip() == ''` on),
    as a function of the line that is left -/
def pyTail (str_delim line : Str) : POut := Id.run do
  let delim_len := ((str_delim).length : Int)
  if ((Phx.strip line) == []) then
    return Phx.POut.none
  let equals_idx := (Phx.findI ['='] line)
  if (equals_idx == (-1 : Int)) then
    return Phx.POut.parseError
  let key := (Phx.strip (Phx.pySlice (0 : Int) equals_idx line))
  let val_str := (Phx.strip (Phx.pySlice (equals_idx + (1 : Int)) ((line).length : Int) line))
  if ((str_delim).isPrefixOf val_str) then
    let end_quote := ((Phx.findI str_delim (Phx.pySlice delim_len ((val_str).length : Int) val_str)) + delim_len)
    if (end_quote == (-1 : Int)) then
      return Phx.POut.parseError
    else if (!(end_quote == (((val_str).length : Int) - delim_len))) then
      if (!((['#']).isPrefixOf (Phx.strip (Phx.pySlice (end_quote + delim_len) ((val_str).length : Int) val_str)))) then
        return Phx.POut.parseError
    return Phx.POut.pair key (Phx.PVal.str (Phx.pySlice delim_len end_quote val_str))
  else
    if let some v_ := Phx.pyInt val_str then
      return Phx.POut.pair key (Phx.PVal.int v_)
    if let some v_ := Phx.pyIntHex val_str then
      return Phx.POut.pair key (Phx.PVal.int v_)
    if let some v_ := (if Phx.pyFloatOk val_str then some val_str else none) then
      return Phx.POut.pair key (Phx.PVal.floatLex v_)
  return Phx.POut.parseError

/-- the translated function is its comment handling around `pyTail` -/
theorem parse_phoenix_line_unfold (delim line : Str) :
    Py.parse_phoenix_line line delim =
      (if (findI ['#'] line != (-1 : Int)) = true then
        (if (((countSub delim (pySlice (0 : Int) (findI ['#'] line) line) : Nat) : Int) == (1 : Int)) = true then
          (if (findI delim (pySlice (findI ['#'] line) (line.length : Int) line) == (-1 : Int)) = true then POut.parseError
           else pyTail delim line)
         else pyTail delim (pySlice (0 : Int) (findI ['#'] line) line))
       else pyTail delim line) := by
  unfold Py.parse_phoenix_line pyTail
  by_cases h1 : (findI ['#'] line != (-1 : Int)) = true
  · by_cases h2 : (((countSub delim (pySlice (0 : Int) (findI ['#'] line) line) : Nat) : Int) == (1 : Int)) = true
    · by_cases h3 : (findI delim (pySlice (findI ['#'] line) (line.length : Int) line) == (-1 : Int)) = true
      · simp only [h1, h2, h3, if_true]; rfl
      · simp only [h1, h2, h3, if_true, if_false]; rfl
    · simp only [h1, h2, if_true, if_false]; rfl
  · simp only [h1, if_false]; rfl

/-- what `parseLine` does with the line left after the comment handling -/
def modelTail (delim line : Str) : POut :=
  if strip line = [] then .none
  else
    match findSub ['='] line with
    | none => .parseError
    | some ei =>
      let key := strip (line.take ei)
      let v := strip (line.drop (ei + 1))
      if delim.isPrefixOf v then parseString delim key v else parseNumber key v

theorem pyTail_eq (delim line : Str) (hd : delim ≠ []) : pyTail delim line = modelTail delim line := by
  unfold pyTail modelTail
  by_cases hs : strip line = []
  · simp [hs]
  · have hs' : (strip line == []) = false := by simpa using hs
    simp only [hs, hs', if_false, Bool.false_eq_true]
    cases he : findSub ['='] line with
    | none => simp [findI_none _ _ he]
    | some ei =>
      have hne : ((ei : Int) == -1) = false := by
        have : (ei : Int) ≠ -1 := by omega
        simpa using this
      simp only [findI_some _ _ _ he, hne, Bool.false_eq_true, if_false, pySlice_to]
      have h1 : ((ei : Int) + 1) = ((ei + 1 : Nat) : Int) := by simp
      rw [h1, pySlice_from]
      generalize strip (List.drop (ei + 1) line) = v
      generalize strip (List.take ei line) = key
      have hdl : 1 ≤ delim.length := by
        cases delim with
        | nil => exact absurd rfl hd
        | cons a t => simp
      by_cases hp : delim.isPrefixOf v = true
      · simp only [hp, if_true, parseString, pySlice_from]
        cases hf : findSub delim (v.drop delim.length) with
        | some i =>
          have e1 : ((i : Int) + (delim.length : Int)) = ((i + delim.length : Nat) : Int) := by simp
          have e2 : (((i + delim.length : Nat) : Int) + (delim.length : Int)) = ((i + delim.length + delim.length : Nat) : Int) := by simp
          have n1 : (((i + delim.length : Nat) : Int) == -1) = false := by
            have : ((i + delim.length : Nat) : Int) ≠ -1 := by omega
            simpa using this
          have n1' : ¬ (((i + delim.length : Nat) : Int) = -1) := by omega
          have n2 : ¬ (((i + delim.length : Nat) : Int) < 0) := by omega
          simp only [findI_some _ _ _ hf, e1, e2, n1, n1', n2, Bool.false_eq_true, if_false, pySlice_from, pySlice_nat,
            Int.toNat_natCast]
          by_cases hq : ((i + delim.length : Nat) : Int) = (v.length : Int) - (delim.length : Int)
          · simp [hq]
          · have hq' : (((i + delim.length : Nat) : Int) == (v.length : Int) - (delim.length : Int)) = false := by simpa using hq
            simp only [hq, hq', Bool.not_false, if_true, if_false]
            cases hh : ['#'].isPrefixOf (strip (List.drop (i + delim.length + delim.length) v)) <;> simp [hh] <;> rfl
        | none =>
          have e1 : ((-1 : Int) + (delim.length : Int)) = ((delim.length - 1 : Nat) : Int) := by omega
          have e2 : (((delim.length - 1 : Nat) : Int) + (delim.length : Int)) = ((delim.length - 1 + delim.length : Nat) : Int) := by simp
          have n1 : (((delim.length - 1 : Nat) : Int) == -1) = false := by
            have : ((delim.length - 1 : Nat) : Int) ≠ -1 := by omega
            simpa using this
          have n1' : ¬ (((delim.length - 1 : Nat) : Int) = -1) := by omega
          have n2 : ¬ (((delim.length - 1 : Nat) : Int) < 0) := by omega
          simp only [findI_none _ _ hf, e1, e2, n1, n1', n2, Bool.false_eq_true, if_false, pySlice_from, pySlice_nat,
            Int.toNat_natCast]
          by_cases hq : ((delim.length - 1 : Nat) : Int) = (v.length : Int) - (delim.length : Int)
          · simp [hq]
          · have hq' : (((delim.length - 1 : Nat) : Int) == (v.length : Int) - (delim.length : Int)) = false := by simpa using hq
            simp only [hq, hq', Bool.not_false, if_true, if_false]
            cases hh : ['#'].isPrefixOf (strip (List.drop (delim.length - 1 + delim.length) v)) <;> simp [hh] <;> rfl
      · have hp' : delim.isPrefixOf v = false := by
          cases h : delim.isPrefixOf v
          · rfl
          · exact absurd h hp
        simp only [hp', Bool.false_eq_true, if_false, parseNumber]
        cases h1 : pyInt v with
        | some n => rfl
        | none =>
          cases h2 : pyIntHex v with
          | some n => rfl
          | none => cases h3 : pyFloatOk v <;> rfl

theorem parseLine_tail (delim line0 : Str) :
    parseLine delim line0 = (match stripComment delim line0 with | none => POut.parseError | some line => modelTail delim line) := by
  unfold parseLine modelTail
  cases stripComment delim line0 <;> rfl

/-- **`_parse_phoenix_line` as written in extract.py is the model's `parseLine`**, for every line and every non-empty string
    delimiter (both dialects: `"` and `""`) -/
theorem parse_phoenix_line_eq (delim line : Str) (hd : delim ≠ []) :
    Py.parse_phoenix_line line delim = parseLine delim line := by
  rw [parse_phoenix_line_unfold, parseLine_tail]
  unfold stripComment
  cases hc : findSub ['#'] line with
  | none =>
    have : (findI ['#'] line != (-1 : Int)) = false := by simp [findI_none _ _ hc]
    simp only [this, Bool.false_eq_true, if_false]
    exact pyTail_eq delim line hd
  | some ci =>
    have h1 : (findI ['#'] line != (-1 : Int)) = true := by
      have : (ci : Int) ≠ -1 := by omega
      simpa [findI_some _ _ _ hc] using this
    simp only [h1, if_true, findI_some _ _ _ hc, pySlice_to, pySlice_from]
    by_cases hcount : countSub delim (line.take ci) = 1
    · have hc' : (((countSub delim (line.take ci) : Nat) : Int) == (1 : Int)) = true := by simp [hcount]
      simp only [hc', hcount, if_true]
      cases hf : findSub delim (line.drop ci) with
      | none => simp [findI_none _ _ hf]
      | some j =>
        have : ((j : Int) == -1) = false := by
          have : (j : Int) ≠ -1 := by omega
          simpa using this
        simp only [findI_some _ _ _ hf, this, Bool.false_eq_true, if_false, Option.isNone_some]
        exact pyTail_eq delim line hd
    · have hc' : (((countSub delim (line.take ci) : Nat) : Int) == (1 : Int)) = false := by
        have : ((countSub delim (line.take ci) : Nat) : Int) ≠ 1 := by omega
        simpa using this
      simp only [hc', hcount, Bool.false_eq_true, if_false]
      exact pyTail_eq delim _ hd

/-! the translated function computes (tests, not theorems) -/
example : Py.parse_phoenix_line "alFree[3] = 0x10 # hex".toList ['"', '"'] = POut.pair "alFree[3]".toList (PVal.int 16) := by rfl
example : Py.parse_phoenix_line "tName = \"\"a#b\"\" # c".toList ['"', '"'] = POut.pair "tName".toList (PVal.str "a#b".toList) := by rfl
example : Py.parse_phoenix_line "   # only a comment".toList ['"'] = POut.none := by rfl
example : Py.parse_phoenix_line "no equals sign".toList ['"'] = POut.parseError := by rfl

/-! ### `parse_phoenix_prot` -/

/-- `xs[1:-1]` drops the first and the last element -/
theorem pySliceL_inner {β : Type} (l : List β) : pySliceL (1 : Int) (-1 : Int) l = dropLast (l.drop 1) := by
  unfold pySliceL pySliceBound dropLast
  have h1 : ((1 : Int) < 0) = False := by simp
  have h2 : ((-1 : Int) < 0) = True := by simp
  simp only [h1, h2, if_false, if_true]
  have h3 : (-(-1 : Int)).toNat = 1 := by decide
  have h4 : (1 : Int).toNat = 1 := by decide
  rw [h3, h4]
  by_cases hl : 1 ≤ l.length
  · simp only [hl, if_true]
    rw [List.length_drop, List.drop_take, Nat.min_eq_left hl]
  · have : l = [] := by
      cases l with
      | nil => rfl
      | cons a t => simp at hl
    subst this; simp

/-- the loop of `parse_phoenix_prot` from an accumulated dictionary, as the model's `protLoop`; the loop body `f` is taken from
    the translated function and only has to act as the three outcomes of `parseLine` say -/
theorem prot_loop (delim : Str)
    (f : Str → Option ProtOut × List (Str × PVal) → Id (ForInStep (Option ProtOut × List (Str × PVal))))
    (hf : ∀ line r, f line r =
      match parseLine delim line with
      | .parseError => pure (ForInStep.done (some ProtOut.parseError, r.2))
      | .none => pure (ForInStep.yield (none, r.2))
      | .pair k v => pure (ForInStep.yield (none, setKey r.2 k v)))
    (lines : List Str) :
    ∀ acc : List (Str × PVal),
      (do
        let r ← forIn lines ((none : Option ProtOut), acc) f
        match r.1 with
        | some a => pure a
        | none => pure (ProtOut.ok r.2) : Id ProtOut) = protLoop delim lines acc := by
  induction lines with
  | nil => intro acc; rfl
  | cons l ls ih =>
    intro acc
    rw [List.forIn_cons, hf]
    unfold protLoop
    cases hp : parseLine delim l with
    | parseError => rfl
    | none => exact ih acc
    | pair k v => exact ih (setKey acc k v)

theorem prot_body (delim : Str) (hd : delim ≠ []) (line : Str) (r : Option ProtOut × List (Str × PVal)) :
    (if (Py.parse_phoenix_line line delim == POut.parseError) = true then
        (pure (ForInStep.done (some ProtOut.parseError, r.snd)) : Id _)
      else
        match Py.parse_phoenix_line line delim with
        | POut.pair k_ v_ => pure (ForInStep.yield (none, setKey r.snd k_ v_))
        | x => pure (ForInStep.yield (none, r.snd))) =
      match parseLine delim line with
      | .parseError => pure (ForInStep.done (some ProtOut.parseError, r.2))
      | .none => pure (ForInStep.yield (none, r.2))
      | .pair k v => pure (ForInStep.yield (none, setKey r.2 k v)) := by
  rw [parse_phoenix_line_eq delim line hd]
  cases parseLine delim line <;> rfl

/-- **`parse_phoenix_prot` as written in extract.py is the model's `parseProt`** -/
theorem parse_phoenix_prot_eq (key text : Str) : Py.parse_phoenix_prot key text = parseProt key text := by
  unfold Py.parse_phoenix_prot parseProt
  by_cases h1 : key = "MrPhoenixProtocol".toList
  · have e1 : (key == "MrPhoenixProtocol".toList) = true := by rw [h1]; rfl
    simp only [e1, if_pos h1, if_true, pySliceL_inner]
    refine Eq.trans ?_ <| prot_loop ("\"\"").toList _ (fun line r => prot_body _ (by decide) line r) (dropLast (List.drop 1 (splitLines (pySlice (findI "### ASCCONV BEGIN ".toList text) (findI "### ASCCONV END ###".toList text) text)))) []
    unfold Id.run
    congr 1
    funext r
    obtain ⟨a, b⟩ := r
    cases a <;> rfl
  · have e1 : (key == "MrPhoenixProtocol".toList) = false := by
      cases h : (key == "MrPhoenixProtocol".toList) with
      | false => rfl
      | true => exact absurd (eq_of_beq h) h1
    by_cases h2 : key = "MrProtocol".toList
    · have e2 : (key == "MrProtocol".toList) = true := by rw [h2]; rfl
      simp only [e1, e2, if_neg h1, if_pos h2, if_true, if_false, Bool.false_eq_true, pySliceL_inner]
      refine Eq.trans ?_ <| prot_loop ['"'] _ (fun line r => prot_body _ (by decide) line r) (dropLast (List.drop 1 (splitLines (pySlice (findI "### ASCCONV BEGIN ".toList text) (findI "### ASCCONV END ###".toList text) text)))) []
      unfold Id.run
      congr 1
      funext r
      obtain ⟨a, b⟩ := r
      cases a <;> rfl
    · have e2 : (key == "MrProtocol".toList) = false := by
        cases h : (key == "MrProtocol".toList) with
        | false => rfl
        | true => exact absurd (eq_of_beq h) h2
      simp only [e1, e2, if_neg h1, if_neg h2, if_false, Bool.false_eq_true]
      rfl

example : Py.parse_phoenix_prot "MrProtocol".toList "x\n### ASCCONV BEGIN ###\na = 1\nb = \"q\"\na = 2\n### ASCCONV END ###".toList
    = ProtOut.ok [("a".toList, PVal.int 2), ("b".toList, PVal.str "q".toList)] := by rfl
example : Py.parse_phoenix_prot "Other".toList [] = ProtOut.valueError := by rfl

end Src
