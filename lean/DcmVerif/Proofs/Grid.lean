import DcmVerif.Proofs.Stack
/-! C11: what `get_shape` accepts. -/
set_option autoImplicit false

namespace Stk

/-- the acceptance conditions of `get_shape`, spelled out -/
structure Accepts (spacingOk : List Int → Bool) (files : List F) (S T V : Nat) : Prop where
  nonempty : files.length ≠ 0
  hS : S = (distinctSorted (files.map (·.p))).length
  spacing : S > 1 → spacingOk (distinctSorted (files.map (·.p))) = true
  divS : files.length % S = 0
  hV : V = (distinctSorted (files.map (·.v))).length
  vle : V ≤ files.length / S
  divV : files.length / S % V = 0
  hT : T = files.length / S / V
  vecOk : (chunks (T * S) V (chkSort S (files.length / S) files)).all allSameV = true
  posOk : (chunks S (files.length / S) (chkSort S (files.length / S) files)).all
            (fun b => b.map (·.p) == distinctSorted (files.map (·.p))) = true

theorem getShape_ok_iff (spacingOk : List Int → Bool) (files : List F) (S T V : Nat) :
    getShape spacingOk files = .ok S T V ↔ Accepts spacingOk files S T V := by
  unfold getShape
  constructor
  · intro h
    by_cases hb : acceptB spacingOk files = true
    · rw [if_pos hb] at h
      injection h with e1 e2 e3
      subst e1; subst e2; subst e3
      simp only [acceptB, Bool.and_eq_true, decide_eq_true_eq, Bool.or_eq_true,
        Bool.not_eq_true', decide_eq_false_iff_not] at hb
      obtain ⟨⟨⟨⟨⟨⟨h0, hsp⟩, hd⟩, hvle⟩, hdv⟩, hvec⟩, hpos⟩ := hb
      refine ⟨h0, rfl, ?_, hd, rfl, hvle, hdv, rfl, hvec, hpos⟩
      intro hgt
      rcases hsp with hsp | hsp
      · exact absurd hgt hsp
      · exact hsp
    · rw [if_neg hb] at h; cases h
  · intro a
    obtain ⟨h0, hS, hsp, hd, hV, hvle, hdv, hT, hvec, hpos⟩ := a
    have eS : S = dimS files := hS
    have eV : V = dimV files := hV
    subst eS; subst eV
    have eT : T = dimT files := hT
    subst eT
    have hb : acceptB spacingOk files = true := by
      simp only [acceptB, Bool.and_eq_true, decide_eq_true_eq, Bool.or_eq_true,
        Bool.not_eq_true', decide_eq_false_iff_not]
      refine ⟨⟨⟨⟨⟨⟨h0, ?_⟩, hd⟩, hvle⟩, hdv⟩, hvec⟩, hpos⟩
      by_cases hgt : dimS files > 1
      · exact Or.inr (hsp hgt)
      · exact Or.inl hgt
    rw [if_pos hb]

/-- **C11 (count):** an accepted stack has exactly S·T·V files -/
theorem accept_count (spacingOk : List Int → Bool) (files : List F) (S T V : Nat)
    (h : getShape spacingOk files = .ok S T V) : files.length = S * T * V := by
  obtain ⟨_, _, _, hd, _, _, hdv, hT, _, _⟩ := (getShape_ok_iff _ _ _ _ _).mp h
  have e1 := Nat.div_add_mod files.length S
  have e2 := Nat.div_add_mod (files.length / S) V
  rw [hd, Nat.add_zero] at e1
  rw [hdv, Nat.add_zero] at e2
  rw [← hT] at e2
  rw [← e1, ← e2, Nat.mul_assoc, Nat.mul_comm V T]

/-- **C11 (every volume holds each distinct slice position exactly once, in spatial order):**
    each consecutive block of S files of the accepted order lists exactly the sorted distinct
    positions -/
theorem accept_positions (spacingOk : List Int → Bool) (files : List F) (S T V : Nat)
    (h : getShape spacingOk files = .ok S T V) :
    ∀ b ∈ chunks S (files.length / S) (chkSort S (files.length / S) files),
      b.map (·.p) = distinctSorted (files.map (·.p)) := by
  obtain ⟨_, _, _, _, _, _, _, _, _, hpos⟩ := (getShape_ok_iff _ _ _ _ _).mp h
  rw [List.all_eq_true] at hpos
  intro b hb
  simpa using hpos b hb

/-- **C11 (each vector value occupies whole blocks of T·S files)** -/
theorem accept_vector_blocks (spacingOk : List Int → Bool) (files : List F) (S T V : Nat)
    (h : getShape spacingOk files = .ok S T V) :
    ∀ b ∈ chunks (T * S) V (chkSort S (files.length / S) files), allSameV b = true := by
  obtain ⟨_, _, _, _, _, _, _, _, hvec, _⟩ := (getShape_ok_iff _ _ _ _ _).mp h
  rw [List.all_eq_true] at hvec
  exact hvec

/-- **C11 (evenly spaced):** with more than one position the spacing test passed -/
theorem accept_spacing (spacingOk : List Int → Bool) (files : List F) (S T V : Nat)
    (h : getShape spacingOk files = .ok S T V) (hS : S > 1) :
    spacingOk (distinctSorted (files.map (·.p))) = true :=
  ((getShape_ok_iff _ _ _ _ _).mp h).spacing hS

/-! refusals -/
theorem refuse_empty (spacingOk : List Int → Bool) : getShape spacingOk [] = .invalid := by
  simp [getShape, acceptB]

theorem refuse_of_not_accepts (spacingOk : List Int → Bool) (files : List F)
    (h : ∀ S T V, ¬ Accepts spacingOk files S T V) : getShape spacingOk files = .invalid := by
  cases hg : getShape spacingOk files with
  | invalid => rfl
  | ok S T V => exact absurd ((getShape_ok_iff _ _ _ _ _).mp hg) (h S T V)

/-- the file count does not factor by the number of distinct positions ⇒ InvalidStackError -/
theorem refuse_not_factoring (spacingOk : List Int → Bool) (files : List F)
    (h : files.length % (distinctSorted (files.map (·.p))).length ≠ 0) :
    getShape spacingOk files = .invalid := by
  apply refuse_of_not_accepts
  intro S T V a
  have := a.divS
  rw [a.hS] at this
  exact h this

/-- unevenly spaced positions ⇒ InvalidStackError -/
theorem refuse_spacing (spacingOk : List Int → Bool) (files : List F)
    (h1 : (distinctSorted (files.map (·.p))).length > 1)
    (h : spacingOk (distinctSorted (files.map (·.p))) = false) :
    getShape spacingOk files = .invalid := by
  apply refuse_of_not_accepts
  intro S T V a
  have := a.spacing (by rw [a.hS]; exact h1)
  rw [h] at this; cases this

/-- vector values unevenly represented (volume count not a multiple of the number of vector
    values, or more vector values than volumes) ⇒ InvalidStackError -/
theorem refuse_vector_count (spacingOk : List Int → Bool) (files : List F)
    (h : files.length / (distinctSorted (files.map (·.p))).length %
           (distinctSorted (files.map (·.v))).length ≠ 0 ∨
         (distinctSorted (files.map (·.v))).length >
           files.length / (distinctSorted (files.map (·.p))).length) :
    getShape spacingOk files = .invalid := by
  apply refuse_of_not_accepts
  intro S T V a
  have h1 := a.divV
  have h2 := a.vle
  rw [a.hS, a.hV] at h1
  rw [a.hS, a.hV] at h2
  rcases h with h | h
  · exact h h1
  · omega

/-- a volume that lacks a position or holds one twice ⇒ InvalidStackError -/
theorem refuse_bad_volume (spacingOk : List Int → Bool) (files : List F)
    (b : List F)
    (hb : b ∈ chunks (distinctSorted (files.map (·.p))).length
            (files.length / (distinctSorted (files.map (·.p))).length)
            (chkSort (distinctSorted (files.map (·.p))).length
              (files.length / (distinctSorted (files.map (·.p))).length) files))
    (hbad : b.map (·.p) ≠ distinctSorted (files.map (·.p))) :
    getShape spacingOk files = .invalid := by
  cases hg : getShape spacingOk files with
  | invalid => rfl
  | ok S T V =>
    have hS := ((getShape_ok_iff _ _ _ _ _).mp hg).hS
    have := accept_positions _ _ _ _ _ hg
    subst hS
    exact absurd (this b hb) hbad

/-! F13: the full-strength claim fails for explicit time ordinates -/

/-- S = 2, T = 3 with explicit time ordinates; the files (s1,t1) and (s0,t2) are missing.
    The four remaining files are accepted as a 2 × 2 grid although volume 1 mixes time points
    1 and 2. -/
def f13 : List F := [⟨0, 0, 0, 0⟩, ⟨0, 0, 1, 1⟩, ⟨0, 1, 0, 2⟩, ⟨0, 2, 1, 3⟩]

theorem f13_accepted : getShape (fun _ => true) f13 = .ok 2 2 1 := by decide

/-- the full-strength claim "every volume of an accepted stack has one time ordinate" -/
def VolumesHaveOneTime (files : List F) (S : Nat) : Prop :=
  ∀ b ∈ chunks S (files.length / S) (chkSort S (files.length / S) files),
    ∀ x ∈ b, ∀ y ∈ b, x.t = y.t

theorem f13_mixes_time : ¬ VolumesHaveOneTime f13 2 := by
  intro h
  have := h [⟨0, 1, 0, 2⟩, ⟨0, 2, 1, 3⟩] (by decide) ⟨0, 1, 0, 2⟩ (by decide) ⟨0, 2, 1, 3⟩ (by decide)
  exact absurd this (by decide)

theorem accept_does_not_imply_one_time :
    ¬ (∀ files S T V, getShape (fun _ => true) files = .ok S T V → VolumesHaveOneTime files S) :=
  fun h => f13_mixes_time (h f13 2 2 1 f13_accepted)

/-- the extracted 4 % tolerance: exactly even spacing passes, a 50 % longer last gap does not -/
example : spacingOkInt 1 25 [0, 10, 20, 30] = true := by decide
example : spacingOkInt 1 25 [0, 10, 20, 35] = false := by decide
example : spacingOkInt 1 25 [0, 100, 200, 302] = true := by decide

end Stk
