import DcmVerif.Model.Cli
import DcmVerif.Proofs.Filter
import DcmVerif.Proofs.Ext
/-! C19: no hidden state, filter composition, unique names, injection. -/
set_option autoImplicit false
open Cls

namespace Cli

/-- the current source does not alias the module default lists (translator flag) -/
theorem cli_no_alias : Gen.cliAliasesDefaults = false := by decide

/-- **no hidden state:** an invocation leaves the module defaults as they were -/
theorem cli_stateless (g : Globals) (a : Args) : (mainFilterLists g a).1 = g := by
  unfold mainFilterLists filterLists
  rw [cli_no_alias]; rfl

theorem runSeq_no_alias (g : Globals) (as : List Args) :
    runSeq false g as = as.map fun a => (g.excl ++ a.extraExcl, g.incl ++ a.extraIncl) := by
  induction as with
  | nil => rfl
  | cons a as ih => simp [runSeq, filterLists, ih]

/-- **the i-th output of any invocation sequence depends only on its own arguments** -/
theorem cli_seq_independent (g : Globals) (as : List Args) :
    runSeq Gen.cliAliasesDefaults g as =
      as.map fun a => (g.excl ++ a.extraExcl, g.incl ++ a.extraIncl) := by
  rw [cli_no_alias]; exact runSeq_no_alias g as

/-- with aliasing the second invocation still filters with the first one's patterns (what the
    code did before the repair) -/
theorem alias_leaks :
    runSeq true ⟨["Patient"], []⟩ [⟨["Echo"], []⟩, ⟨[], []⟩] =
      [(["Patient", "Echo"], []), (["Patient", "Echo"], [])] := by decide

/-- the filter of an invocation is exclude-unless-included over defaults plus extras -/
theorem cli_filter_is_exclude_unless_included (a : Args) (k : String) :
    Flt.cliFilter a.extraExcl a.extraIncl k = true ↔
      (∃ e ∈ Gen.defaultExcl ++ a.extraExcl, Flt.matchLit e k = true) ∧
        ¬ ∃ i ∈ Gen.defaultIncl ++ a.extraIncl, Flt.matchLit i k = true :=
  Flt.cliFilter_iff a.extraExcl a.extraIncl k

/-! names -/

theorem pickFree_not_mem (fmt : Nat → String) (gen : List String) (name : String) :
    ∀ (fuel idx : Nat) (c : String), pickFree fmt gen name fuel idx = some c → c ∉ gen := by
  intro fuel
  induction fuel with
  | zero => intro idx c h; simp [pickFree] at h
  | succ n ih =>
    intro idx c h
    unfold pickFree at h
    by_cases hm : gen.contains (suffixed fmt name idx) = true
    · simp only [hm, if_true] at h; exact ih _ _ h
    · simp only [hm, Bool.false_eq_true, if_false] at h
      injection h with h; subst h
      simpa using hm

/-- **output names are unique:** whatever the natural names of the groups are (also when one
    already ends in a suffix) no name is used twice -/
theorem names_unique (fmt : Nat → String) (ns : List String) :
    ∀ (gen : List String) (idx : Nat) (out : List String), outNames fmt ns gen idx = some out →
      out.Nodup ∧ ∀ c ∈ out, c ∉ gen := by
  induction ns with
  | nil => intro gen idx out h; simp [outNames] at h; subst h; simp
  | cons n ns ih =>
    intro gen idx out h
    simp only [outNames] at h
    by_cases hm : gen.contains n = true
    · simp only [hm, if_true] at h
      cases hp : pickFree fmt gen n (gen.length + 1) idx with
      | none => rw [hp] at h; cases h
      | some c =>
        rw [hp] at h
        simp only at h
        cases hr : outNames fmt ns (c :: gen) (idx + 1) with
        | none => rw [hr] at h; cases h
        | some rest =>
          rw [hr] at h
          simp only [Option.map_some] at h
          injection h with h; subst h
          obtain ⟨hnd, hnm⟩ := ih _ _ _ hr
          have hc : c ∉ gen := pickFree_not_mem fmt gen n _ _ c hp
          refine ⟨List.nodup_cons.mpr ⟨fun hin => (hnm c hin) (by simp), hnd⟩, ?_⟩
          intro x hx
          rcases List.mem_cons.mp hx with rfl | hx
          · exact hc
          · exact fun hg => hnm x hx (by simp [hg])
    · simp only [hm, Bool.false_eq_true, if_false] at h
      cases hr : outNames fmt ns (n :: gen) (idx + 1) with
      | none => rw [hr] at h; cases h
      | some rest =>
        rw [hr] at h
        simp only [Option.map_some] at h
        injection h with h; subst h
        obtain ⟨hnd, hnm⟩ := ih _ _ _ hr
        have hc : n ∉ gen := by simpa using hm
        refine ⟨List.nodup_cons.mpr ⟨fun hin => (hnm n hin) (by simp), hnd⟩, ?_⟩
        intro x hx
        rcases List.mem_cons.mp hx with rfl | hx
        · exact hc
        · exact fun hg => hnm x hx (by simp [hg])

/-- one name per group, in group order -/
theorem names_length (fmt : Nat → String) (ns : List String) :
    ∀ (gen : List String) (idx : Nat) (out : List String), outNames fmt ns gen idx = some out →
      out.length = ns.length := by
  induction ns with
  | nil => intro gen idx out h; simp [outNames] at h; subst h; rfl
  | cons n ns ih =>
    intro gen idx out h
    simp only [outNames] at h
    cases hc : (if gen.contains n then pickFree fmt gen n (gen.length + 1) idx else some n) with
    | none => rw [hc] at h; cases h
    | some c =>
      rw [hc] at h
      simp only at h
      cases hr : outNames fmt ns (c :: gen) (idx + 1) with
      | none => rw [hr] at h; cases h
      | some rest =>
        rw [hr] at h
        simp only [Option.map_some] at h
        injection h with h; subst h
        simp [ih _ _ _ hr]

/-- the old rule (append the suffix once, without re-checking) reuses a name: kernel-checked
    witness of finding F21 for the names `x-002`, `x`, `x` -/
theorem old_rule_clashes :
    let names := ["x-002", "x", "x"]
    let fmt := fun (i : Nat) => "00" ++ toString i
    let old := fun (acc : List String × Nat) (n : String) =>
      let c := if acc.1.contains n then suffixed fmt n acc.2 else n
      (acc.1 ++ [c], acc.2 + 1)
    (names.foldl old ([], 0)).1 = ["x-002", "x", "x-002"] := by decide

/-! inject -/
section inject
variable {κ α : Type} [DecidableEq κ] [DecidableEq α]

/-- **inject refuses** an invalid classification, a wrong number of values, and an existing key
    without `-f` (exit code 1, nothing written) -/
theorem inject_refuses (e : DExt κ α) (cls : Cls) (key : κ) (vals : List α) (force : Bool)
    (h : cls ∉ validClasses e.shp ∨ vals.length ≠ mult e.shp cls ∨
         (e.ents.any (fun x => x.1 == key) = true ∧ force = false)) :
    inject e cls key vals force = .rc 1 := by
  unfold inject
  by_cases h1 : cls ∉ validClasses e.shp
  · simp [h1]
  · by_cases h2 : vals.length ≠ mult e.shp cls
    · simp [h1, h2]
    · rcases h with h | h | ⟨h3, h4⟩
      · exact absurd h h1
      · exact absurd h h2
      · simp [h1, h2, h3, h4]

/-- **inject adds exactly the given values under the given key and leaves every other key alone** -/
theorem inject_only_key (e r : DExt κ α) (cls : Cls) (key : κ) (vals : List α) (force : Bool)
    (h : inject e cls key vals force = .ok r) :
    (key, cls, vals) ∈ r.ents ∧
    (∀ x, x.1 ≠ key → (x ∈ r.ents ↔ x ∈ e.ents)) ∧
    (∀ x ∈ r.ents, x.1 = key → x = (key, cls, vals)) ∧
    r.shape = e.shape ∧ r.sliceDim = e.sliceDim := by
  unfold inject at h
  by_cases h1 : cls ∉ validClasses e.shp
  · simp [h1] at h
  · by_cases h2 : vals.length ≠ mult e.shp cls
    · simp [h1, h2] at h
    · simp only [h1, h2, if_false] at h
      by_cases h3 : e.ents.any (fun x => x.1 == key) = true
      · simp only [h3, if_true] at h
        by_cases h4 : (!force) = true
        · simp [h4] at h
        · simp only [h4, Bool.false_eq_true, if_false] at h
          injection h with h; subst h
          refine ⟨by simp, ?_, ?_, rfl, rfl⟩
          · intro x hx
            simp only [List.mem_append, List.mem_filter, List.mem_singleton, Bool.not_eq_true',
              beq_eq_false_iff_ne, ne_eq]
            constructor
            · rintro (⟨hm, _⟩ | rfl)
              · exact hm
              · exact absurd rfl hx
            · intro hm; exact Or.inl ⟨hm, hx⟩
          · intro x hx hk
            simp only [List.mem_append, List.mem_filter, List.mem_singleton, Bool.not_eq_true',
              beq_eq_false_iff_ne, ne_eq] at hx
            rcases hx with ⟨_, hne⟩ | rfl
            · exact absurd hk hne
            · rfl
      · simp only [h3, Bool.false_eq_true, if_false] at h
        injection h with h; subst h
        have hnone : ∀ x ∈ e.ents, x.1 ≠ key := by
          intro x hx hk
          apply h3
          rw [List.any_eq_true]
          exact ⟨x, hx, by simp [hk]⟩
        refine ⟨by simp, ?_, ?_, rfl, rfl⟩
        · intro x hx
          simp only [List.mem_append, List.mem_singleton]
          constructor
          · rintro (hm | rfl)
            · exact hm
            · exact absurd rfl hx
          · intro hm; exact Or.inl hm
        · intro x hx hk
          simp only [List.mem_append, List.mem_singleton] at hx
          rcases hx with hm | rfl
          · exact absurd hk (hnone x hm)
          · rfl

/-- **inject keeps the extension valid**: the new entry sits in a valid class with the right count
    (a constant has one value; a varying class of multiplicity 1 holds a one-element list) -/
theorem inject_valid (e r : DExt κ α) (cls : Cls) (key : κ) (vals : List α) (force : Bool)
    (hv : e.validB = true) (h : inject e cls key vals force = .ok r) : r.validB = true := by
  have hk := inject_only_key e r cls key vals force h
  obtain ⟨hmem, hother, hkey, hshape, hsd⟩ := hk
  unfold inject at h
  by_cases h1 : cls ∉ validClasses e.shp
  · simp [h1] at h
  · by_cases h2 : vals.length ≠ mult e.shp cls
    · simp [h1, h2] at h
    · have h1' : cls ∈ validClasses e.shp := by simpa using h1
      have h2' : vals.length = mult e.shp cls := by simpa using h2
      simp only [DExt.validB, Bool.and_eq_true, List.all_eq_true, decide_eq_true_eq, beq_iff_eq] at hv ⊢
      obtain ⟨hv1, hv2⟩ := hv
      have hshp : r.shp = e.shp := by
        simp only [h1, h2, if_false] at h
        by_cases h3 : e.ents.any (fun x => x.1 == key) = true
        · simp only [h3, if_true] at h
          by_cases h4 : (!force) = true
          · simp [h4] at h
          · simp only [h4, Bool.false_eq_true, if_false] at h
            injection h with h; subst h; rfl
        · simp only [h3, Bool.false_eq_true, if_false] at h
          injection h with h; subst h; rfl
      refine ⟨?_, ?_⟩
      · intro x hx
        rw [hshp]
        by_cases hxk : x.1 = key
        · have := hkey x hx hxk
          subst this
          refine ⟨h1', ?_⟩
          show vals.length = if cls = gconst then 1 else mult e.shp cls
          by_cases hg : cls = gconst
          · subst hg; simp [h2', mult]
          · simp [hg, h2']
        · exact hv1 x ((hother x hxk).mp hx)
      · -- keys stay distinct
        simp only [h1, h2, if_false] at h
        by_cases h3 : e.ents.any (fun x => x.1 == key) = true
        · simp only [h3, if_true] at h
          by_cases h4 : (!force) = true
          · simp [h4] at h
          · simp only [h4, Bool.false_eq_true, if_false] at h
            injection h with h; subst h
            simp only [List.map_append, List.map_cons, List.map_nil]
            rw [List.nodup_append]
            refine ⟨List.Nodup.sublist (List.Sublist.map _ List.filter_sublist) hv2, by simp, ?_⟩
            intro a ha b hb
            simp only [List.mem_singleton] at hb
            subst hb
            simp only [List.mem_map, List.mem_filter, Bool.not_eq_true', beq_eq_false_iff_ne, ne_eq] at ha
            obtain ⟨x, ⟨_, hne⟩, rfl⟩ := ha
            exact hne
        · simp only [h3, Bool.false_eq_true, if_false] at h
          injection h with h; subst h
          simp only [List.map_append, List.map_cons, List.map_nil]
          rw [List.nodup_append]
          refine ⟨hv2, by simp, ?_⟩
          intro a ha b hb
          simp only [List.mem_singleton] at hb
          subst hb
          simp only [List.mem_map] at ha
          obtain ⟨x, hx, rfl⟩ := ha
          intro hk
          apply h3
          rw [List.any_eq_true]
          exact ⟨x, hx, by simp [hk]⟩

end inject
end Cli
