import DcmVerif.Proofs.Ext
/-! C13(b) at extension level: what a result of `from_sequence` / `get_subset` says about one key
is the per-key operation applied to what the inputs say about that key — independent of which
other keys are present and of their order. -/
set_option autoImplicit false
open Cls

/-- what a per-key computation contributes to the result -/
def Res.kept {β : Type} : Res (Option β) → Option β
  | .ok (some b) => some b
  | _ => none

def Res.isOk {β : Type} : Res β → Bool
  | .ok _ => true
  | _ => false

theorem Res.collect_ok {β : Type} (rs : List (Res (Option β))) (l : List β)
    (h : Res.collect rs = .ok l) : (∀ r ∈ rs, r.isOk = true) ∧ l = rs.filterMap Res.kept := by
  induction rs generalizing l with
  | nil => simp [Res.collect] at h; subst h; simp
  | cons r rs ih =>
    unfold Res.collect at h
    cases r with
    | ok ob =>
      simp only at h
      cases hc : Res.collect rs with
      | ok l' =>
        rw [hc] at h
        simp only at h
        injection h with h
        obtain ⟨h1, h2⟩ := ih l' hc
        refine ⟨?_, ?_⟩
        · intro r hr
          rcases List.mem_cons.mp hr with rfl | hr
          · rfl
          · exact h1 r hr
        · subst h
          cases ob with
          | none => simp [List.filterMap_cons, Res.kept, h2]
          | some b => simp [List.filterMap_cons, Res.kept, h2]
      | valueError => rw [hc] at h; cases h
      | indexError => rw [hc] at h; cases h
      | otherError => rw [hc] at h; cases h
      | skip w => rw [hc] at h; cases h
    | valueError => cases h
    | indexError => cases h
    | otherError => cases h
    | skip w => cases h

namespace DExt
variable {κ α : Type} [DecidableEq κ] [DecidableEq α]

/-- looking a key up in a list of per-key results computed from a duplicate-free key list -/
theorem find_filterMap_keys {β : Type} (ks : List κ) (hnd : ks.Nodup)
    (g : κ → Option (κ × β)) (hg : ∀ k x, g k = some x → x.1 = k) (k : κ) :
    ((ks.filterMap g).find? fun x => x.1 == k) = if k ∈ ks then g k else none := by
  induction ks with
  | nil => simp
  | cons a as ih =>
    have hnd' := List.nodup_cons.mp hnd
    simp only [List.filterMap_cons]
    cases hga : g a with
    | none =>
      simp only
      rw [ih hnd'.2]
      by_cases hk : k = a
      · subst hk; simp [hnd'.1, hga]
      · simp [hk]
    | some x =>
      simp only
      have hx : x.1 = a := hg a x hga
      by_cases hk : k = a
      · subst hk
        simp [List.find?_cons, hx, hga]
      · have : (x.1 == k) = false := by simp [hx, Ne.symm hk]
        simp only [List.find?_cons, this]
        rw [ih hnd'.2]
        simp [hk]

theorem mergeKey_fst (null : α) (sh1 osh : Shp) (sd : Option Nat) (dim : Nat) (es : List (DExt κ α))
    (use : List Bool) (k : κ) (x : κ × Cls × List α)
    (h : (mergeKey null sh1 osh sd dim es use k).kept = some x) : x.1 = k := by
  unfold mergeKey at h
  simp only at h
  split at h
  · rename_i r _
    cases r with
    | none => simp [Res.kept] at h
    | some v => simp [Res.kept] at h; rw [← h]
  all_goals (first | (simp [Res.kept] at h) | cases h)

/-- **C13(b), merges:** after `from_sequence` the entry of key `k` in the result is what the per-key
    merge of the inputs' entries for `k` gives (and nothing else) — whatever other keys are
    present, in whatever order -/
theorem fromSequence_key (null : α) (es : List (DExt κ α)) (dim : Nat) (sdArg : Option Nat)
    (use : List Bool) (r : DExt κ α) (h : fromSequence null es dim sdArg use = .ok r) :
    ∃ sh1 osh sd, ∀ k,
      (r.ents.find? fun x => x.1 == k) =
        if k ∈ (es.flatMap keys).eraseDups then (mergeKey null sh1 osh sd dim es use k).kept
        else none := by
  unfold fromSequence at h
  by_cases h5 : 5 ≤ dim
  · simp [h5] at h
  · simp only [h5, if_false] at h
    cases es with
    | nil => simp at h
    | cons first rest =>
      simp only at h
      by_cases hd : dim < first.shape.length ∧ first.shape.getD dim 1 ≠ 1
      · rw [if_pos hd] at h; cases h
      · rw [if_neg hd] at h
        split at h
        · rename_i r0 _
          by_cases hg : (!(rest.all (sameGeom first))) = true
          · rw [if_pos hg] at h; cases h
          · rw [if_neg hg] at h
            by_cases hv : (!((first :: rest).all validB)) = true
            · rw [if_pos hv] at h; cases h
            · rw [if_neg hv] at h
              by_cases hu : use.length ≠ (first :: rest).length
              · rw [if_pos hu] at h; cases h
              · rw [if_neg hu] at h
                split at h
                · rename_i ents hc
                  injection h with h
                  obtain ⟨_, hents⟩ := Res.collect_ok _ _ hc
                  refine ⟨({ r0 with shape := (outShapeOf first dim (first :: rest).length).set dim 1 } :
                      DExt κ α).shp, first.shp (pickSd sdArg first), pickSd sdArg first, ?_⟩
                  intro k
                  subst h
                  simp only
                  rw [hents, List.filterMap_map]
                  exact find_filterMap_keys _ (eraseDups_nodup _) _
                    (fun k x hx => mergeKey_fst null _ _ _ dim _ use k x hx) k
                all_goals cases h
        all_goals cases h

theorem subsetEntry_fst (null : α) (sh rsh : Shp) (sdim : Option Nat) (dim idx : Nat)
    (x y : κ × Cls × List α) (h : (subsetEntry null sh rsh sdim dim idx x).kept = some y) :
    y.1 = x.1 := by
  unfold subsetEntry at h
  simp only at h
  split at h
  · rename_i v _
    by_cases hb : basePresent rsh v.1 = true
    · simp [hb, Res.kept] at h; rw [← h]
    · simp [hb, Res.kept] at h
  all_goals (first | (simp [Res.kept] at h) | cases h)

/-- looking a key up among per-entry results computed from entries with distinct keys -/
theorem find_filterMap_ents {β : Type} (ents : List (κ × β)) (hnd : (ents.map (·.1)).Nodup)
    (g : κ × β → Option (κ × β)) (hg : ∀ x y, g x = some y → y.1 = x.1) (k : κ) :
    ((ents.filterMap g).find? fun y => y.1 == k) =
      (ents.find? fun x => x.1 == k).bind g := by
  induction ents with
  | nil => simp
  | cons a as ih =>
    simp only [List.map_cons, List.nodup_cons] at hnd
    simp only [List.filterMap_cons]
    by_cases hk : a.1 = k
    · have hfind : ((a :: as).find? fun x => x.1 == k) = some a := by simp [List.find?_cons, hk]
      rw [hfind]
      simp only [Option.bind_some]
      cases hga : g a with
      | none =>
        simp only
        -- no later entry has key k
        have : (as.filterMap g).find? (fun y => y.1 == k) = none := by
          rw [List.find?_eq_none]
          intro y hy
          obtain ⟨x, hx, hgx⟩ := List.mem_filterMap.mp hy
          have hyx := hg x y hgx
          intro hyk
          apply hnd.1
          rw [List.mem_map]
          have hyk' : y.1 = k := by simpa using hyk
          exact ⟨x, hx, by rw [← hyx, hyk', hk]⟩
        exact this
      | some y =>
        simp only
        have := hg a y hga
        simp [List.find?_cons, this, hk]
    · have hfind : ((a :: as).find? fun x => x.1 == k) = (as.find? fun x => x.1 == k) := by
        simp [List.find?_cons, hk]
      rw [hfind, ← ih hnd.2]
      cases hga : g a with
      | none => rfl
      | some y =>
        simp only
        have := hg a y hga
        have hne : (y.1 == k) = false := by simp [this, hk]
        simp [List.find?_cons, hne]

/-- **C13(b), subsets:** the entry of key `k` in `get_subset(dim, idx)` is what the per-key subset
    makes of the parent's entry for `k` -/
theorem getSubset_key (null : α) (e : DExt κ α) (dim idx : Nat) (r : DExt κ α)
    (h : getSubset null e dim idx = .ok r) :
    ∃ rsh, ∀ k,
      (r.ents.find? fun x => x.1 == k) =
        (e.ents.find? fun x => x.1 == k).bind
          fun x => (subsetEntry null e.shp rsh e.sliceDim dim idx x).kept := by
  unfold getSubset at h
  by_cases h5 : 5 ≤ dim
  · simp [h5] at h
  · simp only [h5, if_false] at h
    by_cases hl : e.shape.length ≤ dim
    · simp [hl] at h
    · simp only [hl, if_false] at h
      split at h
      · cases h
      · by_cases hv : (!e.validB) = true
        · rw [if_pos hv] at h; cases h
        · rw [if_neg hv] at h
          by_cases hi : e.shape.getD dim 0 ≤ idx
          · rw [if_pos hi] at h; cases h
          · rw [if_neg hi] at h
            split at h
            · rename_i r0 _
              split at h
              · rename_i ents hc
                injection h with h
                obtain ⟨_, hents⟩ := Res.collect_ok _ _ hc
                refine ⟨r0.shp, ?_⟩
                intro k
                subst h
                simp only
                rw [hents, List.filterMap_map]
                have hvalid : e.validB = true := by simpa using hv
                have hnd : (e.ents.map (·.1)).Nodup := by
                  simp only [validB, Bool.and_eq_true, decide_eq_true_eq] at hvalid
                  exact hvalid.2
                exact find_filterMap_ents e.ents hnd _
                  (fun x y hxy => subsetEntry_fst null _ _ _ dim idx x y hxy) k
              all_goals cases h
            all_goals cases h

end DExt
