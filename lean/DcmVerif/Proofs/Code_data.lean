import DcmVerif.Generated.Code_data
import DcmVerif.Proofs.Stack
import DcmVerif.Model.Wrap
import DcmVerif.Proofs.CodeLemmas
/-! the `file_idx` expressions and the trimming block of `DicomStack.get_data` as translated from dcmstack.py are the model's `fileIdx` and `stackTrim`. -/
set_option autoImplicit false
set_option linter.unusedSimpArgs false
set_option linter.unusedVariables false
open Cls

namespace Src
variable {α κ : Type}

/-! ### `file_idx` of `get_data` -/

/-- **the file index `get_data` computes is the model's `fileIdx`** -/
theorem file_idx_eq (rows cols S T V v t s : Nat) :
    Py.file_idx_slice [rows, cols, S, T, V] v t s = Stk.fileIdx S T s t v := by
  simp [Py.file_idx_slice, Stk.fileIdx, Nat.mul_comm]

/-- one file per volume: the index is the volume number -/
theorem file_idx_volume_eq (rows cols S T V v t : Nat) :
    Py.file_idx_volume [rows, cols, S, T, V] v t = v * T + t := by
  simp [Py.file_idx_volume]

/-! ### trimming of unused axes in `get_data` -/

/-- **the trimming block of `get_data` as written in dcmstack.py is the model's `stackTrim`** -/
theorem get_data_trim_eq (a : Wrap.Arr α) (rows cols S T V : Nat) :
    Py.get_data_trim a [rows, cols, S, T, V] = .ok (Wrap.stackTrim a T V) := by
  by_cases hV : V = 1 <;> by_cases hT : T = 1 <;>
    simp [Py.get_data_trim, Wrap.stackTrim, hV, hT, pure, Except.pure]

end Src
