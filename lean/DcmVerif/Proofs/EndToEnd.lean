import DcmVerif.Proofs.Total
import DcmVerif.Proofs.GridComplete
/-! C01: the stack model (canonical order, per-volume reversal) composed with the per-key merge
pipeline. -/
set_option autoImplicit false
set_option linter.unusedSectionVars false
open Cls

namespace Stk

/-- indexing into a concatenation of equal-length blocks -/
theorem flatten_getElem? {β : Type} (n : Nat) (bs : List (List β)) (h : ∀ b ∈ bs, b.length = n)
    (i j : Nat) (hj : j < n) : bs.flatten[i * n + j]? = (bs[i]?).bind (·[j]?) := by
  induction bs generalizing i with
  | nil => simp
  | cons b rest ih =>
    have hb : b.length = n := h b (by simp)
    cases i with
    | zero =>
      simp only [Nat.zero_mul, Nat.zero_add, List.flatten_cons, List.getElem?_cons_zero,
        Option.bind_some]
      rw [List.getElem?_append_left (by rw [hb]; exact hj)]
    | succ i =>
      simp only [List.flatten_cons, List.getElem?_cons_succ]
      rw [show (i + 1) * n + j = b.length + (i * n + j) by rw [hb, Nat.succ_mul]; omega]
      rw [List.getElem?_append_right (by omega), Nat.add_sub_cancel_left]
      exact ih (fun x hx => h x (by simp [hx])) i

theorem flatMap_map_getElem? {β γ : Type} (vs : List β) (ts : List γ) (f : β → γ → List F)
    (v t : Nat) (ht : t < ts.length) :
    (vs.flatMap fun a => ts.map fun b => f a b)[v * ts.length + t]? =
      (vs[v]?).bind fun a => (ts[t]?).map fun b => f a b := by
  have := flatten_getElem? ts.length (vs.map fun a => ts.map fun b => f a b)
    (by intro b hb; obtain ⟨a, _, rfl⟩ := List.mem_map.mp hb; simp) v t ht
  rw [List.flatMap_def]
  rw [this]
  simp only [List.getElem?_map]
  cases vs[v]? with
  | none => rfl
  | some a => simp

/-- **the canonical order is the grid:** position `fileIdx s t v` holds the file with the `v`-th
    vector ordinate, the `t`-th time ordinate and the `s`-th slice position -/
theorem grid_getElem? (idOf : Int → Int → Int → Nat) (vs ts ps : List Int) (s t v : Nat)
    (hs : s < ps.length) (ht : t < ts.length) (hv : v < vs.length) :
    (grid idOf vs ts ps)[fileIdx ps.length ts.length s t v]? =
      some (mk idOf (vs[v]'hv) (ts[t]'ht) (ps[s]'hs)) := by
  unfold grid
  have hblk : ∀ b ∈ gridBlocks idOf vs ts ps, b.length = ps.length := by
    intro b hb
    exact gridBlocks_block_length idOf vs ts ps b hb
  have hidx : fileIdx ps.length ts.length s t v = (v * ts.length + t) * ps.length + s := by
    unfold fileIdx
    rw [Nat.add_mul, Nat.mul_assoc]
  rw [hidx, flatten_getElem? ps.length _ hblk _ s hs]
  unfold gridBlocks
  rw [flatMap_map_getElem? vs ts (fun a b => volBlock idOf ps a b) v t ht]
  simp [List.getElem?_eq_getElem hv, List.getElem?_eq_getElem ht, volBlock,
    List.getElem?_eq_getElem hs]

end Stk

namespace Stk

theorem grid_getD (idOf : Int → Int → Int → Nat) (vs ts ps : List Int) (s t v : Nat)
    (hs : s < ps.length) (ht : t < ts.length) (hv : v < vs.length) :
    (grid idOf vs ts ps)[fileIdx ps.length ts.length s t v]? =
      some (mk idOf (vs.getD v 0) (ts.getD t 0) (ps.getD s 0)) := by
  rw [grid_getElem? idOf vs ts ps s t v hs ht hv]
  simp [List.getD_eq_getElem?_getD, List.getElem?_eq_getElem hv, List.getElem?_eq_getElem ht,
    List.getElem?_eq_getElem hs]

end Stk

namespace Total
variable {α : Type} [DecidableEq α]
open Stk

/-- **C01, end to end (model level):** take the files of a complete grid (vector ordinates `vs`,
    time ordinates `ts`, slice positions `ps`), added in any order, each carrying a value (or not)
    for one key.  `to_nifti` sorts them (`_chk_order`), reverses every volume's files when the
    requested voxel order flips the slice axis, and merges the per-file extensions volume by volume,
    then along time, then along the vector axis.  All of that succeeds, and the embedded summary
    returns at output slice `k`, time `t`, vector `v` the value of the file whose pixels
    `get_data` + the flip put at that output position: slice `k` of the canonical order, or
    `S − 1 − k` when flipped. -/
theorem convert_end_to_end (null : α) (idOf : Int → Int → Int → Nat) (vs ts ps : List Int)
    (hv : vs.Pairwise (· < ·)) (ht : ts.Pairwise (· < ·)) (hp : ps.Pairwise (· < ·))
    (hS : 0 < ps.length) (hT : 2 ≤ ts.length) (hV : 2 ≤ vs.length)
    (files : List F) (hperm : files.Perm (grid idOf vs ts ps))
    (metaOf : Nat → Option α) (flip : Bool) :
    let S := ps.length
    let T := ts.length
    let V := vs.length
    let canon := chkSort S (V * T) files
    let order := if flip then reverseBlocks S (T * V) canon else canon
    let valAt := fun s t v => (order[(t + T * v) * S + s]?).bind fun f => metaOf f.id
    ∃ (vol : Nat → Nat → KeyState α) (vec : Nat → KeyState α) (r : KeyState α),
      (∀ t v, t < T → v < V →
        mergeSliceK null ⟨3, 1, 1, 1, true, false, false⟩
          ((List.range S).map fun s => fileKS (valAt s t v)) = .ok (vol t v)) ∧
      (∀ v, v < V →
        mergeTimeK null ⟨4, S, 1, 1, true, true, false⟩ ⟨3, S, 1, 1, true, false, false⟩
          ((List.range T).map fun t => vol t v) = .ok (vec v)) ∧
      mergeVecK null ⟨5, S, T, 1, true, true, true⟩ ⟨4, S, T, 1, true, true, false⟩
          ((List.range V).map vec) = .ok r ∧
      ∀ k t v, k < S → t < T → v < V →
        lookupKS null ⟨5, S, T, V, true, true, true⟩ r k t v =
          some ((metaOf (idOf (vs.getD v 0) (ts.getD t 0)
                  (ps.getD (if flip then S - 1 - k else k) 0))).getD null) := by
  intro S T V canon order valAt
  obtain ⟨vol, vec, r, h1, h2, h3, h4⟩ := convert_total null S T V hS hT hV valAt
  refine ⟨vol, vec, r, h1, h2, h3, ?_⟩
  intro k t v hk htt hvv
  rw [h4 k t v hk htt hvv]
  congr 1
  -- what file sits at block (t + T v), position k of the order used for the metadata
  have hcanon : canon = grid idOf vs ts ps := accept_complete_order idOf vs ts ps hv ht hp files hperm
  have hglen : (grid idOf vs ts ps).length = S * (T * V) := by
    rw [grid_length]; show ps.length * (vs.length * ts.length) = _
    rw [Nat.mul_comm vs.length]
  have hidx : ∀ s, (t + T * v) * S + s = fileIdx S T s t v := by
    intro s
    unfold fileIdx
    rw [Nat.add_mul, Nat.mul_assoc, Nat.mul_comm T (v * S), Nat.mul_assoc, Nat.mul_comm S T]
    omega
  show ((order[(t + T * v) * S + k]?).bind fun f => metaOf f.id).getD null = _
  cases flip with
  | false =>
    simp only [order, Bool.false_eq_true, if_false, hcanon]
    rw [hidx k, grid_getD idOf vs ts ps k t v hk htt hvv]
    simp [mk]
  | true =>
    simp only [order, if_true, hcanon]
    rw [meta_follows_flipped_data S T V _ hglen k t v hk htt hvv,
      grid_getD idOf vs ts ps (S - 1 - k) t v (by omega) htt hvv]
    simp [mk]

end Total
