import DcmVerif.Generated.Code_group
import DcmVerif.Model.Group
import DcmVerif.Proofs.CodeLemmas
/-! The placement step of `parse_and_group` as translated from dcmstack.py is the model's `Grp.place`. -/
set_option autoImplicit false
set_option linter.unusedSimpArgs false
set_option linter.unusedVariables false

namespace Src
open Grp
variable {E V : Type} [DecidableEq E]

/-- one close value of a sub-result agrees with the file's: both None, or both present and `np.allclose` -/
def goodV (closeV : V → V → Bool) (close_list : List (Option V)) (p : Option V × Nat) : Bool :=
  (p.1.isNone && (close_list[p.2]?).join.isNone) ||
    (!p.1.isNone && !(close_list[p.2]?).join.isNone &&
      match p.1, (close_list[p.2]?).join with
      | some a_, some b_ => closeV a_ b_
      | _, _ => false)

/-- the comparison of a sub-result's close key with the file's (the inner loop of the placement step) -/
def closeAll (closeV : V → V → Bool) (rep c : List (Option V)) : Bool := rep.zipIdx.all (goodV closeV c)

theorem inner_loop {β : Type} (good : β → Bool) (f : β → Bool → Except PyErr (ForInStep Bool))
    (hf : ∀ x r, f x r = if (!good x) = true then pure (ForInStep.done true) else pure (ForInStep.yield r)) :
    ∀ (l : List β), forIn l false f = .ok (!(l.all good))
  | [] => rfl
  | x :: xs => by
    rw [List.forIn_cons, hf]
    cases hg : good x
    · simp [hg]; rfl
    · simp only [hg, Bool.not_true, Bool.false_eq_true, if_false, pure_bind, List.all_cons, Bool.true_and]
      exact inner_loop good f hf xs

theorem placeSub_none {C : Type} (closeB : C → C → Bool) (id : Nat) (c : C) : ∀ (subs : Subs C),
    subs.any (fun p => closeB p.1 c) = false → placeSub closeB id c subs = subs ++ [(c, [id])]
  | [], _ => rfl
  | (rep, ids) :: rest, h => by
    simp only [List.any_cons, Bool.or_eq_false_iff] at h
    simp [placeSub, h.1, placeSub_none closeB id c rest h.2]

section outer
variable {C : Type} [Inhabited C]

theorem outer_loop (closeB : C → C → Bool) (id : Nat) (c : C) (results : List (E × Subs C)) (key : E)
    (f : (C × List Nat) × Nat → List (E × Subs C) × Bool → Except PyErr (ForInStep (List (E × Subs C) × Bool)))
    (hf : ∀ x s, f x s = if closeB x.1.1 c = true then
        pure (ForInStep.done (dictSet s.1 key ((dictGet s.1 key).set x.2 (x.1.1, x.1.2 ++ [id])), true))
      else pure (ForInStep.yield (s.1, s.2))) :
    ∀ (suf pre : Subs C), dictGet results key = pre ++ suf →
      forIn (suf.zipIdx pre.length) (results, false) f =
        .ok (if suf.any (fun p => closeB p.1 c) then (dictSet results key (pre ++ placeSub closeB id c suf), true)
             else (results, false))
  | [], pre, _ => by simp; rfl
  | x :: xs, pre, hg => by
    rw [List.zipIdx_cons, List.forIn_cons, hf]
    by_cases hx : closeB x.1 c = true
    · obtain ⟨rep, ids⟩ := x
      simp only [hx, if_true, pure_bind, List.any_cons, Bool.true_or, hg, placeSub]
      have : (pre ++ (rep, ids) :: xs).set pre.length (rep, ids ++ [id]) = pre ++ (rep, ids ++ [id]) :: xs := by
        simp [List.set_append]
      simp [this, hx]
      rfl
    · have hx' : closeB x.1 c = false := by simpa using hx
      obtain ⟨rep, ids⟩ := x
      simp only [hx', Bool.false_eq_true, if_false, pure_bind, List.any_cons, Bool.false_or]
      have ih := outer_loop closeB id c results key f hf xs (pre ++ [(rep, ids)]) (by simp [hg])
      simp only [List.length_append, List.length_cons, List.length_nil, Nat.zero_add] at ih
      rw [ih]
      simp [placeSub, hx', List.append_assoc]

end outer

section dict
variable {C : Type}

theorem place_absent (closeB : C → C → Bool) (id : Nat) (e : E) (c : C) : ∀ (results : List (E × Subs C)),
    dictHas results e = false → place closeB id e c results = dictSet results e [(c, [id])]
  | [], _ => rfl
  | (e', subs) :: rest, h => by
    simp only [dictHas, List.any_cons, Bool.or_eq_false_iff, beq_eq_false_iff_ne, ne_eq] at h
    have ih := place_absent closeB id e c rest (by simpa [dictHas] using h.2)
    have hne : ¬ e' = e := h.1
    have hb : (e' == e) = false := by simpa using hne
    simp only [place, hne, if_false, ih, dictSet, List.any_cons, hb, Bool.false_or]
    split <;> simp_all

theorem dictSet_notin {β : Type} (d : List (E × β)) (k : E) (v : β) (h : ∀ p ∈ d, p.1 ≠ k) :
    d.map (fun p => if p.1 = k then (k, v) else p) = d := by
  induction d with
  | nil => rfl
  | cons x xs ih =>
    have hx : ¬ x.1 = k := h x (by simp)
    simp [hx, ih (fun p hp => h p (by simp [hp]))]

theorem place_present [Inhabited (Subs C)] (closeB : C → C → Bool) (id : Nat) (e : E) (c : C) :
    ∀ (results : List (E × Subs C)), (results.map (·.1)).Nodup → dictHas results e = true →
      place closeB id e c results = dictSet results e (placeSub closeB id c (dictGet results e))
  | [], _, h => by simp [dictHas] at h
  | (e', subs) :: rest, hnd, h => by
    simp only [List.map_cons, List.nodup_cons] at hnd
    by_cases he : e' = e
    · subst he
      have hrest : ∀ p ∈ rest, p.1 ≠ e' := by
        intro p hp hpe
        exact hnd.1 (by rw [← hpe]; exact List.mem_map_of_mem hp)
      simp [place, dictSet, dictGet, List.find?, dictSet_notin rest e' _ hrest]
    · have hb : (e' == e) = false := by simpa using he
      have h' : dictHas rest e = true := by simpa [dictHas, hb] using h
      have ih := place_present closeB id e c rest hnd.2 h'
      have hg : dictGet ((e', subs) :: rest) e = dictGet rest e := by simp [dictGet, List.find?, hb]
      have hany : rest.any (fun p => p.1 == e) = true := h'
      simp only [place, he, if_false, ih, hg, dictSet, List.any_cons, hb, Bool.false_or, hany, if_true, List.map_cons,
        Bool.false_eq_true]

end dict

/-- **the placement step of `parse_and_group` as written in dcmstack.py is the model's `Grp.place`** (closeness of two close keys
    being the element-wise comparison the inner loop makes), for a `results` dictionary — an association list with pairwise
    different keys: a new exact key gets a new entry, otherwise the file joins the first sub-result whose close key agrees, or
    opens a new one -/
theorem group_place_eq (closeV : V → V → Bool) (results : List (E × Subs (List (Option V)))) (key : E)
    (c : List (Option V)) (id : Nat) (hnd : (results.map (·.1)).Nodup) :
    Py.group_place closeV results key c id = .ok (place (closeAll closeV) id key c results) := by
  unfold Py.group_place
  by_cases h : dictHas results key = true
  · simp only [h, if_true]
    rw [place_present (closeAll closeV) id key c results hnd h]
    rw [show (dictGet results key).zipIdx = (dictGet results key).zipIdx ([] : Subs (List (Option V))).length from rfl,
      outer_loop (E := E) (closeAll closeV) id c results key _ ?hf (dictGet results key) [] (by simp)]
    case hf =>
      intro x s
      rw [inner_loop (goodV closeV c) _ ?hf2]
      case hf2 => intro y r; rfl
      simp only [ok_bind', Bool.not_not, closeAll]
      rfl
    simp only [List.nil_append]
    by_cases hany : (dictGet results key).any (fun p => closeAll closeV p.1 c) = true
    · simp only [hany, if_true, ok_bind']
      simp [pure, Except.pure]
    · have hany' : (dictGet results key).any (fun p => closeAll closeV p.1 c) = false := by simpa using hany
      simp only [hany', Bool.false_eq_true, if_false, ok_bind', placeSub_none _ _ _ _ hany']
      simp [pure, Except.pure]
  · have h' : dictHas results key = false := by simpa using h
    simp [h', place_absent _ _ _ _ _ h', pure, Except.pure]

/-- the hypothesis of `group_place_eq` is an invariant of the loop: placing a file keeps the exact keys pairwise different -/
theorem place_keys {C : Type} (closeB : C → C → Bool) (id : Nat) (e : E) (c : C) : ∀ (results : List (E × Subs C)),
    (place closeB id e c results).map (·.1) = if e ∈ results.map (·.1) then results.map (·.1) else results.map (·.1) ++ [e]
  | [] => by simp [place]
  | (e', subs) :: rest => by
    by_cases he : e' = e
    · subst he; simp [place]
    · have ih := place_keys closeB id e c rest
      have hne : ¬ e = e' := fun h => he h.symm
      simp only [place, he, if_false, List.map_cons, ih, List.mem_cons, hne, false_or]
      split <;> simp

theorem place_nodup {C : Type} (closeB : C → C → Bool) (id : Nat) (e : E) (c : C) (results : List (E × Subs C))
    (h : (results.map (·.1)).Nodup) : ((place closeB id e c results).map (·.1)).Nodup := by
  rw [place_keys]
  split
  · exact h
  · rename_i hn
    exact List.nodup_append.mpr ⟨h, by simp, by intro a ha b hb; simp at hb; subst hb; exact fun hab => hn (hab ▸ ha)⟩

/-! the translated step computes (tests, not theorems): same close key joins, another one opens a sub-result, a new exact key a
    new entry -/
example : Py.group_place (fun (a b : Int) => a == b) [(7, [([some 1], [0])])] 7 [some 1] 5 = .ok [(7, [([some 1], [0, 5])])] := by rfl
example : Py.group_place (fun (a b : Int) => a == b) [(7, [([some 1], [0])])] 7 [some 2] 5 =
    .ok [(7, [([some 1], [0]), ([some 2], [5])])] := by rfl
example : Py.group_place (fun (a b : Int) => a == b) [(7, [([some 1], [0])])] 8 [none] 5 =
    .ok [(7, [([some 1], [0])]), (8, [([none], [5])])] := by rfl

end Src
