import DcmVerif.Generated.Code_filter
import DcmVerif.Model.Key
import DcmVerif.Proofs.CodeLemmas
/-! The filter `make_key_regex_filter` returns, as translated from dcmstack.py, is the model's `regexFilter`. -/
set_option autoImplicit false
set_option linter.unusedSimpArgs false
set_option linter.unusedVariables false

namespace Src
variable {ρ κ : Type}

/-- **the filter `make_key_regex_filter` builds, as written in dcmstack.py, is the model's `regexFilter`** for every pair of
    pattern lists, the empty ones included (an empty exclude list removes nothing — the repair of F36 —, an empty or absent include
    list rescues nothing): a key is dropped iff some exclude pattern matches it and no force-include pattern does -/
theorem key_regex_filter_eq (mtch : ρ → κ → Bool) (excl incl : List ρ) (key : κ) :
    Py.key_regex_filter mtch excl incl key = .ok (regexFilter mtch excl incl key) := by
  unfold Py.key_regex_filter regexFilter
  cases excl <;> cases incl <;> simp [reSearch, pure, Except.pure]

end Src
