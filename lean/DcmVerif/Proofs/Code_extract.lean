import DcmVerif.Generated.Code_extract
/-! The default ignore rules of `MetaExtractor` as translated from extract.py are the model's. -/
set_option autoImplicit false
set_option linter.unusedSimpArgs false
set_option linter.unusedVariables false

namespace Src
open Ex

/-- `g & 0xff00 == 0x6000` selects the groups 0x6000 … 0x60ff, for every 16-bit group number (256 × 256 cases, kernel-evaluated) -/
theorem overlay_mask256 : ∀ hi lo : Fin 256, (((hi.val * 256 + lo.val) &&& 65280 == 24576) = (hi.val == 96)) := by
  decide +kernel

theorem overlay_mask (g : Nat) (h : g < 65536) : ((g &&& 65280 == 24576) = (g / 256 == 96)) := by
  have := overlay_mask256 ⟨g / 256, by omega⟩ ⟨g % 256, Nat.mod_lt _ (by omega)⟩
  simp only at this
  rwa [Nat.div_add_mod' g 256] at this

/-- **`ignore_private` as written in extract.py is the model's `ignorePrivate`** -/
theorem ignore_private_eq (e : Elem) : Py.ignore_private e = .ok (ignorePrivate e) := by
  unfold Py.ignore_private ignorePrivate
  by_cases h : e.group % 2 = 1
  · simp [h]; rfl
  · have h' : (e.group % 2 == 1) = false := by simpa using h
    simp [h', pure, Except.pure]

/-- **`ignore_pixel_data` as written in extract.py is the model's `ignorePixel`** (the element numbers are the extracted table) -/
theorem ignore_pixel_data_eq (e : Elem) : Py.ignore_pixel_data e = .ok (ignorePixel e) := by
  unfold Py.ignore_pixel_data ignorePixel
  have : Gen.pixelDataElems = [8, 9, 16] := rfl
  simp [this, pure, Except.pure]
  cases (e.group == 32736) <;> cases decide (e.elem = 16) <;> cases decide (e.elem = 8) <;> cases decide (e.elem = 9) <;> rfl

/-- **`ignore_overlay_data` as written in extract.py is the model's `ignoreOverlay`**, for every 16-bit group number -/
theorem ignore_overlay_data_eq (e : Elem) (hg : e.group < 65536) : Py.ignore_overlay_data e = .ok (ignoreOverlay e) := by
  unfold Py.ignore_overlay_data ignoreOverlay
  rw [overlay_mask e.group hg]
  rfl

/-- **`ignore_color_lut_data` as written in extract.py is the model's `ignoreLut`** -/
theorem ignore_color_lut_data_eq (e : Elem) : Py.ignore_color_lut_data e = .ok (ignoreLut e) := by
  unfold Py.ignore_color_lut_data ignoreLut
  have : Gen.colorLutElems = [4609, 4610, 4611, 4641, 4642, 4643] := rfl
  simp [this, pure, Except.pure]

end Src
