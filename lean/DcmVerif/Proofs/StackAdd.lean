import DcmVerif.Model.StackAdd
import DcmVerif.Proofs.Stack
/-! Proofs about the `add_dcm` state machine (`Model/StackAdd.lean`). -/
set_option autoImplicit false

namespace Stk

/-- **a refused dataset leaves the stack as it was** (every field, including the repetition-time
    and phase-encoding sets) -/
theorem addDcm_refused_unchanged (explicit : Bool) (st : AddSt) (c : Cand)
    (h : (addDcm explicit st c).2 ≠ .ok) : (addDcm explicit st c).1 = st := by
  unfold addDcm at *
  by_cases h1 : (!c.isImage) = true
  · simp [h1]
  · by_cases h2 : incongruentWith st.ref c = true
    · simp [h1, h2]
    · by_cases h3 : (explicit && decide (tupleOf c.f ∈ st.tuples)) = true
      · simp [h1, h2, h3]
      · simp [h1, h2, h3] at h

/-- the state after an accepted dataset -/
theorem addDcm_ok_state (explicit : Bool) (st : AddSt) (c : Cand)
    (h : (addDcm explicit st c).2 = .ok) :
    (addDcm explicit st c).1 =
      { ref := refAfter st.ref c, files := st.files ++ [c.f],
        tuples := setInsert (tupleOf c.f) st.tuples, trs := setInsert c.tr st.trs,
        pes := setInsert c.pe st.pes, dirty := true } := by
  unfold addDcm at *
  by_cases h1 : (!c.isImage) = true
  · simp [h1] at h
  · by_cases h2 : incongruentWith st.ref c = true
    · simp [h1, h2] at h
    · by_cases h3 : (explicit && decide (tupleOf c.f ∈ st.tuples)) = true
      · simp [h1, h2, h3] at h
      · simp [h1, h2, h3]

theorem incongruentWith_false_iff (ref : Option Cand) (c : Cand) :
    incongruentWith ref c = false ↔ ∀ r, ref = some r → congruent r c = true := by
  cases ref with
  | none => simp [incongruentWith]
  | some r => simp [incongruentWith]

/-- **which datasets are accepted**: it has pixels, it is congruent with the reference input (the
    first accepted dataset) if there is one, and — with explicit ordering — its cell is free -/
theorem addDcm_ok_iff (explicit : Bool) (st : AddSt) (c : Cand) :
    (addDcm explicit st c).2 = .ok ↔
      c.isImage = true ∧ (∀ r, st.ref = some r → congruent r c = true) ∧
      (explicit = true → tupleOf c.f ∉ st.tuples) := by
  rw [← incongruentWith_false_iff]
  unfold addDcm
  cases hi : c.isImage <;> cases hc : incongruentWith st.ref c <;> cases explicit <;>
    by_cases hm : tupleOf c.f ∈ st.tuples <;> simp [hm]

theorem addDcm_nonImage (explicit : Bool) (st : AddSt) (c : Cand) (h : c.isImage = false) :
    (addDcm explicit st c).2 = .nonImage := by
  simp [addDcm, h]

theorem addDcm_incongruent (explicit : Bool) (st : AddSt) (c r : Cand) (h : c.isImage = true)
    (hr : st.ref = some r) (hc : congruent r c = false) :
    (addDcm explicit st c).2 = .incongruent := by
  simp [addDcm, h, hr, hc, incongruentWith]

theorem addDcm_collision (st : AddSt) (c : Cand) (h : c.isImage = true)
    (hr : ∀ r, st.ref = some r → congruent r c = true) (hm : tupleOf c.f ∈ st.tuples) :
    (addDcm true st c).2 = .collision := by
  have := (incongruentWith_false_iff st.ref c).2 hr
  simp [addDcm, h, this, hm]

/-- what the stack looks like after any sequence of `add_dcm` calls -/
structure AddInv (explicit : Bool) (st : AddSt) : Prop where
  tuples_files : ∀ k, k ∈ st.tuples ↔ ∃ f, f ∈ st.files ∧ tupleOf f = k
  nodup : explicit = true → (st.files.map tupleOf).Nodup
  ref_some : st.files ≠ [] → st.ref.isSome = true

theorem addInv_init (explicit : Bool) : AddInv explicit AddSt.init :=
  ⟨by simp [AddSt.init], by simp [AddSt.init], by simp [AddSt.init]⟩

theorem mem_setInsert {β : Type} [DecidableEq β] (x y : β) (l : List β) :
    y ∈ setInsert x l ↔ y = x ∨ y ∈ l := by
  unfold setInsert
  by_cases h : x ∈ l
  · rw [if_pos h]
    constructor
    · intro hy; exact Or.inr hy
    · rintro (rfl | hy)
      · exact h
      · exact hy
  · rw [if_neg h]
    simp only [List.mem_append, List.mem_singleton]
    constructor
    · rintro (hy | rfl)
      · exact Or.inr hy
      · exact Or.inl rfl
    · rintro (rfl | hy)
      · exact Or.inr rfl
      · exact Or.inl hy

theorem nodup_map_inj {β γ : Type} (g : β → γ) : ∀ (l : List β), (l.map g).Nodup →
    ∀ a b, a ∈ l → b ∈ l → g a = g b → a = b
  | [], _, _, _, ha, _, _ => by simp at ha
  | x :: xs, h, a, b, ha, hb, hg => by
    simp only [List.map_cons, List.nodup_cons, List.mem_map, not_exists, not_and] at h
    simp only [List.mem_cons] at ha hb
    rcases ha with rfl | ha <;> rcases hb with rfl | hb
    · rfl
    · exact absurd hg.symm (h.1 b hb)
    · exact absurd hg (h.1 a ha)
    · exact nodup_map_inj g xs h.2 a b ha hb hg

theorem addInv_step (explicit : Bool) (st : AddSt) (c : Cand) (h : AddInv explicit st) :
    AddInv explicit (addDcm explicit st c).1 := by
  by_cases hok : (addDcm explicit st c).2 = .ok
  · have hiff := (addDcm_ok_iff explicit st c).1 hok
    rw [addDcm_ok_state explicit st c hok]
    refine ⟨?_, ?_, ?_⟩
    · intro k
      simp only [mem_setInsert, List.mem_append, List.mem_singleton, h.tuples_files k]
      constructor
      · rintro (rfl | ⟨f, hf, rfl⟩)
        · exact ⟨c.f, Or.inr rfl, rfl⟩
        · exact ⟨f, Or.inl hf, rfl⟩
      · rintro ⟨f, hf | rfl, rfl⟩
        · exact Or.inr ⟨f, hf, rfl⟩
        · exact Or.inl rfl
    · intro he
      simp only [List.map_append, List.map_cons, List.map_nil]
      rw [List.nodup_append]
      refine ⟨h.nodup he, by simp, ?_⟩
      intro a ha b hb
      simp only [List.mem_singleton] at hb
      subst hb
      intro hab
      subst hab
      have : tupleOf c.f ∈ st.tuples := by
        rw [h.tuples_files]
        obtain ⟨f, hf, hft⟩ := List.mem_map.1 ha
        exact ⟨f, hf, hft⟩
      exact hiff.2.2 he this
    · intro _
      cases st.ref <;> simp [refAfter]
  · rw [addDcm_refused_unchanged explicit st c hok]
    exact h

theorem addAll_inv (explicit : Bool) : ∀ (cs : List Cand) (st : AddSt), AddInv explicit st →
    AddInv explicit (addAll explicit st cs).1
  | [], _, h => h
  | c :: cs, st, h => by
    simpa [addAll] using addAll_inv explicit cs _ (addInv_step explicit st c h)

theorem key_eq_tupleOf (f : F) : key f = tupleOf f := rfl

/-- **the collision check establishes the hypothesis of the order-independence theorems**: with
    explicit ordering, whatever datasets were offered in whatever order, the files of the stack have
    pairwise different sorting tuples -/
theorem addAll_distinctKeys (cs : List Cand) :
    DistinctKeys (addAll true AddSt.init cs).1.files := by
  have h := (addAll_inv true cs AddSt.init (addInv_init true)).nodup rfl
  intro a b ha hb hk
  exact nodup_map_inj tupleOf _ h a b ha hb (by simpa [key_eq_tupleOf] using hk)

/-- the datasets of a sequence that were accepted, in the order of adding -/
def acceptedOf (explicit : Bool) : AddSt → List Cand → List Cand
  | _, [] => []
  | st, c :: cs =>
    let r := addDcm explicit st c
    if r.2 = .ok then c :: acceptedOf explicit r.1 cs else acceptedOf explicit r.1 cs

/-- the stack holds exactly the accepted datasets, in the order they were added -/
theorem addAll_files (explicit : Bool) : ∀ (cs : List Cand) (st : AddSt),
    (addAll explicit st cs).1.files = st.files ++ (acceptedOf explicit st cs).map (·.f)
  | [], st => by simp [addAll, acceptedOf]
  | c :: cs, st => by
    simp only [addAll, acceptedOf]
    rw [addAll_files explicit cs]
    by_cases hok : (addDcm explicit st c).2 = .ok
    · have : (addDcm explicit st c).1.files = st.files ++ [c.f] := by
        rw [addDcm_ok_state explicit st c hok]
      simp [hok, this]
    · rw [addDcm_refused_unchanged explicit st c hok]
      simp [hok]

/-- every accepted dataset has pixels and is congruent with the reference input of the state it
    met (from the second accepted dataset on that is the first accepted dataset) -/
theorem accepted_congruent (explicit : Bool) : ∀ (cs : List Cand) (st : AddSt) (c : Cand),
    c ∈ acceptedOf explicit st cs →
    c.isImage = true ∧ ∀ r, st.ref = some r → congruent r c = true
  | [], _, c, h => by simp [acceptedOf] at h
  | d :: cs, st, c, h => by
    simp only [acceptedOf] at h
    by_cases hok : (addDcm explicit st d).2 = .ok
    · simp only [hok, if_true, List.mem_cons] at h
      have hiff := (addDcm_ok_iff explicit st d).1 hok
      rcases h with rfl | h
      · exact ⟨hiff.1, hiff.2.1⟩
      · have ih := accepted_congruent explicit cs _ c h
        refine ⟨ih.1, ?_⟩
        intro r hr
        apply ih.2 r
        rw [addDcm_ok_state explicit st d hok]
        simp [refAfter, hr]
    · simp only [hok, if_false] at h
      rw [addDcm_refused_unchanged explicit st d hok] at h
      exact accepted_congruent explicit cs st c h

end Stk
