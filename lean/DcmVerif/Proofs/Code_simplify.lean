import DcmVerif.Generated.Code_simplify
import DcmVerif.Proofs.Code_classes
/-! `is_constant`, `is_repeating`, `_get_const_period` as translated from dcmmeta.py are the model's functions. -/
set_option autoImplicit false
set_option linter.unusedSimpArgs false
set_option linter.unusedVariables false
open Cls

namespace Src
variable {α κ : Type}

/-! ### `is_constant`, `is_repeating`, `_get_const_period` -/

def errOf {β : Type} : Except Err β → Except PyErr β
  | .ok b => .ok b
  | .error _ => .error PyErr.valueError

/-- **`is_constant` as written in dcmmeta.py is the model's `pyIsConstant`** (guards and result), for
    every list and period -/
theorem is_constant_eq [DecidableEq α] (l : List α) (p : Option Nat) :
    Py.is_constant l p = errOf (pyIsConstant l p) := by
  cases p with
  | none =>
    cases l with
    | nil => rfl
    | cons x xs => simp [Py.is_constant, pyIsConstant, isConstantAll, errOf, pure, Except.pure]
  | some p =>
    unfold Py.is_constant pyIsConstant
    by_cases h1 : p ≤ 1
    · simp [h1, errOf, bind, Except.bind, throw, throwThe, MonadExceptOf.throw]
    · by_cases h2 : l.length % p = 0
      · have h2' : (l.length % p != 0) = false := by simp [h2]
        simp only [h1, decide_false, Bool.false_eq_true, if_false, h2', Nat.add_sub_cancel_left, h2,
          ne_eq, not_true_eq_false, errOf]
        have := forIn_search (fun b => ((l.drop (b * p)).take p).all fun x => some x == l[b * p]?)
          (List.range (l.length / p))
        simp only [this, isConstantP]
        cases hb : (List.range (l.length / p)).all
            (fun b => ((l.drop (b * p)).take p).all fun x => some x == l[b * p]?) <;> rfl
      · have h2' : (l.length % p != 0) = true := by simp [h2]
        simp [h1, h2, h2', errOf, bind, Except.bind, throw, throwThe, MonadExceptOf.throw]

theorem range_all_skip0 (Q : Nat → Bool) (k : Nat) (h0 : Q 0 = true) :
    (List.range' 1 (k - 1)).all Q = (List.range k).all Q := by
  cases k with
  | zero => simp
  | succ n =>
    rw [List.range_eq_range', List.range'_succ]
    simp [h0]

/-- **`is_repeating` as written in dcmmeta.py is the model's `pyIsRepeating`** -/
theorem is_repeating_eq [DecidableEq α] (l : List α) (p : Nat) :
    Py.is_repeating l p = errOf (pyIsRepeating l p) := by
  unfold Py.is_repeating pyIsRepeating
  by_cases h1 : p ≤ 1 ∨ p ≥ l.length
  · have h1' : (decide (p ≤ 1) || decide (p ≥ l.length)) = true := by simpa using h1
    simp [h1, h1', errOf, bind, Except.bind, throw, throwThe, MonadExceptOf.throw]
  · have h1' : (decide (p ≤ 1) || decide (p ≥ l.length)) = false := by
      simp at h1 ⊢; omega
    by_cases h2 : l.length % p = 0
    · have h2' : (l.length % p != 0) = false := by simp [h2]
      simp only [h1, h1', Bool.false_eq_true, if_false, h2', Nat.add_sub_cancel_left, h2, ne_eq,
        not_true_eq_false, errOf]
      have := forIn_search (fun b => ((l.drop (b * p)).take p) == l.take p)
        (List.range' 1 (l.length / p - 1))
      simp only [bne, this, isRepeatingP]
      rw [range_all_skip0 (fun b => ((l.drop (b * p)).take p) == l.take p) _ (by simp)]
      cases hb : (List.range (l.length / p)).all
          (fun b => ((l.drop (b * p)).take p) == l.take p) <;> rfl
    · have h2' : (l.length % p != 0) = true := by simp [h2]
      simp [h1, h1', h2, h2', errOf, bind, Except.bind, throw, throwThe, MonadExceptOf.throw]

/-- **`_get_const_period` as written in dcmmeta.py is the model's `constPeriod`** on every entry of
    the `_const_tests` table whose classes are valid for the shape -/
theorem get_const_period_eq (e : DExt κ α) (h3 : 3 ≤ e.shape.length) (h5 : e.shape.length ≤ 5)
    (hsl : e.sliceDim.isSome = true) (src dest : Cls) (hs : src ∈ validClasses e.shp)
    (hd : dest ∈ validClasses e.shp) (htab : dest ∈ constTests src) :
    Py.get_const_period e.shape (e.sliceDim.map fun d => e.shape.getD d 1) src dest =
      .ok (constPeriod e.shp src dest) := by
  have hm1 := get_multiplicity_eq e h3 h5 src hs
  have hm2 := get_multiplicity_eq e h3 h5 dest hd
  unfold Py.get_const_period
  obtain ⟨shape, sd, ht, hvv, ents⟩ := e
  cases sd with
  | none => simp at hsl
  | some d =>
    cases src <;> cases dest <;> simp [constTests] at htab <;>
      simp_all [constPeriod, DExt.shp, bind, Except.bind, pure, Except.pure] <;>
      (match shape, h3, h5 with
       | [a, b, c], _, _ => simp_all [validClasses, DExt.shp]
       | [a, b, c, d'], _, _ => simp_all [validClasses, DExt.shp]
       | [a, b, c, d', f], _, _ => simp_all [validClasses, DExt.shp]
       | [], h3, _ | [_], h3, _ | [_, _], h3, _ => simp at h3
       | _ :: _ :: _ :: _ :: _ :: _ :: _, _, h5 => simp at h5)


/-! ### `_simplify` -/

/-- the base names present in `_content` -/
def contentOf (e : DExt κ α) : List String :=
  ["global"] ++ (if e.hasTime then ["time"] else []) ++ (if e.hasVector then ["vector"] else [])

theorem content_contains (e : DExt κ α) (sdArg : Option Nat) (d : Cls) :
    (contentOf e).contains d.base = basePresent (e.shp sdArg) d := by
  obtain ⟨shape, sd, ht, hvv, ents⟩ := e
  cases d <;> cases ht <;> cases hvv <;> simp [contentOf, Cls.base, basePresent, DExt.shp] <;> decide

/-- what the model's outcome of `_simplify` means for the dictionaries: nothing, the constant deleted, or the values written
    under the new class and the key deleted from the old one -/
def fxOf (c : Cls) : SimpOut α → Bool × KeyFx α
  | .unchanged => (false, [])
  | .deleted => (true, [KeyOp.del c])
  | .moved d v => (true, [KeyOp.write d v, KeyOp.del c])

theorem pyStepAux_stride (p : Nat) : ∀ (l : List α) (k : Nat), pyStepAux p k l = strideAux p k l
  | [], k => by simp [pyStepAux, strideAux]
  | a :: l, 0 => by simp [pyStepAux, strideAux, pyStepAux_stride p l]
  | a :: l, k + 1 => by simp [pyStepAux, strideAux, pyStepAux_stride p l]

theorem pyStep_stride (l : List α) (p : Nat) : pyStep l 0 p = stride p l := by
  simp [pyStep, stride, pyStepAux_stride]

theorem nat_beq_comm (a b : Nat) : (a == b) = (b == a) := by
  cases h : a == b <;> cases h' : b == a <;> simp_all

section simplify_loops
variable [DecidableEq α]

/-- the body of the first loop of `_simplify` (constant with some period?) -/
def constBody (e : DExt κ α) (c : Cls) (vals : List α) (dest : Cls) (s : KeyFx α × Bool) :
    Except PyErr (ForInStep (KeyFx α × Bool)) :=
  if basePresent e.shp dest = true then do
    let p ← Py.get_const_period e.shape (e.sliceDim.map fun d => e.shape.getD d 1) c dest
    let hit ← (if (p == some 1) = true then pure true else Py.is_constant vals p)
    if hit = true then
      match p with
      | none => pure (ForInStep.done (s.fst.write dest vals.head?.toList, true))
      | some period => pure (ForInStep.done (s.fst.write dest (pyStep vals 0 period), true))
    else pure (ForInStep.yield (s.fst, s.snd))
  else pure (ForInStep.yield (s.fst, s.snd))

theorem constLoop_forIn (e : DExt κ α) (h3 : 3 ≤ e.shape.length) (h5 : e.shape.length ≤ 5)
    (hsl : e.sliceDim.isSome = true) (hbase : ∀ d, basePresent e.shp d = true → d ∈ validClasses e.shp)
    (c : Cls) (hc : c ∈ validClasses e.shp) (vals : List α)
    (f : Cls → KeyFx α × Bool → Except PyErr (ForInStep (KeyFx α × Bool))) (fx0 : KeyFx α) :
    ∀ (l : List Cls), (∀ d ∈ l, d ∈ constTests c) → (∀ x ∈ l, ∀ s, f x s = constBody e c vals x s) →
    forIn l (fx0, false) f =
      match constLoop e.shp c vals l with
      | .error _ => .error PyErr.valueError
      | .ok (some (d, v)) => .ok (fx0.write d v, true)
      | .ok none => .ok (fx0, false)
  | [], _, _ => by simp [constLoop]; rfl
  | x :: xs, htab, hf => by
    have ih := constLoop_forIn e h3 h5 hsl hbase c hc vals f fx0 xs (fun d hd => htab d (by simp [hd]))
      (fun y hy s => hf y (by simp [hy]) s)
    rw [List.forIn_cons, hf x (by simp)]
    unfold constBody constLoop
    by_cases hb : basePresent e.shp x = true
    · have hx := hbase x hb
      rw [get_const_period_eq e h3 h5 hsl c x hc hx (htab x (by simp))]
      simp only [hb, if_true, ok_bind']
      by_cases h1 : constPeriod e.shp c x = some 1
      · simp [h1, pyStep_stride]
        rfl
      · have h1' : (constPeriod e.shp c x == some 1) = false := by simpa using h1
        simp only [h1', Bool.false_eq_true, if_false, h1, is_constant_eq]
        cases hk : pyIsConstant vals (constPeriod e.shp c x) with
        | error er => simp [errOf, bind, Except.bind]
        | ok b =>
          cases b
          · simp only [errOf, ok_bind', Bool.false_eq_true, if_false, pure_bind]
            exact ih
          · simp only [errOf, ok_bind', if_true]
            cases hp : constPeriod e.shp c x <;> simp [pyStep_stride] <;> rfl
    · have hb' : basePresent e.shp x = false := by simpa using hb
      simp only [hb', Bool.false_eq_true, if_false, pure_bind]
      exact ih

/-- the body of the second loop of `_simplify` (repeating with the multiplicity of a smaller class?) -/
def repeatBody (e : DExt κ α) (vals : List α) (dest : Cls) (s : KeyFx α × Bool) :
    Except PyErr (ForInStep (KeyFx α × Bool)) :=
  if basePresent e.shp dest = true then do
    let dm ← Py.get_multiplicity e.shape (e.sliceDim.map fun d => e.shape.getD d 1) dest
    let hit ← (if (dm == vals.length) = true then pure true else Py.is_repeating vals dm)
    if hit = true then pure (ForInStep.done (s.fst.write dest (List.take dm vals), true))
    else pure (ForInStep.yield (s.fst, s.snd))
  else pure (ForInStep.yield (s.fst, s.snd))

theorem repeatLoop_forIn (e : DExt κ α) (h3 : 3 ≤ e.shape.length) (h5 : e.shape.length ≤ 5)
    (hbase : ∀ d, basePresent e.shp d = true → d ∈ validClasses e.shp) (vals : List α)
    (f : Cls → KeyFx α × Bool → Except PyErr (ForInStep (KeyFx α × Bool))) (fx0 : KeyFx α) :
    ∀ (l : List Cls), (∀ x ∈ l, ∀ s, f x s = repeatBody e vals x s) →
    forIn l (fx0, false) f =
      match repeatLoop e.shp vals l with
      | .error _ => .error PyErr.valueError
      | .ok (some (d, v)) => .ok (fx0.write d v, true)
      | .ok none => .ok (fx0, false)
  | [], _ => by simp [repeatLoop]; rfl
  | x :: xs, hf => by
    have ih := repeatLoop_forIn e h3 h5 hbase vals f fx0 xs (fun y hy s => hf y (by simp [hy]) s)
    rw [List.forIn_cons, hf x (by simp)]
    unfold repeatBody repeatLoop
    by_cases hb : basePresent e.shp x = true
    · have hx := hbase x hb
      rw [get_multiplicity_eq e h3 h5 x hx]
      simp only [hb, if_true, ok_bind', repeatHit]
      by_cases h1 : mult e.shp x = vals.length
      · simp [h1]
        rfl
      · have h1' : (mult e.shp x == vals.length) = false := by simpa using h1
        simp only [h1', Bool.false_eq_true, if_false, h1, is_repeating_eq]
        cases hk : pyIsRepeating vals (mult e.shp x) with
        | error er => simp [errOf, bind, Except.bind]
        | ok b =>
          cases b
          · simp only [errOf, ok_bind', Bool.false_eq_true, if_false, pure_bind]
            exact ih
          · simp only [errOf, ok_bind', if_true]
            rfl
    · have hb' : basePresent e.shp x = false := by simpa using hb
      simp only [hb', Bool.false_eq_true, if_false, pure_bind]
      exact ih

end simplify_loops

/-- **`_simplify` as written in dcmmeta.py is the model's `simplifyK`** for one key of an extension with three to five axes and a
    slice dimension whose base dictionaries are the ones valid for its shape: the same Boolean, the same single write (class and
    values) followed by the deletion from the old class — or only the deletion of a constant `None` — and `ValueError` exactly when
    the model's list tests reject their arguments -/
theorem simplify_eq [DecidableEq α] (null : α) (e : DExt κ α) (h3 : 3 ≤ e.shape.length) (h5 : e.shape.length ≤ 5)
    (hsl : e.sliceDim.isSome = true) (hbase : ∀ d, basePresent e.shp d = true → d ∈ validClasses e.shp)
    (c : Cls) (hc : c ∈ validClasses e.shp) (vals : List α) :
    Py.simplify null e.shape (e.sliceDim.map fun d => e.shape.getD d 1) (contentOf e) vals c =
      errOf ((simplifyK null e.shp c vals).map (fxOf c)) := by
  have hcc := content_contains e none
  by_cases hg : c = gconst
  · subst hg
    by_cases hv : vals = [null] <;> simp [Py.simplify, simplifyK, hv, errOf, fxOf, Except.map, KeyFx.del] <;> rfl
  · have hne : (c == gconst) = false := by simpa using hg
    have hkeys : Gen.repeatTestsKeys.contains c = false → repeatTests c = [] := by
      cases c <;> simp [Gen.repeatTestsKeys, repeatTests]
    simp only [Py.simplify, simplifyK, hne, hg, hcc, Bool.false_eq_true, if_false]
    rw [constLoop_forIn e h3 h5 hsl hbase c hc vals _ _ (constTests c) (fun d hd => hd) ?hf1]
    case hf1 =>
      intro x hx s
      first | rfl | (simp only [constBody, Bool.or_comm] <;> rfl)
    cases h1 : constLoop e.shp c vals (constTests c) with
    | error er => simp [errOf, Except.map, bind, Except.bind]
    | ok r =>
      cases r with
      | some dv =>
        obtain ⟨d, v⟩ := dv
        simp [errOf, Except.map, fxOf, KeyFx.write, KeyFx.del, bind, Except.bind, pure, Except.pure]
      | none =>
        simp only [ok_bind', Bool.not_false, if_true]
        by_cases hk : Gen.repeatTestsKeys.contains c = true
        · simp only [hk, if_true]
          rw [repeatLoop_forIn e h3 h5 hbase vals _ _ (repeatTests c) ?hf2]
          case hf2 =>
            intro x hx s
            first | rfl | (simp only [repeatBody, nat_beq_comm vals.length] <;> rfl)
          cases h2 : repeatLoop e.shp vals (repeatTests c) with
          | error er => simp [errOf, Except.map, bind, Except.bind]
          | ok r2 =>
            cases r2 with
            | some dv =>
              obtain ⟨d, v⟩ := dv
              simp [errOf, Except.map, fxOf, KeyFx.write, KeyFx.del, bind, Except.bind, pure, Except.pure]
            | none => simp [errOf, Except.map, fxOf, bind, Except.bind, pure, Except.pure]
        · have hk' : Gen.repeatTestsKeys.contains c = false := by simpa using hk
          simp [hk', hkeys hk', repeatLoop, errOf, Except.map, fxOf, pure, Except.pure]
          intro _; rfl

/-! the translated `_simplify` computes (tests, not theorems): constant values, values repeating per volume, nothing to do,
    a constant `None` -/
example : Py.simplify (0 : Nat) [2, 2, 2, 2] (some 2) ["global", "time"] [5, 5, 5, 5] gslices =
    .ok (true, [KeyOp.write gconst [5], KeyOp.del gslices]) := by rfl
example : Py.simplify (0 : Nat) [2, 2, 2, 2] (some 2) ["global", "time"] [5, 6, 5, 6] gslices =
    .ok (true, [KeyOp.write tslices [5, 6], KeyOp.del gslices]) := by rfl
example : Py.simplify (0 : Nat) [2, 2, 2, 2] (some 2) ["global", "time"] [5, 5, 6, 6] gslices =
    .ok (true, [KeyOp.write tsamples [5, 6], KeyOp.del gslices]) := by rfl
example : Py.simplify (0 : Nat) [2, 2, 2, 2] (some 2) ["global", "time"] [5, 6, 7, 8] gslices = .ok (false, []) := by rfl
example : Py.simplify (0 : Nat) [2, 2, 2, 2] (some 2) ["global", "time"] [0] gconst = .ok (true, [KeyOp.del gconst]) := by rfl

end Src
