import DcmVerif.Generated.Code_simplify
import DcmVerif.Proofs.Code_classes
/-! `is_constant`, `is_repeating`, `_get_const_period` as translated from dcmmeta.py are the model's functions. -/
set_option autoImplicit false
set_option linter.unusedSimpArgs false
set_option linter.unusedVariables false
open Cls

namespace Src
variable {α κ : Type}

/-! ### `is_constant`, `is_repeating`, `_get_const_period` -/

def errOf {β : Type} : Except Err β → Except PyErr β
  | .ok b => .ok b
  | .error _ => .error PyErr.valueError

/-- **`is_constant` as written in dcmmeta.py is the model's `pyIsConstant`** (guards and result), for
    every list and period -/
theorem is_constant_eq [DecidableEq α] (l : List α) (p : Option Nat) :
    Py.is_constant l p = errOf (pyIsConstant l p) := by
  cases p with
  | none =>
    cases l with
    | nil => rfl
    | cons x xs => simp [Py.is_constant, pyIsConstant, isConstantAll, errOf, pure, Except.pure]
  | some p =>
    unfold Py.is_constant pyIsConstant
    by_cases h1 : p ≤ 1
    · simp [h1, errOf, bind, Except.bind, throw, throwThe, MonadExceptOf.throw]
    · by_cases h2 : l.length % p = 0
      · have h2' : (l.length % p != 0) = false := by simp [h2]
        simp only [h1, decide_false, Bool.false_eq_true, if_false, h2', Nat.add_sub_cancel_left, h2,
          ne_eq, not_true_eq_false, errOf]
        have := forIn_search (fun b => ((l.drop (b * p)).take p).all fun x => some x == l[b * p]?)
          (List.range (l.length / p))
        simp only [this, isConstantP]
        cases hb : (List.range (l.length / p)).all
            (fun b => ((l.drop (b * p)).take p).all fun x => some x == l[b * p]?) <;> rfl
      · have h2' : (l.length % p != 0) = true := by simp [h2]
        simp [h1, h2, h2', errOf, bind, Except.bind, throw, throwThe, MonadExceptOf.throw]

theorem range_all_skip0 (Q : Nat → Bool) (k : Nat) (h0 : Q 0 = true) :
    (List.range' 1 (k - 1)).all Q = (List.range k).all Q := by
  cases k with
  | zero => simp
  | succ n =>
    rw [List.range_eq_range', List.range'_succ]
    simp [h0]

/-- **`is_repeating` as written in dcmmeta.py is the model's `pyIsRepeating`** -/
theorem is_repeating_eq [DecidableEq α] (l : List α) (p : Nat) :
    Py.is_repeating l p = errOf (pyIsRepeating l p) := by
  unfold Py.is_repeating pyIsRepeating
  by_cases h1 : p ≤ 1 ∨ p ≥ l.length
  · have h1' : (decide (p ≤ 1) || decide (p ≥ l.length)) = true := by simpa using h1
    simp [h1, h1', errOf, bind, Except.bind, throw, throwThe, MonadExceptOf.throw]
  · have h1' : (decide (p ≤ 1) || decide (p ≥ l.length)) = false := by
      simp at h1 ⊢; omega
    by_cases h2 : l.length % p = 0
    · have h2' : (l.length % p != 0) = false := by simp [h2]
      simp only [h1, h1', Bool.false_eq_true, if_false, h2', Nat.add_sub_cancel_left, h2, ne_eq,
        not_true_eq_false, errOf]
      have := forIn_search (fun b => ((l.drop (b * p)).take p) == l.take p)
        (List.range' 1 (l.length / p - 1))
      simp only [bne, this, isRepeatingP]
      rw [range_all_skip0 (fun b => ((l.drop (b * p)).take p) == l.take p) _ (by simp)]
      cases hb : (List.range (l.length / p)).all
          (fun b => ((l.drop (b * p)).take p) == l.take p) <;> rfl
    · have h2' : (l.length % p != 0) = true := by simp [h2]
      simp [h1, h1', h2, h2', errOf, bind, Except.bind, throw, throwThe, MonadExceptOf.throw]

/-- **`_get_const_period` as written in dcmmeta.py is the model's `constPeriod`** on every entry of
    the `_const_tests` table whose classes are valid for the shape -/
theorem get_const_period_eq (e : DExt κ α) (h3 : 3 ≤ e.shape.length) (h5 : e.shape.length ≤ 5)
    (hsl : e.sliceDim.isSome = true) (src dest : Cls) (hs : src ∈ validClasses e.shp)
    (hd : dest ∈ validClasses e.shp) (htab : dest ∈ constTests src) :
    Py.get_const_period e.shape (e.sliceDim.map fun d => e.shape.getD d 1) src dest =
      .ok (constPeriod e.shp src dest) := by
  have hm1 := get_multiplicity_eq e h3 h5 src hs
  have hm2 := get_multiplicity_eq e h3 h5 dest hd
  unfold Py.get_const_period
  obtain ⟨shape, sd, ht, hvv, ents⟩ := e
  cases sd with
  | none => simp at hsl
  | some d =>
    cases src <;> cases dest <;> simp [constTests] at htab <;>
      simp_all [constPeriod, DExt.shp, bind, Except.bind, pure, Except.pure] <;>
      (match shape, h3, h5 with
       | [a, b, c], _, _ => simp_all [validClasses, DExt.shp]
       | [a, b, c, d'], _, _ => simp_all [validClasses, DExt.shp]
       | [a, b, c, d', f], _, _ => simp_all [validClasses, DExt.shp]
       | [], h3, _ | [_], h3, _ | [_, _], h3, _ => simp at h3
       | _ :: _ :: _ :: _ :: _ :: _ :: _, _, h5 => simp at h5)


end Src
