import DcmVerif.Proofs.Group
/-! C18, "independently of path order": when closeness of the tolerance-compared keys is an
equivalence on the values that occur, two files end up in the same group iff they agree on the exact
keys and are close on the others — a condition that does not mention the order of the paths.  Without
transitivity first-fit grouping does depend on the order (`order_matters_without_transitivity`). -/
set_option autoImplicit false

namespace Grp
variable {E C : Type} [DecidableEq E]

/-- grouping of files given by id, with their exact / close keys as functions of the id -/
def groupIds (closeB : C → C → Bool) (eOf : Nat → E) (cOf : Nat → C) (ids : List Nat)
    (acc : List (E × Subs C)) : List (E × Subs C) :=
  ids.foldl (fun a id => place closeB id (eOf id) (cOf id) a) acc

theorem groupLoop_files (closeB : C → C → Bool) (warn : Bool) (eOf : Nat → E) (cOf : Nat → C)
    (ids : List Nat) (acc : List (E × Subs C)) :
    groupLoop closeB warn (ids.map fun id => Item.file id (eOf id) (cOf id)) acc =
      .ok (groupIds closeB eOf cOf ids acc) := by
  induction ids generalizing acc with
  | nil => rfl
  | cons id ids ih => simp only [List.map_cons, groupLoop, groupIds, List.foldl_cons]; exact ih _

/-- files `i` and `j` sit in the same group -/
def together (G : List (E × Subs C)) (i j : Nat) : Prop :=
  ∃ p ∈ G, ∃ s ∈ p.2, i ∈ s.2 ∧ j ∈ s.2

/-! ### `placeSub` -/

theorem placeSub_rep (closeB : C → C → Bool) (id : Nat) (c : C) (subs : Subs C) :
    ∀ s ∈ placeSub closeB id c subs,
      (∃ s' ∈ subs, s'.1 = s.1 ∧ ∀ j ∈ s.2, j ∈ s'.2 ∨ (j = id ∧ closeB s.1 c = true)) ∨
      (s = (c, [id]) ∧ ∀ s' ∈ subs, closeB s'.1 c = false) := by
  induction subs with
  | nil =>
    intro s hs
    simp only [placeSub, List.mem_singleton] at hs
    exact Or.inr ⟨hs, by simp⟩
  | cons hd rest ih =>
    obtain ⟨rep, ids⟩ := hd
    intro s hs
    by_cases hc : closeB rep c = true
    · simp only [placeSub, hc, if_true, List.mem_cons] at hs
      rcases hs with rfl | hs
      · refine Or.inl ⟨(rep, ids), by simp, rfl, ?_⟩
        intro j hj
        simp only [List.mem_append, List.mem_singleton] at hj
        rcases hj with h | h
        · exact Or.inl h
        · exact Or.inr ⟨h, hc⟩
      · exact Or.inl ⟨s, by simp [hs], rfl, fun j hj => Or.inl hj⟩
    · have hc' : closeB rep c = false := by
        cases h : closeB rep c with
        | false => rfl
        | true => exact absurd h hc
      simp only [placeSub, hc', Bool.false_eq_true, if_false, List.mem_cons] at hs
      rcases hs with rfl | hs
      · exact Or.inl ⟨(rep, ids), by simp, rfl, fun j hj => Or.inl hj⟩
      · rcases ih s hs with ⟨s', hs', h1, h2⟩ | ⟨h1, h2⟩
        · exact Or.inl ⟨s', by simp [hs'], h1, h2⟩
        · refine Or.inr ⟨h1, ?_⟩
          intro s' hs'
          rcases List.mem_cons.mp hs' with rfl | hs'
          · exact hc'
          · exact h2 s' hs'

/-- every old sub-group survives (same representative, all its files) -/
theorem placeSub_keeps (closeB : C → C → Bool) (id : Nat) (c : C) (subs : Subs C) :
    ∀ s' ∈ subs, ∃ s ∈ placeSub closeB id c subs, s.1 = s'.1 ∧ ∀ j ∈ s'.2, j ∈ s.2 := by
  induction subs with
  | nil => simp
  | cons hd rest ih =>
    obtain ⟨rep, ids⟩ := hd
    intro s' hs'
    by_cases hc : closeB rep c = true
    · simp only [placeSub, hc, if_true]
      rcases List.mem_cons.mp hs' with rfl | hs'
      · exact ⟨(rep, ids ++ [id]), by simp, rfl, fun j hj => by simp [hj]⟩
      · exact ⟨s', by simp [hs'], rfl, fun j hj => hj⟩
    · simp only [placeSub, hc]
      rcases List.mem_cons.mp hs' with rfl | hs'
      · exact ⟨(rep, ids), by simp, rfl, fun j hj => hj⟩
      · obtain ⟨s, hs, h1, h2⟩ := ih s' hs'
        exact ⟨s, by simp [hs], h1, h2⟩

/-- the new file is in some sub-group -/
theorem placeSub_has (closeB : C → C → Bool) (id : Nat) (c : C) (subs : Subs C) :
    ∃ s ∈ placeSub closeB id c subs, id ∈ s.2 := by
  induction subs with
  | nil => exact ⟨(c, [id]), by simp [placeSub], by simp⟩
  | cons hd rest ih =>
    obtain ⟨rep, ids⟩ := hd
    by_cases hc : closeB rep c = true
    · exact ⟨(rep, ids ++ [id]), by simp [placeSub, hc], by simp⟩
    · obtain ⟨s, hs, h⟩ := ih
      exact ⟨s, by simp [placeSub, hc, hs], h⟩

theorem placeSub_pairwise (closeB : C → C → Bool) (id : Nat) (c : C) (subs : Subs C)
    (h : subs.Pairwise (fun s t => closeB s.1 t.1 = false)) :
    (placeSub closeB id c subs).Pairwise (fun s t => closeB s.1 t.1 = false) := by
  induction subs with
  | nil => simp [placeSub]
  | cons hd rest ih =>
    obtain ⟨rep, ids⟩ := hd
    rw [List.pairwise_cons] at h
    by_cases hc : closeB rep c = true
    · simp only [placeSub, hc, if_true]
      rw [List.pairwise_cons]
      exact ⟨fun t ht => h.1 t ht, h.2⟩
    · have hc' : closeB rep c = false := by
        cases hh : closeB rep c with
        | false => rfl
        | true => exact absurd hh hc
      simp only [placeSub, hc', Bool.false_eq_true, if_false]
      rw [List.pairwise_cons]
      refine ⟨?_, ih h.2⟩
      intro t ht
      rcases placeSub_rep closeB id c rest t ht with ⟨s', hs', h1, _⟩ | ⟨h1, _⟩
      · have := h.1 s' hs'
        simp only at this ⊢
        rw [← h1]; exact this
      · rw [h1]; exact hc'

/-! ### `place` -/

theorem place_cases (closeB : C → C → Bool) (id : Nat) (e : E) (c : C) (G : List (E × Subs C)) :
    ∀ p ∈ place closeB id e c G,
      p ∈ G ∨ (∃ subs, (e, subs) ∈ G ∧ p = (e, placeSub closeB id c subs)) ∨
      (p = (e, [(c, [id])]) ∧ ∀ p' ∈ G, p'.1 ≠ e) := by
  induction G with
  | nil =>
    intro p hp
    simp only [place, List.mem_singleton] at hp
    exact Or.inr (Or.inr ⟨hp, by simp⟩)
  | cons hd rest ih =>
    obtain ⟨e', subs⟩ := hd
    intro p hp
    by_cases he : e' = e
    · subst he
      simp only [place, if_true, List.mem_cons] at hp
      rcases hp with rfl | hp
      · exact Or.inr (Or.inl ⟨subs, by simp, rfl⟩)
      · exact Or.inl (by simp [hp])
    · simp only [place, he, if_false, List.mem_cons] at hp
      rcases hp with rfl | hp
      · exact Or.inl (by simp)
      · rcases ih p hp with h | ⟨subs', h1, h2⟩ | ⟨h1, h2⟩
        · exact Or.inl (by simp [h])
        · exact Or.inr (Or.inl ⟨subs', by simp [h1], h2⟩)
        · refine Or.inr (Or.inr ⟨h1, ?_⟩)
          intro p' hp'
          rcases List.mem_cons.mp hp' with rfl | hp'
          · exact he
          · exact h2 p' hp'

theorem place_keeps (closeB : C → C → Bool) (id : Nat) (e : E) (c : C) (G : List (E × Subs C)) :
    ∀ p' ∈ G, ∃ p ∈ place closeB id e c G, p.1 = p'.1 ∧
      (p = p' ∨ p.2 = placeSub closeB id c p'.2) := by
  induction G with
  | nil => simp
  | cons hd rest ih =>
    obtain ⟨e', subs⟩ := hd
    intro p' hp'
    by_cases he : e' = e
    · subst he
      simp only [place, if_true]
      rcases List.mem_cons.mp hp' with rfl | hp'
      · exact ⟨(e', placeSub closeB id c subs), by simp, rfl, Or.inr rfl⟩
      · exact ⟨p', by simp [hp'], rfl, Or.inl rfl⟩
    · simp only [place, he, if_false]
      rcases List.mem_cons.mp hp' with rfl | hp'
      · exact ⟨(e', subs), by simp, rfl, Or.inl rfl⟩
      · obtain ⟨p, hp, h1, h2⟩ := ih p' hp'
        exact ⟨p, by simp [hp], h1, h2⟩

theorem place_has (closeB : C → C → Bool) (id : Nat) (e : E) (c : C) (G : List (E × Subs C)) :
    ∃ p ∈ place closeB id e c G, p.1 = e ∧ ∃ s ∈ p.2, id ∈ s.2 := by
  induction G with
  | nil => exact ⟨(e, [(c, [id])]), by simp [place], rfl, (c, [id]), by simp, by simp⟩
  | cons hd rest ih =>
    obtain ⟨e', subs⟩ := hd
    by_cases he : e' = e
    · subst he
      obtain ⟨s, hs, h⟩ := placeSub_has closeB id c subs
      exact ⟨(e', placeSub closeB id c subs), by simp [place], rfl, s, hs, h⟩
    · obtain ⟨p, hp, h1, h2⟩ := ih
      exact ⟨p, by simp [place, he, hp], h1, h2⟩

theorem place_keys (closeB : C → C → Bool) (id : Nat) (e : E) (c : C) (G : List (E × Subs C)) :
    (place closeB id e c G).map (·.1) =
      if e ∈ G.map (·.1) then G.map (·.1) else G.map (·.1) ++ [e] := by
  induction G with
  | nil => simp [place]
  | cons hd rest ih =>
    obtain ⟨e', subs⟩ := hd
    by_cases he : e' = e
    · subst he; simp [place]
    · have hne : ¬ e = e' := fun h => he h.symm
      simp only [place, he, if_false, List.map_cons, ih, List.mem_cons, hne, false_or]
      split <;> simp

/-! ### the invariant of the grouping loop -/

structure Inv (closeB : C → C → Bool) (eOf : Nat → E) (cOf : Nat → C) (G : List (E × Subs C))
    (S : List Nat) : Prop where
  keys : (G.map (·.1)).Nodup
  reps : ∀ p ∈ G, p.2.Pairwise (fun s t => closeB s.1 t.1 = false)
  mem : ∀ p ∈ G, ∀ s ∈ p.2, ∀ j ∈ s.2, j ∈ S ∧ eOf j = p.1 ∧ closeB s.1 (cOf j) = true
  cover : ∀ j ∈ S, ∃ p ∈ G, ∃ s ∈ p.2, j ∈ s.2

omit [DecidableEq E] in
theorem inv_nil (closeB : C → C → Bool) (eOf : Nat → E) (cOf : Nat → C) : Inv closeB eOf cOf [] [] :=
  ⟨by simp, by simp, by simp, by simp⟩

theorem inv_place (closeB : C → C → Bool) (eOf : Nat → E) (cOf : Nat → C)
    (hrefl : ∀ c, closeB c c = true) (G : List (E × Subs C)) (S : List Nat) (id : Nat)
    (h : Inv closeB eOf cOf G S) :
    Inv closeB eOf cOf (place closeB id (eOf id) (cOf id) G) (id :: S) := by
  refine ⟨?_, ?_, ?_, ?_⟩
  · rw [place_keys]
    split
    · exact h.keys
    · rename_i hne
      rw [List.nodup_append]
      exact ⟨h.keys, by simp, by
        intro a ha b hb
        simp only [List.mem_singleton] at hb
        subst hb
        intro hab; subst hab; exact hne ha⟩
  · intro p hp
    rcases place_cases closeB id _ _ G p hp with hG | ⟨subs, hs, rfl⟩ | ⟨rfl, _⟩
    · exact h.reps p hG
    · exact placeSub_pairwise closeB id _ subs (h.reps _ hs)
    · simp
  · intro p hp s hs j hj
    rcases place_cases closeB id _ _ G p hp with hG | ⟨subs, hsub, rfl⟩ | ⟨rfl, _⟩
    · obtain ⟨h1, h2, h3⟩ := h.mem p hG s hs j hj
      exact ⟨by simp [h1], h2, h3⟩
    · rcases placeSub_rep closeB id _ subs s hs with ⟨s', hs', e1, hj'⟩ | ⟨rfl, _⟩
      · rcases hj' j hj with hj1 | ⟨rfl, hcl⟩
        · obtain ⟨h1, h2, h3⟩ := h.mem _ hsub s' hs' j hj1
          exact ⟨by simp [h1], h2, by rw [← e1]; exact h3⟩
        · exact ⟨by simp, rfl, hcl⟩
      · simp only [List.mem_singleton] at hj
        subst hj
        exact ⟨by simp, rfl, hrefl _⟩
    · simp only [List.mem_singleton] at hs
      subst hs
      simp only [List.mem_singleton] at hj
      subst hj
      exact ⟨by simp, rfl, hrefl _⟩
  · intro j hj
    rcases List.mem_cons.mp hj with rfl | hj
    · obtain ⟨p, hp, _, s, hs, hjs⟩ := place_has closeB j (eOf j) (cOf j) G
      exact ⟨p, hp, s, hs, hjs⟩
    · obtain ⟨p', hp', s', hs', hjs⟩ := h.cover j hj
      obtain ⟨p, hp, _, hcase⟩ := place_keeps closeB id (eOf id) (cOf id) G p' hp'
      rcases hcase with rfl | h2
      · exact ⟨p, hp, s', hs', hjs⟩
      · obtain ⟨s, hs, _, hall⟩ := placeSub_keeps closeB id (cOf id) p'.2 s' hs'
        exact ⟨p, hp, s, by rw [h2]; exact hs, hall j hjs⟩

theorem inv_groupIds (closeB : C → C → Bool) (eOf : Nat → E) (cOf : Nat → C)
    (hrefl : ∀ c, closeB c c = true) (ids : List Nat) (G : List (E × Subs C)) (S : List Nat)
    (h : Inv closeB eOf cOf G S) :
    ∃ S', (∀ j, j ∈ S' ↔ j ∈ ids ∨ j ∈ S) ∧ Inv closeB eOf cOf (groupIds closeB eOf cOf ids G) S' := by
  induction ids generalizing G S with
  | nil => exact ⟨S, by simp, h⟩
  | cons id ids ih =>
    obtain ⟨S', hS', hinv⟩ := ih _ _ (inv_place closeB eOf cOf hrefl G S id h)
    refine ⟨S', ?_, hinv⟩
    intro j
    rw [hS' j]
    simp only [List.mem_cons]
    constructor
    · rintro (h1 | h1 | h1)
      · exact Or.inl (Or.inr h1)
      · exact Or.inl (Or.inl h1)
      · exact Or.inr h1
    · rintro ((h1 | h1) | h1)
      · exact Or.inr (Or.inl h1)
      · exact Or.inl h1
      · exact Or.inr (Or.inr h1)

theorem pairwise_mem_cases {β : Type} (R : β → β → Prop) (l : List β) (h : l.Pairwise R)
    (a b : β) (ha : a ∈ l) (hb : b ∈ l) : a = b ∨ R a b ∨ R b a := by
  induction l with
  | nil => simp at ha
  | cons x xs ih =>
    rw [List.pairwise_cons] at h
    rcases List.mem_cons.mp ha with ha1 | ha1
    · rcases List.mem_cons.mp hb with hb1 | hb1
      · exact Or.inl (ha1.trans hb1.symm)
      · rw [ha1]; exact Or.inr (Or.inl (h.1 b hb1))
    · rcases List.mem_cons.mp hb with hb1 | hb1
      · rw [hb1]; exact Or.inr (Or.inr (h.1 a ha1))
      · exact ih h.2 ha1 hb1

theorem nodup_keys_unique (G : List (E × Subs C)) (h : (G.map (·.1)).Nodup) (p q : E × Subs C)
    (hp : p ∈ G) (hq : q ∈ G) (he : p.1 = q.1) : p = q := by
  induction G with
  | nil => simp at hp
  | cons x xs ih =>
    simp only [List.map_cons, List.nodup_cons] at h
    rcases List.mem_cons.mp hp with hp1 | hp1
    · rcases List.mem_cons.mp hq with hq1 | hq1
      · exact hp1.trans hq1.symm
      · exfalso; apply h.1; rw [← hp1, he]; exact List.mem_map.mpr ⟨q, hq1, rfl⟩
    · rcases List.mem_cons.mp hq with hq1 | hq1
      · exfalso; apply h.1; rw [← hq1, ← he]; exact List.mem_map.mpr ⟨p, hp1, rfl⟩
      · exact ih h.2 hp1 hq1

/-- **who shares a group is decided by the keys alone.**  If closeness is reflexive, symmetric and
    transitive, two of the files end up in the same group iff they agree on the exact keys and are
    close on the tolerance-compared keys. -/
theorem together_iff (closeB : C → C → Bool) (eOf : Nat → E) (cOf : Nat → C)
    (hrefl : ∀ c, closeB c c = true)
    (hsymm : ∀ a b, closeB a b = true → closeB b a = true)
    (htrans : ∀ a b c, closeB a b = true → closeB b c = true → closeB a c = true)
    (ids : List Nat) (i j : Nat) (hi : i ∈ ids) (hj : j ∈ ids) :
    together (groupIds closeB eOf cOf ids []) i j ↔
      (eOf i = eOf j ∧ closeB (cOf i) (cOf j) = true) := by
  obtain ⟨S, hS, hinv⟩ := inv_groupIds closeB eOf cOf hrefl ids [] [] (inv_nil closeB eOf cOf)
  constructor
  · rintro ⟨p, hp, s, hs, his, hjs⟩
    obtain ⟨_, e1, c1⟩ := hinv.mem p hp s hs i his
    obtain ⟨_, e2, c2⟩ := hinv.mem p hp s hs j hjs
    exact ⟨e1.trans e2.symm, htrans _ _ _ (hsymm _ _ c1) c2⟩
  · rintro ⟨he, hc⟩
    obtain ⟨p, hp, s, hs, his⟩ := hinv.cover i ((hS i).mpr (Or.inl hi))
    obtain ⟨q, hq, t, ht, hjt⟩ := hinv.cover j ((hS j).mpr (Or.inl hj))
    obtain ⟨_, e1, c1⟩ := hinv.mem p hp s hs i his
    obtain ⟨_, e2, c2⟩ := hinv.mem q hq t ht j hjt
    have hpq : p = q := nodup_keys_unique _ hinv.keys p q hp hq (by rw [← e1, ← e2, he])
    subst hpq
    -- the two representatives are close, hence the same sub-group
    have hst : closeB s.1 t.1 = true := htrans _ _ _ (htrans _ _ _ c1 hc) (hsymm _ _ c2)
    rcases pairwise_mem_cases _ _ (hinv.reps p hp) s t hs ht with rfl | h1 | h1
    · exact ⟨p, hp, s, hs, his, hjt⟩
    · rw [hst] at h1; cases h1
    · rw [hsymm _ _ hst] at h1; cases h1

/-- **independence of path order**: permuting the paths does not change which files share a group -/
theorem group_order_independent (closeB : C → C → Bool) (eOf : Nat → E) (cOf : Nat → C)
    (hrefl : ∀ c, closeB c c = true)
    (hsymm : ∀ a b, closeB a b = true → closeB b a = true)
    (htrans : ∀ a b c, closeB a b = true → closeB b c = true → closeB a c = true)
    (ids ids' : List Nat) (hperm : ids.Perm ids') (i j : Nat) (hi : i ∈ ids) (hj : j ∈ ids) :
    together (groupIds closeB eOf cOf ids []) i j ↔ together (groupIds closeB eOf cOf ids' []) i j := by
  rw [together_iff closeB eOf cOf hrefl hsymm htrans ids i j hi hj,
    together_iff closeB eOf cOf hrefl hsymm htrans ids' i j (hperm.mem_iff.mp hi) (hperm.mem_iff.mp hj)]

/-- without transitivity the first-fit grouping does depend on the order: values 0, 4, 8 with
    "close = at most 5 apart" -/
theorem order_matters_without_transitivity :
    let closeB : Nat → Nat → Bool := fun a b => decide (a ≤ b + 5 ∧ b ≤ a + 5)
    let cOf : Nat → Nat := fun id => 4 * id
    groupIds closeB (fun _ => ()) cOf [0, 1, 2] [] = [((), [(0, [0, 1]), (8, [2])])] ∧
    groupIds closeB (fun _ => ()) cOf [1, 0, 2] [] = [((), [(4, [1, 0, 2])])] := by
  decide

/-- non-vacuity of `together_iff`: exact comparison on a lattice quotient is an equivalence -/
example : let closeB : Nat → Nat → Bool := fun a b => a / 10 == b / 10
    (∀ c, closeB c c = true) ∧ (∀ a b, closeB a b = true → closeB b a = true) ∧
    (∀ a b c, closeB a b = true → closeB b c = true → closeB a c = true) := by
  refine ⟨?_, ?_, ?_⟩
  · intro c; simp
  · intro a b h; simp at h ⊢; omega
  · intro a b c h1 h2; simp at h1 h2 ⊢; omega

end Grp
