import DcmVerif.Generated.Code_wrapsplit
import DcmVerif.Model.Wrap
import DcmVerif.Proofs.CodeLemmas
/-! the index expression and the trimming loop of `NiftiWrapper.split` as translated from dcmmeta.py are the wrapper model's `splitSpecs` and `trim`. -/
set_option autoImplicit false
set_option linter.unusedSimpArgs false
namespace Src
open Wrap
variable {α : Type}

/-! ### `NiftiWrapper.split`: index expression -/

theorem set_replicate_eq_map {β : Type} (n d : Nat) (a s : β) :
    (List.replicate n a).set d s = (List.range n).map (fun ax => if ax = d then s else a) := by
  apply List.ext_getElem?
  intro j
  by_cases hj : j < n
  · simp [List.getElem?_set, hj, List.getElem?_replicate, List.getElem?_range]
    by_cases hd : d = j
    · subst hd; simp
    · have : ¬ j = d := fun h => hd h.symm
      simp [hd, this]
  · simp [List.getElem?_set, hj, List.getElem?_replicate]

/-- **the index expression `split` builds, as written in dcmmeta.py, is the model's `splitSpecs`** -/
theorem split_specs_eq (shape : List Nat) (dim idx : Nat) :
    Py.split_specs shape dim idx = .ok (splitSpecs shape.length dim idx) := by
  unfold Py.split_specs splitSpecs
  by_cases h : 3 ≤ dim ∧ dim + 1 = shape.length
  · have hc : (decide (dim ≥ 3) && (dim == shape.length - 1)) = true := by
      simp; omega
    simp only [hc, if_true, set_replicate_eq_map]
    have : (fun ax => if ax = dim then Spec.int idx else Spec.full) = splitSpec shape.length dim idx := by
      funext ax; simp [splitSpec, h]
    rw [this]; rfl
  · have hc : (decide (dim ≥ 3) && (dim == shape.length - 1)) = false := by
      by_cases h3 : 3 ≤ dim
      · have : ¬ dim + 1 = shape.length := fun e => h ⟨h3, e⟩
        simp; omega
      · simp; omega
    simp only [hc, Bool.false_eq_true, if_false, set_replicate_eq_map]
    have : (fun ax => if ax = dim then Spec.one idx else Spec.full) = splitSpec shape.length dim idx := by
      funext ax; simp [splitSpec, h]
    rw [this]; rfl

/-! ### `NiftiWrapper.split`: trimming loop -/

def arrTrimCond (a : Arr α) : Bool :=
  decide (a.shape.length > 3) && (a.shape[a.shape.length - 1]! == 1)

theorem arrTrimCond_iff (a : Arr α) :
    arrTrimCond a = true ↔ (3 < a.shape.length ∧ a.shape.getLast? = some 1) := by
  unfold arrTrimCond
  rw [List.getLast?_eq_getElem?]
  by_cases h : 3 < a.shape.length
  · have hl : a.shape.length - 1 < a.shape.length := by omega
    simp [h, List.getElem?_eq_getElem hl]
  · simp [h]

theorem whileFuel_arrTrim : ∀ (n : Nat) (a : Arr α),
    whileFuel arrTrimCond Arr.dropLast0 n a = trim n a
  | 0, a => rfl
  | n + 1, a => by
    by_cases hc : arrTrimCond a = true
    · rw [whileFuel, if_pos hc, trim, if_pos ((arrTrimCond_iff a).1 hc)]
      exact whileFuel_arrTrim n a.dropLast0
    · rw [whileFuel, if_neg hc, trim, if_neg (fun h => hc ((arrTrimCond_iff a).2 h))]

theorem arrTrimCond_after : ∀ (n : Nat) (a : Arr α), a.shape.length ≤ n →
    arrTrimCond (whileFuel arrTrimCond Arr.dropLast0 n a) = false
  | 0, a, h => by
    simp [whileFuel, arrTrimCond]; omega
  | n + 1, a, h => by
    by_cases hc : arrTrimCond a = true
    · rw [whileFuel, if_pos hc]
      apply arrTrimCond_after n a.dropLast0
      have := ((arrTrimCond_iff a).1 hc).1
      simp [Arr.dropLast0]; omega
    · have hc' : arrTrimCond a = false := by simpa using hc
      rw [whileFuel_stable _ _ _ _ hc']; exact hc'

/-- **the trimming loop of `split`, as written in dcmmeta.py, is the model's `trim`** -/
theorem split_trim_eq (a : Arr α) : Py.split_trim a = .ok (trim a.shape.length a) := by
  unfold Py.split_trim
  simp only [forIn_while, List.length_range, ok_bind']
  have hc : (fun (r : Arr α) => decide (r.shape.length > 3) && (r.shape[r.shape.length - 1]! == 1)) = arrTrimCond := rfl
  rw [hc]
  have hfin := arrTrimCond_after a.shape.length a (Nat.le_refl _)
  have hfin' : (decide ((whileFuel arrTrimCond Arr.dropLast0 a.shape.length a).shape.length > 3) &&
      ((whileFuel arrTrimCond Arr.dropLast0 a.shape.length a).shape[
        (whileFuel arrTrimCond Arr.dropLast0 a.shape.length a).shape.length - 1]! == 1)) = false := hfin
  rw [if_neg (by rw [hfin']; simp), whileFuel_arrTrim]
  rfl

end Src
