import DcmVerif.Model.Wrap
/-! Proofs about the wrapper-level model (`Model/Wrap.lean`): voxel data and affines of
`NiftiWrapper.split` / `NiftiWrapper.from_sequence`, the fill of `DicomStack.get_data`. -/
set_option autoImplicit false
set_option linter.unusedSimpArgs false

namespace Wrap
variable {α : Type}

/-- `x` is an in-bounds index of an array of shape `s` -/
def InRange : List Nat → List Nat → Prop
  | [], [] => True
  | n :: ns, i :: is => i < n ∧ InRange ns is
  | _, _ => False

/-- where input `i`'s voxel `x` lands in the merged array: `i` on the merge axis (inserted behind
    padding zeros when the inputs do not have that axis) -/
def embed : List Nat → Nat → Nat → List Nat
  | [], 0, i => [i]
  | [], d + 1, i => 0 :: embed [] d i
  | _ :: x, 0, i => i :: x
  | a :: x, d + 1, i => a :: embed x d i

/-- the merge axis is absent from, or singular in, the input shape -/
def Singular : List Nat → Nat → Prop
  | [], _ => True
  | n :: _, 0 => n = 1
  | _ :: ns, d + 1 => Singular ns d

theorem inRange_length : ∀ (s x : List Nat), InRange s x → x.length = s.length
  | [], [], _ => rfl
  | [], _ :: _, h => by simp [InRange] at h
  | _ :: _, [], h => by simp [InRange] at h
  | _ :: ns, _ :: is, h => by simp [InRange] at h; simp [inRange_length ns is h.2]

/-! ### the fill of `from_sequence` -/

theorem selects_fill' : ∀ (s x : List Nat), InRange s x → selects (fillSpecs.fillSpecs' s) x = true
  | [], [], _ => by simp [fillSpecs.fillSpecs', selects]
  | [], _ :: _, h => by simp [InRange] at h
  | _ :: _, [], h => by simp [InRange] at h
  | n :: ns, i :: is, h => by
    simp [InRange] at h
    by_cases h1 : n = 1
    · have : i = 0 := by omega
      simp [fillSpecs.fillSpecs', selects, h1, this, selects_fill' ns is h.2]
    · simp [fillSpecs.fillSpecs', selects, h1, selects_fill' ns is h.2]

theorem unsq_fill' : ∀ (s x : List Nat), InRange s x →
    unsqueeze s (project (fillSpecs.fillSpecs' s) x) = x
  | [], [], _ => by simp [unsqueeze]
  | [], _ :: _, h => by simp [InRange] at h
  | _ :: _, [], h => by simp [InRange] at h
  | n :: ns, i :: is, h => by
    simp [InRange] at h
    by_cases h1 : n = 1
    · have : i = 0 := by omega
      simp [fillSpecs.fillSpecs', project, unsqueeze, h1, this, unsq_fill' ns is h.2]
    · simp [fillSpecs.fillSpecs', project, unsqueeze, h1, unsq_fill' ns is h.2]

theorem view_fill' : ∀ (s : List Nat), viewShape (fillSpecs.fillSpecs' s) s = s.filter (· ≠ 1)
  | [] => by simp [fillSpecs.fillSpecs', viewShape]
  | n :: ns => by
    by_cases h1 : n = 1
    · simp [fillSpecs.fillSpecs', viewShape, h1, view_fill' ns]
    · simp [fillSpecs.fillSpecs', viewShape, h1, view_fill' ns]

/-- input `i`'s region is exactly the indices whose merge coordinate is `i` -/
theorem selects_fill : ∀ (s : List Nat) (d n i j : Nat) (x : List Nat), InRange s x → Singular s d →
    selects (fillSpecs (mergeShape s d n) d i) (embed x d j) = (i == j)
  | [], 0, n, i, j, [], _, _ => by simp [mergeShape, fillSpecs, embed, selects, fillSpecs.fillSpecs']
  | [], d + 1, n, i, j, [], _, _ => by
    have := selects_fill [] d n i j [] (by simp [InRange]) (by simp [Singular])
    simp [mergeShape, fillSpecs, embed, selects, this]
  | [], _, _, _, _, _ :: _, h, _ => by simp [InRange] at h
  | _ :: _, _, _, _, _, [], h, _ => by simp [InRange] at h
  | a :: s, 0, n, i, j, x0 :: x, h, hs => by
    simp [InRange] at h
    simp [mergeShape, fillSpecs, embed, selects, selects_fill' s x h.2]
  | a :: s, d + 1, n, i, j, x0 :: x, h, hs => by
    simp [InRange] at h
    simp [Singular] at hs
    have ih := selects_fill s d n i j x h.2 hs
    by_cases h1 : a = 1
    · have : x0 = 0 := by omega
      simp [mergeShape, fillSpecs, embed, selects, h1, this, ih]
    · simp [mergeShape, fillSpecs, embed, selects, h1, ih]

/-- reading input `i`'s squeezed array at the view index of `embed x d i` is reading it at `x` -/
theorem unsq_fill : ∀ (s : List Nat) (d n i : Nat) (x : List Nat), InRange s x → Singular s d →
    unsqueeze s (project (fillSpecs (mergeShape s d n) d i) (embed x d i)) = x
  | [], 0, n, i, [], _, _ => by simp [unsqueeze]
  | [], d + 1, n, i, [], _, _ => by simp [unsqueeze]
  | [], _, _, _, _ :: _, h, _ => by simp [InRange] at h
  | _ :: _, _, _, _, [], h, _ => by simp [InRange] at h
  | a :: s, 0, n, i, x0 :: x, h, hs => by
    simp [InRange] at h
    simp [Singular] at hs
    have : x0 = 0 := by omega
    simp [mergeShape, fillSpecs, embed, project, unsqueeze, hs, this, unsq_fill' s x h.2]
  | a :: s, d + 1, n, i, x0 :: x, h, hs => by
    simp [InRange] at h
    simp [Singular] at hs
    have ih := unsq_fill s d n i x h.2 hs
    by_cases h1 : a = 1
    · have : x0 = 0 := by omega
      simp [mergeShape, fillSpecs, embed, project, unsqueeze, h1, this, ih]
    · simp [mergeShape, fillSpecs, embed, project, unsqueeze, h1, ih]

/-- the region an input is written to has the shape of the squeezed input -/
theorem view_fill : ∀ (s : List Nat) (d n i : Nat), Singular s d →
    viewShape (fillSpecs (mergeShape s d n) d i) (mergeShape s d n) = s.filter (· ≠ 1)
  | [], 0, n, i, _ => by simp [mergeShape, fillSpecs, viewShape]
  | [], d + 1, n, i, _ => by
    have := view_fill [] d n i (by simp [Singular])
    simpa [mergeShape, fillSpecs, viewShape] using this
  | a :: s, 0, n, i, hs => by
    simp [Singular] at hs
    simp [mergeShape, fillSpecs, viewShape, view_fill' s, hs]
  | a :: s, d + 1, n, i, hs => by
    simp [Singular] at hs
    have ih := view_fill s d n i hs
    by_cases h1 : a = 1
    · simp [mergeShape, fillSpecs, viewShape, h1, ih]
    · simp [mergeShape, fillSpecs, viewShape, h1, ih]

theorem fillLoop_shape (rshape : List Nat) (dim : Nat) :
    ∀ (inputs : List (Arr α)) (i : Nat) (r : Arr α), (fillLoop rshape dim inputs i r).shape = r.shape
  | [], _, _ => rfl
  | a :: rest, i, r => by
    simp [fillLoop, fillLoop_shape rshape dim rest (i + 1), Arr.assign]

/-- the loop invariant of the fill: after the loop over `inputs` (numbered from `i0`) position `j`
    of the merge axis holds input `j - i0` if it was among them, and is untouched otherwise -/
theorem fillLoop_el (s : List Nat) (d n : Nat) (hs : Singular s d) :
    ∀ (inputs : List (Arr α)) (i0 : Nat) (r : Arr α), (∀ a ∈ inputs, a.shape = s) →
    ∀ (j : Nat) (x : List Nat), InRange s x →
      (fillLoop (mergeShape s d n) d inputs i0 r).el (embed x d j) =
        if h : i0 ≤ j ∧ j - i0 < inputs.length then (inputs[j - i0]'h.2).el x else r.el (embed x d j)
  | [], i0, r, _, j, x, _ => by simp [fillLoop]
  | a :: rest, i0, r, hsh, j, x, hx => by
    have ha : a.shape = s := hsh a (by simp)
    have ih := fillLoop_el s d n hs rest (i0 + 1)
      (r.assign (fillSpecs (mergeShape s d n) d i0) a.squeeze)
      (fun b hb => hsh b (by simp [hb])) j x hx
    simp only [fillLoop]
    rw [ih]
    by_cases hj : i0 = j
    · subst hj
      have h1 : ¬ (i0 + 1 ≤ i0 ∧ i0 - (i0 + 1) < rest.length) := by omega
      rw [dif_neg h1]
      have h2 : i0 ≤ i0 ∧ i0 - i0 < (a :: rest).length := by simp
      rw [dif_pos h2]
      simp [Arr.assign, Arr.squeeze, ha, selects_fill s d n i0 i0 x hx hs, unsq_fill s d n i0 x hx hs]
    · by_cases hlt : i0 + 1 ≤ j ∧ j - (i0 + 1) < rest.length
      · have h2 : i0 ≤ j ∧ j - i0 < (a :: rest).length := by simp; omega
        rw [dif_pos hlt, dif_pos h2]
        have : j - i0 = (j - (i0 + 1)) + 1 := by omega
        simp [this]
      · have h2 : ¬ (i0 ≤ j ∧ j - i0 < (a :: rest).length) := by simp; omega
        rw [dif_neg hlt, dif_neg h2]
        have hne : (i0 == j) = false := by simp [hj]
        simp [Arr.assign, selects_fill s d n i0 j x hx hs, hne]

theorem singular_iff : ∀ (s : List Nat) (d : Nat),
    Singular s d ↔ ¬ (d < s.length ∧ s.getD d 0 ≠ 1)
  | [], _ => by simp [Singular]
  | n :: ns, 0 => by simp [Singular]
  | n :: ns, d + 1 => by simp [Singular, singular_iff ns d]

/-- **merged voxel data is the inputs stacked in input order**: for any number of inputs of one
    shape whose merge axis is absent or singular, the merge succeeds, the result has the merged
    shape, and position `i` of the merge axis holds input `i` voxel by voxel -/
theorem mergeData_spec (blank : α) (inputs : List (Arr α)) (dim : Nat) (s : List Nat)
    (hne : inputs ≠ []) (hsh : ∀ a ∈ inputs, a.shape = s) (hdim : dim < 5) (hs : Singular s dim) :
    ∃ r, mergeData blank inputs dim = .ok r ∧ r.shape = mergeShape s dim inputs.length ∧
      ∀ (i : Nat) (hi : i < inputs.length) (x : List Nat), InRange s x →
        r.el (embed x dim i) = (inputs[i]'hi).el x := by
  cases inputs with
  | nil => exact absurd rfl hne
  | cons first rest =>
    have hf : first.shape = s := hsh first (by simp)
    have hs' := (singular_iff s dim).1 hs
    refine ⟨fillLoop (mergeShape s dim (rest.length + 1)) dim (first :: rest) 0
      ⟨mergeShape s dim (rest.length + 1), fun _ => blank⟩, ?_, ?_, ?_⟩
    · have hall : (first :: rest).all (fun a => a.shape.filter (· ≠ 1) ==
          viewShape (fillSpecs (mergeShape s dim (rest.length + 1)) dim 0)
            (mergeShape s dim (rest.length + 1))) = true := by
        rw [List.all_eq_true]
        intro a ha
        rw [hsh a ha, view_fill s dim _ 0 hs]
        simp
      simp only [mergeData, hf, List.length_cons]
      rw [if_neg (by omega), if_neg hs', if_pos hall]
    · simp [fillLoop_shape]
    · intro i hi x hx
      have := fillLoop_el s dim (rest.length + 1) hs (first :: rest) 0
        ⟨mergeShape s dim (rest.length + 1), fun _ => blank⟩ hsh i x hx
      simp only [List.length_cons] at this ⊢
      rw [this, dif_pos ⟨Nat.zero_le _, by simpa using hi⟩]
      simp

/-- `from_sequence` refuses a merge axis that is present and not singular -/
theorem mergeData_refuses (blank : α) (first : Arr α) (rest : List (Arr α)) (dim : Nat)
    (h : ¬ dim < 5 ∨ (dim < first.shape.length ∧ first.shape.getD dim 0 ≠ 1)) :
    mergeData blank (first :: rest) dim = .error .valueError := by
  simp only [mergeData]
  by_cases h5 : dim < 5
  · rcases h with h | h
    · exact absurd h5 h
    · rw [if_neg (by omega), if_pos h]
  · rw [if_pos h5]

/-! ### the data of `split` -/

/-- an index of a piece, padded with zeros to the parent's number of axes -/
def pad (n : Nat) (x : List Nat) : List Nat := x ++ List.replicate (n - x.length) 0

theorem inRange3 {n0 n1 n2 : Nat} {x : List Nat} (h : InRange [n0, n1, n2] x) :
    ∃ x0 x1 x2, x = [x0, x1, x2] ∧ x0 < n0 ∧ x1 < n1 ∧ x2 < n2 := by
  match x, h with
  | [x0, x1, x2], h => exact ⟨x0, x1, x2, rfl, by simpa [InRange] using h⟩
  | [], h | [_], h | [_, _], h | _ :: _ :: _ :: _ :: _, h => simp [InRange] at h
theorem inRange4 {n0 n1 n2 n3 : Nat} {x : List Nat} (h : InRange [n0, n1, n2, n3] x) :
    ∃ x0 x1 x2 x3, x = [x0, x1, x2, x3] ∧ x0 < n0 ∧ x1 < n1 ∧ x2 < n2 ∧ x3 < n3 := by
  match x, h with
  | [x0, x1, x2, x3], h => exact ⟨x0, x1, x2, x3, rfl, by simpa [InRange] using h⟩
  | [], h | [_], h | [_, _], h | [_, _, _], h | _ :: _ :: _ :: _ :: _ :: _, h => simp [InRange] at h
theorem inRange5 {n0 n1 n2 n3 n4 : Nat} {x : List Nat} (h : InRange [n0, n1, n2, n3, n4] x) :
    ∃ x0 x1 x2 x3 x4, x = [x0, x1, x2, x3, x4] ∧ x0 < n0 ∧ x1 < n1 ∧ x2 < n2 ∧ x3 < n3 ∧ x4 < n4 := by
  match x, h with
  | [x0, x1, x2, x3, x4], h => exact ⟨x0, x1, x2, x3, x4, rfl, by simpa [InRange] using h⟩
  | [], h | [_], h | [_, _], h | [_, _, _], h | [_, _, _, _], h | _ :: _ :: _ :: _ :: _ :: _ :: _, h =>
    simp [InRange] at h



theorem split5 (el : List Nat → α) (a b c d e dim idx : Nat) (hd : dim < 5) :
    (splitData ⟨[a,b,c,d,e], el⟩ dim idx).shape = trimShape 5 ([a,b,c,d,e].set dim 1) ∧
    ∀ x, InRange (splitData ⟨[a,b,c,d,e], el⟩ dim idx).shape x →
      (splitData ⟨[a,b,c,d,e], el⟩ dim idx).el x = el ((pad 5 x).set dim idx) := by
  have : dim = 0 ∨ dim = 1 ∨ dim = 2 ∨ dim = 3 ∨ dim = 4 := by omega
  rcases this with h | h | h | h | h <;> subst h <;>
    by_cases he : e = 1 <;> by_cases hd1 : d = 1 <;>
      simp [splitData, splitSpecs, splitSpec, Arr.index, viewShape, List.range, List.range.loop, trim, trimShape, Arr.dropLast0, he, hd1] <;>
    intro x hx <;> first
      | (obtain ⟨x0, x1, x2, rfl, h0, h1, h2⟩ := inRange3 hx
         simp [expand, pad] <;> (first | done | (congr 1; simp; omega)))
      | (obtain ⟨x0, x1, x2, x3, rfl, h0, h1, h2, h3⟩ := inRange4 hx
         simp [expand, pad] <;> (first | done | (congr 1; simp; omega)))
      | (obtain ⟨x0, x1, x2, x3, x4, rfl, h0, h1, h2, h3, h4⟩ := inRange5 hx
         simp [expand, pad] <;> (first | done | (congr 1; simp; omega)))

theorem split4 (el : List Nat → α) (a b c d dim idx : Nat) (hd : dim < 4) :
    (splitData ⟨[a,b,c,d], el⟩ dim idx).shape = trimShape 4 ([a,b,c,d].set dim 1) ∧
    ∀ x, InRange (splitData ⟨[a,b,c,d], el⟩ dim idx).shape x →
      (splitData ⟨[a,b,c,d], el⟩ dim idx).el x = el ((pad 4 x).set dim idx) := by
  have : dim = 0 ∨ dim = 1 ∨ dim = 2 ∨ dim = 3 := by omega
  rcases this with h | h | h | h <;> subst h <;>
    by_cases hd1 : d = 1 <;>
      simp [splitData, splitSpecs, splitSpec, Arr.index, viewShape, List.range, List.range.loop, trim, trimShape, Arr.dropLast0, hd1] <;>
    intro x hx <;> first
      | (obtain ⟨x0, x1, x2, rfl, h0, h1, h2⟩ := inRange3 hx
         simp [expand, pad] <;> (first | done | (congr 1; simp; omega)))
      | (obtain ⟨x0, x1, x2, x3, rfl, h0, h1, h2, h3⟩ := inRange4 hx
         simp [expand, pad] <;> (first | done | (congr 1; simp; omega)))
      | (obtain ⟨x0, x1, x2, x3, x4, rfl, h0, h1, h2, h3, h4⟩ := inRange5 hx
         simp [expand, pad] <;> (first | done | (congr 1; simp; omega)))

theorem split3 (el : List Nat → α) (a b c dim idx : Nat) (hd : dim < 3) :
    (splitData ⟨[a,b,c], el⟩ dim idx).shape = trimShape 3 ([a,b,c].set dim 1) ∧
    ∀ x, InRange (splitData ⟨[a,b,c], el⟩ dim idx).shape x →
      (splitData ⟨[a,b,c], el⟩ dim idx).el x = el ((pad 3 x).set dim idx) := by
  have : dim = 0 ∨ dim = 1 ∨ dim = 2 := by omega
  rcases this with h | h | h <;> subst h <;>
      simp [splitData, splitSpecs, splitSpec, Arr.index, viewShape, List.range, List.range.loop, trim, trimShape] <;>
    intro x hx <;> first
      | (obtain ⟨x0, x1, x2, rfl, h0, h1, h2⟩ := inRange3 hx
         simp [expand, pad] <;> (first | done | (congr 1; simp; omega)))
      | (obtain ⟨x0, x1, x2, x3, rfl, h0, h1, h2, h3⟩ := inRange4 hx
         simp [expand, pad] <;> (first | done | (congr 1; simp; omega)))
      | (obtain ⟨x0, x1, x2, x3, x4, rfl, h0, h1, h2, h3, h4⟩ := inRange5 hx
         simp [expand, pad] <;> (first | done | (congr 1; simp; omega)))

/-- **piece `idx` of `split(dim)` is the `idx`-th hyperplane**: for every 3- to 5-D array and every
    axis, the piece's shape is the parent's with the split axis singular and trailing singular axes
    beyond the third trimmed, and its voxel `x` is the parent's voxel `x` with the split axis fixed to
    `idx` -/
theorem splitData_spec (a : Arr α) (dim idx : Nat) (h3 : 3 ≤ a.shape.length)
    (h5 : a.shape.length ≤ 5) (hd : dim < a.shape.length) :
    (splitData a dim idx).shape = trimShape a.shape.length (a.shape.set dim 1) ∧
    ∀ x, InRange (splitData a dim idx).shape x →
      (splitData a dim idx).el x = a.el ((pad a.shape.length x).set dim idx) := by
  obtain ⟨shape, el⟩ := a
  match shape, h3, h5, hd with
  | [a, b, c], _, _, hd => exact split3 el a b c dim idx hd
  | [a, b, c, d], _, _, hd => exact split4 el a b c d dim idx hd
  | [a, b, c, d, e], _, _, hd => exact split5 el a b c d e dim idx hd
  | [], h3, _, _ | [_], h3, _, _ | [_, _], h3, _, _ => simp at h3
  | _ :: _ :: _ :: _ :: _ :: _ :: _, _, h5, _ => simp at h5

/-- as many pieces as the axis is long, in index order -/
theorem splitAll_length (a : Arr α) (dim : Nat) : (splitAll a dim).length = a.shape.getD dim 0 := by
  simp [splitAll]

theorem splitAll_get (a : Arr α) (dim i : Nat) (hi : i < (splitAll a dim).length) :
    (splitAll a dim)[i] = splitData a dim i := by
  simp [splitAll]

/-! ### affines of `split` -/

theorem V3.ext' {a b : V3} (hx : a.x = b.x) (hy : a.y = b.y) (hz : a.z = b.z) : a = b := by
  cases a; cases b; simp_all

theorem V3.smul_zero' (u : V3) : V3.smul 0 u = V3.zero := by simp [V3.smul, V3.zero]

theorem Aff.shift_zero (A : Aff) : A.shift V3.zero = A := by
  cases A; simp [Aff.shift, V3.add, V3.zero]

theorem Aff.shift_smul_succ (B : Aff) (u : V3) (m : Nat) :
    (B.shift (V3.smul (m : Int) u)).shift u = B.shift (V3.smul ((m + 1 : Nat) : Int) u) := by
  simp only [Aff.shift, V3.add, V3.smul, Aff.mk.injEq, true_and, V3.mk.injEq]
  refine ⟨?_, ?_, ?_⟩ <;> (simp only [Int.natCast_add, Int.natCast_one]; grind)

/-- loop invariant of the cumulative translation update: entering iteration `idx` the running
    affine is the parent's moved by `idx - 1` steps (none before the second iteration), and piece
    `idx + j` comes out moved by `idx + j` steps -/
theorem splitAffLoop_get (u : V3) (B : Aff) :
    ∀ (k idx : Nat) (st : SplitSt), st.aff = B.shift (V3.smul ((idx - 1 : Nat) : Int) u) →
    ∀ j, j < k →
      (splitAffLoop (some u) k idx st)[j]? = some (B.shift (V3.smul ((idx + j : Nat) : Int) u))
  | 0, _, _, _, j, hj => by omega
  | k + 1, idx, st, hst, j, hj => by
    have hstep : (if idx = 0 then st else splitBump u st).aff =
        B.shift (V3.smul ((idx : Nat) : Int) u) := by
      cases idx with
      | zero => simpa using hst
      | succ m =>
        simp only [Nat.add_one_ne_zero, if_false, splitBump]
        rw [hst]
        simpa using Aff.shift_smul_succ B u m
    cases j with
    | zero => simp [splitAffLoop, hstep]
    | succ j' =>
      have ih := splitAffLoop_get u B k (idx + 1) (if idx = 0 then st else splitBump u st)
        (by simpa using hstep) j' (by omega)
      simp only [splitAffLoop, List.getElem?_cons_succ]
      rw [ih]
      congr 4
      omega

theorem splitAffLoop_none : ∀ (k idx : Nat) (st : SplitSt) (j : Nat), j < k →
    (splitAffLoop none k idx st)[j]? = some st.aff
  | 0, _, _, j, hj => by omega
  | k + 1, idx, st, j, hj => by
    cases j with
    | zero => simp [splitAffLoop]
    | succ j' => simpa [splitAffLoop] using splitAffLoop_none k (idx + 1) st j' (by omega)

theorem splitAffLoop_length (u : Option V3) : ∀ (k idx : Nat) (st : SplitSt),
    (splitAffLoop u k idx st).length = k
  | 0, _, _ => rfl
  | k + 1, idx, st => by simp [splitAffLoop, splitAffLoop_length u k]

/-- **the affine of piece `i`**: the parent's best affine, moved by `i` steps of the split axis for
    a spatial split and unchanged otherwise — for any number of pieces -/
theorem splitAffs_get (h : Hdr) (dim n i : Nat) (hi : i < n) :
    (splitAffs h dim n)[i]? =
      some (if dim < 3 then h.best.shift (V3.smul (i : Int) (h.best.col dim)) else h.best) := by
  unfold splitAffs
  by_cases hd : dim < 3
  · simp only [hd, if_true]
    have := splitAffLoop_get (h.best.col dim) h.best n 0 ⟨h, h.best⟩
      (by simp [V3.smul_zero', Aff.shift_zero]) i hi
    simpa using this
  · simp only [hd, if_false]
    exact splitAffLoop_none n 0 ⟨h, h.best⟩ i hi

theorem splitAffs_length (h : Hdr) (dim n : Nat) : (splitAffs h dim n).length = n := by
  simp [splitAffs, splitAffLoop_length]

/-- voxel `(x, y, z)` of piece `i` lies where the parent's voxel with `i` added on the split axis
    lies; in particular voxel 0 of the piece is sent to where voxel `i` of the parent was sent -/
theorem shift_apply (A : Aff) (dim : Nat) (i x y z : Int) :
    (A.shift (V3.smul i (A.col dim))).apply x y z =
      match dim with
      | 0 => A.apply (x + i) y z
      | 1 => A.apply x (y + i) z
      | _ => A.apply x y (z + i) := by
  match dim with
  | 0 => simp only [Aff.apply, Aff.shift, Aff.col, V3.add, V3.smul, V3.mk.injEq]; refine ⟨?_, ?_, ?_⟩ <;> grind
  | 1 => simp only [Aff.apply, Aff.shift, Aff.col, V3.add, V3.smul, V3.mk.injEq]; refine ⟨?_, ?_, ?_⟩ <;> grind
  | _ + 2 => simp only [Aff.apply, Aff.shift, Aff.col, V3.add, V3.smul, V3.mk.injEq]; refine ⟨?_, ?_, ?_⟩ <;> grind

/-- the header a piece is built with reports the piece affine, whatever transforms were coded -/
theorem pieceHdr_best (h : Hdr) (a : Aff) : (pieceHdr h a).best = a := by
  unfold pieceHdr
  by_cases hb : h.best = a
  · rw [if_pos hb]; exact hb
  · rw [if_neg hb]; simp [Hdr.best]

/-- while some transform is coded the shared header's best affine follows the running affine -/
theorem splitBump_best (u : V3) (st : SplitSt) (hc : st.hdr.s.isSome ∨ st.hdr.q.isSome)
    (hb : st.hdr.best = st.aff) : (splitBump u st).hdr.best = (splitBump u st).aff := by
  obtain ⟨⟨s, q, base⟩, aff⟩ := st
  cases s <;> cases q <;> simp_all [splitBump, Hdr.best]

/-! ### acceptance tests and result affine of `from_sequence` -/

/-- `last_trans` when input `i` is examined -/
def prevOf (prevT : Option V3) (affs : List Aff) (i : Nat) : Option V3 :=
  if i = 0 then prevT else (affs[i - 1]?).map (·.t)

theorem acceptLoop_iff (first : Aff) (dim : Nat) : ∀ (prevT : Option V3) (affs : List Aff),
    acceptLoop first dim prevT affs = true ↔
      ∀ (i : Nat) (a : Aff), affs[i]? = some a →
        acceptInput first dim (prevOf prevT affs i) a = true
  | _, [] => by simp [acceptLoop]
  | prevT, a :: rest => by
    simp only [acceptLoop, Bool.and_eq_true, acceptLoop_iff first dim (some a.t) rest]
    constructor
    · rintro ⟨h0, hr⟩ i b hb
      cases i with
      | zero =>
        simp at hb; subst hb
        simpa [prevOf] using h0
      | succ j =>
        have := hr j b (by simpa using hb)
        cases j with
        | zero => simpa [prevOf] using this
        | succ j' => simpa [prevOf] using this
    · intro h
      refine ⟨by simpa [prevOf] using h 0 a (by simp), ?_⟩
      intro j b hb
      have := h (j + 1) b (by simpa using hb)
      cases j with
      | zero => simpa [prevOf] using this
      | succ j' => simpa [prevOf] using this

/-- what one input must satisfy: the columns of the axes that are not merged equal the first
    input's; for a spatial merge the merge axis points the same way as the first input's and the
    step from the previous input is non-zero and points along the input's own merge axis -/
theorem acceptInput_iff (first : Aff) (dim : Nat) (prevT : Option V3) (a : Aff) :
    acceptInput first dim prevT a = true ↔
      (∀ ax, ax < 3 → ax ≠ dim → a.col ax = first.col ax) ∧
      (dim < 3 → V3.sameDir (a.col dim) (first.col dim) = true ∧
        ∀ p, prevT = some p → a.t.sub p ≠ V3.zero ∧ V3.sameDir (a.t.sub p) (a.col dim) = true) := by
  have hr : List.range 3 = [0, 1, 2] := by decide
  have hall : (∀ ax, ax < 3 → ax ≠ dim → a.col ax = first.col ax) ↔
      ((0 ≠ dim → a.col 0 = first.col 0) ∧ (1 ≠ dim → a.col 1 = first.col 1) ∧
        (2 ≠ dim → a.col 2 = first.col 2)) := by
    constructor
    · intro h; exact ⟨h 0 (by omega), h 1 (by omega), h 2 (by omega)⟩
    · rintro ⟨h0, h1, h2⟩ ax hax hne
      have : ax = 0 ∨ ax = 1 ∨ ax = 2 := by omega
      rcases this with h | h | h <;> subst h <;> simp_all
  rw [hall]
  unfold acceptInput
  rw [hr]
  have hd : dim = 0 ∨ dim = 1 ∨ dim = 2 ∨ 3 ≤ dim := by omega
  rcases hd with h | h | h | h
  · subst h; cases prevT <;> simp [bne_iff_ne] <;> grind
  · subst h; cases prevT <;> simp [bne_iff_ne] <;> grind
  · subst h; cases prevT <;> simp [bne_iff_ne] <;> grind
  · have h0 : (0 = dim) = False := by simp; omega
    have h1 : (1 = dim) = False := by simp; omega
    have h2 : (2 = dim) = False := by simp; omega
    have h3 : ¬ dim < 3 := by omega
    simp [h0, h1, h2, h3]

/-- **which sequences `from_sequence` accepts** (every other sequence is refused with ValueError):
    every input has the first input's axis directions, and along a spatial merge axis every input
    lies strictly ahead of its predecessor -/
theorem mergeAccept_iff (first : Aff) (rest : List Aff) (dim : Nat) :
    mergeAccept (first :: rest) dim = true ↔
      ∀ (i : Nat) (a : Aff), (first :: rest)[i]? = some a →
        (∀ ax, ax < 3 → ax ≠ dim → a.col ax = first.col ax) ∧
        (dim < 3 → V3.sameDir (a.col dim) (first.col dim) = true ∧
          ∀ p, prevOf none (first :: rest) i = some p →
            a.t.sub p ≠ V3.zero ∧ V3.sameDir (a.t.sub p) (a.col dim) = true) := by
  simp only [mergeAccept, acceptLoop_iff, acceptInput_iff]

/-- an input whose non-merged axis differs from the first input's is refused -/
theorem merge_refuses_orientation (first : Aff) (rest : List Aff) (dim i ax : Nat) (a : Aff)
    (hi : (first :: rest)[i]? = some a) (hax : ax < 3) (hne : ax ≠ dim)
    (hdiff : a.col ax ≠ first.col ax) :
    mergeAccept (first :: rest) dim = false := by
  cases hm : mergeAccept (first :: rest) dim with
  | false => rfl
  | true => exact absurd (((mergeAccept_iff first rest dim).1 hm i a hi).1 ax hax hne) hdiff

/-- an input that does not lie strictly ahead of its predecessor along the merge axis is refused -/
theorem merge_refuses_position (first : Aff) (rest : List Aff) (dim i : Nat) (a b : Aff)
    (hd : dim < 3) (ha : (first :: rest)[i]? = some a) (hb : (first :: rest)[i + 1]? = some b)
    (hbad : b.t.sub a.t = V3.zero ∨ V3.sameDir (b.t.sub a.t) (b.col dim) = false) :
    mergeAccept (first :: rest) dim = false := by
  cases hm : mergeAccept (first :: rest) dim with
  | false => rfl
  | true =>
    have h := (((mergeAccept_iff first rest dim).1 hm (i + 1) b hb).2 hd).2 a.t
      (by simp [prevOf, ha])
    rcases hbad with hz | hs
    · exact absurd hz h.1
    · rw [hs] at h; exact absurd h.2 (by simp)

/-- **the merged affine extends the inputs consistently**: for an accepted spatial merge of at
    least two inputs whose positions advance by the step between the first two, position `i` of the
    merge axis of the result lies where voxel 0 of input `i` lies (the axes that are not merged are
    the first input's, which acceptance has shown every input shares) -/
theorem mergeAff_consistent (first second : Aff) (rest : List Aff) (dim : Nat) (hd : dim < 3)
    (hacc : mergeAccept (first :: second :: rest) dim = true)
    (i : Nat) (a : Aff) (hi : (first :: second :: rest)[i]? = some a)
    (ht : a.t = first.t.add (V3.smul (i : Int) (second.t.sub first.t))) (x y z : Int) :
    ∃ R, mergeAff (first :: second :: rest) dim = some R ∧
      (match dim with
        | 0 => R.apply (i : Int) y z = a.apply 0 y z
        | 1 => R.apply x (i : Int) z = a.apply x 0 z
        | _ => R.apply x y (i : Int) = a.apply x y 0) := by
  refine ⟨first.setCol dim (second.t.sub first.t), by simp [mergeAff, hd], ?_⟩
  have hc := ((mergeAccept_iff first (second :: rest) dim).1 hacc i a hi).1
  match dim, hd with
  | 0, _ =>
    have h1 := hc 1 (by omega) (by omega); have h2 := hc 2 (by omega) (by omega)
    simp only [Aff.col] at h1 h2
    simp only [Aff.apply, Aff.setCol, ht, h1, h2, V3.add, V3.smul, V3.sub, V3.mk.injEq]
    refine ⟨?_, ?_, ?_⟩ <;> grind
  | 1, _ =>
    have h0 := hc 0 (by omega) (by omega); have h2 := hc 2 (by omega) (by omega)
    simp only [Aff.col] at h0 h2
    simp only [Aff.apply, Aff.setCol, ht, h0, h2, V3.add, V3.smul, V3.sub, V3.mk.injEq]
    refine ⟨?_, ?_, ?_⟩ <;> grind
  | 2, _ =>
    have h0 := hc 0 (by omega) (by omega); have h1 := hc 1 (by omega) (by omega)
    simp only [Aff.col] at h0 h1
    simp only [Aff.apply, Aff.setCol, ht, h0, h1, V3.add, V3.smul, V3.sub, V3.mk.injEq]
    refine ⟨?_, ?_, ?_⟩ <;> grind

/-! ### split, then merge: the voxel data -/

theorem mergeData_spec' (blank : α) (inputs : List (Arr α)) (dim : Nat) (s : List Nat)
    (hne : inputs ≠ []) (hsh : ∀ a ∈ inputs, a.shape = s) (hdim : dim < 5) (hs : Singular s dim) :
    ∃ r, mergeData blank inputs dim = .ok r ∧ r.shape = mergeShape s dim inputs.length ∧
      ∀ (i : Nat) (a : Arr α), inputs[i]? = some a → ∀ x, InRange s x →
        r.el (embed x dim i) = a.el x := by
  obtain ⟨r, h1, h2, h3⟩ := mergeData_spec blank inputs dim s hne hsh hdim hs
  refine ⟨r, h1, h2, ?_⟩
  intro i a hi x hx
  obtain ⟨hlt, rfl⟩ := List.getElem?_eq_some_iff.1 hi
  exact h3 i hlt x hx

theorem splitAll_get? (a : Arr α) (dim i : Nat) (hi : i < a.shape.getD dim 0) :
    (splitAll a dim)[i]? = some (splitData a dim i) := by
  simp only [splitAll]
  rw [List.getElem?_map, List.getElem?_range hi]
  rfl

theorem rt3 (blank : α) (el : List Nat → α) (a b c dim : Nat) (hd : dim < 3) 
    (hn : 0 < ([a,b,c] : List Nat).getD dim 0) :
    ∃ r, mergeData blank (splitAll ⟨[a,b,c], el⟩ dim) dim = .ok r ∧ r.shape = [a,b,c] ∧
      ∀ x, InRange [a,b,c] x → r.el x = el x := by
  have hsh : ∀ p ∈ splitAll ⟨[a,b,c], el⟩ dim, p.shape = trimShape 3 (([a,b,c] : List Nat).set dim 1) := by
    intro p hp
    simp only [splitAll, List.mem_map, List.mem_range] at hp
    obtain ⟨i, _, rfl⟩ := hp
    exact (split3 el a b c dim i hd).1
  have hne : splitAll ⟨[a,b,c], el⟩ dim ≠ [] := by
    intro h; have := congrArg List.length h; simp [splitAll] at this; simp at hn; omega
  have hd' : dim = 0 ∨ dim = 1 ∨ dim = 2 := by omega
  rcases hd' with h | h | h <;> subst h
  · obtain ⟨r, h1, h2, h3⟩ := mergeData_spec' blank _ 0 _ hne hsh (by omega) (by simp [trimShape, Singular, InRange, mergeShape, splitAll])
    refine ⟨r, h1, by simp [h2, trimShape, Singular, InRange, mergeShape, splitAll], ?_⟩
    intro x hx
    obtain ⟨x0, x1, x2, rfl, h0', h1', h2'⟩ := inRange3 hx
    have hxd : x0 < ([a,b,c] : List Nat).getD 0 0 := by simpa using h0'
    have := h3 x0 _ (splitAll_get? _ 0 x0 hxd) [0, x1, x2] (by simp [trimShape, Singular, InRange, mergeShape, splitAll, *])
    rw [(split3 el a b c 0 x0 (by omega)).2 _ (by simp [splitData, splitSpecs, splitSpec, Arr.index, viewShape, List.range, List.range.loop, trim, Arr.dropLast0, InRange, *])] at this
    have hz : ∀ n : Nat, n < 1 → n = 0 := by omega
    simp [embed, pad] at this
    first | exact this | (simp_all; done) | (subst_vars; simp_all)
  · obtain ⟨r, h1, h2, h3⟩ := mergeData_spec' blank _ 1 _ hne hsh (by omega) (by simp [trimShape, Singular, InRange, mergeShape, splitAll])
    refine ⟨r, h1, by simp [h2, trimShape, Singular, InRange, mergeShape, splitAll], ?_⟩
    intro x hx
    obtain ⟨x0, x1, x2, rfl, h0', h1', h2'⟩ := inRange3 hx
    have hxd : x1 < ([a,b,c] : List Nat).getD 1 0 := by simpa using h1'
    have := h3 x1 _ (splitAll_get? _ 1 x1 hxd) [x0, 0, x2] (by simp [trimShape, Singular, InRange, mergeShape, splitAll, *])
    rw [(split3 el a b c 1 x1 (by omega)).2 _ (by simp [splitData, splitSpecs, splitSpec, Arr.index, viewShape, List.range, List.range.loop, trim, Arr.dropLast0, InRange, *])] at this
    have hz : ∀ n : Nat, n < 1 → n = 0 := by omega
    simp [embed, pad] at this
    first | exact this | (simp_all; done) | (subst_vars; simp_all)
  · obtain ⟨r, h1, h2, h3⟩ := mergeData_spec' blank _ 2 _ hne hsh (by omega) (by simp [trimShape, Singular, InRange, mergeShape, splitAll])
    refine ⟨r, h1, by simp [h2, trimShape, Singular, InRange, mergeShape, splitAll], ?_⟩
    intro x hx
    obtain ⟨x0, x1, x2, rfl, h0', h1', h2'⟩ := inRange3 hx
    have hxd : x2 < ([a,b,c] : List Nat).getD 2 0 := by simpa using h2'
    have := h3 x2 _ (splitAll_get? _ 2 x2 hxd) [x0, x1, 0] (by simp [trimShape, Singular, InRange, mergeShape, splitAll, *])
    rw [(split3 el a b c 2 x2 (by omega)).2 _ (by simp [splitData, splitSpecs, splitSpec, Arr.index, viewShape, List.range, List.range.loop, trim, Arr.dropLast0, InRange, *])] at this
    have hz : ∀ n : Nat, n < 1 → n = 0 := by omega
    simp [embed, pad] at this
    first | exact this | (simp_all; done) | (subst_vars; simp_all)

theorem rt4 (blank : α) (el : List Nat → α) (a b c d dim : Nat) (hd : dim < 4) (hl : d ≠ 1) 
    (hn : 0 < ([a,b,c,d] : List Nat).getD dim 0) :
    ∃ r, mergeData blank (splitAll ⟨[a,b,c,d], el⟩ dim) dim = .ok r ∧ r.shape = [a,b,c,d] ∧
      ∀ x, InRange [a,b,c,d] x → r.el x = el x := by
  have hsh : ∀ p ∈ splitAll ⟨[a,b,c,d], el⟩ dim, p.shape = trimShape 4 (([a,b,c,d] : List Nat).set dim 1) := by
    intro p hp
    simp only [splitAll, List.mem_map, List.mem_range] at hp
    obtain ⟨i, _, rfl⟩ := hp
    exact (split4 el a b c d dim i hd).1
  have hne : splitAll ⟨[a,b,c,d], el⟩ dim ≠ [] := by
    intro h; have := congrArg List.length h; simp [splitAll] at this; simp at hn; omega
  have hd' : dim = 0 ∨ dim = 1 ∨ dim = 2 ∨ dim = 3 := by omega
  rcases hd' with h | h | h | h <;> subst h
  · obtain ⟨r, h1, h2, h3⟩ := mergeData_spec' blank _ 0 _ hne hsh (by omega) (by simp [trimShape, Singular, InRange, mergeShape, splitAll, hl])
    refine ⟨r, h1, by simp [h2, trimShape, Singular, InRange, mergeShape, splitAll, hl], ?_⟩
    intro x hx
    obtain ⟨x0, x1, x2, x3, rfl, h0', h1', h2', h3'⟩ := inRange4 hx
    have hxd : x0 < ([a,b,c,d] : List Nat).getD 0 0 := by simpa using h0'
    have := h3 x0 _ (splitAll_get? _ 0 x0 hxd) [0, x1, x2, x3] (by simp [trimShape, Singular, InRange, mergeShape, splitAll, hl, *])
    rw [(split4 el a b c d 0 x0 (by omega)).2 _ (by simp [splitData, splitSpecs, splitSpec, Arr.index, viewShape, List.range, List.range.loop, trim, Arr.dropLast0, InRange, *])] at this
    have hz : ∀ n : Nat, n < 1 → n = 0 := by omega
    simp [embed, pad] at this
    first | exact this | (simp_all; done) | (subst_vars; simp_all)
  · obtain ⟨r, h1, h2, h3⟩ := mergeData_spec' blank _ 1 _ hne hsh (by omega) (by simp [trimShape, Singular, InRange, mergeShape, splitAll, hl])
    refine ⟨r, h1, by simp [h2, trimShape, Singular, InRange, mergeShape, splitAll, hl], ?_⟩
    intro x hx
    obtain ⟨x0, x1, x2, x3, rfl, h0', h1', h2', h3'⟩ := inRange4 hx
    have hxd : x1 < ([a,b,c,d] : List Nat).getD 1 0 := by simpa using h1'
    have := h3 x1 _ (splitAll_get? _ 1 x1 hxd) [x0, 0, x2, x3] (by simp [trimShape, Singular, InRange, mergeShape, splitAll, hl, *])
    rw [(split4 el a b c d 1 x1 (by omega)).2 _ (by simp [splitData, splitSpecs, splitSpec, Arr.index, viewShape, List.range, List.range.loop, trim, Arr.dropLast0, InRange, *])] at this
    have hz : ∀ n : Nat, n < 1 → n = 0 := by omega
    simp [embed, pad] at this
    first | exact this | (simp_all; done) | (subst_vars; simp_all)
  · obtain ⟨r, h1, h2, h3⟩ := mergeData_spec' blank _ 2 _ hne hsh (by omega) (by simp [trimShape, Singular, InRange, mergeShape, splitAll, hl])
    refine ⟨r, h1, by simp [h2, trimShape, Singular, InRange, mergeShape, splitAll, hl], ?_⟩
    intro x hx
    obtain ⟨x0, x1, x2, x3, rfl, h0', h1', h2', h3'⟩ := inRange4 hx
    have hxd : x2 < ([a,b,c,d] : List Nat).getD 2 0 := by simpa using h2'
    have := h3 x2 _ (splitAll_get? _ 2 x2 hxd) [x0, x1, 0, x3] (by simp [trimShape, Singular, InRange, mergeShape, splitAll, hl, *])
    rw [(split4 el a b c d 2 x2 (by omega)).2 _ (by simp [splitData, splitSpecs, splitSpec, Arr.index, viewShape, List.range, List.range.loop, trim, Arr.dropLast0, InRange, *])] at this
    have hz : ∀ n : Nat, n < 1 → n = 0 := by omega
    simp [embed, pad] at this
    first | exact this | (simp_all; done) | (subst_vars; simp_all)
  · obtain ⟨r, h1, h2, h3⟩ := mergeData_spec' blank _ 3 _ hne hsh (by omega) (by simp [trimShape, Singular, InRange, mergeShape, splitAll, hl])
    refine ⟨r, h1, by simp [h2, trimShape, Singular, InRange, mergeShape, splitAll, hl], ?_⟩
    intro x hx
    obtain ⟨x0, x1, x2, x3, rfl, h0', h1', h2', h3'⟩ := inRange4 hx
    have hxd : x3 < ([a,b,c,d] : List Nat).getD 3 0 := by simpa using h3'
    have := h3 x3 _ (splitAll_get? _ 3 x3 hxd) [x0, x1, x2] (by simp [trimShape, Singular, InRange, mergeShape, splitAll, hl, *])
    rw [(split4 el a b c d 3 x3 (by omega)).2 _ (by simp [splitData, splitSpecs, splitSpec, Arr.index, viewShape, List.range, List.range.loop, trim, Arr.dropLast0, InRange, *])] at this
    have hz : ∀ n : Nat, n < 1 → n = 0 := by omega
    simp [embed, pad] at this
    first | exact this | (simp_all; done) | (subst_vars; simp_all)

theorem rt5 (blank : α) (el : List Nat → α) (a b c d e dim : Nat) (hd : dim < 5) (hl : e ≠ 1) 
    (hn : 0 < ([a,b,c,d,e] : List Nat).getD dim 0) :
    ∃ r, mergeData blank (splitAll ⟨[a,b,c,d,e], el⟩ dim) dim = .ok r ∧ r.shape = [a,b,c,d,e] ∧
      ∀ x, InRange [a,b,c,d,e] x → r.el x = el x := by
  have hsh : ∀ p ∈ splitAll ⟨[a,b,c,d,e], el⟩ dim, p.shape = trimShape 5 (([a,b,c,d,e] : List Nat).set dim 1) := by
    intro p hp
    simp only [splitAll, List.mem_map, List.mem_range] at hp
    obtain ⟨i, _, rfl⟩ := hp
    exact (split5 el a b c d e dim i hd).1
  have hne : splitAll ⟨[a,b,c,d,e], el⟩ dim ≠ [] := by
    intro h; have := congrArg List.length h; simp [splitAll] at this; simp at hn; omega
  have hd' : dim = 0 ∨ dim = 1 ∨ dim = 2 ∨ dim = 3 ∨ dim = 4 := by omega
  rcases hd' with h | h | h | h | h <;> subst h
  · obtain ⟨r, h1, h2, h3⟩ := mergeData_spec' blank _ 0 _ hne hsh (by omega) (by simp [trimShape, Singular, InRange, mergeShape, splitAll, hl])
    refine ⟨r, h1, by simp [h2, trimShape, Singular, InRange, mergeShape, splitAll, hl], ?_⟩
    intro x hx
    obtain ⟨x0, x1, x2, x3, x4, rfl, h0', h1', h2', h3', h4'⟩ := inRange5 hx
    have hxd : x0 < ([a,b,c,d,e] : List Nat).getD 0 0 := by simpa using h0'
    have := h3 x0 _ (splitAll_get? _ 0 x0 hxd) [0, x1, x2, x3, x4] (by simp [trimShape, Singular, InRange, mergeShape, splitAll, hl, *])
    rw [(split5 el a b c d e 0 x0 (by omega)).2 _ (by simp [splitData, splitSpecs, splitSpec, Arr.index, viewShape, List.range, List.range.loop, trim, Arr.dropLast0, InRange, *])] at this
    have hz : ∀ n : Nat, n < 1 → n = 0 := by omega
    simp [embed, pad] at this
    first | exact this | (simp_all; done) | (subst_vars; simp_all)
  · obtain ⟨r, h1, h2, h3⟩ := mergeData_spec' blank _ 1 _ hne hsh (by omega) (by simp [trimShape, Singular, InRange, mergeShape, splitAll, hl])
    refine ⟨r, h1, by simp [h2, trimShape, Singular, InRange, mergeShape, splitAll, hl], ?_⟩
    intro x hx
    obtain ⟨x0, x1, x2, x3, x4, rfl, h0', h1', h2', h3', h4'⟩ := inRange5 hx
    have hxd : x1 < ([a,b,c,d,e] : List Nat).getD 1 0 := by simpa using h1'
    have := h3 x1 _ (splitAll_get? _ 1 x1 hxd) [x0, 0, x2, x3, x4] (by simp [trimShape, Singular, InRange, mergeShape, splitAll, hl, *])
    rw [(split5 el a b c d e 1 x1 (by omega)).2 _ (by simp [splitData, splitSpecs, splitSpec, Arr.index, viewShape, List.range, List.range.loop, trim, Arr.dropLast0, InRange, *])] at this
    have hz : ∀ n : Nat, n < 1 → n = 0 := by omega
    simp [embed, pad] at this
    first | exact this | (simp_all; done) | (subst_vars; simp_all)
  · obtain ⟨r, h1, h2, h3⟩ := mergeData_spec' blank _ 2 _ hne hsh (by omega) (by simp [trimShape, Singular, InRange, mergeShape, splitAll, hl])
    refine ⟨r, h1, by simp [h2, trimShape, Singular, InRange, mergeShape, splitAll, hl], ?_⟩
    intro x hx
    obtain ⟨x0, x1, x2, x3, x4, rfl, h0', h1', h2', h3', h4'⟩ := inRange5 hx
    have hxd : x2 < ([a,b,c,d,e] : List Nat).getD 2 0 := by simpa using h2'
    have := h3 x2 _ (splitAll_get? _ 2 x2 hxd) [x0, x1, 0, x3, x4] (by simp [trimShape, Singular, InRange, mergeShape, splitAll, hl, *])
    rw [(split5 el a b c d e 2 x2 (by omega)).2 _ (by simp [splitData, splitSpecs, splitSpec, Arr.index, viewShape, List.range, List.range.loop, trim, Arr.dropLast0, InRange, *])] at this
    have hz : ∀ n : Nat, n < 1 → n = 0 := by omega
    simp [embed, pad] at this
    first | exact this | (simp_all; done) | (subst_vars; simp_all)
  · obtain ⟨r, h1, h2, h3⟩ := mergeData_spec' blank _ 3 _ hne hsh (by omega) (by simp [trimShape, Singular, InRange, mergeShape, splitAll, hl])
    refine ⟨r, h1, by simp [h2, trimShape, Singular, InRange, mergeShape, splitAll, hl], ?_⟩
    intro x hx
    obtain ⟨x0, x1, x2, x3, x4, rfl, h0', h1', h2', h3', h4'⟩ := inRange5 hx
    have hxd : x3 < ([a,b,c,d,e] : List Nat).getD 3 0 := by simpa using h3'
    have := h3 x3 _ (splitAll_get? _ 3 x3 hxd) [x0, x1, x2, 0, x4] (by simp [trimShape, Singular, InRange, mergeShape, splitAll, hl, *])
    rw [(split5 el a b c d e 3 x3 (by omega)).2 _ (by simp [splitData, splitSpecs, splitSpec, Arr.index, viewShape, List.range, List.range.loop, trim, Arr.dropLast0, InRange, *])] at this
    have hz : ∀ n : Nat, n < 1 → n = 0 := by omega
    simp [embed, pad] at this
    first | exact this | (simp_all; done) | (subst_vars; simp_all)
  · by_cases hp : d = 1
    · obtain ⟨r, h1, h2, h3⟩ := mergeData_spec' blank _ 4 _ hne hsh (by omega) (by simp [trimShape, Singular, InRange, mergeShape, splitAll, hl, hp])
      refine ⟨r, h1, by simp [h2, trimShape, Singular, InRange, mergeShape, splitAll, hl, hp], ?_⟩
      intro x hx
      obtain ⟨x0, x1, x2, x3, x4, rfl, h0', h1', h2', h3', h4'⟩ := inRange5 hx
      have hxd : x4 < ([a,b,c,d,e] : List Nat).getD 4 0 := by simpa using h4'
      have := h3 x4 _ (splitAll_get? _ 4 x4 hxd) [x0, x1, x2] (by simp [trimShape, Singular, InRange, mergeShape, splitAll, hl, hp, *])
      rw [(split5 el a b c d e 4 x4 (by omega)).2 _ (by simp [splitData, splitSpecs, splitSpec, Arr.index, viewShape, List.range, List.range.loop, trim, Arr.dropLast0, InRange, *])] at this
      have hz : ∀ n : Nat, n < 1 → n = 0 := by omega
      simp [embed, pad] at this
      first | exact this | (simp_all; done) | (subst_vars; simp_all)
    · obtain ⟨r, h1, h2, h3⟩ := mergeData_spec' blank _ 4 _ hne hsh (by omega) (by simp [trimShape, Singular, InRange, mergeShape, splitAll, hl, hp])
      refine ⟨r, h1, by simp [h2, trimShape, Singular, InRange, mergeShape, splitAll, hl, hp], ?_⟩
      intro x hx
      obtain ⟨x0, x1, x2, x3, x4, rfl, h0', h1', h2', h3', h4'⟩ := inRange5 hx
      have hxd : x4 < ([a,b,c,d,e] : List Nat).getD 4 0 := by simpa using h4'
      have := h3 x4 _ (splitAll_get? _ 4 x4 hxd) [x0, x1, x2, x3] (by simp [trimShape, Singular, InRange, mergeShape, splitAll, hl, hp, *])
      rw [(split5 el a b c d e 4 x4 (by omega)).2 _ (by simp [splitData, splitSpecs, splitSpec, Arr.index, viewShape, List.range, List.range.loop, trim, Arr.dropLast0, InRange, *])] at this
      have hz : ∀ n : Nat, n < 1 → n = 0 := by omega
      simp [embed, pad] at this
      first | exact this | (simp_all; done) | (subst_vars; simp_all)



/-- **splitting an image and merging the pieces back reproduces its voxel data**: any 3- to 5-D
    array without trailing singular axes beyond the third, any axis of non-zero length -/
theorem merge_split_data (blank : α) (a : Arr α) (dim : Nat) (h3 : 3 ≤ a.shape.length)
    (h5 : a.shape.length ≤ 5) (hd : dim < a.shape.length)
    (htrim : trimShape a.shape.length a.shape = a.shape) (hn : 0 < a.shape.getD dim 0) :
    ∃ r, mergeData blank (splitAll a dim) dim = .ok r ∧ r.shape = a.shape ∧
      ∀ x, InRange a.shape x → r.el x = a.el x := by
  obtain ⟨shape, el⟩ := a
  match shape, h3, h5, hd, htrim, hn with
  | [a, b, c], _, _, hd, _, hn => exact rt3 blank el a b c dim hd hn
  | [a, b, c, d], _, _, hd, ht, hn =>
    have hl : d ≠ 1 := by
      intro h; subst h; have := congrArg List.length ht; simp [trimShape] at this
    exact rt4 blank el a b c d dim hd hl hn
  | [a, b, c, d, e], _, _, hd, ht, hn =>
    have hl : e ≠ 1 := by
      intro h; subst h
      have := congrArg List.length ht
      by_cases hd1 : d = 1 <;> simp [trimShape, hd1] at this
    exact rt5 blank el a b c d e dim hd hl hn
  | [], h3, _, _, _, _ | [_], h3, _, _, _, _ | [_, _], h3, _, _, _, _ => simp at h3
  | _ :: _ :: _ :: _ :: _ :: _ :: _, _, h5, _, _, _ => simp at h5

/-! ### split, then merge: the affine -/

theorem sq_pos' (x : Int) (h : x ≠ 0) : 0 < x * x := by
  rcases Int.lt_or_gt_of_ne h with h | h
  · exact Int.mul_pos_of_neg_of_neg h h
  · exact Int.mul_pos h h

theorem sq_nonneg' (x : Int) : 0 ≤ x * x := by
  by_cases h : x = 0
  · simp [h]
  · exact Int.le_of_lt (sq_pos' x h)

theorem V3.dot_self_pos (u : V3) (h : u ≠ V3.zero) : 0 < V3.dot u u := by
  obtain ⟨x, y, z⟩ := u
  have hne : ¬ (x = 0 ∧ y = 0 ∧ z = 0) := by
    rintro ⟨rfl, rfl, rfl⟩; exact h rfl
  have hx := sq_nonneg' x; have hy := sq_nonneg' y; have hz := sq_nonneg' z
  simp only [V3.dot]
  by_cases h1 : x = 0
  · by_cases h2 : y = 0
    · have h3 : z ≠ 0 := fun h3 => hne ⟨h1, h2, h3⟩
      have := sq_pos' z h3; omega
    · have := sq_pos' y h2; omega
  · have := sq_pos' x h1; omega

theorem V3.sameDir_self (u : V3) (h : u ≠ V3.zero) : V3.sameDir u u = true := by
  have hc : V3.cross u u = V3.zero := by
    simp only [V3.cross, V3.zero, V3.mk.injEq]
    refine ⟨?_, ?_, ?_⟩ <;> grind
  simp [V3.sameDir, hc, V3.dot_self_pos u h]

theorem shift_col (A : Aff) (v : V3) (ax : Nat) : (A.shift v).col ax = A.col ax := by
  match ax with
  | 0 => rfl
  | 1 => rfl
  | _ + 2 => rfl

theorem setCol_col_self (A : Aff) (dim : Nat) (hd : dim < 3) : A.setCol dim (A.col dim) = A := by
  match dim, hd with
  | 0, _ => rfl
  | 1, _ => rfl
  | 2, _ => rfl

theorem mergeAccept_iff' (affs : List Aff) (first : Aff) (dim : Nat) (h0 : affs[0]? = some first) :
    mergeAccept affs dim = true ↔
      ∀ (i : Nat) (a : Aff), affs[i]? = some a →
        (∀ ax, ax < 3 → ax ≠ dim → a.col ax = first.col ax) ∧
        (dim < 3 → V3.sameDir (a.col dim) (first.col dim) = true ∧
          ∀ p, prevOf none affs i = some p →
            a.t.sub p ≠ V3.zero ∧ V3.sameDir (a.t.sub p) (a.col dim) = true) := by
  cases affs with
  | nil => simp at h0
  | cons f rest =>
    simp at h0; subst h0
    exact mergeAccept_iff f rest dim

/-- **the pieces of a split are accepted by the merge and give the parent's affine back**: any
    number of pieces; for a spatial axis the axis must not be degenerate (zero column) -/
theorem merge_split_affs (h : Hdr) (dim n : Nat) (hn : 0 < n)
    (hu : dim < 3 → h.best.col dim ≠ V3.zero) :
    mergeAccept (splitAffs h dim n) dim = true ∧ mergeAff (splitAffs h dim n) dim = some h.best := by
  have hget := fun i (hi : i < n) => splitAffs_get h dim n i hi
  have h0 : (splitAffs h dim n)[0]? = some h.best := by
    rw [hget 0 hn]
    by_cases hd : dim < 3 <;> simp [hd, V3.smul_zero', Aff.shift_zero]
  constructor
  · rw [mergeAccept_iff' _ _ dim h0]
    intro i a hi
    have hlt : i < n := by
      have := (List.getElem?_eq_some_iff.1 hi).1
      simpa [splitAffs_length] using this
    rw [hget i hlt] at hi
    by_cases hd : dim < 3
    · simp only [hd, if_true, Option.some.injEq] at hi
      subst hi
      refine ⟨fun ax _ _ => shift_col _ _ ax, fun _ => ⟨?_, ?_⟩⟩
      · rw [shift_col]; exact V3.sameDir_self _ (hu hd)
      · intro p hp
        cases i with
        | zero => simp [prevOf] at hp
        | succ j =>
          have hj : (splitAffs h dim n)[j]? =
              some (h.best.shift (V3.smul (j : Int) (h.best.col dim))) := by
            rw [hget j (by omega)]; simp [hd]
          simp only [prevOf, Nat.add_one_ne_zero, if_false, Nat.add_sub_cancel, hj, Option.map_some,
            Option.some.injEq] at hp
          subst hp
          have hdiff : ((h.best.shift (V3.smul ((j + 1 : Nat) : Int) (h.best.col dim))).t.sub
              (h.best.shift (V3.smul (j : Int) (h.best.col dim))).t) = h.best.col dim := by
            simp only [Aff.shift, V3.add, V3.sub, V3.smul, Int.natCast_add, Int.natCast_one]
            apply V3.ext' <;> simp only [] <;> grind
          rw [hdiff, shift_col]
          exact ⟨hu hd, V3.sameDir_self _ (hu hd)⟩
    · simp only [hd, if_false, Option.some.injEq] at hi
      subst hi
      exact ⟨fun _ _ _ => rfl, fun hd' => absurd hd' hd⟩
  · by_cases hn1 : n = 1
    · subst hn1
      have : splitAffs h dim 1 = [h.best] := by
        apply List.ext_getElem?
        intro i
        cases i with
        | zero => simpa using h0
        | succ j =>
          have : (splitAffs h dim 1).length = 1 := splitAffs_length h dim 1
          simp [List.getElem?_eq_none, this]
      simp [this, mergeAff]
    · have h1 := hget 1 (by omega)
      obtain ⟨f, s, rest, hl⟩ : ∃ f s rest, splitAffs h dim n = f :: s :: rest := by
        have hlen := splitAffs_length h dim n
        match hs : splitAffs h dim n with
        | [] => simp [hs] at hlen; omega
        | [_] => simp [hs] at hlen; omega
        | f :: s :: rest => exact ⟨f, s, rest, rfl⟩
      rw [hl] at h0 h1
      simp only [List.getElem?_cons_zero, Option.some.injEq] at h0
      simp only [List.getElem?_cons_succ, List.getElem?_cons_zero] at h1
      rw [hl]
      by_cases hd : dim < 3
      · simp only [hd, if_true, Option.some.injEq] at h1
        subst h0; subst h1
        simp only [mergeAff, hd, if_true, Option.some.injEq]
        have : (h.best.shift (V3.smul ((1 : Nat) : Int) (h.best.col dim))).t.sub h.best.t =
            h.best.col dim := by
          simp only [Aff.shift, V3.add, V3.sub, V3.smul]
          apply V3.ext' <;> simp only [] <;> grind
        rw [this]
        exact setCol_col_self h.best dim hd
      · subst h0
        simp [mergeAff, hd]

/-! ### the fill of `DicomStack.get_data` -/

/-- **every output voxel holds the pixel of the file `get_data` assigns to its slice / time /
    vector position** (5-D fill, before trimming) -/
theorem stackFill_el (files : List (Arr α)) (blank : α) (rows cols S T V : Nat)
    (i j s t v : Nat) (f : Arr α) (hf : files[v * (T * S) + t * S + s]? = some f) :
    (stackFill files blank rows cols S T V).el [i, j, s, t, v] = f.el [i, j, 0] := by
  simp [stackFill, hf]

/-- trimming unused time / vector axes keeps every voxel -/
theorem stackData_el (files : List (Arr α)) (blank : α) (rows cols S T V : Nat)
    (i j s t v : Nat) (f : Arr α) (hf : files[v * (T * S) + t * S + s]? = some f)
    (ht : t < T) (hv : v < V) :
    ((stackData files blank rows cols S T V).shape =
      if V = 1 then (if T = 1 then [rows, cols, S] else [rows, cols, S, T])
      else [rows, cols, S, T, V]) ∧
    (stackData files blank rows cols S T V).el
        (if V = 1 then (if T = 1 then [i, j, s] else [i, j, s, t]) else [i, j, s, t, v]) =
      f.el [i, j, 0] := by
  by_cases hV : V = 1
  · have hv0 : v = 0 := by omega
    by_cases hT : T = 1
    · have ht0 : t = 0 := by omega
      subst hV hT hv0 ht0
      simp [stackData, stackTrim, Arr.dropLast0, stackFill] at hf ⊢
      simp [hf]
    · subst hV hv0
      simp [stackData, stackTrim, Arr.dropLast0, stackFill, hT] at hf ⊢
      simp [hf]
  · simp [stackData, stackTrim, stackFill, hV, hf]

/-- **the stack affine sends slice index `s` to where file `s` of the first volume lies**: files
    of the first volume at positions `p0 + s·step`, all with the first file's in-plane axes -/
theorem stackAff_consistent (a b : Aff) (rest : List Aff) (S : Nat) (hS : 1 < S)
    (s : Nat) (f : Aff) (_hf : (a :: b :: rest)[s]? = some f)
    (hc0 : f.c0 = a.c0) (hc1 : f.c1 = a.c1)
    (ht : f.t = a.t.add (V3.smul (s : Int) (b.t.sub a.t))) (x y : Int) :
    ∃ R, stackAff (a :: b :: rest) S = some R ∧ R.apply x y (s : Int) = f.apply x y 0 := by
  refine ⟨a.setCol 2 (b.t.sub a.t), by simp [stackAff, hS], ?_⟩
  simp only [Aff.apply, Aff.setCol, ht, hc0, hc1, V3.add, V3.smul, V3.sub, V3.mk.injEq]
  refine ⟨?_, ?_, ?_⟩ <;> grind

end Wrap
