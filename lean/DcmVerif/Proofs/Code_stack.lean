import DcmVerif.Generated.Code_stack
import DcmVerif.Proofs.Stack
import DcmVerif.Model.Wrap
import DcmVerif.Proofs.CodeLemmas
/-! the count checks of `get_shape` and the thorough check of `_chk_order` as translated from dcmstack.py are the model's acceptance test. -/
set_option autoImplicit false
set_option linter.unusedSimpArgs false
set_option linter.unusedVariables false
open Cls

namespace Src
variable {α κ : Type}

/-! ### the count checks of `get_shape` -/
section shape_counts
open Stk

/-- the count conjuncts of the model's `acceptB` -/
def countsOk (n s v : Nat) (sp : Bool) : Bool :=
  decide (n ≠ 0) && (!(decide (s > 1)) || sp) && decide (n % s = 0) && decide (v ≤ n / s) &&
    decide (n / s % v = 0)

/-- **the count checks of `get_shape` as written in dcmstack.py are the count conjuncts of the model's
    acceptance test**, and the dimensions they derive are the model's `dimS`, `dimT`, `dimV` -/
theorem get_shape_counts_eq (n s v : Nat) (sp : Bool) :
    Py.get_shape_counts n s v sp =
      if countsOk n s v sp then .ok (s, n / s / v, v) else .error PyErr.invalidStack := by
  unfold Py.get_shape_counts countsOk
  by_cases h0 : n = 0
  · simp [h0, bind, Except.bind, throw, throwThe, MonadExceptOf.throw]
  · by_cases h1 : s > 1 <;> cases sp <;> by_cases h2 : n % s = 0 <;> by_cases h3 : v ≤ n / s <;>
      by_cases h4 : n / s % v = 0 <;>
      simp [h0, h1, h2, h3, h4, bind, Except.bind, throw, throwThe, MonadExceptOf.throw, pure, Except.pure] <;>
      omega

/-- the model's acceptance test is those count conjuncts and the two order checks of `_chk_order` -/
theorem acceptB_counts (spacingOk : List Int → Bool) (files : List F) :
    acceptB spacingOk files =
      (countsOk files.length (dimS files) (dimV files) (spacingOk (distinctSorted (files.map (·.p)))) &&
       (chunks (dimT files * dimS files) (dimV files)
          (chkSort (dimS files) (files.length / dimS files) files)).all allSameV &&
       (chunks (dimS files) (files.length / dimS files)
          (chkSort (dimS files) (files.length / dimS files) files)).all
        (fun b => b.map (·.p) == distinctSorted (files.map (·.p)))) := by
  simp [acceptB, countsOk, Bool.and_assoc]

end shape_counts

/-! ### the thorough check of `_chk_order` -/

/-- a `for` loop whose body either raises `e0` (exactly when `P x` fails) or goes on with some new
    state: the loop raises `e0` iff some element fails `P`, and otherwise ends in some state -/
theorem forIn_guard {β σ : Type} (e0 : PyErr) (P : β → Bool)
    (f : β → σ → Except PyErr (ForInStep σ))
    (hf : ∀ x s, (P x = true ∧ ∃ s', f x s = .ok (ForInStep.yield s')) ∨ (P x = false ∧ f x s = .error e0)) :
    ∀ (l : List β) (s : σ),
      (l.all P = true ∧ ∃ s', forIn l s f = .ok s') ∨ (l.all P = false ∧ forIn l s f = .error e0)
  | [], s => Or.inl ⟨rfl, s, rfl⟩
  | x :: xs, s => by
    rw [List.forIn_cons]
    rcases hf x s with ⟨hp, s', hs⟩ | ⟨hp, hs⟩
    · rw [hs]
      rcases forIn_guard e0 P f hf xs s' with ⟨ha, s'', h⟩ | ⟨ha, h⟩
      · exact Or.inl ⟨by simp [hp, ha], s'', by simpa [bind, Except.bind] using h⟩
      · exact Or.inr ⟨by simp [hp, ha], by simpa [bind, Except.bind] using h⟩
    · rw [hs]
      exact Or.inr ⟨by simp [hp], rfl⟩

/-- the condition the triple loop of `_chk_order` tests at (vector `v`, time `t`, slice `s`) -/
def cellOk (files : List (Int × Int × Int)) (pos : List Int) (S T : Nat) (v t s : Nat) : Bool :=
  (files[v * T * S + t * S + s]!).1 == (files[v * T * S]!).1 &&
  (files[v * T * S + t * S + s]!).2.2 == pos[s]!

/-- **the thorough check of `_chk_order` as written in dcmstack.py passes iff every cell of the grid
    holds the right file**: at (vector `v`, time `t`, slice `s`) of the sorted list the vector ordinate is
    that of the block's first file and the slice position is the `s`-th distinct position; otherwise
    it raises InvalidStackError — for every S, T, V -/
theorem chk_order_check_eq (files : List (Int × Int × Int)) (pos : List Int) (S T V : Nat) :
    Py.chk_order_check files pos S T V =
      if (List.range V).all (fun v => (List.range T).all fun t => (List.range S).all fun s =>
          cellOk files pos S T v t s)
      then .ok () else .error PyErr.invalidStack := by
  unfold Py.chk_order_check
  rw [forIn_guard_unit PyErr.invalidStack
    (fun v => (List.range T).all fun t => (List.range S).all fun s => cellOk files pos S T v t s) _ _ ?outer]
  case outer =>
    intro v _ u
    try dsimp only
    rw [forIn_guard_unit PyErr.invalidStack (fun t => (List.range S).all fun s => cellOk files pos S T v t s) _ _ ?middle]
    case middle =>
      intro t _ u'
      try dsimp only
      rw [forIn_guard_unit PyErr.invalidStack (fun s => cellOk files pos S T v t s) _ _ ?inner]
      case inner =>
        intro s _ u''
        try dsimp only
        simp only [cellOk]
        simp [bind, Except.bind, pure, Except.pure, throw, throwThe, MonadExceptOf.throw]
        split <;> split <;> simp_all
      cases (List.range S).all fun s => cellOk files pos S T v t s <;> simp [bind, Except.bind, pure, Except.pure]
    cases (List.range T).all fun t => (List.range S).all fun s => cellOk files pos S T v t s <;>
      simp [bind, Except.bind, pure, Except.pure]
  cases (List.range V).all (fun v => (List.range T).all fun t => (List.range S).all fun s => cellOk files pos S T v t s) <;>
    simp [bind, Except.bind, pure, Except.pure]

/-! ### the cell-wise check is the block-wise acceptance test of the model -/
section cells
open Stk

theorem chunks_all (n : Nat) (Q : List α → Bool) : ∀ (k : Nat) (l : List α),
    (chunks n k l).all Q = (List.range k).all fun b => Q ((l.drop (b * n)).take n)
  | 0, l => by simp [chunks]
  | k + 1, l => by
    rw [List.range_succ_eq_map]
    simp only [chunks, List.all_cons, List.all_map, chunks_all n Q k (l.drop n)]
    congr 1
    · simp
    · congr 1
      funext b
      simp only [Function.comp, List.drop_drop]
      congr 3
      rw [Nat.succ_mul]; omega

/-- a Boolean `all` over a range as a bounded quantifier -/
theorem range_all_iff (k : Nat) (P : Nat → Bool) :
    (List.range k).all P = true ↔ ∀ i, i < k → P i = true := by
  simp [List.all_eq_true, List.mem_range]

theorem take_drop_getElem? (l : List α) (a n j : Nat) (hj : j < n) :
    ((l.drop a).take n)[j]? = l[a + j]? := by
  simp [List.getElem?_take, hj, List.getElem?_drop]

/-- all elements of a block carry the vector value of its first element -/
theorem allSameV_iff (b : List F) :
    allSameV b = true ↔ ∀ j, j < b.length → (b[j]?.map (·.v)) = (b[0]?.map (·.v)) := by
  cases b with
  | nil => simp [allSameV]
  | cons x xs =>
    simp only [allSameV, List.all_eq_true, beq_iff_eq, List.length_cons]
    constructor
    · intro h j hj
      cases j with
      | zero => rfl
      | succ j' =>
        have hj' : j' < xs.length := by omega
        simp [List.getElem?_eq_getElem hj', h xs[j'] (List.getElem_mem hj')]
    · intro h y hy
      obtain ⟨i, hi, rfl⟩ := List.getElem_of_mem hy
      have := h (i + 1) (by omega)
      simpa [List.getElem?_eq_getElem hi] using this

theorem idx_lt (a b n m : Nat) (ha : a < n) (hb : b < m) : a * m + b < n * m := by
  have h1 : a * m + b < (a + 1) * m := by rw [Nat.succ_mul]; omega
  exact Nat.lt_of_lt_of_le h1 (Nat.mul_le_mul_right m ha)

theorem cellOk_iff (sorted : List F) (pos : List Int) (S T V v t s : Nat)
    (hlen : sorted.length = S * T * V) (hpos : pos.length = S) (hv : v < V) (ht : t < T) (hs : s < S) :
    cellOk (sorted.map key) pos S T v t s = true ↔
      (sorted[v * T * S + t * S + s]?.map (·.v)) = (sorted[v * T * S]?.map (·.v)) ∧
      (sorted[v * T * S + t * S + s]?.map (·.p)) = pos[s]? := by
  have hb : v * T + t < V * T := idx_lt v t V T hv ht
  have hi : v * T * S + t * S + s < sorted.length := by
    have := idx_lt (v * T + t) s (V * T) S hb hs
    rw [hlen]
    calc v * T * S + t * S + s = (v * T + t) * S + s := by rw [Nat.add_mul]
      _ < V * T * S := this
      _ = S * T * V := by rw [Nat.mul_comm V T, Nat.mul_comm (T * V) S, Nat.mul_assoc]
  have h0 : v * T * S < sorted.length := by
    have : v * T * S ≤ v * T * S + t * S + s := by omega
    omega
  have hs' : s < pos.length := by omega
  simp [cellOk, key, hi, h0, hs', List.getElem?_eq_getElem]

theorem blockA_iff (sorted : List F) (S T V : Nat) (hlen : sorted.length = S * T * V) :
    (chunks (T * S) V sorted).all allSameV = true ↔
      ∀ v, v < V → ∀ j, j < T * S →
        (sorted[v * (T * S) + j]?.map (·.v)) = (sorted[v * (T * S)]?.map (·.v)) := by
  rw [chunks_all, range_all_iff]
  constructor
  · intro h v hv j hj
    have hblk := (allSameV_iff _).1 (h v hv)
    have hl : ((sorted.drop (v * (T * S))).take (T * S)).length = T * S := by
      rw [List.length_take, List.length_drop, hlen]
      have : (v + 1) * (T * S) ≤ V * (T * S) := Nat.mul_le_mul_right _ hv
      have e : S * T * V = V * (T * S) := by rw [Nat.mul_comm S T, Nat.mul_comm]
      rw [e]; rw [Nat.succ_mul] at this; omega
    have := hblk j (by omega)
    rw [take_drop_getElem? _ _ _ _ hj, take_drop_getElem? _ _ _ _ (by omega : 0 < T * S)] at this
    simpa using this
  · intro h v hv
    rw [allSameV_iff]
    intro j hj
    have hjl : j < T * S := by
      have := List.length_take_le (T * S) (sorted.drop (v * (T * S)))
      omega
    rw [take_drop_getElem? _ _ _ _ hjl, take_drop_getElem? _ _ _ _ (by omega : 0 < T * S)]
    simpa using h v hv j hjl

theorem blockB_iff (sorted : List F) (pos : List Int) (S T V : Nat) (hlen : sorted.length = S * T * V)
    (hpos : pos.length = S) :
    (chunks S (T * V) sorted).all (fun b => b.map (·.p) == pos) = true ↔
      ∀ b, b < T * V → ∀ s, s < S → (sorted[b * S + s]?.map (·.p)) = pos[s]? := by
  rw [chunks_all, range_all_iff]
  have hl : ∀ b, b < T * V → ((sorted.drop (b * S)).take S).length = S := by
    intro b hb
    rw [List.length_take, List.length_drop, hlen]
    have : (b + 1) * S ≤ (T * V) * S := Nat.mul_le_mul_right _ hb
    have e : S * T * V = (T * V) * S := by rw [Nat.mul_assoc, Nat.mul_comm]
    rw [e]; rw [Nat.succ_mul] at this; omega
  constructor
  · intro h b hb s hs
    have := h b hb
    simp only [beq_iff_eq] at this
    have h2 := congrArg (fun l => l[s]?) this
    simp only [List.getElem?_map] at h2
    rw [take_drop_getElem? _ _ _ _ hs] at h2
    exact h2
  · intro h b hb
    simp only [beq_iff_eq]
    apply List.ext_getElem?
    intro s
    by_cases hs : s < S
    · rw [List.getElem?_map, take_drop_getElem? _ _ _ _ hs]
      exact h b hb s hs
    · have h1 : (((sorted.drop (b * S)).take S).map (·.p)).length = S := by
        rw [List.length_map]; exact hl b hb
      rw [List.getElem?_eq_none (by omega), List.getElem?_eq_none (by omega)]

/-- **the cell-wise condition of the translated `_chk_order` loop is the two order conjuncts of the
    model's acceptance test** (block-wise: every vector block constant, every volume lists the sorted
    distinct positions), for a sorted list of S·T·V files -/
theorem cells_eq_chunks (sorted : List F) (pos : List Int) (S T V : Nat)
    (hlen : sorted.length = S * T * V) (hpos : pos.length = S) :
    ((List.range V).all fun v => (List.range T).all fun t => (List.range S).all fun s =>
        cellOk (sorted.map key) pos S T v t s) =
      ((chunks (T * S) V sorted).all allSameV &&
       (chunks S (T * V) sorted).all (fun b => b.map (·.p) == pos)) := by
  rw [Bool.eq_iff_iff, Bool.and_eq_true, blockA_iff sorted S T V hlen, blockB_iff sorted pos S T V hlen hpos,
    range_all_iff]
  constructor
  · intro h
    have hc : ∀ v t s, v < V → t < T → s < S →
        (sorted[v * T * S + t * S + s]?.map (·.v)) = (sorted[v * T * S]?.map (·.v)) ∧
        (sorted[v * T * S + t * S + s]?.map (·.p)) = pos[s]? := by
      intro v t s hv ht hs
      have h1 := (range_all_iff _ _).1 ((range_all_iff _ _).1 (h v hv) t ht) s hs
      exact (cellOk_iff sorted pos S T V v t s hlen hpos hv ht hs).1 h1
    constructor
    · intro v hv j hj
      have hS : 0 < S := by
        rcases Nat.eq_zero_or_pos S with h0 | h0
        · subst h0; simp at hj
        · exact h0
      have ht : j / S < T := (Nat.div_lt_iff_lt_mul hS).2 hj
      have hs : j % S < S := Nat.mod_lt _ hS
      have hj' : j = j / S * S + j % S := by rw [Nat.mul_comm]; exact (Nat.div_add_mod j S).symm
      have := (hc v (j / S) (j % S) hv ht hs).1
      have e : v * (T * S) + j = v * T * S + j / S * S + j % S := by
        rw [Nat.mul_assoc, Nat.add_assoc, ← hj']
      rw [e, Nat.mul_assoc] at *
      rw [← Nat.mul_assoc]
      simpa [Nat.mul_assoc] using this
    · intro b hb s hs
      have hT : 0 < T := by
        rcases Nat.eq_zero_or_pos T with h0 | h0
        · subst h0; simp at hb
        · exact h0
      have hv : b / T < V := (Nat.div_lt_iff_lt_mul hT).2 (by rwa [Nat.mul_comm] at hb)
      have ht : b % T < T := Nat.mod_lt _ hT
      have hb' : b = b / T * T + b % T := by rw [Nat.mul_comm]; exact (Nat.div_add_mod b T).symm
      have := (hc (b / T) (b % T) s hv ht hs).2
      have e : b * S + s = b / T * T * S + b % T * S + s := by
        conv => lhs; rw [hb']
        rw [Nat.add_mul]
      rw [e]
      exact this
  · intro ⟨hA, hB⟩ v hv
    rw [range_all_iff]
    intro t ht
    rw [range_all_iff]
    intro s hs
    rw [cellOk_iff sorted pos S T V v t s hlen hpos hv ht hs]
    constructor
    · have := hA v hv (t * S + s) (idx_lt t s T S ht hs)
      have e : v * (T * S) + (t * S + s) = v * T * S + t * S + s := by
        rw [Nat.mul_assoc, Nat.add_assoc]
      rw [e, ← Nat.mul_assoc] at this
      exact this
    · have hb : v * T + t < T * V := by
        have := idx_lt v t V T hv ht
        rwa [Nat.mul_comm V T] at this
      have := hB (v * T + t) hb s hs
      rwa [Nat.add_mul] at this

/-- **the model's acceptance test is what the translated Python does**: `get_shape`'s count checks
    followed by `_chk_order`'s thorough check on the list the two sorts produce succeed exactly when
    the model's `acceptB` holds, with the model's dimensions — for every list of files -/
theorem source_accepts_iff (spacingOk : List Int → Bool) (files : List F) :
    acceptB spacingOk files = true ↔
      Py.get_shape_counts files.length (dimS files) (dimV files)
          (spacingOk (distinctSorted (files.map (·.p)))) = .ok (dimS files, dimT files, dimV files) ∧
      Py.chk_order_check ((chkSort (dimS files) (files.length / dimS files) files).map key)
          (distinctSorted (files.map (·.p))) (dimS files) (dimT files) (dimV files) = .ok () := by
  rw [acceptB_counts, get_shape_counts_eq, chk_order_check_eq]
  by_cases hc : countsOk files.length (dimS files) (dimV files) (spacingOk (distinctSorted (files.map (·.p)))) = true
  · -- the counts give the length of the list
    have hc' := hc
    simp only [countsOk, Bool.and_eq_true, decide_eq_true_eq] at hc'
    obtain ⟨⟨⟨⟨hn0, _⟩, h1⟩, _⟩, h2⟩ := hc'
    have hV : 0 < dimV files := by
      rcases Nat.eq_zero_or_pos (dimV files) with h0 | h0
      · rw [h0, Nat.mod_zero] at h2
        have e1 : files.length = dimS files * (files.length / dimS files) :=
          (Nat.mul_div_cancel' (Nat.dvd_of_mod_eq_zero h1)).symm
        rw [h2, Nat.mul_zero] at e1
        exact absurd e1 hn0
      · exact h0
    have hn : files.length = dimS files * dimT files * dimV files := by
      have e1 : files.length = dimS files * (files.length / dimS files) := (Nat.mul_div_cancel' (Nat.dvd_of_mod_eq_zero h1)).symm
      have e2 : files.length / dimS files = dimV files * dimT files := by
        unfold dimT; exact (Nat.mul_div_cancel' (Nat.dvd_of_mod_eq_zero h2)).symm
      rw [Nat.mul_assoc, Nat.mul_comm (dimT files)]
      rw [← e2]; exact e1
    have hvols : files.length / dimS files = dimT files * dimV files := by
      have e2 : files.length / dimS files = dimV files * dimT files := by
        unfold dimT; exact (Nat.mul_div_cancel' (Nat.dvd_of_mod_eq_zero h2)).symm
      rw [e2, Nat.mul_comm]
    have hlen : (chkSort (dimS files) (files.length / dimS files) files).length =
        dimS files * dimT files * dimV files := by
      have hp := chkSort_perm (dimS files) (files.length / dimS files) files
        (by rw [hvols, ← Nat.mul_assoc]; exact hn)
      rw [hp.length_eq]; exact hn
    have hcells := cells_eq_chunks (chkSort (dimS files) (files.length / dimS files) files)
      (distinctSorted (files.map (·.p))) (dimS files) (dimT files) (dimV files) hlen rfl
    rw [hcells, hc, hvols]
    simp only [Bool.true_and, if_true, true_and]
    cases hb : ((chunks (dimT files * dimS files) (dimV files)
        (chkSort (dimS files) (dimT files * dimV files) files)).all allSameV &&
      (chunks (dimS files) (dimT files * dimV files)
        (chkSort (dimS files) (dimT files * dimV files) files)).all
        fun b => b.map (·.p) == distinctSorted (files.map (·.p))) with
    | false => simp [hb]
    | true => simp [hb]; exact Nat.mul_div_cancel _ hV
  · have hc0 : countsOk files.length (dimS files) (dimV files) (spacingOk (distinctSorted (files.map (·.p)))) = false := by
      simpa using hc
    simp [hc0]

end cells

end Src
