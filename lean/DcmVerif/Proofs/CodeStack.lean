import DcmVerif.Generated.Code
import DcmVerif.Model.Stack
import DcmVerif.Model.Wrap
/-! The functions `tools/gen_code.py` translates from the Python source (`Generated/Code.lean`,
namespace `Py`) are equal to the hand-written model functions the property theorems are about.
These proofs are re-checked against what the source says on every run: an edit of
`get_valid_classes`, `get_multiplicity`, the index block of `get_meta` or the `file_idx` expressions
of `get_data` changes the generated definitions and the equalities below must still hold. -/
set_option autoImplicit false
set_option linter.unusedSimpArgs false
set_option linter.unusedVariables false
open Cls

namespace Src
variable {α κ : Type}

/-! ### `file_idx` of `get_data` -/

/-- **the file index `get_data` computes is the model's `fileIdx`** -/
theorem file_idx_eq (rows cols S T V v t s : Nat) :
    Py.file_idx_slice [rows, cols, S, T, V] v t s = Stk.fileIdx S T s t v := by
  simp [Py.file_idx_slice, Stk.fileIdx, Nat.mul_comm]

/-- one file per volume: the index is the volume number -/
theorem file_idx_volume_eq (rows cols S T V v t : Nat) :
    Py.file_idx_volume [rows, cols, S, T, V] v t = v * T + t := by
  simp [Py.file_idx_volume]

/-! ### the count checks of `get_shape` -/
section shape_counts
open Stk

/-- the count conjuncts of the model's `acceptB` -/
def countsOk (n s v : Nat) (sp : Bool) : Bool :=
  decide (n ≠ 0) && (!(decide (s > 1)) || sp) && decide (n % s = 0) && decide (v ≤ n / s) &&
    decide (n / s % v = 0)

/-- **the count checks of `get_shape` as written in dcmstack.py are the count conjuncts of the model's
    acceptance test**, and the dimensions they derive are the model's `dimS`, `dimT`, `dimV` -/
theorem get_shape_counts_eq (n s v : Nat) (sp : Bool) :
    Py.get_shape_counts n s v sp =
      if countsOk n s v sp then .ok (s, n / s / v, v) else .error PyErr.invalidStack := by
  unfold Py.get_shape_counts countsOk
  by_cases h0 : n = 0
  · simp [h0, bind, Except.bind, throw, throwThe, MonadExceptOf.throw]
  · by_cases h1 : s > 1 <;> cases sp <;> by_cases h2 : n % s = 0 <;> by_cases h3 : v ≤ n / s <;>
      by_cases h4 : n / s % v = 0 <;>
      simp [h0, h1, h2, h3, h4, bind, Except.bind, throw, throwThe, MonadExceptOf.throw, pure, Except.pure] <;>
      omega

/-- the model's acceptance test is those count conjuncts and the two order checks of `_chk_order` -/
theorem acceptB_counts (spacingOk : List Int → Bool) (files : List F) :
    acceptB spacingOk files =
      (countsOk files.length (dimS files) (dimV files) (spacingOk (distinctSorted (files.map (·.p)))) &&
       (chunks (dimT files * dimS files) (dimV files)
          (chkSort (dimS files) (files.length / dimS files) files)).all allSameV &&
       (chunks (dimS files) (files.length / dimS files)
          (chkSort (dimS files) (files.length / dimS files) files)).all
        (fun b => b.map (·.p) == distinctSorted (files.map (·.p)))) := by
  simp [acceptB, countsOk, Bool.and_assoc]

end shape_counts

/-! ### trimming of unused axes in `get_data` -/

/-- **the trimming block of `get_data` as written in dcmstack.py is the model's `stackTrim`** -/
theorem get_data_trim_eq (a : Wrap.Arr α) (rows cols S T V : Nat) :
    Py.get_data_trim a [rows, cols, S, T, V] = .ok (Wrap.stackTrim a T V) := by
  by_cases hV : V = 1 <;> by_cases hT : T = 1 <;>
    simp [Py.get_data_trim, Wrap.stackTrim, hV, hT, pure, Except.pure]

/-! ### the thorough check of `_chk_order` -/

/-- a `for` loop whose body either raises `e0` (exactly when `P x` fails) or goes on with some new
    state: the loop raises `e0` iff some element fails `P`, and otherwise ends in some state -/
theorem forIn_guard {β σ : Type} (e0 : PyErr) (P : β → Bool)
    (f : β → σ → Except PyErr (ForInStep σ))
    (hf : ∀ x s, (P x = true ∧ ∃ s', f x s = .ok (ForInStep.yield s')) ∨ (P x = false ∧ f x s = .error e0)) :
    ∀ (l : List β) (s : σ),
      (l.all P = true ∧ ∃ s', forIn l s f = .ok s') ∨ (l.all P = false ∧ forIn l s f = .error e0)
  | [], s => Or.inl ⟨rfl, s, rfl⟩
  | x :: xs, s => by
    rw [List.forIn_cons]
    rcases hf x s with ⟨hp, s', hs⟩ | ⟨hp, hs⟩
    · rw [hs]
      rcases forIn_guard e0 P f hf xs s' with ⟨ha, s'', h⟩ | ⟨ha, h⟩
      · exact Or.inl ⟨by simp [hp, ha], s'', by simpa [bind, Except.bind] using h⟩
      · exact Or.inr ⟨by simp [hp, ha], by simpa [bind, Except.bind] using h⟩
    · rw [hs]
      exact Or.inr ⟨by simp [hp], rfl⟩

/-- the condition the triple loop of `_chk_order` tests at (vector `v`, time `t`, slice `s`) -/
def cellOk (files : List (Int × Int × Int)) (pos : List Int) (S T : Nat) (v t s : Nat) : Bool :=
  (files[v * T * S + t * S + s]!).1 == (files[v * T * S]!).1 &&
  (files[v * T * S + t * S + s]!).2.2 == pos[s]!

/-- **the thorough check of `_chk_order` as written in dcmstack.py passes iff every cell of the grid
    holds the right file**: at (vector `v`, time `t`, slice `s`) of the sorted list the vector ordinate is
    that of the block's first file and the slice position is the `s`-th distinct position; otherwise
    it raises InvalidStackError — for every S, T, V -/
theorem chk_order_check_eq (files : List (Int × Int × Int)) (pos : List Int) (S T V : Nat) :
    Py.chk_order_check files pos S T V =
      if (List.range V).all (fun v => (List.range T).all fun t => (List.range S).all fun s =>
          cellOk files pos S T v t s)
      then .ok () else .error PyErr.invalidStack := by
  unfold Py.chk_order_check
  have inner : ∀ v t (st : Nat),
      ((List.range S).all (fun s => cellOk files pos S T v t s) = true ∧ ∃ s', _ = Except.ok s') ∨
      ((List.range S).all (fun s => cellOk files pos S T v t s) = false ∧ _ = Except.error PyErr.invalidStack) :=
    fun v t st => forIn_guard PyErr.invalidStack (fun s => cellOk files pos S T v t s)
      (fun (slice_idx __s : Nat) =>
        have file_idx := v * T * S + t * S + slice_idx;
        have file_info := files[file_idx]!;
        have __do_jp := fun (__r : Unit) =>
          if (file_info.snd.snd != pos[slice_idx]!) = true then do
            throw PyErr.invalidStack
            pure (ForInStep.yield file_idx)
          else pure (ForInStep.yield file_idx);
        if (file_info.fst != files[v * T * S]!.fst) = true then do
          let __r ← throw PyErr.invalidStack
          __do_jp __r
        else __do_jp ())
      (by
        intro s st'
        simp only [cellOk]
        generalize files[v * T * S + t * S + s]! = fi
        generalize files[v * T * S]! = f0
        generalize pos[s]! = ps
        by_cases h1 : fi.1 = f0.1 <;> by_cases h2 : fi.2.2 = ps <;>
          simp [h1, h2, bind, Except.bind, throw, throwThe, MonadExceptOf.throw, pure, Except.pure])
      (List.range S) st
  have middle : ∀ v (st : Nat),
      ((List.range T).all (fun t => (List.range S).all fun s => cellOk files pos S T v t s) = true ∧
        ∃ s', _ = Except.ok s') ∨
      ((List.range T).all (fun t => (List.range S).all fun s => cellOk files pos S T v t s) = false ∧
        _ = Except.error PyErr.invalidStack) :=
    fun v st => forIn_guard PyErr.invalidStack
      (fun t => (List.range S).all fun s => cellOk files pos S T v t s)
      (fun (time_idx __s : Nat) =>
        have file_idx := __s;
        do
        let __s ←
          forIn (List.range S) file_idx fun (slice_idx __s : Nat) =>
              have file_idx := v * T * S + time_idx * S + slice_idx;
              have file_info := files[file_idx]!;
              have __do_jp := fun (__r : Unit) =>
                if (file_info.snd.snd != pos[slice_idx]!) = true then do
                  throw PyErr.invalidStack
                  pure (ForInStep.yield file_idx)
                else pure (ForInStep.yield file_idx);
              if (file_info.fst != files[v * T * S]!.fst) = true then do
                let __r ← throw PyErr.invalidStack
                __do_jp __r
              else __do_jp ()
        have file_idx : Nat := __s
        pure (ForInStep.yield file_idx))
      (by
        intro t st'
        rcases inner v t st' with ⟨ha, s', h⟩ | ⟨ha, h⟩
        · exact Or.inl ⟨ha, s', by simp only [h]; rfl⟩
        · exact Or.inr ⟨ha, by simp only [h]; rfl⟩)
      (List.range T) st
  have outer := forIn_guard PyErr.invalidStack
      (fun v => (List.range T).all fun t => (List.range S).all fun s => cellOk files pos S T v t s)
      (fun (vec_idx : Nat) (__s : PUnit) =>
        have file_idx := vec_idx * T * S;
        have curr_vec_val := files[file_idx]!.fst;
        do
        let _ ←
          forIn (List.range T) file_idx fun (time_idx __s : Nat) =>
              have file_idx := __s;
              do
              let __s ←
                forIn (List.range S) file_idx fun (slice_idx __s : Nat) =>
                    have file_idx := vec_idx * T * S + time_idx * S + slice_idx;
                    have file_info := files[file_idx]!;
                    have __do_jp := fun (__r : Unit) =>
                      if (file_info.snd.snd != pos[slice_idx]!) = true then do
                        throw PyErr.invalidStack
                        pure (ForInStep.yield file_idx)
                      else pure (ForInStep.yield file_idx);
                    if (file_info.fst != curr_vec_val) = true then do
                      let __r ← throw PyErr.invalidStack
                      __do_jp __r
                    else __do_jp ()
              have file_idx : Nat := __s
              pure (ForInStep.yield file_idx)
        pure (ForInStep.yield PUnit.unit))
      (by
        intro v u
        rcases middle v (v * T * S) with ⟨ha, s', h⟩ | ⟨ha, h⟩
        · exact Or.inl ⟨ha, PUnit.unit, by simp only [h]; rfl⟩
        · exact Or.inr ⟨ha, by simp only [h]; rfl⟩)
      (List.range V) PUnit.unit
  rcases outer with ⟨ha, s', h⟩ | ⟨ha, h⟩
  · rw [if_pos ha]
    simp only [h]
    rfl
  · rw [if_neg (by simp [ha])]
    simp only [h]
    rfl

end Src
