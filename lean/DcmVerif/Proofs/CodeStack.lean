import DcmVerif.Generated.Code
import DcmVerif.Model.Stack
import DcmVerif.Model.Wrap
/-! The functions `tools/gen_code.py` translates from the Python source (`Generated/Code.lean`,
namespace `Py`) are equal to the hand-written model functions the property theorems are about.
These proofs are re-checked against what the source says on every run: an edit of
`get_valid_classes`, `get_multiplicity`, the index block of `get_meta` or the `file_idx` expressions
of `get_data` changes the generated definitions and the equalities below must still hold. -/
set_option autoImplicit false
set_option linter.unusedSimpArgs false
set_option linter.unusedVariables false
open Cls

namespace Src
variable {α κ : Type}

/-! ### `file_idx` of `get_data` -/

/-- **the file index `get_data` computes is the model's `fileIdx`** -/
theorem file_idx_eq (rows cols S T V v t s : Nat) :
    Py.file_idx_slice [rows, cols, S, T, V] v t s = Stk.fileIdx S T s t v := by
  simp [Py.file_idx_slice, Stk.fileIdx, Nat.mul_comm]

/-- one file per volume: the index is the volume number -/
theorem file_idx_volume_eq (rows cols S T V v t : Nat) :
    Py.file_idx_volume [rows, cols, S, T, V] v t = v * T + t := by
  simp [Py.file_idx_volume]

/-! ### the count checks of `get_shape` -/
section shape_counts
open Stk

/-- the count conjuncts of the model's `acceptB` -/
def countsOk (n s v : Nat) (sp : Bool) : Bool :=
  decide (n ≠ 0) && (!(decide (s > 1)) || sp) && decide (n % s = 0) && decide (v ≤ n / s) &&
    decide (n / s % v = 0)

/-- **the count checks of `get_shape` as written in dcmstack.py are the count conjuncts of the model's
    acceptance test**, and the dimensions they derive are the model's `dimS`, `dimT`, `dimV` -/
theorem get_shape_counts_eq (n s v : Nat) (sp : Bool) :
    Py.get_shape_counts n s v sp =
      if countsOk n s v sp then .ok (s, n / s / v, v) else .error PyErr.invalidStack := by
  unfold Py.get_shape_counts countsOk
  by_cases h0 : n = 0
  · simp [h0, bind, Except.bind, throw, throwThe, MonadExceptOf.throw]
  · by_cases h1 : s > 1 <;> cases sp <;> by_cases h2 : n % s = 0 <;> by_cases h3 : v ≤ n / s <;>
      by_cases h4 : n / s % v = 0 <;>
      simp [h0, h1, h2, h3, h4, bind, Except.bind, throw, throwThe, MonadExceptOf.throw, pure, Except.pure] <;>
      omega

/-- the model's acceptance test is those count conjuncts and the two order checks of `_chk_order` -/
theorem acceptB_counts (spacingOk : List Int → Bool) (files : List F) :
    acceptB spacingOk files =
      (countsOk files.length (dimS files) (dimV files) (spacingOk (distinctSorted (files.map (·.p)))) &&
       (chunks (dimT files * dimS files) (dimV files)
          (chkSort (dimS files) (files.length / dimS files) files)).all allSameV &&
       (chunks (dimS files) (files.length / dimS files)
          (chkSort (dimS files) (files.length / dimS files) files)).all
        (fun b => b.map (·.p) == distinctSorted (files.map (·.p)))) := by
  simp [acceptB, countsOk, Bool.and_assoc]

end shape_counts

/-! ### trimming of unused axes in `get_data` -/

/-- **the trimming block of `get_data` as written in dcmstack.py is the model's `stackTrim`** -/
theorem get_data_trim_eq (a : Wrap.Arr α) (rows cols S T V : Nat) :
    Py.get_data_trim a [rows, cols, S, T, V] = .ok (Wrap.stackTrim a T V) := by
  by_cases hV : V = 1 <;> by_cases hT : T = 1 <;>
    simp [Py.get_data_trim, Wrap.stackTrim, hV, hT, pure, Except.pure]

end Src
