import DcmVerif.Proofs.Time
import DcmVerif.Proofs.PhoenixRT
/-! C20: the TM conversion for strings of any length (`hhmmss[.f…]`), not only by instances. -/
set_option autoImplicit false

namespace Tm
open Phx

theorem span_loop_eq {β : Type} (p : β → Bool) (l acc : List β) :
    List.span.loop p l acc = (acc.reverse ++ l.takeWhile p, l.dropWhile p) := by
  induction l generalizing acc with
  | nil => simp [List.span.loop]
  | cons a as ih =>
    by_cases ha : p a = true
    · simp [List.span.loop, ha, ih]
    · simp [List.span.loop, ha]

theorem span_eq {β : Type} (p : β → Bool) (l : List β) : l.span p = (l.takeWhile p, l.dropWhile p) := by
  unfold List.span
  rw [span_loop_eq]; simp

theorem takeWhile_all {β : Type} (p : β → Bool) (l : List β) (h : ∀ x ∈ l, p x = true) :
    l.takeWhile p = l ∧ l.dropWhile p = [] := by
  induction l with
  | nil => simp
  | cons a as ih =>
    have ha := h a (by simp)
    obtain ⟨h1, h2⟩ := ih (fun x hx => h x (by simp [hx]))
    simp [ha, h1, h2]

theorem takeWhile_stop {β : Type} (p : β → Bool) (l : List β) (b : β) (r : List β)
    (h : ∀ x ∈ l, p x = true) (hb : p b = false) :
    (l ++ b :: r).takeWhile p = l ∧ (l ++ b :: r).dropWhile p = b :: r := by
  induction l with
  | nil => simp [hb]
  | cons a as ih =>
    have ha := h a (by simp)
    obtain ⟨h1, h2⟩ := ih (fun x hx => h x (by simp [hx]))
    simp [ha, h1, h2]

theorem span_none {β : Type} (p : β → Bool) (l : List β) (h : ∀ x ∈ l, p x = true) :
    l.span p = (l, []) := by
  rw [span_eq]; obtain ⟨h1, h2⟩ := takeWhile_all p l h; rw [h1, h2]

theorem span_append_stop {β : Type} (p : β → Bool) (l : List β) (b : β) (r : List β)
    (h : ∀ x ∈ l, p x = true) (hb : p b = false) : (l ++ b :: r).span p = (l, b :: r) := by
  rw [span_eq]; obtain ⟨h1, h2⟩ := takeWhile_stop p l b r h hb; rw [h1, h2]

theorem splitAt_none (p : Char → Bool) (s : Str) (h : ∀ c ∈ s, p c = false) :
    splitAt p s = (s, none) := by
  unfold splitAt
  rw [span_none _ s (fun x hx => by simp [h x hx])]

theorem splitAt_at (p : Char → Bool) (s : Str) (b : Char) (r : Str)
    (h : ∀ c ∈ s, p c = false) (hb : p b = true) : splitAt p (s ++ b :: r) = (s, some r) := by
  unfold splitAt
  rw [span_append_stop _ s b r (fun x hx => by simp [h x hx]) (by simp [hb])]

/-- value of a digit string -/
def digitsVal (acc : Nat) (s : Str) : Nat := s.foldl (fun a c => a * 10 + digitVal c) acc

theorem digitsNat_digits (s : Str) (acc : Nat) (h : ∀ c ∈ s, isDigit c = true) :
    digitsNat acc s = some (digitsVal acc s) := by
  induction s generalizing acc with
  | nil => rfl
  | cons c cs ih =>
    have hc := h c (by simp)
    simp only [digitsNat, hc, if_true, digitsVal, List.foldl_cons]
    exact ih _ (fun x hx => h x (by simp [hx]))

theorem digit_facts {c : Char} (h : isDigit c = true) :
    isWs c = false ∧ c ≠ ':' ∧ c ≠ '.' ∧ c ≠ 'e' ∧ c ≠ 'E' ∧ c ≠ '-' ∧ c ≠ '+' := by
  have hd : ∀ x : Char, x = ' ' ∨ x = '\t' ∨ x = '\n' ∨ x = '\r' ∨ x = '\x0b' ∨ x = '\x0c' ∨ x = ':' ∨
      x = '.' ∨ x = 'e' ∨ x = 'E' ∨ x = '-' ∨ x = '+' → isDigit x = false := by
    intro x hx
    rcases hx with rfl | rfl | rfl | rfl | rfl | rfl | rfl | rfl | rfl | rfl | rfl | rfl <;> decide
  refine ⟨?_, ?_, ?_, ?_, ?_, ?_, ?_⟩
  · cases hw : isWs c with
    | false => rfl
    | true =>
      simp only [isWs, Bool.or_eq_true, decide_eq_true_eq] at hw
      have := hd c (by
        rcases hw with ((((h1 | h1) | h1) | h1) | h1) | h1
        · exact Or.inl h1
        · exact Or.inr (Or.inl h1)
        · exact Or.inr (Or.inr (Or.inl h1))
        · exact Or.inr (Or.inr (Or.inr (Or.inl h1)))
        · exact Or.inr (Or.inr (Or.inr (Or.inr (Or.inl h1))))
        · exact Or.inr (Or.inr (Or.inr (Or.inr (Or.inr (Or.inl h1))))))
      rw [h] at this; cases this
  all_goals (intro e; have := hd c (by simp [e]); rw [h] at this; cases this)

theorem strip_noWs (s : Str) (h : ∀ c ∈ s, isWs c = false) : strip s = s := by
  have := strip_token [] s [] (by simp) (by simp)
    ⟨fun x xs e => h x (by rw [e]; simp), fun x xs e => h x (by
      have : x ∈ s.reverse := by rw [e]; simp
      simpa using this)⟩
  simpa using this

theorem dropColons_noColon (s : Str) (h : ∀ c ∈ s, c ≠ ':') : dropColons s = s := by
  unfold dropColons
  rw [List.filter_eq_self]
  intro c hc
  simp [h c hc]

/-- two digit characters read as their number -/
theorem pyIntWs_two (a b : Char) (ha : isDigit a = true) (hb : isDigit b = true) :
    pyIntWs [a, b] = some ((digitVal a * 10 + digitVal b : Nat) : Int) := by
  unfold pyIntWs
  have hws : ∀ c ∈ [a, b], isWs c = false := by
    intro c hc
    simp only [List.mem_cons, List.mem_nil_iff, or_false] at hc
    rcases hc with rfl | rfl
    · exact (digit_facts ha).1
    · exact (digit_facts hb).1
  rw [strip_noWs _ hws]
  have := Phx.parseNumber_dec [] false [a, b] (by simp) (by
    intro c hc
    simp only [List.mem_cons, List.mem_nil_iff, or_false] at hc
    rcases hc with rfl | rfl <;> assumption)
  -- read the value off `pyInt`
  unfold pyInt
  have hs : splitSign [a, b] = (false, [a, b]) := by
    have := Phx.splitSign_signStr false [a, b] (fun x xs e => by
      injection e with e1 _; subst e1; exact Phx.isDigit_not_sign ha)
    simpa [Phx.signStr] using this
  rw [hs]
  simp only
  rw [Phx.parseDigits_all 10 decDigit [a, b] (by simp) (by
    intro c hc
    simp only [List.mem_cons, List.mem_nil_iff, or_false] at hc
    rcases hc with rfl | rfl
    · exact Phx.decDigit_some_of_isDigit ha
    · exact Phx.decDigit_some_of_isDigit hb) Phx.decDigit_under]
  simp [Phx.valOf, Phx.applySign, decDigit, ha, hb]

/-- **`hhmmss.ffffff` with any number of second / fraction digits** (and `hhmmss` alone): whole
    seconds from the first two pairs of digits, the rest read as the exact decimal
    `digits(ss ++ ff) / 10^|ff|` -/
theorem six_plus (h1 h2 m1 m2 : Char) (ss ff : Str)
    (d1 : isDigit h1 = true) (d2 : isDigit h2 = true) (d3 : isDigit m1 = true) (d4 : isDigit m2 = true)
    (hss : ∀ c ∈ ss, isDigit c = true) (hne : ss ≠ []) (hff : ∀ c ∈ ff, isDigit c = true) :
    toSec (h1 :: h2 :: m1 :: m2 :: (ss ++ '.' :: ff)) =
      .ok (((digitVal h1 * 10 + digitVal h2 : Nat) : Int) * 3600 +
           ((digitVal m1 * 10 + digitVal m2 : Nat) : Int) * 60)
          (some ⟨false, digitsVal 0 (ss ++ ff), ff.length⟩) ∧
    toSec (h1 :: h2 :: m1 :: m2 :: ss) =
      .ok (((digitVal h1 * 10 + digitVal h2 : Nat) : Int) * 3600 +
           ((digitVal m1 * 10 + digitVal m2 : Nat) : Int) * 60)
          (some ⟨false, digitsVal 0 ss, 0⟩) := by
  have hsslen : 0 < ss.length := by cases ss with | nil => exact absurd rfl hne | cons _ _ => simp
  constructor
  · -- with fraction
    have hall : ∀ c ∈ h1 :: h2 :: m1 :: m2 :: (ss ++ '.' :: ff), c ≠ ':' := by
      intro c hc
      simp only [List.mem_cons, List.mem_append] at hc
      rcases hc with rfl | rfl | rfl | rfl | hc | rfl | hc
      · exact (digit_facts d1).2.1
      · exact (digit_facts d2).2.1
      · exact (digit_facts d3).2.1
      · exact (digit_facts d4).2.1
      · exact (digit_facts (hss c hc)).2.1
      · decide
      · exact (digit_facts (hff c hc)).2.1
    unfold toSec
    rw [dropColons_noColon _ hall]
    simp only [List.take, List.drop]
    rw [pyIntWs_two h1 h2 d1 d2]
    simp only
    have hl2 : ¬ ((h1 :: h2 :: m1 :: m2 :: (ss ++ '.' :: ff)).length ≤ 2) := by simp
    have hl4 : ¬ ((h1 :: h2 :: m1 :: m2 :: (ss ++ '.' :: ff)).length ≤ 4) := by simp
    rw [if_neg hl2, pyIntWs_two m1 m2 d3 d4]
    simp only
    rw [if_neg hl4]
    -- pyFloatDec (ss ++ '.' :: ff)
    have hws : ∀ c ∈ ss ++ '.' :: ff, isWs c = false := by
      intro c hc
      simp only [List.mem_append, List.mem_cons] at hc
      rcases hc with hc | rfl | hc
      · exact (digit_facts (hss c hc)).1
      · decide
      · exact (digit_facts (hff c hc)).1
    have hsign : splitSign (ss ++ '.' :: ff) = (false, ss ++ '.' :: ff) := by
      have := Phx.splitSign_signStr false (ss ++ '.' :: ff) (fun x xs e => by
        cases ss with
        | nil => exact absurd rfl hne
        | cons y ys =>
          simp only [List.cons_append] at e
          injection e with e1 _; subst e1
          exact Phx.isDigit_not_sign (hss y (by simp)))
      simpa [Phx.signStr] using this
    have hE : splitAt (fun c => c == 'e' || c == 'E') (ss ++ '.' :: ff) = (ss ++ '.' :: ff, none) := by
      apply splitAt_none
      intro c hc
      simp only [List.mem_append, List.mem_cons] at hc
      rcases hc with hc | rfl | hc
      · have := digit_facts (hss c hc); simp [this.2.2.2.1, this.2.2.2.2.1]
      · decide
      · have := digit_facts (hff c hc); simp [this.2.2.2.1, this.2.2.2.2.1]
    have hdot : splitAt (· == '.') (ss ++ '.' :: ff) = (ss, some ff) := by
      apply splitAt_at
      · intro c hc; have := digit_facts (hss c hc); simp [this.2.2.1]
      · decide
    have hdig : digitsNat 0 (ss ++ ff) = some (digitsVal 0 (ss ++ ff)) :=
      digitsNat_digits _ 0 (by
        intro c hc
        rcases List.mem_append.mp hc with h | h
        · exact hss c h
        · exact hff c h)
    have hfd : pyFloatDec (ss ++ '.' :: ff) = some ⟨false, digitsVal 0 (ss ++ ff), ff.length⟩ := by
      unfold pyFloatDec
      simp only [strip_noWs _ hws, hsign, hE, hdot, Option.getD_some, hdig]
      have : ¬ ((ss.isEmpty && ff.isEmpty) = true) := by
        cases ss with
        | nil => exact absurd rfl hne
        | cons _ _ => simp
      simp [this]
    rw [hfd]
  · -- without fraction
    have hall : ∀ c ∈ h1 :: h2 :: m1 :: m2 :: ss, c ≠ ':' := by
      intro c hc
      simp only [List.mem_cons] at hc
      rcases hc with rfl | rfl | rfl | rfl | hc
      · exact (digit_facts d1).2.1
      · exact (digit_facts d2).2.1
      · exact (digit_facts d3).2.1
      · exact (digit_facts d4).2.1
      · exact (digit_facts (hss c hc)).2.1
    unfold toSec
    rw [dropColons_noColon _ hall]
    simp only [List.take, List.drop]
    rw [pyIntWs_two h1 h2 d1 d2]
    simp only
    have hl2 : ¬ ((h1 :: h2 :: m1 :: m2 :: ss).length ≤ 2) := by simp
    have hl4 : ¬ ((h1 :: h2 :: m1 :: m2 :: ss).length ≤ 4) := by simp; omega
    rw [if_neg hl2, pyIntWs_two m1 m2 d3 d4]
    simp only
    rw [if_neg hl4]
    have hws : ∀ c ∈ ss, isWs c = false := fun c hc => (digit_facts (hss c hc)).1
    have hsign : splitSign ss = (false, ss) := by
      have := Phx.splitSign_signStr false ss (fun x xs e => by
        subst e; exact Phx.isDigit_not_sign (hss x (by simp)))
      simpa [Phx.signStr] using this
    have hE : splitAt (fun c => c == 'e' || c == 'E') ss = (ss, none) := by
      apply splitAt_none
      intro c hc
      have := digit_facts (hss c hc); simp [this.2.2.2.1, this.2.2.2.2.1]
    have hdot : splitAt (· == '.') ss = (ss, none) := by
      apply splitAt_none
      intro c hc; have := digit_facts (hss c hc); simp [this.2.2.1]
    have hdig : digitsNat 0 (ss ++ []) = some (digitsVal 0 ss) := by
      rw [List.append_nil]; exact digitsNat_digits _ 0 hss
    have hfd : pyFloatDec ss = some ⟨false, digitsVal 0 ss, 0⟩ := by
      unfold pyFloatDec
      simp only [strip_noWs _ hws, hsign, hE, hdot, Option.getD_none, hdig]
      simp [hne]
    rw [hfd]

end Tm
