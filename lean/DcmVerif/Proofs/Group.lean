import DcmVerif.Model.Group
/-! C18: grouping partitions the readable image files and isolates faulty ones. -/
set_option autoImplicit false

namespace Grp
section
variable {E C : Type} [DecidableEq E]

theorem placeSub_ids (closeB : C → C → Bool) (id : Nat) (c : C) (subs : Subs C) :
    ((placeSub closeB id c subs).flatMap fun s => s.2).Perm ((subs.flatMap fun s => s.2) ++ [id]) := by
  induction subs with
  | nil => simp [placeSub]
  | cons s rest ih =>
    obtain ⟨rep, ids⟩ := s
    unfold placeSub
    by_cases h : closeB rep c = true
    · simp only [h, if_true, List.flatMap_cons]
      have : ids ++ [id] ++ List.flatMap (fun s => s.2) rest =
          ids ++ ([id] ++ List.flatMap (fun s => s.2) rest) := by simp
      rw [this, List.append_assoc]
      exact List.Perm.append_left ids List.perm_append_comm
    · simp only [h, Bool.false_eq_true, if_false, List.flatMap_cons, List.append_assoc]
      exact List.Perm.append_left ids ih

theorem place_ids (closeB : C → C → Bool) (id : Nat) (e : E) (c : C) (g : List (E × Subs C)) :
    (allIds (place closeB id e c g)).Perm (allIds g ++ [id]) := by
  induction g with
  | nil => simp [place, allIds]
  | cons p rest ih =>
    obtain ⟨e', subs⟩ := p
    unfold place
    by_cases h : e' = e
    · simp only [h, if_true, allIds, List.flatMap_cons]
      have h1 := placeSub_ids closeB id c subs
      have : (List.flatMap (fun s => s.2) subs ++ List.flatMap (fun p => List.flatMap (fun s => s.2) p.2) rest ++ [id]).Perm
          (List.flatMap (fun s => s.2) subs ++ [id] ++ List.flatMap (fun p => List.flatMap (fun s => s.2) p.2) rest) := by
        rw [List.append_assoc, List.append_assoc]
        exact List.Perm.append_left _ List.perm_append_comm
      exact (List.Perm.append_right _ h1).trans this.symm
    · simp only [h, if_false, allIds, List.flatMap_cons, List.append_assoc]
      exact List.Perm.append_left _ ih

theorem groupLoop_ids (closeB : C → C → Bool) (warn : Bool) (items : List (Item E C)) :
    ∀ (acc g : List (E × Subs C)), groupLoop closeB warn items acc = .ok g →
      (allIds g).Perm (allIds acc ++ fileIds items) := by
  induction items with
  | nil =>
    intro acc g h
    simp only [groupLoop] at h
    injection h with h; subst h; simp [fileIds]
  | cons it rest ih =>
    intro acc g h
    cases it with
    | file id e c =>
      simp only [groupLoop] at h
      have := ih _ g h
      refine this.trans ?_
      simp only [fileIds]
      have h2 := place_ids closeB id e c acc
      have : (allIds acc ++ id :: fileIds rest) = (allIds acc ++ [id]) ++ fileIds rest := by simp
      rw [this]
      exact List.Perm.append_right _ h2
    | nonImage => simp only [groupLoop] at h; simpa [fileIds] using ih _ g h
    | unreadable =>
      simp only [groupLoop] at h
      by_cases hw : warn = true
      · subst hw
        simp only [if_true] at h; simpa [fileIds] using ih _ g h
      · simp only [hw, Bool.false_eq_true, if_false] at h; cases h

/-- **partition:** every readable image file is in exactly one group (the ids in the groups are a
    permutation of the ids of the readable image files), nothing else is -/
theorem group_partition (closeB : C → C → Bool) (warn : Bool) (items : List (Item E C))
    (g : List (E × Subs C)) (h : parseAndGroup closeB warn items = .ok g) :
    (allIds g).Perm (fileIds items) := by
  have := groupLoop_ids closeB warn items [] g h
  simpa [allIds] using this

/-- **fault isolation:** a dataset without pixels — and in warn mode an unreadable file — anywhere in
    the list is equivalent to its absence -/
theorem groupLoop_skip (closeB : C → C → Bool) (warn : Bool) (l₁ l₂ : List (Item E C))
    (bad : Item E C) (hbad : bad = .nonImage ∨ (bad = .unreadable ∧ warn = true))
    (acc : List (E × Subs C)) :
    groupLoop closeB warn (l₁ ++ bad :: l₂) acc = groupLoop closeB warn (l₁ ++ l₂) acc := by
  induction l₁ generalizing acc with
  | nil =>
    rcases hbad with rfl | ⟨rfl, hw⟩
    · simp [groupLoop]
    · simp [groupLoop, hw]
  | cons it rest ih =>
    cases it with
    | file id e c => simp only [List.cons_append, groupLoop]; exact ih _
    | nonImage => simp only [List.cons_append, groupLoop]; exact ih _
    | unreadable =>
      simp only [List.cons_append, groupLoop]
      by_cases hw : warn = true
      · subst hw
        simp only [if_true]; exact ih _
      · simp [hw]

theorem group_skip_fault (closeB : C → C → Bool) (warn : Bool) (l₁ l₂ : List (Item E C))
    (bad : Item E C) (hbad : bad = .nonImage ∨ (bad = .unreadable ∧ warn = true)) :
    parseAndGroup closeB warn (l₁ ++ bad :: l₂) = parseAndGroup closeB warn (l₁ ++ l₂) :=
  groupLoop_skip closeB warn l₁ l₂ bad hbad []

/-- strict mode: an unreadable file raises -/
theorem group_strict_raises (closeB : C → C → Bool) (l₁ l₂ : List (Item E C))
    (h : ∀ it ∈ l₁, it ≠ Item.unreadable) (acc : List (E × Subs C)) :
    groupLoop closeB false (l₁ ++ .unreadable :: l₂) acc = .raised := by
  induction l₁ generalizing acc with
  | nil => simp [groupLoop]
  | cons it rest ih =>
    cases it with
    | file id e c => simp only [List.cons_append, groupLoop]; exact ih (fun x hx => h x (by simp [hx])) _
    | nonImage => simp only [List.cons_append, groupLoop]; exact ih (fun x hx => h x (by simp [hx])) _
    | unreadable => exact absurd rfl (h _ (by simp))

/-- a file joins the first sub-result whose representative it is close to; otherwise it opens a new
    one with itself as representative -/
theorem placeSub_first_fit (closeB : C → C → Bool) (id : Nat) (c : C) (pre : Subs C) (rep : C)
    (ids : List Nat) (post : Subs C) (hpre : ∀ s ∈ pre, closeB s.1 c = false) (h : closeB rep c = true) :
    placeSub closeB id c (pre ++ (rep, ids) :: post) = pre ++ (rep, ids ++ [id]) :: post := by
  induction pre with
  | nil => simp [placeSub, h]
  | cons s rest ih =>
    obtain ⟨r, i⟩ := s
    have hr : closeB r c = false := hpre (r, i) (by simp)
    simp only [List.cons_append, placeSub, hr, Bool.false_eq_true, if_false]
    rw [ih (fun s hs => hpre s (by simp [hs]))]

theorem placeSub_new (closeB : C → C → Bool) (id : Nat) (c : C) (subs : Subs C)
    (h : ∀ s ∈ subs, closeB s.1 c = false) : placeSub closeB id c subs = subs ++ [(c, [id])] := by
  induction subs with
  | nil => rfl
  | cons s rest ih =>
    obtain ⟨r, i⟩ := s
    have hr : closeB r c = false := h (r, i) (by simp)
    simp only [placeSub, hr, Bool.false_eq_true, if_false, List.cons_append]
    rw [ih (fun s hs => h s (by simp [hs]))]

/-- **stacking isolates faults:** in warn mode a file that cannot join (incongruent, colliding, no
    pixels) is equivalent to its absence, provided the remaining files' ability to join does not
    depend on it; in strict mode it aborts -/
theorem stackGroup_skip (joins : List Nat → Nat → Bool) (pre : List Nat) (bad : Nat) (post : List Nat)
    (hb : ∀ a, joins a bad = false) (acc : List Nat) :
    stackGroup joins true (pre ++ bad :: post) acc = stackGroup joins true (pre ++ post) acc := by
  induction pre generalizing acc with
  | nil => simp [stackGroup, hb]
  | cons x xs ih =>
    simp only [List.cons_append, stackGroup]
    by_cases hj : joins acc x = true
    · simp only [hj, if_true]; exact ih _
    · simp only [hj, Bool.false_eq_true, if_false, if_true]; exact ih _

theorem stackGroup_strict (joins : List Nat → Nat → Bool) (bad : Nat) (post acc : List Nat)
    (hb : joins acc bad = false) : stackGroup joins false (bad :: post) acc = none := by
  simp [stackGroup, hb]

end
end Grp
