import DcmVerif.Model.Json
/-! C09: the token-level round trip, injectivity of the encoder, padding. -/
set_option autoImplicit false

namespace Js

mutual
  theorem decode_encode : ∀ (v : Val) (fuel : Nat) (rest : List Tok), vsize v ≤ fuel →
      decode fuel (encode v ++ rest) = some (v, rest)
    | .null, fuel + 1, rest, _ => by simp [encode, decode]
    | .bool b, fuel + 1, rest, _ => by simp [encode, decode]
    | .num s, fuel + 1, rest, _ => by simp [encode, decode]
    | .str s, fuel + 1, rest, _ => by simp [encode, decode]
    | .arr items, fuel + 1, rest, h => by
        simp only [encode, List.cons_append, decode]
        rw [decodeList_encode items fuel rest (by simp [vsize] at h; omega)]
        rfl
    | .obj fields, fuel + 1, rest, h => by
        simp only [encode, List.cons_append, decode]
        rw [decodeFields_encode fields fuel rest (by simp [vsize] at h; omega)]
        rfl
    | .null, 0, _, h => by simp [vsize] at h
    | .bool _, 0, _, h => by simp [vsize] at h
    | .num _, 0, _, h => by simp [vsize] at h
    | .str _, 0, _, h => by simp [vsize] at h
    | .arr _, 0, _, h => by simp [vsize] at h
    | .obj _, 0, _, h => by simp [vsize] at h
  theorem decodeList_encode : ∀ (vs : List Val) (fuel : Nat) (rest : List Tok), lsize vs ≤ fuel →
      decodeList fuel vs.length (encodeList vs ++ rest) = some (vs, rest)
    | [], fuel, rest, _ => by cases fuel <;> simp [encodeList, decodeList]
    | v :: vs, 0, _, h => by simp [lsize] at h
    | v :: vs, fuel + 1, rest, h => by
        simp only [encodeList, List.length_cons, List.append_assoc, decodeList]
        rw [decode_encode v fuel _ (by simp [lsize] at h; omega)]
        simp only
        rw [decodeList_encode vs fuel rest (by simp [lsize] at h; omega)]
        rfl
  theorem decodeFields_encode : ∀ (fs : List (String × Val)) (fuel : Nat) (rest : List Tok),
      fsize fs ≤ fuel →
      decodeFields fuel fs.length (encodeFields fs ++ rest) = some (fs, rest)
    | [], fuel, rest, _ => by cases fuel <;> simp [encodeFields, decodeFields]
    | (k, v) :: fs, 0, _, h => by simp [fsize] at h
    | (k, v) :: fs, fuel + 1, rest, h => by
        simp only [encodeFields, List.length_cons, List.cons_append, List.append_assoc,
          decodeFields]
        rw [decode_encode v fuel _ (by simp [fsize] at h; omega)]
        simp only
        rw [decodeFields_encode fs fuel rest (by simp [fsize] at h; omega)]
        rfl
end

/-- decoding what was encoded gives back the value: same nesting, same key order, same lexemes -/
theorem loads_dumps (v : Val) : decode (vsize v) (encode v) = some (v, []) := by
  have := decode_encode v (vsize v) [] (Nat.le_refl _)
  simpa using this

/-- **the encoder is injective**: two values with the same serialisation are equal, so
    re-serialising a loaded extension gives the identical text and nothing is conflated -/
theorem encode_injective (v w : Val) (h : encode v = encode w) : v = w := by
  have h1 := decode_encode v (max (vsize v) (vsize w)) [] (Nat.le_max_left _ _)
  have h2 := decode_encode w (max (vsize v) (vsize w)) [] (Nat.le_max_right _ _)
  rw [h] at h1
  rw [h1] at h2
  injection h2 with h2
  injection h2

/-- key order is part of the value: objects with the same fields in a different order are different
    values with different serialisations -/
theorem order_matters : encode (.obj [("a", .null), ("b", .null)]) ≠ encode (.obj [("b", .null), ("a", .null)]) := by
  decide

theorem dropWhile_replicate_append (k : Nat) (l : List UInt8) (h : ∀ x, l.head? = some x → x ≠ 0) :
    (List.replicate k (0 : UInt8) ++ l).dropWhile (· == 0) = l := by
  induction k with
  | zero =>
    simp only [List.replicate, List.nil_append]
    cases l with
    | nil => rfl
    | cons x xs =>
      have hx := h x rfl
      have hb : (x == 0) = false := by simpa using hx
      simp only [List.dropWhile, hb]
  | succ n ih => simp [List.replicate, List.dropWhile, ih]

/-- **NIfTI container:** stripping the NUL padding gives back the content, whenever the content
    does not itself end in a NUL byte (JSON text ends in `}`) -/
theorem strip_pad (bs : List UInt8) (h : ∀ x, bs.getLast? = some x → x ≠ 0) :
    rstripNul (pad16 bs) = bs := by
  unfold rstripNul pad16
  rw [List.reverse_append, List.reverse_replicate]
  rw [dropWhile_replicate_append _ bs.reverse (by
    intro x hx
    apply h x
    rw [List.getLast?_eq_head?_reverse]; exact hx)]
  exact List.reverse_reverse bs

/-- the printer on concrete values (kernel-evaluated): nesting, empty containers, escapes,
    astral code points as surrogate pairs -/
theorem dumps_examples :
    dumps (.obj [("a", .num "1"), ("b", .arr [.null, .str "x"]), ("c", .obj []), ("d", .arr [])]) =
      "{\n    \"a\": 1,\n    \"b\": [\n        null,\n        \"x\"\n    ],\n    \"c\": {},\n    \"d\": []\n}" ∧
    dumps (.str "a\"b\\c\n\tü") = "\"a\\\"b\\\\c\\n\\t\\u00fc\"" ∧
    dumps (.str (String.singleton (Char.ofNat 128512))) = "\"\\ud83d\\ude00\"" ∧
    dumps (.arr [.bool true, .bool false, .num "1e+20", .num "0.1"]) =
      "[\n    true,\n    false,\n    1e+20,\n    0.1\n]" := by decide +kernel

end Js
