import DcmVerif.Proofs.Chains
/-! C07: validity is closed under every way of combining splits and merges (one key).

`Produced` is the set of key states the library can produce from valid ones: pieces of a slice /
time / vector split of a produced state, and the slice / time / vector merge of produced states.
`produced_valid` is the induction over that set; the `produced_*_ok` corollaries add that none of
the operations can fail on produced inputs, so the set is closed under the operations themselves,
not only under their successful runs. -/
set_option autoImplicit false
set_option linter.unusedSectionVars false
open Cls

namespace Chain
variable {α : Type} [DecidableEq α]

inductive Produced (null : α) : Shp → KeyState α → Prop
  | given (sh : Shp) (ks : KeyState α) : Good sh → ValidK sh ks → Produced null sh ks
  | slicePiece (sh : Shp) (ks : KeyState α) (i : Nat) (p : KeyState α) :
      Produced null sh ks → i < sh.S → subsetSliceK null sh ks i = .ok p →
      Produced null (sliceSubsetShp sh) p
  | timePiece (sh : Shp) (ks : KeyState α) (i : Nat) (p : KeyState α) :
      Produced null sh ks → (sh.nd = 4 ∨ sh.nd = 5) → i < sh.T → subsetTimeK null sh ks i = .ok p →
      Produced null (timeSubsetShp sh) p
  | vecPiece (sh : Shp) (ks : KeyState α) (i : Nat) (p : KeyState α) :
      Produced null sh ks → sh.nd = 5 → i < sh.V → subsetVecK null sh ks i = .ok p →
      Produced null (vecSubsetShp sh) p
  | mergedSlice (sh1 : Shp) (inputs : List (KeyState α)) (r : KeyState α) :
      Good sh1 → inputs ≠ [] → (∀ b, b ∈ inputs → Produced null { sh1 with S := 1 } b) →
      mergeSliceK null sh1 inputs = .ok r →
      Produced null { sh1 with S := inputs.length } r
  | mergedTime (sh1 osh : Shp) (inputs : List (KeyState α)) (r : KeyState α) :
      0 < sh1.S → sh1.hasSlice = true → sh1.nd = 4 → sh1.V = 1 → sh1.hasVector = false →
      sh1.hasTime = true →
      osh.nd = 3 → osh.S = sh1.S → osh.T = 1 → osh.V = 1 → osh.hasSlice = true →
      2 ≤ inputs.length → (∀ b, b ∈ inputs → Produced null osh b) →
      mergeTimeK null sh1 osh inputs = .ok r →
      Produced null { sh1 with T := inputs.length } r
  | mergedVec (sh1 osh : Shp) (inputs : List (KeyState α)) (r : KeyState α) :
      0 < sh1.S → 0 < sh1.T → sh1.hasSlice = true → sh1.nd = 5 → sh1.hasVector = true →
      (sh1.hasTime = true ↔ sh1.T ≠ 1) →
      osh.hasSlice = true → osh.S = sh1.S → osh.T = sh1.T → osh.V = 1 →
      ((osh.nd = 3 ∧ sh1.T = 1) ∨ (osh.nd = 4 ∧ sh1.T ≠ 1)) →
      2 ≤ inputs.length → (∀ b, b ∈ inputs → Produced null osh b) →
      mergeVecK null sh1 osh inputs = .ok r →
      Produced null { sh1 with V := inputs.length } r

/-- **everything the operations produce is valid for a consistent shape** — by induction over the
    way it was produced: any nesting of splits inside merges inside splits …, any number of inputs -/
theorem produced_valid (null : α) (sh : Shp) (ks : KeyState α) (h : Produced null sh ks) :
    Good sh ∧ ValidK sh ks := by
  induction h with
  | given sh ks hg hv => exact ⟨hg, hv⟩
  | slicePiece sh ks i p _ hi hp ih =>
    exact ⟨good_slice sh ih.1, (subsetSlice_spec null sh ih.1.1 ks ih.2 i hi p hp).1⟩
  | timePiece sh ks i p _ h45 hi hp ih =>
    refine ⟨good_time sh ih.1 h45, ?_⟩
    rcases h45 with h4 | h5
    · exact (subsetTime_spec4 null sh ih.1.1 h4 ks ih.2 i hi p hp).1
    · exact (Total.subsetTime_spec5 null sh ih.1.1 h5 (ih.1.2 h5) ks ih.2 i hi p hp).1
  | vecPiece sh ks i p _ h5 hi hp ih =>
    exact ⟨good_vec sh ih.1 h5, (subsetVec_spec null sh ih.1.1 h5 ks ih.2 i hi p hp).1⟩
  | mergedSlice sh1 inputs r hg hne _ hm ih =>
    have hlen : 0 < inputs.length := List.length_pos_iff.mpr hne
    refine ⟨⟨mkConsistent _ hlen hg.1.hT hg.1.hV hg.1.hnd hg.1.h3 hg.1.h4 hg.1.hsl hg.1.htime
      hg.1.hvec hg.1.trimmed4, hg.2⟩, ?_⟩
    exact mergeSlice_valid null sh1 hg.1 inputs (fun b hb => (ih b hb).2) r hm
  | mergedTime sh1 osh inputs r hS hsl nd4 v1 hvec htime ond oS oT oV ohsl hn _ hm ih =>
    refine ⟨⟨mkConsistent _ hS (by simp; omega) (by simp [v1]) (Or.inr (Or.inl nd4))
      (fun h => by simp at h; omega) (fun _ => v1) hsl
      (by simp [htime, nd4]; omega) (by simp [hvec, nd4]) (fun _ => by simp; omega),
      fun h => by simp at h; omega⟩, ?_⟩
    exact mergeTime_valid null sh1 osh hS hsl nd4 v1 hvec ond oS oT oV ohsl inputs
      (fun b hb => (ih b hb).2) r hm
  | mergedVec sh1 osh inputs r hS hT hsl nd5 hvec htime ohsl oS oT oV ond hn _ hm ih =>
    refine ⟨⟨mkConsistent _ hS hT (by simp; omega) (Or.inr (Or.inr nd5))
      (fun h => by simp at h; omega) (fun h => by simp at h; omega) hsl
      (by simp [nd5]; exact htime) (by simp [hvec, nd5]) (fun h => by simp at h; omega),
      fun _ => by simpa using hn⟩, ?_⟩
    exact Total.mergeVec_valid null sh1 osh hS hT hsl nd5 hvec htime ohsl oS oT oV ond inputs
      (fun b hb => (ih b hb).2) r hm

/-- the operations cannot fail on produced states: a slice split of a produced state … -/
theorem produced_slice_ok (null : α) (sh : Shp) (ks : KeyState α) (h : Produced null sh ks)
    (i : Nat) (hi : i < sh.S) :
    ∃ p, subsetSliceK null sh ks i = .ok p ∧ Produced null (sliceSubsetShp sh) p := by
  have hv := produced_valid null sh ks h
  obtain ⟨p, hp⟩ := Total.subsetSliceK_ok null sh hv.1.1 ks hv.2 i hi
  exact ⟨p, hp, .slicePiece sh ks i p h hi hp⟩

theorem produced_time_ok (null : α) (sh : Shp) (ks : KeyState α) (h : Produced null sh ks)
    (h45 : sh.nd = 4 ∨ sh.nd = 5) (i : Nat) (hi : i < sh.T) :
    ∃ p, subsetTimeK null sh ks i = .ok p ∧ Produced null (timeSubsetShp sh) p := by
  have hv := produced_valid null sh ks h
  obtain ⟨p, hp⟩ := Total.subsetTimeK_ok null sh hv.1.1 h45 hv.1.2 ks hv.2 i hi
  exact ⟨p, hp, .timePiece sh ks i p h h45 hi hp⟩

theorem produced_vec_ok (null : α) (sh : Shp) (ks : KeyState α) (h : Produced null sh ks)
    (h5 : sh.nd = 5) (i : Nat) (hi : i < sh.V) :
    ∃ p, subsetVecK null sh ks i = .ok p ∧ Produced null (vecSubsetShp sh) p := by
  have hv := produced_valid null sh ks h
  obtain ⟨p, hp⟩ := Total.subsetVecK_ok null sh hv.1.1 h5 ks hv.2 i hi
  exact ⟨p, hp, .vecPiece sh ks i p h h5 hi hp⟩

/-- … and a slice merge of produced states -/
theorem produced_mergeSlice_ok (null : α) (sh1 : Shp) (hg : Good sh1)
    (a : KeyState α) (rest : List (KeyState α))
    (hin : ∀ b, b ∈ a :: rest → Produced null { sh1 with S := 1 } b) :
    ∃ r, mergeSliceK null sh1 (a :: rest) = .ok r ∧
      Produced null { sh1 with S := (a :: rest).length } r := by
  obtain ⟨r, hr⟩ := Total.mergeSliceK_ok null sh1 hg.1 a rest
    (fun b hb => (produced_valid null _ b (hin b hb)).2)
  exact ⟨r, hr, .mergedSlice sh1 (a :: rest) r hg (by simp) hin hr⟩

end Chain
