import DcmVerif.Generated.Code_cli
import DcmVerif.Proofs.CodeLemmas
/-! The naming of output files in `dcmstack_cli.main` as translated from dcmstack_cli.py is the model's step of `Cli.outNames`. -/
set_option autoImplicit false
set_option linter.unusedSimpArgs false
set_option linter.unusedVariables false

namespace Src
open Cli

theorem pickFree_while (fmt : Nat → String) (gen : List String) (name : String) : ∀ (k i : Nat) (c : String),
    pickFree fmt gen name k i = some c →
      gen.contains (suffixed fmt name (whileFuel (fun u => gen.contains (suffixed fmt name u)) (· + 1) k i)) = false ∧
      c = suffixed fmt name (whileFuel (fun u => gen.contains (suffixed fmt name u)) (· + 1) k i)
  | 0, i, c, h => by simp [pickFree] at h
  | k + 1, i, c, h => by
    unfold pickFree at h
    by_cases hc : gen.contains (suffixed fmt name i) = true
    · simp only [hc, if_true] at h
      have ih := pickFree_while fmt gen name k (i + 1) c h
      have hw : whileFuel (fun u => gen.contains (suffixed fmt name u)) (· + 1) (k + 1) i =
          whileFuel (fun u => gen.contains (suffixed fmt name u)) (· + 1) k (i + 1) := by
        simp only [whileFuel, hc, if_true]
      rw [hw]; exact ih
    · have hc' : gen.contains (suffixed fmt name i) = false := by simpa using hc
      simp only [hc', Bool.false_eq_true, if_false, Option.some.injEq] at h
      have hw : whileFuel (fun u => gen.contains (suffixed fmt name u)) (· + 1) (k + 1) i = i := by
        simp only [whileFuel, hc', Bool.false_eq_true, if_false]
      rw [hw]; exact ⟨hc', h.symm⟩

/-- the name the model chooses for one output file -/
def chosenName (fmt : Nat → String) (gen : List String) (n : String) (idx : Nat) : Option String :=
  if gen.contains n then pickFree fmt gen n (gen.length + 1) idx else some n

/-- **the naming of an output file in `dcmstack_cli.main`, as written, is the step of the model's `outNames`**: whenever the model
    yields a name the code yields that name, records it and advances the group counter -/
theorem cli_out_name_eq (fmt : Nat → String) (gen : List String) (n : String) (idx : Nat) (c : String)
    (h : chosenName fmt gen n idx = some c) :
    Py.cli_out_name fmt gen n idx = .ok (c, c :: gen, idx + 1) := by
  unfold Py.cli_out_name
  unfold chosenName at h
  by_cases hn : gen.contains n = true
  · simp only [hn, if_true] at h ⊢
    obtain ⟨hfree, hc⟩ := pickFree_while fmt gen n (gen.length + 1) idx c h
    rw [forIn_while (fun u => gen.contains (suffixed fmt n u)) (· + 1)]
    simp only [ok_bind', List.length_range, ← hc]
    have hfree' : gen.contains c = false := by rw [hc]; exact hfree
    simp only [hfree', Bool.false_eq_true, if_false]
    rfl
  · have hn' : gen.contains n = false := by simpa using hn
    simp only [hn', Bool.false_eq_true, if_false, Option.some.injEq] at h ⊢
    subst h
    rfl

/-! the translated block computes (tests, not theorems) -/
example : Py.cli_out_name (fun i => toString i) ["a", "a-1"] "a" 1 = .ok ("a-2", ["a-2", "a", "a-1"], 2) := by rfl
example : Py.cli_out_name (fun i => toString i) ["a"] "b" 1 = .ok ("b", ["b", "a"], 2) := by rfl

end Src
