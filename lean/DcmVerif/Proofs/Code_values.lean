import DcmVerif.Generated.Code_values
import DcmVerif.Model.Ext
import DcmVerif.Proofs.Code_classes
/-! The value-list arithmetic of `get_subset` / `from_sequence` as translated from dcmmeta.py is the model's. -/
set_option autoImplicit false
set_option linter.unusedSimpArgs false
set_option linter.unusedVariables false
open Cls

namespace Src
variable {α κ : Type}

/-! ### the interleaving loops of `_insert_slice` / `_insert_sample` -/

/-- one round of the interleaving loops: a block of `n` held values, a block of `m` new ones -/
def intlvStep (n m : Nat) (lv ov : List α) (s : List α × Nat × Nat) : List α × Nat × Nat :=
  (s.1 ++ List.take (s.2.1 + n - s.2.1) (List.drop s.2.1 lv) ++ List.take (s.2.2 + m - s.2.2) (List.drop s.2.2 ov),
   s.2.1 + n, s.2.2 + m)

theorem iter_intlvStep (n m : Nat) (lv ov : List α) : ∀ (k : Nat) (acc : List α) (a b : Nat),
    (iter (intlvStep n m lv ov) k (acc, a, b)).1 = acc ++ interleave n m k (lv.drop a) (ov.drop b)
  | 0, acc, a, b => by simp [iter, interleave]
  | k + 1, acc, a, b => by
    rw [iter]
    simp only [intlvStep]
    rw [iter_intlvStep n m lv ov k]
    simp [interleave, List.drop_drop, List.append_assoc]

theorem prod_drop3 (e : DExt κ α) (sdArg : Option Nat) (h3 : 3 ≤ e.shape.length) (h5 : e.shape.length ≤ 5) :
    (e.shape.drop 3).foldl (· * ·) 1 = (e.shp sdArg).T * (e.shp sdArg).V := by
  obtain ⟨shape, sd, ht, hv, ents⟩ := e
  match shape, h3, h5 with
  | [a, b, c], _, _ => simp [DExt.shp]
  | [a, b, c, d], _, _ => simp [DExt.shp]
  | [a, b, c, d, f], _, _ => simp [DExt.shp]
  | [], h3, _ | [_], h3, _ | [_, _], h3, _ => simp at h3
  | _ :: _ :: _ :: _ :: _ :: _ :: _, _, h5 => simp at h5

theorem insert_slice_interleave_eq0 (shape : List Nat) (n m : Nat) (lv ov : List α) :
    Py.insert_slice_interleave shape n m lv ov = .ok (interleave n m ((shape.drop 3).foldl (· * ·) 1) lv ov) := by
  simp only [Py.insert_slice_interleave]
  rw [forIn_yield (fun dim_size r => r * dim_size), ok_bind']
  have := forIn_yield (σ := List α × Nat × Nat) (fun (_ : Nat) r => intlvStep n m lv ov r)
    (List.range ((shape.drop 3).foldl (· * ·) 1)) ([], 0, 0)
  simp only [intlvStep] at this
  rw [this, ok_bind']
  have h := iter_intlvStep n m lv ov ((shape.drop 3).foldl (· * ·) 1) [] 0 0
  rw [← foldl_range_const] at h
  simp only [List.drop_zero, List.nil_append] at h
  exact Eq.trans rfl (congrArg Except.ok h)

/-- **the interleaving block of `_insert_slice` as written in dcmmeta.py is the model's `interleave`** over the `T·V` volumes -/
theorem insert_slice_interleave_eq (e : DExt κ α) (sdArg : Option Nat) (h3 : 3 ≤ e.shape.length) (h5 : e.shape.length ≤ 5)
    (m : Nat) (lv ov : List α) :
    Py.insert_slice_interleave e.shape (e.shp sdArg).S m lv ov =
      .ok (interleave (e.shp sdArg).S m ((e.shp sdArg).T * (e.shp sdArg).V) lv ov) := by
  rw [insert_slice_interleave_eq0, prod_drop3 e sdArg h3 h5]

theorem insert_sample_interleave_eq0 (shape : List Nat) (n t3 : Nat) (lv ov : List α) :
    Py.insert_sample_interleave shape n t3 lv ov =
      .ok (interleave (n * shape[3]!) (n * t3) shape[4]! lv ov) := by
  simp only [Py.insert_sample_interleave]
  have := forIn_yield (σ := List α × Nat × Nat) (fun (_ : Nat) r => intlvStep (n * shape[3]!) (n * t3) lv ov r)
    (List.range shape[4]!) ([], 0, 0)
  simp only [intlvStep] at this
  rw [this, ok_bind']
  have h := iter_intlvStep (n * shape[3]!) (n * t3) lv ov shape[4]! [] 0 0
  rw [← foldl_range_const] at h
  simp only [List.drop_zero, List.nil_append] at h
  exact Eq.trans rfl (congrArg Except.ok h)

/-- **the interleaving block of `_insert_sample` as written in dcmmeta.py is the model's `interleave`** (five axes: per vector
    component, `S·T` held values then `S·T'` new ones) -/
theorem insert_sample_interleave_eq (e : DExt κ α) (sdArg : Option Nat) (h5 : e.shape.length = 5)
    (t3 : Nat) (lv ov : List α) :
    Py.insert_sample_interleave e.shape (e.shp sdArg).S t3 lv ov =
      .ok (interleave ((e.shp sdArg).S * (e.shp sdArg).T) ((e.shp sdArg).S * t3) (e.shp sdArg).V lv ov) := by
  rw [insert_sample_interleave_eq0]
  obtain ⟨shape, sd, ht, hv, ents⟩ := e
  match shape, h5 with
  | [a, b, c, d, f], _ => simp [DExt.shp]

/-! ### `_global_slice_subset` -/

theorem foldl_append_flatMap {β : Type} (f : β → List α) : ∀ (l : List β) (acc : List α),
    l.foldl (fun r x => r ++ f x) acc = acc ++ l.flatMap f
  | [], acc => by simp
  | x :: xs, acc => by simp [List.foldl_cons, foldl_append_flatMap f xs, List.append_assoc]

/-- **`_global_slice_subset` as written in dcmmeta.py is the model's `globalSliceSubset`** (a vector sample of a five-axis
    extension, or a time sample of a four- or five-axis one) -/
theorem global_slice_subset_eq [DecidableEq α] (e : DExt κ α) (isTime : Bool) (h4 : 4 ≤ e.shape.length) (h5 : e.shape.length ≤ 5)
    (hv : isTime = false → e.shape.length = 5) (idx : Nat) (vals : List α) :
    Py.global_slice_subset e.shape e.shp.S vals (if isTime then "time" else "vector") idx =
      .ok (globalSliceSubset e.shp isTime idx vals) := by
  have hvc := get_valid_classes_eq e none (by omega) h5
  obtain ⟨shape, sd, ht, hvv, ents⟩ := e
  cases isTime
  · have := hv rfl
    match shape, this with
    | [a, b, c, d, f], _ => simp [Py.global_slice_subset, globalSliceSubset, DExt.shp]; rfl
  · match shape, h4, h5 with
    | [a, b, c, d], _, _ =>
      simp [Py.global_slice_subset, globalSliceSubset, DExt.shp, Py.get_valid_classes, Gen.classifications, validClasses]
      rfl
    | [a, b, c, d, f], _, _ =>
      by_cases hd : d = 1 <;>
        simp [Py.global_slice_subset, globalSliceSubset, DExt.shp, Py.get_valid_classes, Gen.classifications, validClasses, hd,
          List.flatMap] <;> rfl
    | [], h3, _ | [_], h3, _ | [_, _], h3, _ | [_, _, _], h3, _ => simp at h3
    | _ :: _ :: _ :: _ :: _ :: _ :: _, _, h5 => simp at h5

/-! ### `_copy_slice` -/

/-- **the destination class `_copy_slice` picks as written in dcmmeta.py is the model's `copySliceDest`**, for the per-slice
    classes it is called with and a result in which global constants are valid (they always are) -/
theorem copy_slice_dest_eq (valid : List Cls) (c : Cls) (hc : perSlice c = true) (hg : gconst ∈ valid) :
    Py.copy_slice_dest valid c = .ok (copySliceDest valid c) := by
  cases c <;> simp [perSlice] at hc <;>
    simp [Py.copy_slice_dest, copySliceDest, Cls.base, hg, List.find?]
  · by_cases h1 : tsamples ∈ valid <;> by_cases h2 : vsamples ∈ valid <;> simp [h1, h2] <;> rfl
  · rfl
  · by_cases h1 : tsamples ∈ valid <;> simp [h1] <;> rfl

theorem pyStepAux_eq (p : Nat) : ∀ (l : List α) (k : Nat), pyStepAux p k l = strideAux p k l
  | [], k => by simp [pyStepAux, strideAux]
  | a :: l, 0 => by simp [pyStepAux, strideAux, pyStepAux_eq p l]
  | a :: l, k + 1 => by simp [pyStepAux, strideAux, pyStepAux_eq p l]

/-- Python's `values[start::step]` is the model's `stride step (values.drop start)` -/
theorem pyStep_eq (l : List α) (start p : Nat) : pyStep l start p = stride p (l.drop start) := by
  simp [pyStep, stride, pyStepAux_eq]

theorem iter_append_tile (sub : List α) : ∀ (k : Nat) (acc : List α), iter (· ++ sub) k acc = acc ++ tile k sub
  | 0, acc => by simp [iter, tile]
  | k + 1, acc => by simp [iter, tile, iter_append_tile sub k, List.append_assoc]

/-- **the values `_copy_slice` stores as written in dcmmeta.py are the model's `copySliceVals`** whenever the strided subset is
    not empty (or nothing has to be repeated) … -/
theorem copy_slice_vals_eq (vals : List α) (idx st destMult : Nat)
    (h : (stride st (vals.drop idx)).length ≠ 0 ∨ destMult = 0) :
    Py.copy_slice_vals vals idx st destMult = .ok (copySliceVals st destMult idx vals) := by
  simp only [Py.copy_slice_vals, copySliceVals, pyStep_eq]
  by_cases hlt : (stride st (vals.drop idx)).length < destMult
  · have hne : (stride st (vals.drop idx)).length ≠ 0 := by omega
    simp only [hlt, decide_true, if_true, pyFloorDiv]
    have hb : ((stride st (vals.drop idx)).length == 0) = false := by simpa using hne
    simp only [hb, Bool.false_eq_true, if_false, ok_bind']
    rw [forIn_yield (fun (_ : Nat) r => r ++ stride st (vals.drop idx)), ok_bind', foldl_range_const (· ++ stride st (vals.drop idx)),
      iter_append_tile]
    rfl
  · simp [hlt]; rfl

/-- … and when it is empty while the destination needs values, Python divides by zero (`ZeroDivisionError`) -/
theorem copy_slice_vals_zero_div (vals : List α) (idx st destMult : Nat)
    (h0 : (stride st (vals.drop idx)).length = 0) (hd : 0 < destMult) :
    Py.copy_slice_vals vals idx st destMult = .error PyErr.zeroDivision := by
  simp only [Py.copy_slice_vals, pyStep_eq, h0, pyFloorDiv]
  simp [hd]
  rfl

/-! ### `_get_changed_class` -/

/-- the model's errors seen from the translated code: `ValueError` -/
def errV {β : Type} : Except Err β → Except PyErr β
  | .ok b => .ok b
  | .error _ => .error PyErr.valueError

theorem foldl_range_tile (v : List α) (k : Nat) (acc : List α) :
    (List.range k).foldl (fun r _ => r ++ v) acc = acc ++ tile k v := by
  rw [foldl_range_const (· ++ v), iter_append_tile]

/-- the values of a key as `_get_changed_class` reads them: an absent key is a constant `None` -/
def valuesOf (null : α) : KeyState α → List α
  | none => [null]
  | some (_, v) => v

theorem flatten_map_const_range (v : List α) (k : Nat) :
    (List.map (fun _ => v) (List.range k)).flatten = tile k v := by
  have : ∀ (l : List Nat), (List.map (fun _ => v) l).flatten = tile l.length v := by
    intro l
    induction l with
    | nil => rfl
    | cons x xs ih => simp [tile, ih]
  simpa using this (List.range k)

theorem getD_indep (l : List Nat) (i : Nat) (h : i < l.length) (x y : Nat) : l[i]?.getD x = l[i]?.getD y := by
  simp [List.getElem?_eq_getElem h]

theorem getD_pos (l : List Nat) (d : Nat) (h : ∀ x ∈ l, 0 < x) : 0 < l[d]?.getD 1 := by
  by_cases hd : d < l.length
  · simp [List.getElem?_eq_getElem hd]; exact h _ (List.getElem_mem hd)
  · simp [List.getElem?_eq_none (by omega : l.length ≤ d)]

/-- **`_get_changed_class` as written in dcmmeta.py is the model's `getChangedK`** for extensions of three to five axes with
    positive sizes, a key that is absent or held under a class valid for the shape with non-zero multiplicity (a per-slice class in
    an extension without slice dimension makes Python divide by zero; `check_valid` rejects such content), any target class and
    any `slice_dim` argument inside the shape: same values, and `ValueError` exactly when the change would lose data -/
theorem get_changed_class_eq [DecidableEq α] (null : α) (e : DExt κ α) (sd : Nat)
    (h3 : 3 ≤ e.shape.length) (h5 : e.shape.length ≤ 5) (hpos : ∀ x ∈ e.shape, 0 < x) (hsd : sd < e.shape.length)
    (ks : KeyState α) (hks : ∀ c v, ks = some (c, v) → c ∈ validClasses e.shp ∧ mult e.shp c ≠ 0) (new : Cls) :
    Py.get_changed_class e.shape (e.sliceDim.map fun d => e.shape.getD d 1) (valuesOf null ks) (ks.map (·.1)) new (some sd) =
      errV (getChangedK null (e.shp (some sd)) ks new) := by
  obtain ⟨shape, sdim, ht, hvv, ents⟩ := e
  match shape, h3, h5 with
  | [a, b, c'], _, _ =>
    have hg := getD_indep [a, b, c'] sd hsd 0 1
    have hS : ∀ i : Nat, ([a, b, c'][i]?.getD 1 = 0) = False := by
      intro i
      have := getD_pos [a, b, c'] i hpos
      simp; omega
    cases ks with
    | none =>
      cases sdim <;> cases new <;>
      simp [Py.get_changed_class, getChangedK, valuesOf, preserving, Py.get_multiplicity, Py.get_valid_classes, Gen.classifications, Cls.base, Cls.sub, mult,
        DExt.shp, validClasses, errV, pyFloorDiv, pyShapeAt, foldl_range_tile, foldl_append_flatMap, flatten_map_const_range, Nat.mul_eq_zero, repeatEach, perSlice, hg, hS, Functor.map, Except.map, List.flatMap] <;> rfl
    | some cv =>
      obtain ⟨c, v⟩ := cv
      have hk := hks c v rfl
      cases sdim <;> cases c <;> simp [validClasses, DExt.shp, mult] at hk <;> cases new <;>
      simp [Py.get_changed_class, getChangedK, valuesOf, preserving, Py.get_multiplicity, Py.get_valid_classes, Gen.classifications, Cls.base, Cls.sub, mult,
        DExt.shp, validClasses, errV, pyFloorDiv, pyShapeAt, foldl_range_tile, foldl_append_flatMap, flatten_map_const_range, Nat.mul_eq_zero, repeatEach, perSlice, hg, hk, hS, Functor.map, Except.map, List.flatMap] <;> rfl
  | [a, b, c', d], _, _ =>
    have hg := getD_indep [a, b, c', d] sd hsd 0 1
    have hd0 : (d = 0) = False := by
      have := hpos d (by simp)
      simp; omega
    have hS : ∀ i : Nat, ([a, b, c', d][i]?.getD 1 = 0) = False := by
      intro i
      have := getD_pos [a, b, c', d] i hpos
      simp; omega
    cases ks with
    | none =>
      cases sdim <;> cases new <;>
      simp [Py.get_changed_class, getChangedK, valuesOf, preserving, Py.get_multiplicity, Py.get_valid_classes, Gen.classifications, Cls.base, Cls.sub, mult,
        DExt.shp, validClasses, errV, pyFloorDiv, pyShapeAt, foldl_range_tile, foldl_append_flatMap, flatten_map_const_range, Nat.mul_eq_zero, repeatEach, perSlice, hg, hS, hd0, Functor.map, Except.map, List.flatMap] <;> rfl
    | some cv =>
      obtain ⟨c, v⟩ := cv
      have hk := hks c v rfl
      cases sdim <;> cases c <;> simp [validClasses, DExt.shp, mult] at hk <;> cases new <;>
      simp [Py.get_changed_class, getChangedK, valuesOf, preserving, Py.get_multiplicity, Py.get_valid_classes, Gen.classifications, Cls.base, Cls.sub, mult,
        DExt.shp, validClasses, errV, pyFloorDiv, pyShapeAt, foldl_range_tile, foldl_append_flatMap, flatten_map_const_range, Nat.mul_eq_zero, repeatEach, perSlice, hg, hk, hS, hd0, Functor.map, Except.map, List.flatMap] <;> rfl
  | [a, b, c', d, f], _, _ =>
    by_cases hd : d = 1
    ·
      subst hd
      have hd : (1 : Nat) = 1 := rfl
      have hg := getD_indep [a, b, c', 1, f] sd hsd 0 1
      have hd0 : ((1:Nat) = 0) = False := by simp
      have hf0 : (f = 0) = False := by
        have := hpos f (by simp)
        simp; omega
      have hS : ∀ i : Nat, ([a, b, c', 1, f][i]?.getD 1 = 0) = False := by
        intro i
        have := getD_pos [a, b, c', 1, f] i hpos
        simp; omega
      cases ks with
      | none =>
        cases sdim <;> cases new <;>
        simp [Py.get_changed_class, getChangedK, valuesOf, preserving, Py.get_multiplicity, Py.get_valid_classes, Gen.classifications, Cls.base, Cls.sub, mult,
          DExt.shp, validClasses, errV, pyFloorDiv, pyShapeAt, foldl_range_tile, foldl_append_flatMap, flatten_map_const_range, Nat.mul_eq_zero, repeatEach, perSlice, hg, hS, hd, hd0, hf0, Functor.map, Except.map, List.flatMap] <;> rfl
      | some cv =>
        obtain ⟨c, v⟩ := cv
        have hk := hks c v rfl
        cases sdim <;> cases c <;> simp [validClasses, DExt.shp, mult, hd] at hk <;> cases new <;>
        simp [Py.get_changed_class, getChangedK, valuesOf, preserving, Py.get_multiplicity, Py.get_valid_classes, Gen.classifications, Cls.base, Cls.sub, mult,
          DExt.shp, validClasses, errV, pyFloorDiv, pyShapeAt, foldl_range_tile, foldl_append_flatMap, flatten_map_const_range, Nat.mul_eq_zero, repeatEach, perSlice, hg, hk, hS, hd, hd0, hf0, Functor.map, Except.map, List.flatMap] <;> rfl
    ·
      have hg := getD_indep [a, b, c', d, f] sd hsd 0 1
      have hd0 : (d = 0) = False := by
        have := hpos d (by simp)
        simp; omega
      have hf0 : (f = 0) = False := by
        have := hpos f (by simp)
        simp; omega
      have hS : ∀ i : Nat, ([a, b, c', d, f][i]?.getD 1 = 0) = False := by
        intro i
        have := getD_pos [a, b, c', d, f] i hpos
        simp; omega
      cases ks with
      | none =>
        cases sdim <;> cases new <;>
        simp [Py.get_changed_class, getChangedK, valuesOf, preserving, Py.get_multiplicity, Py.get_valid_classes, Gen.classifications, Cls.base, Cls.sub, mult,
          DExt.shp, validClasses, errV, pyFloorDiv, pyShapeAt, foldl_range_tile, foldl_append_flatMap, flatten_map_const_range, Nat.mul_eq_zero, repeatEach, perSlice, hg, hS, hd, hd0, hf0, Functor.map, Except.map, List.flatMap] <;> rfl
      | some cv =>
        obtain ⟨c, v⟩ := cv
        have hk := hks c v rfl
        cases sdim <;> cases c <;> simp [validClasses, DExt.shp, mult, hd] at hk <;> cases new <;>
        simp [Py.get_changed_class, getChangedK, valuesOf, preserving, Py.get_multiplicity, Py.get_valid_classes, Gen.classifications, Cls.base, Cls.sub, mult,
          DExt.shp, validClasses, errV, pyFloorDiv, pyShapeAt, foldl_range_tile, foldl_append_flatMap, flatten_map_const_range, Nat.mul_eq_zero, repeatEach, perSlice, hg, hk, hS, hd, hd0, hf0, Functor.map, Except.map, List.flatMap] <;> rfl
  | [], h3, _ | [_], h3, _ | [_, _], h3, _ => simp at h3
  | _ :: _ :: _ :: _ :: _ :: _ :: _, _, h5 => simp at h5

/-- … and without a `slice_dim` argument (as `_change_class` calls it), whenever the extension has a slice dimension of its own
    or the target class is not per slice (otherwise Python reads `shape[None]`: TypeError) -/
theorem get_changed_class_none_eq [DecidableEq α] (null : α) (e : DExt κ α)
    (h3 : 3 ≤ e.shape.length) (h5 : e.shape.length ≤ 5) (hpos : ∀ x ∈ e.shape, 0 < x)
    (ks : KeyState α) (hks : ∀ c v, ks = some (c, v) → c ∈ validClasses e.shp ∧ mult e.shp c ≠ 0) (new : Cls)
    (hn : e.sliceDim.isSome = true ∨ perSlice new = false) :
    Py.get_changed_class e.shape (e.sliceDim.map fun d => e.shape.getD d 1) (valuesOf null ks) (ks.map (·.1)) new none =
      errV (getChangedK null (e.shp none) ks new) := by
  obtain ⟨shape, sdim, ht, hvv, ents⟩ := e
  match shape, h3, h5 with
  | [a, b, c'], _, _ =>
    have hS : ∀ i : Nat, ([a, b, c'][i]?.getD 1 = 0) = False := by
      intro i
      have := getD_pos [a, b, c'] i hpos
      simp; omega
    cases ks with
    | none =>
      cases sdim <;> cases new <;> simp [perSlice] at hn <;>
      simp [Py.get_changed_class, getChangedK, valuesOf, preserving, Py.get_multiplicity, Py.get_valid_classes, Gen.classifications, Cls.base, Cls.sub, mult,
        DExt.shp, validClasses, errV, pyFloorDiv, pyShapeAt, foldl_range_tile, foldl_append_flatMap, flatten_map_const_range, Nat.mul_eq_zero, repeatEach, perSlice, hS, Functor.map, Except.map, List.flatMap] <;> rfl
    | some cv =>
      obtain ⟨c, v⟩ := cv
      have hk := hks c v rfl
      cases sdim <;> cases c <;> simp [validClasses, DExt.shp, mult] at hk <;> cases new <;> simp [perSlice] at hn <;>
      simp [Py.get_changed_class, getChangedK, valuesOf, preserving, Py.get_multiplicity, Py.get_valid_classes, Gen.classifications, Cls.base, Cls.sub, mult,
        DExt.shp, validClasses, errV, pyFloorDiv, pyShapeAt, foldl_range_tile, foldl_append_flatMap, flatten_map_const_range, Nat.mul_eq_zero, repeatEach, perSlice, hk, hS, Functor.map, Except.map, List.flatMap] <;> rfl
  | [a, b, c', d], _, _ =>
    have hd0 : (d = 0) = False := by
      have := hpos d (by simp)
      simp; omega
    have hS : ∀ i : Nat, ([a, b, c', d][i]?.getD 1 = 0) = False := by
      intro i
      have := getD_pos [a, b, c', d] i hpos
      simp; omega
    cases ks with
    | none =>
      cases sdim <;> cases new <;> simp [perSlice] at hn <;>
      simp [Py.get_changed_class, getChangedK, valuesOf, preserving, Py.get_multiplicity, Py.get_valid_classes, Gen.classifications, Cls.base, Cls.sub, mult,
        DExt.shp, validClasses, errV, pyFloorDiv, pyShapeAt, foldl_range_tile, foldl_append_flatMap, flatten_map_const_range, Nat.mul_eq_zero, repeatEach, perSlice, hS, hd0, Functor.map, Except.map, List.flatMap] <;> rfl
    | some cv =>
      obtain ⟨c, v⟩ := cv
      have hk := hks c v rfl
      cases sdim <;> cases c <;> simp [validClasses, DExt.shp, mult] at hk <;> cases new <;> simp [perSlice] at hn <;>
      simp [Py.get_changed_class, getChangedK, valuesOf, preserving, Py.get_multiplicity, Py.get_valid_classes, Gen.classifications, Cls.base, Cls.sub, mult,
        DExt.shp, validClasses, errV, pyFloorDiv, pyShapeAt, foldl_range_tile, foldl_append_flatMap, flatten_map_const_range, Nat.mul_eq_zero, repeatEach, perSlice, hk, hS, hd0, Functor.map, Except.map, List.flatMap] <;> rfl
  | [a, b, c', d, f], _, _ =>
    by_cases hd : d = 1
    ·
      subst hd
      have hd : (1 : Nat) = 1 := rfl
      have hd0 : ((1:Nat) = 0) = False := by simp
      have hf0 : (f = 0) = False := by
        have := hpos f (by simp)
        simp; omega
      have hS : ∀ i : Nat, ([a, b, c', 1, f][i]?.getD 1 = 0) = False := by
        intro i
        have := getD_pos [a, b, c', 1, f] i hpos
        simp; omega
      cases ks with
      | none =>
        cases sdim <;> cases new <;> simp [perSlice] at hn <;>
        simp [Py.get_changed_class, getChangedK, valuesOf, preserving, Py.get_multiplicity, Py.get_valid_classes, Gen.classifications, Cls.base, Cls.sub, mult,
          DExt.shp, validClasses, errV, pyFloorDiv, pyShapeAt, foldl_range_tile, foldl_append_flatMap, flatten_map_const_range, Nat.mul_eq_zero, repeatEach, perSlice, hS, hd, hd0, hf0, Functor.map, Except.map, List.flatMap] <;> rfl
      | some cv =>
        obtain ⟨c, v⟩ := cv
        have hk := hks c v rfl
        cases sdim <;> cases c <;> simp [validClasses, DExt.shp, mult, hd] at hk <;> cases new <;> simp [perSlice] at hn <;>
        simp [Py.get_changed_class, getChangedK, valuesOf, preserving, Py.get_multiplicity, Py.get_valid_classes, Gen.classifications, Cls.base, Cls.sub, mult,
          DExt.shp, validClasses, errV, pyFloorDiv, pyShapeAt, foldl_range_tile, foldl_append_flatMap, flatten_map_const_range, Nat.mul_eq_zero, repeatEach, perSlice, hk, hS, hd, hd0, hf0, Functor.map, Except.map, List.flatMap] <;> rfl
    ·
      have hd0 : (d = 0) = False := by
        have := hpos d (by simp)
        simp; omega
      have hf0 : (f = 0) = False := by
        have := hpos f (by simp)
        simp; omega
      have hS : ∀ i : Nat, ([a, b, c', d, f][i]?.getD 1 = 0) = False := by
        intro i
        have := getD_pos [a, b, c', d, f] i hpos
        simp; omega
      cases ks with
      | none =>
        cases sdim <;> cases new <;> simp [perSlice] at hn <;>
        simp [Py.get_changed_class, getChangedK, valuesOf, preserving, Py.get_multiplicity, Py.get_valid_classes, Gen.classifications, Cls.base, Cls.sub, mult,
          DExt.shp, validClasses, errV, pyFloorDiv, pyShapeAt, foldl_range_tile, foldl_append_flatMap, flatten_map_const_range, Nat.mul_eq_zero, repeatEach, perSlice, hS, hd, hd0, hf0, Functor.map, Except.map, List.flatMap] <;> rfl
      | some cv =>
        obtain ⟨c, v⟩ := cv
        have hk := hks c v rfl
        cases sdim <;> cases c <;> simp [validClasses, DExt.shp, mult, hd] at hk <;> cases new <;> simp [perSlice] at hn <;>
        simp [Py.get_changed_class, getChangedK, valuesOf, preserving, Py.get_multiplicity, Py.get_valid_classes, Gen.classifications, Cls.base, Cls.sub, mult,
          DExt.shp, validClasses, errV, pyFloorDiv, pyShapeAt, foldl_range_tile, foldl_append_flatMap, flatten_map_const_range, Nat.mul_eq_zero, repeatEach, perSlice, hk, hS, hd, hd0, hf0, Functor.map, Except.map, List.flatMap] <;> rfl
  | [], h3, _ | [_], h3, _ | [_, _], h3, _ => simp at h3
  | _ :: _ :: _ :: _ :: _ :: _ :: _, _, h5 => simp at h5

/-! ### the hypotheses are satisfiable, the translated code computes (tests, not theorems) -/

example : Py.insert_slice_interleave [2, 2, 2, 2] 2 1 [1, 2, 3, 4] [9, 8] = .ok [1, 2, 9, 3, 4, 8] := by rfl
example : Py.insert_sample_interleave [2, 2, 1, 2, 2] 1 1 [1, 2, 3, 4] [9, 8] = .ok [1, 2, 9, 3, 4, 8] := by rfl
example : Py.global_slice_subset [1, 1, 2, 2, 2] 2 [0, 1, 2, 3, 4, 5, 6, 7] "time" 1 = .ok [2, 3, 6, 7] := by rfl
example : Py.copy_slice_vals [0, 1, 2, 3] 1 2 4 = .ok [1, 3, 1, 3] := by rfl
example : Py.copy_slice_vals ([] : List Nat) 0 2 4 = .error PyErr.zeroDivision := by rfl
example : Py.copy_slice_dest [gconst, gslices, vsamples, vslices] gslices = .ok vsamples := by rfl
example : Py.get_changed_class [2, 2, 3, 2] (some 3) [7, 8] (some tsamples) gslices (some 2) = .ok [7, 7, 7, 8, 8, 8] := by rfl
example : Py.get_changed_class [2, 2, 3, 2] (some 3) [7, 8, 9] (some tslices) gslices (some 2) = .ok [7, 8, 9, 7, 8, 9] := by rfl
example : Py.get_changed_class [2, 2, 3, 2] none [5] none tslices (some 2) = .ok [5, 5, 5] := by rfl
example : Py.get_changed_class [2, 2, 3, 2] (some 3) [7, 8] (some tsamples) tslices (some 2) = .error PyErr.valueError := by rfl

end Src
