import DcmVerif.Model.Extract
/-! C15: which elements extraction turns into entries. -/
set_option autoImplicit false

namespace Ex

def tagOf (e : Elem) : Nat × Nat := (e.group, e.elem)

/-- what makes an element a standard (non-translated) entry -/
def Contributes (rules : List String) (tm : List ((Nat × Nat) × String)) (e : Elem) : Prop :=
  e.blankStr = false ∧ tm.find? (fun p => p.1 == (e.group, e.elem)) = none ∧
  ignored rules e = false ∧ (if e.isSeq then e.seqEmpty = false else e.valueNone = false)

theorem transStep_standard (st : State) (tname : String) (keys : Option (List String)) :
    (transStep st tname keys).standard = st.standard := by
  unfold transStep
  cases keys with
  | none => rfl
  | some ks => by_cases h : ks.isEmpty = true <;> simp [h]

theorem plainStep_standard (rules : List String) (st : State) (e : Elem) :
    (plainStep rules st e).standard = st.standard ∨
      ((plainStep rules st e).standard = st.standard ++ [(elemKey e, e.group, e.elem)] ∧
        ignored rules e = false ∧
        (if e.isSeq then e.seqEmpty = false else e.valueNone = false)) := by
  unfold plainStep
  by_cases hi : ignored rules e = true
  · simp [hi]
  · have hi' : ignored rules e = false := by simpa using hi
    by_cases hs : e.isSeq = true
    · by_cases hse : e.seqEmpty = true
      · simp [hi', hs, hse]
      · have : e.seqEmpty = false := by simpa using hse
        simp [hi', hs, this]
    · have hs' : e.isSeq = false := by simpa using hs
      by_cases hv : e.valueNone = true
      · simp [hi', hs', hv]
      · have : e.valueNone = false := by simpa using hv
        simp [hi', hs', this]

/-- one step appends at most one entry, and only for a non-blank, non-ignored element that has a
    value, under its key and tag -/
theorem stepElem_standard (rules : List String) (ts : List Translator) (st st' : State) (e : Elem)
    (h : stepElem rules ts st e = some st') :
    st'.standard = st.standard ∨
      (st'.standard = st.standard ++ [(elemKey e, e.group, e.elem)] ∧
        e.blankStr = false ∧ ignored rules e = false ∧
        (if e.isSeq then e.seqEmpty = false else e.valueNone = false)) := by
  unfold stepElem at h
  by_cases hb : e.blankStr = true
  · simp only [hb, if_true] at h
    injection h with h; subst h; exact Or.inl rfl
  · have hb' : e.blankStr = false := by simpa using hb
    simp only [hb', Bool.false_eq_true, if_false] at h
    cases hreg : regFor ts st e with
    | none => rw [hreg] at h; cases h
    | some tm =>
      rw [hreg] at h
      simp only [Option.map_some] at h
      injection h with h
      cases hl : lookupTrans tm e with
      | some tname =>
        rw [hl] at h
        simp only at h
        subst h
        exact Or.inl (transStep_standard _ _ _)
      | none =>
        rw [hl] at h
        simp only at h
        subst h
        rcases plainStep_standard rules { st with transMap := tm } e with h1 | ⟨h1, h2, h3⟩
        · exact Or.inl h1
        · exact Or.inr ⟨h1, hb', h2, h3⟩

/-- entries of the result, as (key, group, elem), all come from elements of the dataset that are
    neither blank nor ignored nor valueless, each element at most once, in dataset order -/
theorem run_standard (rules : List String) (ts : List Translator) (ds : List Elem) :
    ∀ (st st' : State), runElems rules ts st ds = some st' →
      ∃ picked : List Elem, picked.Sublist ds ∧
        st'.standard = st.standard ++ picked.map (fun e => (elemKey e, e.group, e.elem)) ∧
        ∀ e ∈ picked, e.blankStr = false ∧ ignored rules e = false ∧
          (if e.isSeq then e.seqEmpty = false else e.valueNone = false) := by
  induction ds with
  | nil =>
    intro st st' h
    simp only [runElems] at h
    injection h with h; subst h
    exact ⟨[], List.Sublist.refl _, by simp, by simp⟩
  | cons e es ih =>
    intro st st' h
    simp only [runElems] at h
    cases hs : stepElem rules ts st e with
    | none => rw [hs] at h; cases h
    | some st1 =>
      rw [hs] at h
      obtain ⟨picked, hsub, hstd, hp⟩ := ih st1 st' h
      rcases stepElem_standard rules ts st st1 e hs with h1 | ⟨h1, hb, hi, hv⟩
      · exact ⟨picked, List.Sublist.cons _ hsub, by rw [hstd, h1], hp⟩
      · refine ⟨e :: picked, List.Sublist.cons₂ _ hsub, ?_, ?_⟩
        · rw [hstd, h1]; simp
        · intro x hx
          rcases List.mem_cons.mp hx with rfl | hx
          · exact ⟨hb, hi, hv⟩
          · exact hp x hx

/-- **never pixel, overlay or colour-table data; private elements only through a translator**
    (default ignore rules, any translators, any dataset): no standard entry has an odd group, the
    pixel-data tag, an overlay-data tag or a colour LUT tag -/
theorem never_pixel_never_private (ts : List Translator) (ds : List Elem) (st : State)
    (h : runElems Gen.defaultIgnoreRules ts ⟨[], [], []⟩ ds = some st) :
    ∀ x ∈ st.standard,
      x.2.1 % 2 = 0 ∧ ¬ (x.2.1 = 0x7fe0 ∧ x.2.2 ∈ [0x10, 0x8, 0x9]) ∧
      ¬ (x.2.1 / 256 = 0x60 ∧ x.2.2 = 0x3000) ∧
      ¬ (x.2.1 = 0x28 ∧ x.2.2 ∈ [0x1201, 0x1202, 0x1203, 0x1221, 0x1222, 0x1223]) := by
  obtain ⟨picked, _, hstd, hp⟩ := run_standard Gen.defaultIgnoreRules ts ds _ _ h
  intro x hx
  rw [hstd] at hx
  simp only [List.nil_append, List.mem_map] at hx
  obtain ⟨e, he, rfl⟩ := hx
  have hi := (hp e he).2.1
  simp only [ignored, Gen.defaultIgnoreRules, List.any_cons, List.any_nil, Bool.or_false,
    Bool.or_eq_false_iff, ruleByName, ignorePrivate, ignorePixel, ignoreOverlay, ignoreLut,
    Gen.colorLutElems, Gen.pixelDataElems] at hi
  obtain ⟨h1, h2, h3, h4⟩ := hi
  show e.group % 2 = 0 ∧ ¬ (e.group = 0x7fe0 ∧ e.elem ∈ [0x10, 0x8, 0x9]) ∧
      ¬ (e.group / 256 = 0x60 ∧ e.elem = 0x3000) ∧
      ¬ (e.group = 0x28 ∧ e.elem ∈ [0x1201, 0x1202, 0x1203, 0x1221, 0x1222, 0x1223])
  refine ⟨?_, ?_, ?_, ?_⟩
  · simp only [beq_eq_false_iff_ne, ne_eq] at h1
    omega
  · intro ⟨a, b⟩
    simp only [a, beq_self_eq_true, Bool.true_and] at h2
    simp only [List.mem_cons, List.mem_nil_iff, or_false] at b
    rcases b with b | b | b <;> simp [b] at h2
  · intro ⟨a, b⟩; simp [a, b] at h3
  · intro ⟨a, b⟩
    simp only [a, beq_self_eq_true, Bool.true_and] at h4
    simp only [List.mem_cons, List.mem_nil_iff, or_false] at b
    rcases b with b | b | b | b | b | b <;> simp [b] at h4

/-- each dataset element yields at most one standard entry (entries are a sub-sequence of the
    dataset, so distinct tags stay distinct and dataset order is kept) -/
theorem extract_once (rules : List String) (ts : List Translator) (ds : List Elem) (st : State)
    (h : runElems rules ts ⟨[], [], []⟩ ds = some st) :
    (st.standard.map fun x => (x.2.1, x.2.2)).Sublist (ds.map tagOf) := by
  obtain ⟨picked, hsub, hstd, _⟩ := run_standard rules ts ds _ _ h
  rw [hstd]
  simp only [List.nil_append, List.map_map]
  exact List.Sublist.map tagOf hsub

/-- key naming on concrete elements (kernel-evaluated): keyword, camel-cased private name with
    brackets stripped, tag suffix format -/
theorem key_examples :
    elemKey ⟨0x18, 0x81, "EchoTime", "Echo Time", false, false, false, false, none, none, false⟩ = "EchoTime" ∧
    elemKey ⟨0x19, 0x100a, "", "[Number Of Images In Mosaic]", false, false, false, false, none, none, false⟩ =
      "NumberOfImagesInMosaic" ∧
    elemKey ⟨0x19, 0x100b, "", "slice measurement  duration", false, false, false, false, none, none, false⟩ =
      "SliceMeasurementDuration" ∧
    elemKey ⟨0x19, 0x100c, "", "Private tag data", false, false, false, false, none, none, false⟩ = "PrivateTagData" ∧
    tagToStr 0x10 0x20 = "0X10_0X20" ∧ tagToStr 0x7fe0 0x10 = "0X7FE0_0X10" := by decide +kernel

end Ex
