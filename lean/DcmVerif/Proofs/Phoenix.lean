import DcmVerif.Model.Phoenix
/-! Proofs about the ASCCONV line parser model (C16). -/
set_option autoImplicit false

namespace Phx

theorem findSub_single_none (c : Char) (l : Str) (h : c ∉ l) : findSub [c] l = none := by
  induction l with
  | nil => simp [findSub]
  | cons x xs ih =>
    have hx : x ≠ c := fun e => h (by simp [e])
    have hxs : c ∉ xs := fun e => h (by simp [e])
    have : ¬ ([c].isPrefixOf (x :: xs) = true) := by
      simp [List.isPrefixOf, hx.symm]
    simp [findSub, this, ih hxs]

theorem findSub_single_append (c : Char) (pre post : Str) (h : c ∉ pre) :
    findSub [c] (pre ++ c :: post) = some pre.length := by
  induction pre with
  | nil => simp [findSub, List.isPrefixOf]
  | cons x xs ih =>
    have hx : x ≠ c := fun e => h (by simp [e])
    have hxs : c ∉ xs := fun e => h (by simp [e])
    have : ¬ ([c].isPrefixOf (x :: (xs ++ c :: post)) = true) := by
      simp [List.isPrefixOf, hx.symm]
    simp [findSub, this, ih hxs]

theorem dropWhile_all {l : Str} (h : ∀ c ∈ l, isWs c = true) : l.dropWhile isWs = [] := by
  induction l with
  | nil => rfl
  | cons x xs ih =>
    have hx : isWs x = true := h x (by simp)
    simp [List.dropWhile, hx, ih (fun c hc => h c (by simp [hc]))]

theorem strip_all_ws {l : Str} (h : ∀ c ∈ l, isWs c = true) : strip l = [] := by
  unfold strip lstrip rstrip
  rw [dropWhile_all h]; rfl

theorem dropWhile_ws_append (ws rest : Str) (hws : ∀ c ∈ ws, isWs c = true) :
    (ws ++ rest).dropWhile isWs = rest.dropWhile isWs := by
  induction ws with
  | nil => rfl
  | cons x xs ih =>
    have hx : isWs x = true := hws x (by simp)
    simp [List.dropWhile, hx]
    exact ih (fun c hc => hws c (by simp [hc]))

/-- `(ws1 + key + ws2).strip() == key` when `key` neither starts nor ends with whitespace -/
theorem strip_sandwich (ws1 key ws2 : Str)
    (h1 : ∀ c ∈ ws1, isWs c = true) (h2 : ∀ c ∈ ws2, isWs c = true)
    (hh : ∀ x xs, key = x :: xs → isWs x = false)
    (hl : ∀ x xs, key.reverse = x :: xs → isWs x = false) :
    strip (ws1 ++ key ++ ws2) = key := by
  unfold strip lstrip rstrip
  rw [List.append_assoc, dropWhile_ws_append ws1 _ h1]
  cases key with
  | nil =>
    simp
    have : (ws2.dropWhile isWs) = [] := dropWhile_all h2
    rw [this]; rfl
  | cons x xs =>
    have hx := hh x xs rfl
    simp only [List.cons_append, List.dropWhile, hx]
    rw [show (x :: (xs ++ ws2)).reverse = ws2.reverse ++ (x :: xs).reverse by simp]
    rw [dropWhile_ws_append ws2.reverse _ (fun c hc => h2 c (by simpa using hc))]
    cases hr : (x :: xs).reverse with
    | nil => simp at hr
    | cons y ys =>
      have hy := hl y ys hr
      simp only [List.dropWhile, hy]
      rw [← hr]; simp

theorem ws_no_hash {l : Str} (h : ∀ c ∈ l, isWs c = true) : '#' ∉ l := by
  intro hm
  have := h '#' hm
  simp [isWs] at this

/-- **blank lines are ignored** (any whitespace, either dialect) -/
theorem parse_blank (delim line : Str) (h : ∀ c ∈ line, isWs c = true) :
    parseLine delim line = .none := by
  unfold parseLine stripComment
  rw [findSub_single_none '#' line (ws_no_hash h)]
  simp [strip_all_ws h]

theorem countGo_zero_of_short (sub : Str) (fuel : Nat) (l : Str) (h : l.length < sub.length) :
    countGo sub fuel l = 0 := by
  induction fuel generalizing l with
  | zero => simp [countGo]
  | succ n ih =>
    cases l with
    | nil => simp [countGo]
    | cons c cs =>
      have hp : ¬ (sub.isPrefixOf (c :: cs) = true) := by
        intro hp
        have := List.IsPrefix.length_le (List.isPrefixOf_iff_prefix.mp hp)
        omega
      simp only [countGo, hp, if_false]
      exact ih cs (by simp at h; omega)

/-- **comment-only lines are ignored**: optional whitespace, `#`, anything (for a delimiter of
    at least one character) -/
theorem parse_comment_only (delim ws rest : Str) (hd : delim ≠ []) (h : ∀ c ∈ ws, isWs c = true)
    (hq : countSub delim ws ≠ 1) :
    parseLine delim (ws ++ '#' :: rest) = .none := by
  unfold parseLine stripComment
  rw [findSub_single_append '#' ws rest (ws_no_hash h)]
  simp only [List.take_left', hq, if_false]
  simp [strip_all_ws h]

/-- **a line without `=` (and without comment) that is not blank raises the parse error** -/
theorem parse_no_equals (delim line : Str) (hh : '#' ∉ line) (he : '=' ∉ line)
    (hne : strip line ≠ []) : parseLine delim line = .parseError := by
  unfold parseLine stripComment
  rw [findSub_single_none '#' line hh]
  simp [hne, findSub_single_none '=' line he]

/-- F8 (recorded finding): a float lexeme made only of hex digits and `e` is read as hex -/
theorem f8_hex_before_float :
    parseLine ['"', '"'] "a = 1e5".toList = .pair ['a'] (.int 485) := by decide

/-- F7 repaired: both dialects return the whole string -/
theorem string_both_dialects :
    parseLine ['"'] "b = \"str\"".toList = .pair ['b'] (.str "str".toList) ∧
    parseLine ['"', '"'] "b = \"\"str\"\"".toList = .pair ['b'] (.str "str".toList) := by decide

/-- `#` and `=` inside the quotes, trailing comment, both dialects (kernel-evaluated instances) -/
theorem string_with_hash_and_comment :
    parseLine ['"', '"'] "k = \"\"x#y=z\"\" # c".toList = .pair ['k'] (.str "x#y=z".toList) ∧
    parseLine ['"'] "k = \"x#y=z\" # c".toList = .pair ['k'] (.str "x#y=z".toList) ∧
    parseLine ['"', '"'] "k = 0x1F # c".toList = .pair ['k'] (.int 31) ∧
    parseLine ['"'] " k\t=  -12 ".toList = .pair ['k'] (.int (-12)) ∧
    parseLine ['"', '"'] "k = -1.5e-3".toList = .pair ['k'] (.floatLex "-1.5e-3".toList) := by decide

/-- malformed variants raise (kernel-evaluated instances): unterminated quote, trailing junk -/
theorem malformed_instances :
    parseLine ['"', '"'] "a = \"\"abc".toList = .parseError ∧
    parseLine ['"'] "a = \"abc".toList = .parseError ∧
    parseLine ['"', '"'] "a = \"\"abc\"\" junk".toList = .parseError ∧
    parseLine ['"'] "a = 12 junk".toList = .parseError ∧
    parseLine ['"'] "a = ".toList = .parseError := by decide

theorem prot_unknown_key (key text : Str) (h1 : key ≠ "MrPhoenixProtocol".toList)
    (h2 : key ≠ "MrProtocol".toList) : parseProt key text = .valueError := by
  unfold parseProt
  simp only [if_neg h1, if_neg h2]

def lookup (d : List (Str × PVal)) (k : Str) : Option PVal :=
  (d.find? (fun p => p.1 == k)).map (·.2)

/-- later duplicates overwrite … -/
theorem setKey_overwrites (d : List (Str × PVal)) (k : Str) (v : PVal) :
    lookup (setKey d k v) k = some v := by
  induction d with
  | nil => simp [setKey, lookup]
  | cons p rest ih =>
    obtain ⟨k', v'⟩ := p
    by_cases e : k' = k
    · simp [setKey, e, lookup]
    · simp only [setKey, e, if_false]
      unfold lookup at ih ⊢
      simp [List.find?_cons, e, ih]

/-- … and leave every other key alone -/
theorem setKey_other (d : List (Str × PVal)) (k k2 : Str) (v : PVal) (h : k2 ≠ k) :
    lookup (setKey d k v) k2 = lookup d k2 := by
  induction d with
  | nil => simp [setKey, lookup, h.symm]
  | cons p rest ih =>
    obtain ⟨k', v'⟩ := p
    by_cases e : k' = k
    · subst e
      simp [setKey, lookup, List.find?_cons, h.symm]
    · simp only [setKey, e, if_false]
      unfold lookup at ih ⊢
      by_cases e2 : k' = k2
      · simp [List.find?_cons, e2]
      · simp [List.find?_cons, e2, ih]

/-- the protocol loop stops at the first malformed line -/
theorem protLoop_error (delim : Str) (pre : List Str) (bad : Str) (post : List Str)
    (acc : List (Str × PVal)) (hbad : parseLine delim bad = .parseError)
    (hpre : ∀ l ∈ pre, parseLine delim l ≠ .parseError) :
    protLoop delim (pre ++ bad :: post) acc = .parseError := by
  induction pre generalizing acc with
  | nil => simp [protLoop, hbad]
  | cons l ls ih =>
    have hl := hpre l (by simp)
    simp only [List.cons_append, protLoop]
    cases hp : parseLine delim l with
    | parseError => exact absurd hp hl
    | none => exact ih _ (fun x hx => hpre x (by simp [hx]))
    | pair k v => exact ih _ (fun x hx => hpre x (by simp [hx]))

end Phx
